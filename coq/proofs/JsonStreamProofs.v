(* C15 — proofs about model/JsonStream.v *)
From Coq Require Import List NArith ZArith Bool Ascii String Lia DecimalString DecimalZ DecimalPos.
From Qryn Require Import model.JsonStream.
Import ListNotations.
Open Scope string_scope.
Open Scope list_scope.

(* ------------------------------------------------------------------------------------------ *)
(* induction over documents *)

Section JsonInd.
  Variable P : json -> Prop.
  Hypothesis Hnull : P JNull.
  Hypothesis Hbool : forall b, P (JBool b).
  Hypothesis Hnum : forall s, P (JNum s).
  Hypothesis Hstr : forall s, P (JStr s).
  Hypothesis Harr : forall l, Forall P l -> P (JArr l).
  Hypothesis Hobj : forall l, Forall (fun kv => P (snd kv)) l -> P (JObj l).
  Fixpoint json_ind2 (d : json) : P d :=
    match d with
    | JNull => Hnull
    | JBool b => Hbool b
    | JNum s => Hnum s
    | JStr s => Hstr s
    | JArr l => Harr l ((fix go (l : list json) : Forall P l :=
                           match l with
                           | [] => Forall_nil _
                           | x :: r => Forall_cons x (json_ind2 x) (go r)
                           end) l)
    | JObj l => Hobj l ((fix go (l : list (string * json)) : Forall (fun kv => P (snd kv)) l :=
                           match l with
                           | [] => Forall_nil _
                           | x :: r => Forall_cons x (json_ind2 (snd x)) (go r)
                           end) l)
    end.
End JsonInd.

(* ------------------------------------------------------------------------------------------ *)
(* parse (tokens_of d) = d *)

Fixpoint size (d : json) : nat :=
  match d with
  | JArr l => S (fold_right (fun v a => S (size v + a)) O l)
  | JObj l => S (fold_right (fun kv a => S (size (snd kv) + a)) O l)
  | _ => 1
  end.
Definition sizes (l : list json) : nat := fold_right (fun v a => S (size v + a)) O l.
Definition msizes (l : list (string * json)) : nat := fold_right (fun kv a => S (size (snd kv) + a)) O l.

Definition is_val_start (t : token) : bool :=
  match t with TStr _ | TRaw _ | TTrue | TFalse | TNull | TArrS | TObjS => true | _ => false end.

Lemma tokens_of_head : forall d, exists t r, tokens_of d = t :: r /\ is_val_start t = true.
Proof.
  intros d. destruct d as [|b|s|s|l|l]; cbn [tokens_of]; try (eexists; eexists; split; [reflexivity|reflexivity]).
  destruct b; eexists; eexists; split; reflexivity.
Qed.

Definition member_toks (kv : string * json) : list token := TStr (fst kv) :: TColon :: tokens_of (snd kv).

Lemma tokens_of_arr : forall l, tokens_of (JArr l) = TArrS :: join (map tokens_of l) ++ [TArrE].
Proof. reflexivity. Qed.
Lemma tokens_of_obj : forall l, tokens_of (JObj l) = TObjS :: join (map member_toks l) ++ [TObjE].
Proof. reflexivity. Qed.

Lemma join_cons : forall x r, join (x :: r) = x ++ match r with [] => [] | _ => TComma :: join r end.
Proof. reflexivity. Qed.

Definition PV (d : json) : Prop :=
  forall n rest, size d <= n -> parse_val n (tokens_of d ++ rest) = Some (d, rest).

Lemma join_one : forall x, join [x] = x.
Proof. intros x. cbn [join]. apply app_nil_r. Qed.
Lemma join_cons2 : forall x y r, join (x :: y :: r) = x ++ TComma :: join (y :: r).
Proof. reflexivity. Qed.

Lemma parse_elems_ok : forall l, l <> [] -> Forall PV l ->
  forall n rest, sizes l <= n -> parse_elems n (join (map tokens_of l) ++ TArrE :: rest) = Some (l, rest).
Proof.
  induction l as [|v r IH]; intros Hne HF n rest Hn; [congruence|].
  inversion HF as [|v' r' Hv Hr]; subst.
  cbn [sizes fold_right] in Hn. fold (sizes r) in Hn.
  destruct n as [|n]; [lia|].
  destruct r as [|v2 r2].
  - cbn [map]. rewrite join_one. cbn [parse_elems]. rewrite (Hv n _ ltac:(lia)). reflexivity.
  - specialize (IH ltac:(discriminate) Hr n rest ltac:(lia)).
    cbn [map] in *. rewrite join_cons2. rewrite <- app_assoc. cbn [app].
    cbn [parse_elems]. rewrite (Hv n _ ltac:(lia)). rewrite IH. reflexivity.
Qed.

Lemma parse_members_ok : forall l, l <> [] -> Forall (fun kv => PV (snd kv)) l ->
  forall n rest, msizes l <= n -> parse_members n (join (map member_toks l) ++ TObjE :: rest) = Some (l, rest).
Proof.
  induction l as [|[k v] r IH]; intros Hne HF n rest Hn; [congruence|].
  inversion HF as [|v' r' Hv Hr]; subst. cbn [snd] in Hv.
  cbn [msizes fold_right snd] in Hn. fold (msizes r) in Hn.
  destruct n as [|n]; [lia|].
  destruct r as [|kv2 r2].
  - cbn [map]. rewrite join_one. unfold member_toks. cbn [fst snd app parse_members].
    rewrite (Hv n _ ltac:(lia)). reflexivity.
  - specialize (IH ltac:(discriminate) Hr n rest ltac:(lia)).
    cbn [map] in *. rewrite join_cons2. unfold member_toks at 1. cbn [fst snd].
    rewrite <- app_assoc. cbn [app parse_members].
    rewrite (Hv n _ ltac:(lia)). rewrite IH. reflexivity.
Qed.

Lemma join_head : forall (x : list token) r t tr, x = t :: tr ->
  exists tr', join (x :: r) = t :: tr'.
Proof. intros x r t tr ->. destruct r; cbn [join app]; eexists; reflexivity. Qed.

Lemma parse_val_tokens_of : forall d, PV d.
Proof.
  induction d as [|b|s|s|l HF|l HF] using json_ind2; unfold PV; intros n rest Hn.
  - destruct n; [cbn in Hn; lia|]. reflexivity.
  - destruct n; [cbn in Hn; lia|]. destruct b; reflexivity.
  - destruct n; [cbn in Hn; lia|]. reflexivity.
  - destruct n; [cbn in Hn; lia|]. reflexivity.
  - destruct n as [|n]; [cbn in Hn; lia|].
    rewrite tokens_of_arr. destruct l as [|v r].
    + reflexivity.
    + cbn [size] in Hn. fold (sizes (v :: r)) in Hn.
      cbn [app]. rewrite <- app_assoc. cbn [app].
      assert (Hp := parse_elems_ok (v :: r) ltac:(discriminate) HF n rest ltac:(lia)).
      destruct (tokens_of_head v) as [t [tr [Ht Hs]]].
      cbn [map] in *.
      destruct (join_head (tokens_of v) (map tokens_of r) t tr Ht) as [tr' Hj].
      rewrite Hj in *. cbn [app] in *.
      cbn [parse_val]. destruct t; try discriminate Hs; rewrite Hp; reflexivity.
  - destruct n as [|n]; [cbn in Hn; lia|].
    rewrite tokens_of_obj. destruct l as [|kv r].
    + reflexivity.
    + cbn [size] in Hn. fold (msizes (kv :: r)) in Hn.
      cbn [app]. rewrite <- app_assoc. cbn [app].
      assert (Hp := parse_members_ok (kv :: r) ltac:(discriminate) HF n rest ltac:(lia)).
      cbn [map] in *.
      destruct (join_head (member_toks kv) (map member_toks r) (TStr (fst kv)) _ eq_refl) as [tr' Hj].
      rewrite Hj in *. cbn [app] in *.
      cbn [parse_val]. rewrite Hp. reflexivity.
Qed.

(* fuel given by [parse] suffices; canonical serialisations carry no white space *)
Lemma length_join : forall (xs : list (list token)),
  List.length (join xs) = fold_right (fun x a => List.length x + a) O xs + Nat.pred (List.length xs).
Proof.
  induction xs as [|x r IH]; [reflexivity|].
  destruct r as [|y r'].
  - rewrite join_one. cbn. lia.
  - rewrite join_cons2, app_length. cbn [List.length fold_right Nat.pred] in *. rewrite IH. lia.
Qed.

Lemma sizes_le : forall l, Forall (fun d => size d <= List.length (tokens_of d)) l ->
  sizes l <= fold_right (fun x a => List.length x + a) O (map tokens_of l) + List.length l.
Proof.
  induction 1 as [|v r Hv Hr IH]; [cbn; lia|]. cbn [sizes fold_right map List.length] in *.
  fold (sizes r). lia.
Qed.
Lemma msizes_le : forall l, Forall (fun kv => size (snd kv) <= List.length (tokens_of (snd kv))) l ->
  msizes l <= fold_right (fun x a => List.length x + a) O (map member_toks l) + List.length l.
Proof.
  induction 1 as [|v r Hv Hr IH]; [cbn; lia|]. cbn [msizes fold_right map List.length] in *.
  fold (msizes r). unfold member_toks at 1. cbn [List.length]. lia.
Qed.

Lemma size_le_length : forall d, size d <= List.length (tokens_of d).
Proof.
  induction d as [|b|s|s|l HF|l HF] using json_ind2; try (cbn; lia).
  - destruct b; cbn; lia.
  - rewrite tokens_of_arr. cbn [size List.length]. fold (sizes l).
    rewrite app_length, length_join. cbn [List.length]. rewrite map_length.
    pose proof (sizes_le l HF) as H. destruct l as [|v r]; [cbn; lia|]. cbn [List.length Nat.pred] in *. lia.
  - rewrite tokens_of_obj. cbn [size List.length]. fold (msizes l).
    rewrite app_length, length_join. cbn [List.length]. rewrite map_length.
    pose proof (msizes_le l HF) as H. destruct l as [|v r]; [cbn; lia|]. cbn [List.length Nat.pred] in *. lia.
Qed.

Definition is_strj (t : token) : bool := match t with TStrJ _ => true | _ => false end.
Definition plain_tok (t : token) : bool := negb (is_ws_tok t) && negb (is_strj t).
Definition no_ws (ts : list token) : bool := forallb plain_tok ts.
Lemma prep_id : forall ts, no_ws ts = true -> prep ts = ts.
Proof.
  induction ts as [|t r IH]; [reflexivity|]. cbn [no_ws forallb]. intros H.
  apply andb_prop in H. destruct H as [Ht Hr]. unfold prep, strip in *. cbn [filter].
  unfold plain_tok in Ht. apply andb_prop in Ht. destruct Ht as [Hw Hj]. rewrite Hw. cbn [map].
  rewrite (IH Hr). destruct t; try reflexivity. discriminate Hj.
Qed.
Lemma no_ws_app : forall a b, no_ws (a ++ b) = no_ws a && no_ws b.
Proof. intros. apply forallb_app. Qed.
Lemma no_ws_join : forall xs, Forall (fun x => no_ws x = true) xs -> no_ws (join xs) = true.
Proof.
  induction xs as [|x r IH]; intros HF; [reflexivity|]. inversion HF as [|x' r' Hx Hr]; subst.
  destruct r as [|y r'].
  - rewrite join_one. exact Hx.
  - rewrite join_cons2, no_ws_app, Hx. cbn [no_ws forallb plain_tok is_ws_tok is_strj negb andb]. apply IH, Hr.
Qed.
Lemma no_ws_tokens_of : forall d, no_ws (tokens_of d) = true.
Proof.
  induction d as [|b|s|s|l HF|l HF] using json_ind2; try reflexivity.
  - destruct b; reflexivity.
  - rewrite tokens_of_arr. change (TArrS :: ?x) with ([TArrS] ++ x). rewrite !no_ws_app.
    rewrite no_ws_join; [reflexivity|]. apply Forall_map. exact HF.
  - rewrite tokens_of_obj. change (TObjS :: ?x) with ([TObjS] ++ x). rewrite !no_ws_app.
    rewrite no_ws_join; [reflexivity|]. apply Forall_map.
    eapply Forall_impl; [|exact HF]. intros kv H. unfold member_toks.
    cbn [no_ws forallb plain_tok is_ws_tok is_strj negb andb]. exact H.
Qed.

Lemma parse_tokens_of : forall d, parse (tokens_of d) = Some d.
Proof.
  intros d. unfold parse. rewrite (prep_id _ (no_ws_tokens_of d)).
  rewrite <- (app_nil_r (tokens_of d)) at 2.
  rewrite (parse_val_tokens_of d _ [] (Nat.le_trans _ _ _ (size_le_length d) (Nat.le_succ_diag_r _))).
  reflexivity.
Qed.

(* ------------------------------------------------------------------------------------------ *)
(* lex (render ts) = strip ts *)

Lemma sapp_assoc : forall a b c : string, ((a ++ b) ++ c = a ++ (b ++ c))%string.
Proof. induction a as [|x a IH]; intros b c; [reflexivity|]. cbn. now rewrite IH. Qed.
Lemma sapp_nil_r : forall a : string, (a ++ "" = a)%string.
Proof. induction a as [|x a IH]; [reflexivity|]. cbn. now rewrite IH. Qed.
Lemma slength_app : forall a b : string, String.length (a ++ b)%string = String.length a + String.length b.
Proof. induction a as [|x a IH]; intros b; [reflexivity|]. cbn. now rewrite IH. Qed.

(* one source byte: escaping then reading gives the byte back (all 256 cases by computation) *)
Lemma lex_str_esc_char : forall c r, lex_str (esc_char c ++ r)%string = push (String c EmptyString) (lex_str r).
Proof.
  intros c r. destruct c as [b0 b1 b2 b3 b4 b5 b6 b7].
  destruct b0, b1, b2, b3, b4, b5, b6, b7; reflexivity.
Qed.

Lemma lex_str_quote_body : forall s rest,
  lex_str (quote_body s ++ String (chr 34) rest)%string = Some (s, rest).
Proof.
  induction s as [|c s IH]; intros rest; [reflexivity|].
  cbn [quote_body]. rewrite sapp_assoc, lex_str_esc_char, IH. reflexivity.
Qed.

(* encoding/json strings: what json.Marshal writes is read back as the sanitised string *)
Lemma lex_str_gj_esc : forall c r, (code c <? 128)%N = true ->
  lex_str (gj_esc c ++ r)%string = push (String c EmptyString) (lex_str r).
Proof.
  intros c r. destruct c as [b0 b1 b2 b3 b4 b5 b6 b7].
  destruct b0, b1, b2, b3, b4, b5, b6, b7; intros H; try discriminate H; reflexivity.
Qed.
Lemma lex_str_hi : forall a r, (code a <? 128)%N = false ->
  lex_str (String a r) = push (String a EmptyString) (lex_str r).
Proof.
  intros c r. destruct c as [b0 b1 b2 b3 b4 b5 b6 b7].
  destruct b0, b1, b2, b3, b4, b5, b6, b7; intros H; try discriminate H; reflexivity.
Qed.
Lemma lex_str_ufffd : forall r, lex_str (ufffd_esc ++ r)%string = push ufffd_bytes (lex_str r).
Proof. reflexivity. Qed.
Lemma code_inj : forall a n, code a = n -> a = chr n.
Proof. intros a n <-. unfold code, chr. now rewrite ascii_N_embedding. Qed.

Lemma gj_walk_pair : forall s, gj_walk s = (gojson_body s, sanitize s).
Proof. intros s. unfold gojson_body, sanitize. now destruct (gj_walk s). Qed.

Lemma push_some : forall x s rest, push x (Some (s, rest)) = Some ((x ++ s)%string, rest).
Proof. reflexivity. Qed.

Lemma lex_str_gj : forall n s rest, String.length s <= n ->
  lex_str (gojson_body s ++ String (chr 34) rest)%string = Some (sanitize s, rest).
Proof.
  induction n as [|n IH]; intros s rest Hn.
  - destruct s; [reflexivity|cbn in Hn; lia].
  - destruct s as [|a r]; [reflexivity|]. cbn [String.length] in Hn.
    assert (Hbad : forall q, String.length q <= n ->
              lex_str ((ufffd_esc ++ gojson_body q) ++ String (chr 34) rest)%string =
              Some ((ufffd_bytes ++ sanitize q)%string, rest)).
    { intros q Hq. rewrite sapp_assoc, lex_str_ufffd, (IH q rest Hq). reflexivity. }
    unfold gojson_body, sanitize. cbn [gj_walk].
    destruct (code a <? 128)%N eqn:Ha.
    + rewrite gj_walk_pair. cbn [fst snd]. rewrite sapp_assoc, (lex_str_gj_esc a _ Ha), (IH r rest ltac:(lia)).
      reflexivity.
    + destruct r as [|b r2].
      * cbn [gj_walk fst snd]. exact (Hbad EmptyString ltac:(cbn; lia)).
      * cbn [String.length] in Hn.
        assert (Hb : forall q, (utf8_two (code a) (code b) = true \/ is_cont (code b) = true) ->
                  lex_str (String b q) = push (String b EmptyString) (lex_str q)).
        { intros q Hc. apply lex_str_hi. unfold utf8_two, is_cont in Hc.
          destruct Hc as [Hc|Hc]; apply N.ltb_ge.
          - apply andb_prop in Hc. destruct Hc as [_ Hc]. apply andb_prop in Hc. destruct Hc as [Hc _].
            apply N.leb_le in Hc. lia.
          - apply andb_prop in Hc. destruct Hc as [Hc _]. apply N.leb_le in Hc. lia. }
        destruct (utf8_two (code a) (code b)) eqn:H2.
        { rewrite gj_walk_pair. cbn [fst snd append].
          rewrite (lex_str_hi a _ Ha), (Hb _ (or_introl eq_refl)), (IH r2 rest ltac:(lia)). reflexivity. }
        destruct r2 as [|c r3].
        { rewrite gj_walk_pair. cbn [fst snd]. apply Hbad. cbn. lia. }
        cbn [String.length] in Hn.
        destruct (utf8_three (code a) (code b) (code c)) eqn:H3.
        { rewrite gj_walk_pair. cbn [fst snd].
          assert (Hcb : is_cont (code b) = true /\ is_cont (code c) = true).
          { unfold utf8_three in H3. apply andb_prop in H3. destruct H3 as [H3 Hc]. split; [|exact Hc].
            unfold is_cont.
            apply orb_prop in H3. destruct H3 as [H3|H3].
            - apply orb_prop in H3. destruct H3 as [H3|H3].
              + apply andb_prop in H3. destruct H3 as [H3 H4]. apply andb_prop in H3. destruct H3 as [_ H3].
                apply N.leb_le in H3, H4. apply andb_true_intro. split; apply N.leb_le; lia.
              + apply andb_prop in H3. destruct H3 as [_ H3]. exact H3.
            - apply andb_prop in H3. destruct H3 as [H3 H4]. apply andb_prop in H3. destruct H3 as [_ H3].
              apply N.leb_le in H3, H4. apply andb_true_intro. split; apply N.leb_le; lia. }
          destruct Hcb as [Hcb Hcc].
          destruct (is_linesep (code a) (code b) (code c)) eqn:Hl.
          - unfold is_linesep in Hl. apply andb_prop in Hl. destruct Hl as [Hl Hz].
            apply andb_prop in Hl. destruct Hl as [Hx Hy].
            apply N.eqb_eq in Hx, Hy. apply code_inj in Hx, Hy. subst a b.
            apply orb_prop in Hz. destruct Hz as [Hz|Hz]; apply N.eqb_eq in Hz; pose proof Hz as Hz';
              apply code_inj in Hz'; subst c; rewrite Hz; rewrite sapp_assoc.
            + change (lex_str (u202x_esc 168 ++ ?q)%string) with
                (push (String (chr 226) (String (chr 128) (String (chr 168) EmptyString))) (lex_str q)).
              rewrite (IH r3 rest ltac:(lia)). reflexivity.
            + change (lex_str (u202x_esc 169 ++ ?q)%string) with
                (push (String (chr 226) (String (chr 128) (String (chr 169) EmptyString))) (lex_str q)).
              rewrite (IH r3 rest ltac:(lia)). reflexivity.
          - cbn [append]. rewrite (lex_str_hi a _ Ha), (Hb _ (or_intror Hcb)).
            rewrite (lex_str_hi c); [|unfold is_cont in Hcc; apply andb_prop in Hcc; destruct Hcc as [Hcc _];
                                      apply N.leb_le in Hcc; apply N.ltb_ge; lia].
            rewrite (IH r3 rest ltac:(lia)). reflexivity. }
        destruct r3 as [|g r4].
        { rewrite gj_walk_pair. cbn [fst snd]. apply Hbad. cbn. lia. }
        cbn [String.length] in Hn.
        destruct (utf8_four (code a) (code b) (code c) (code g)) eqn:H4.
        { rewrite gj_walk_pair. cbn [fst snd append].
          unfold utf8_four in H4. apply andb_prop in H4. destruct H4 as [H4 Hg].
          apply andb_prop in H4. destruct H4 as [H4 Hc].
          assert (Hcb : is_cont (code b) = true).
          { unfold is_cont. apply orb_prop in H4. destruct H4 as [H4|H4].
            - apply orb_prop in H4. destruct H4 as [H4|H4].
              + apply andb_prop in H4. destruct H4 as [H4 H5]. apply andb_prop in H4. destruct H4 as [_ H4].
                apply N.leb_le in H4, H5. apply andb_true_intro. split; apply N.leb_le; lia.
              + apply andb_prop in H4. destruct H4 as [_ H4]. exact H4.
            - apply andb_prop in H4. destruct H4 as [H4 H5]. apply andb_prop in H4. destruct H4 as [_ H4].
              apply N.leb_le in H4, H5. apply andb_true_intro. split; apply N.leb_le; lia. }
          assert (Hhi : forall y, is_cont (code y) = true -> (code y <? 128)%N = false).
          { intros y Hy. unfold is_cont in Hy. apply andb_prop in Hy. destruct Hy as [Hy _].
            apply N.leb_le in Hy. apply N.ltb_ge. lia. }
          rewrite (lex_str_hi a _ Ha), (lex_str_hi b _ (Hhi b Hcb)), (lex_str_hi c _ (Hhi c Hc)),
            (lex_str_hi g _ (Hhi g Hg)), (IH r4 rest ltac:(lia)). reflexivity. }
        rewrite gj_walk_pair. cbn [fst snd]. apply Hbad. cbn. lia.
Qed.

Lemma lex_strj_tok : forall f s r, lex (S f) (gojson_quote s ++ r)%string = tcons (TStr (sanitize s)) (lex f r).
Proof.
  intros f s r. unfold gojson_quote. cbn [append]. rewrite sapp_assoc.
  change (str1 34 ++ r)%string with (String (chr 34) r).
  change (lex (S f) (String (chr 34) ?x)) with
    (match lex_str x with Some (y, r') => tcons (TStr y) (lex f r') | None => None end).
  rewrite (lex_str_gj (String.length s) s r (le_n _)). reflexivity.
Qed.

Definition delim_start (s : string) : bool :=
  match s with EmptyString => true | String c _ => negb (is_numch c) end.
Fixpoint all_numch (s : string) : bool :=
  match s with EmptyString => true | String c r => is_numch c && all_numch r end.

Lemma span_num_app : forall s rest, all_numch s = true -> delim_start rest = true ->
  span_num (s ++ rest)%string = (s, rest).
Proof.
  induction s as [|c s IH]; intros rest Hs Hd.
  - cbn [append]. destruct rest as [|d rest]; [reflexivity|]. cbn [delim_start] in Hd. cbn [span_num].
    apply negb_true_iff in Hd. rewrite Hd. reflexivity.
  - cbn [all_numch] in Hs. apply andb_prop in Hs. destruct Hs as [Hc Hs].
    cbn [append span_num]. rewrite Hc, (IH rest Hs Hd). reflexivity.
Qed.

Lemma nstep_dead : forall c, nstep NDead c = NDead.
Proof. reflexivity. Qed.
Lemma nrun_dead : forall s, nrun NDead s = NDead.
Proof. induction s as [|c s IH]; [reflexivity|]. cbn [nrun]. rewrite nstep_dead. exact IH. Qed.
Lemma nstep_numch : forall st c, is_numch c = false -> nstep st c = NDead.
Proof.
  intros st c. destruct c as [b0 b1 b2 b3 b4 b5 b6 b7].
  destruct b0, b1, b2, b3, b4, b5, b6, b7; cbn; intros H; try discriminate H; destruct st; reflexivity.
Qed.
Lemma nrun_all_numch : forall s st, nrun st s <> NDead -> all_numch s = true.
Proof.
  induction s as [|c s IH]; intros st H; [reflexivity|]. cbn [nrun] in H. cbn [all_numch].
  destruct (is_numch c) eqn:Hc.
  - cbn [andb]. eapply IH, H.
  - rewrite (nstep_numch st c Hc), nrun_dead in H. congruence.
Qed.
Lemma num_ok_all_numch : forall s, num_ok s = true -> all_numch s = true.
Proof.
  intros s H. apply (nrun_all_numch s N0). unfold num_ok in H. intros E. rewrite E in H. discriminate.
Qed.
Lemma num_ok_nonempty : forall s, num_ok s = true -> exists c r, s = String c r.
Proof. intros [|c r] H; [discriminate H|]. eauto. Qed.

(* a number character is neither white space, punctuation nor a quote *)
Lemma numch_class : forall c, is_numch c = true ->
  is_ws c = false /\ (code c =? 123)%N = false /\ (code c =? 125)%N = false /\ (code c =? 91)%N = false /\
  (code c =? 93)%N = false /\ (code c =? 44)%N = false /\ (code c =? 58)%N = false /\ (code c =? 34)%N = false.
Proof.
  intros c. destruct c as [b0 b1 b2 b3 b4 b5 b6 b7].
  destruct b0, b1, b2, b3, b4, b5, b6, b7; cbn; intros H; try discriminate H; repeat split; reflexivity.
Qed.

Lemma lex_raw : forall f s r, num_ok s = true -> delim_start r = true ->
  lex (S f) (s ++ r)%string = tcons (TRaw s) (lex f r).
Proof.
  intros f s r Hn Hd. pose proof (num_ok_all_numch s Hn) as Ha.
  destruct (num_ok_nonempty s Hn) as [c [s' ->]].
  assert (Hc : is_numch c = true) by (cbn [all_numch] in Ha; apply andb_prop in Ha; tauto).
  destruct (numch_class c Hc) as (H1 & H2 & H3 & H4 & H5 & H6 & H7 & H8).
  change ((String c s' ++ r)%string) with (String c (s' ++ r)%string).
  cbn [lex]. rewrite H1, H2, H3, H4, H5, H6, H7, H8, Hc.
  change (String c (s' ++ r)%string) with ((String c s' ++ r)%string).
  rewrite (span_num_app _ r Ha Hd), Hn. reflexivity.
Qed.

Lemma lex_str_tok : forall f s r, lex (S f) (quote s ++ r)%string = tcons (TStr s) (lex f r).
Proof.
  intros f s r. unfold quote. cbn [append]. rewrite sapp_assoc.
  change (str1 34 ++ r)%string with (String (chr 34) r).
  change (lex (S f) (String (chr 34) ?x)) with
    (match lex_str x with Some (y, r') => tcons (TStr y) (lex f r') | None => None end).
  rewrite lex_str_quote_body. reflexivity.
Qed.

Lemma lex_ws : forall s f r, all_ws s = true -> lex (String.length s + f) (s ++ r)%string = lex f r.
Proof.
  induction s as [|c s IH]; intros f r H; [reflexivity|].
  cbn [all_ws] in H. apply andb_prop in H. destruct H as [Hc Hs].
  cbn [String.length Nat.add append lex]. rewrite Hc. apply IH, Hs.
Qed.

(* what the lexer needs from a token list: numbers are numbers and are followed by a closer or a comma *)
Definition closes (ts : list token) : bool :=
  match ts with [] => true | (TComma | TArrE | TObjE) :: _ => true | _ => false end.
Fixpoint lexable (ts : list token) : bool :=
  match ts with
  | [] => true
  | t :: r => match t with
              | TRaw s => num_ok s && closes r
              | TWs s => all_ws s
              | _ => true
              end && lexable r
  end.
Fixpoint cost (ts : list token) : nat :=
  match ts with
  | [] => O
  | TWs s :: r => String.length s + cost r
  | _ :: r => S (cost r)
  end.

Lemma closes_delim : forall ts, closes ts = true -> delim_start (render ts) = true.
Proof.
  intros [|t r] H; [reflexivity|]. destruct t; try discriminate H; reflexivity.
Qed.

Lemma lex_tok : forall t f r,
  match t with TRaw s => num_ok s = true /\ closes r = true | TWs _ => False | _ => True end ->
  lex (S f) (render_tok t ++ render r)%string = tcons (norm_tok t) (lex f (render r)).
Proof.
  intros t f r H. destruct t; cbn [render_tok norm_tok]; try reflexivity.
  - apply lex_str_tok.
  - apply lex_strj_tok.
  - destruct H as [Hn Hc]. apply lex_raw; [exact Hn|apply closes_delim, Hc].
  - contradiction.
Qed.

Lemma cost_cons : forall t r, is_ws_tok t = false -> cost (t :: r) = S (cost r).
Proof. intros t r H. destruct t; try reflexivity. discriminate H. Qed.

Lemma lex_render_fuel : forall ts f, lexable ts = true -> cost ts < f -> lex f (render ts) = Some (prep ts).
Proof.
  induction ts as [|t r IH]; intros f Hl Hc.
  - destruct f; [lia|]. reflexivity.
  - cbn [lexable] in Hl. apply andb_prop in Hl. destruct Hl as [Ht Hr].
    cbn [render]. destruct (is_ws_tok t) eqn:Hw.
    + destruct t; try discriminate Hw. cbn [cost] in Hc. cbn [render_tok].
      replace f with (String.length s + (f - String.length s)) by lia.
      rewrite (lex_ws s _ _ Ht). unfold prep, strip. cbn [filter is_ws_tok negb]. apply IH; [exact Hr|lia].
    + rewrite (cost_cons t r Hw) in Hc. destruct f as [|f]; [lia|].
      rewrite lex_tok.
      * rewrite (IH f Hr ltac:(lia)). unfold prep, strip. cbn [filter]. rewrite Hw. reflexivity.
      * destruct t; try exact I; [|discriminate Hw]. apply andb_prop in Ht. exact Ht.
Qed.

Lemma cost_le_length : forall ts, lexable ts = true -> cost ts <= String.length (render ts).
Proof.
  induction ts as [|t r IH]; intros Hl; [cbn; lia|].
  cbn [lexable] in Hl. apply andb_prop in Hl. destruct Hl as [Ht Hr]. specialize (IH Hr).
  cbn [render]. rewrite slength_app.
  destruct t; cbn [cost render_tok]; try (cbn [str1 String.length]; lia).
  - unfold quote. cbn [String.length]. lia.
  - unfold gojson_quote. cbn [String.length]. lia.
  - apply andb_prop in Ht. destruct Ht as [Hn _]. destruct (num_ok_nonempty s Hn) as [c [s' ->]].
    cbn [String.length]. lia.
Qed.

Theorem lex_render : forall ts, lexable ts = true -> lex_bytes (render ts) = Some (prep ts).
Proof.
  intros ts H. unfold lex_bytes. apply lex_render_fuel; [exact H|]. pose proof (cost_le_length ts H). lia.
Qed.

(* canonical serialisations are lexable when their numbers are numbers *)
Definition LX (x : list token) : Prop :=
  forall rest, lexable rest = true -> closes rest = true -> lexable (x ++ rest) = true.

Lemma lexable_join : forall xs, Forall LX xs -> LX (join xs).
Proof.
  induction xs as [|x r IH]; intros HF rest Hl Hc; [exact Hl|].
  inversion HF as [|x' r' Hx Hr]; subst. destruct r as [|y r'].
  - rewrite join_one. apply Hx; assumption.
  - rewrite join_cons2, <- app_assoc. cbn [app]. apply Hx; [|reflexivity].
    cbn [lexable andb]. apply (IH Hr); assumption.
Qed.

Lemma lexable_tokens_of : forall d, nums_ok d = true -> LX (tokens_of d).
Proof.
  induction d as [|b|s|s|l HF|l HF] using json_ind2; intros Hn rest Hl Hc.
  - exact Hl.
  - destruct b; exact Hl.
  - cbn [tokens_of app lexable]. cbn [nums_ok] in Hn. rewrite Hn, Hc, Hl. reflexivity.
  - exact Hl.
  - rewrite tokens_of_arr. cbn [app lexable andb]. rewrite <- app_assoc. cbn [app].
    apply lexable_join; [|cbn [lexable andb]; exact Hl|reflexivity].
    cbn [nums_ok] in Hn. rewrite forallb_forall in Hn. rewrite Forall_forall in HF.
    apply Forall_forall. intros x Hx. apply in_map_iff in Hx. destruct Hx as [v [<- Hv]].
    apply (HF v Hv), (Hn v Hv).
  - rewrite tokens_of_obj. cbn [app lexable andb]. rewrite <- app_assoc. cbn [app].
    apply lexable_join; [|cbn [lexable andb]; exact Hl|reflexivity].
    cbn [nums_ok] in Hn. rewrite forallb_forall in Hn. rewrite Forall_forall in HF.
    apply Forall_forall. intros x Hx. apply in_map_iff in Hx. destruct Hx as [kv [<- Hv]].
    intros rest' Hl' Hc'. unfold member_toks. cbn [app lexable andb].
    apply (HF kv Hv (Hn kv Hv)); assumption.
Qed.

(* the byte-level round trip: any document, serialised canonically and rendered the jsoniter way,
   is read back by the independent reader as exactly that document *)
Theorem parse_bytes_render : forall d, nums_ok d = true -> parse_bytes (render (tokens_of d)) = Some d.
Proof.
  intros d Hn. unfold parse_bytes. rewrite lex_render.
  - rewrite (prep_id _ (no_ws_tokens_of d)). apply parse_tokens_of.
  - rewrite <- (app_nil_r (tokens_of d)). apply (lexable_tokens_of d Hn); reflexivity.
Qed.

(* ------------------------------------------------------------------------------------------ *)
(* the stream / matrix / tail writers emit the canonical serialisation of the intended document *)

Lemma join_flat : forall (xs : list (list token)) x, join (x :: xs) = x ++ flat_map (cons TComma) xs.
Proof.
  induction xs as [|y r IH]; intros x.
  - rewrite join_one. cbn [flat_map]. now rewrite app_nil_r.
  - rewrite join_cons2, IH. reflexivity.
Qed.

Lemma write_map_loop_true : forall l,
  write_map_loop l true = flat_map (cons TComma) (map member_toks (map (fun kv => (fst kv, JStr (snd kv))) l)).
Proof.
  induction l as [|[k v] r IH]; [reflexivity|].
  cbn [write_map_loop map flat_map]. rewrite IH. reflexivity.
Qed.

Lemma tokens_of_labels_doc : forall l, tokens_of (labels_doc l) = write_map l.
Proof.
  intros l. unfold labels_doc, write_map. rewrite tokens_of_obj. destruct l as [|[k v] r].
  - reflexivity.
  - cbn [map]. rewrite join_flat. cbn [write_map_loop]. rewrite write_map_loop_true.
    unfold member_toks at 1. cbn [fst snd tokens_of wObjectStart wObjectEnd wObjectField wString app].
    reflexivity.
Qed.

Fixpoint span_fp (f : N) (es : list entry) : list entry * list entry :=
  match es with
  | [] => ([], [])
  | e :: r => if N.eqb f (e_fp e) then let (a, b) := span_fp f r in (e :: a, b) else ([], es)
  end.

Lemma group_span : forall r e, group (e :: r) = (e, fst (span_fp (e_fp e) r)) :: group (snd (span_fp (e_fp e) r)).
Proof.
  induction r as [|e1 r1 IH]; intros e; [reflexivity|].
  change (group (e :: e1 :: r1)) with
    (match group (e1 :: r1) with
     | (h, m) :: g => if N.eqb (e_fp e) (e_fp h) then (e, h :: m) :: g else (e, []) :: (h, m) :: g
     | [] => [(e, [])]
     end).
  rewrite (IH e1). cbn [span_fp]. destruct (N.eqb_spec (e_fp e) (e_fp e1)) as [E|E].
  - rewrite E. destruct (span_fp (e_fp e1) r1) as [a b]. reflexivity.
  - cbn [fst snd]. rewrite (IH e1). reflexivity.
Qed.

Section Writers.
  Variable key : string.
  Variable value : entry -> list token.
  Variable vd : entry -> json.
  Hypothesis Hvd : forall e, tokens_of (vd e) = value e.

  Definition emit := emit_entry HdrFirstOrFp key value.

  (* the loop over rows that carry no error *)
  Fixpoint run_rows (s : lstate) (es : list entry) : list token * lstate :=
    match es with
    | [] => ([], s)
    | e :: r => let (o, s') := emit s e in let (o', s'') := run_rows s' r in (o ++ o', s'')
    end.
  Definition out (s : lstate) (es : list entry) : list token :=
    fst (run_rows s es) ++ (if li (snd (run_rows s es)) then wArrayEnd ++ wObjectEnd else []).

  Definition sdoc := series_doc key vd.
  Definition header (e : entry) : list token :=
    wObjectStart ++ wObjectField key ++ write_map (e_lbls e) ++ wMore ++ wObjectField "values" ++ wArrayStart.

  Lemma flat_map_values : forall m,
    flat_map (cons TComma) (map tokens_of (map vd m)) = flat_map (fun x => TComma :: value x) m.
  Proof. induction m as [|x m IH]; [reflexivity|]. cbn [map flat_map app]. now rewrite IH, Hvd. Qed.

  Lemma tokens_of_sdoc : forall e m,
    tokens_of (sdoc (e, m)) = header e ++ value e ++ flat_map (fun x => TComma :: value x) m ++ [TArrE; TObjE].
  Proof.
    intros e m. unfold sdoc, series_doc, header. cbn [fst snd].
    rewrite tokens_of_obj. cbn [map]. rewrite join_cons2, join_one. unfold member_toks. cbn [fst snd].
    rewrite tokens_of_labels_doc, tokens_of_arr. cbn [map]. rewrite join_flat, Hvd, flat_map_values.
    cbn [wObjectStart wObjectField wMore wArrayStart app].
    rewrite <- !app_assoc. cbn [app]. rewrite <- !app_assoc. reflexivity.
  Qed.

  Definition objs (g : list (entry * list entry)) : list token := join (map tokens_of (map sdoc g)).

  Lemma out_cons : forall s e r,
    out s (e :: r) = fst (emit s e) ++ out (snd (emit s e)) r.
  Proof.
    intros s e r. unfold out. cbn [run_rows]. destruct (emit s e) as [o s']. cbn [fst snd].
    destruct (run_rows s' r) as [o' s'']. cbn [fst snd]. now rewrite app_assoc.
  Qed.

  Lemma emit_fire : forall s e, hdr_fires HdrFirstOrFp s e = true ->
    emit s e = ((if li s then [TArrE; TObjE; TComma] else []) ++ header e ++ value e,
                {| lastFp := e_fp e; li := true; lj := true |}).
  Proof.
    intros s e H. unfold emit, emit_entry. rewrite H. unfold header. f_equal.
    cbn [wArrayEnd wObjectEnd wMore app]. now rewrite <- !app_assoc.
  Qed.
  Lemma emit_nofire : forall s e, hdr_fires HdrFirstOrFp s e = false ->
    emit s e = ((if lj s then [TComma] else []) ++ value e, {| lastFp := lastFp s; li := li s; lj := true |}).
  Proof. intros s e H. unfold emit, emit_entry. rewrite H. reflexivity. Qed.

  Lemma objs_cons : forall e m g,
    objs ((e, m) :: g) = header e ++ value e ++ flat_map (fun x => TComma :: value x) m ++ [TArrE; TObjE] ++
                         match g with [] => [] | _ => TComma :: objs g end.
  Proof.
    intros e m g. unfold objs. cbn [map]. rewrite join_cons, tokens_of_sdoc. rewrite <- !app_assoc.
    do 3 f_equal. cbn [app]. do 2 f_equal. destruct g; reflexivity.
  Qed.

  Lemma out_open : forall es f,
    out {| lastFp := f; li := true; lj := true |} es =
    flat_map (fun x => TComma :: value x) (fst (span_fp f es)) ++ [TArrE; TObjE] ++
    match group (snd (span_fp f es)) with [] => [] | g => TComma :: objs g end.
  Proof.
    induction es as [|e r IH]; intros f; [reflexivity|].
    rewrite out_cons. cbn [span_fp]. destruct (N.eqb f (e_fp e)) eqn:E.
    - rewrite emit_nofire by (unfold hdr_fires; cbn [li lastFp]; now rewrite E).
      cbn [fst snd li lj lastFp]. rewrite IH. destruct (span_fp f r) as [a b]. cbn [fst snd flat_map app].
      now rewrite <- !app_assoc.
    - rewrite emit_fire by (unfold hdr_fires; cbn [li lastFp]; now rewrite E).
      cbn [fst snd li flat_map]. rewrite IH, group_span, objs_cons. cbn [app].
      rewrite <- !app_assoc. destruct (group (snd (span_fp (e_fp e) r))); reflexivity.
  Qed.

  Lemma out_closed : forall es s, li s = false -> out s es = objs (group es).
  Proof.
    intros [|e r] s Hs.
    - unfold out. cbn [run_rows fst snd]. rewrite Hs. reflexivity.
    - rewrite out_cons. rewrite emit_fire by (unfold hdr_fires; now rewrite Hs).
      rewrite Hs. cbn [fst snd app]. rewrite out_open, group_span, objs_cons.
      rewrite <- !app_assoc. destruct (group (snd (span_fp (e_fp e) r))); reflexivity.
  Qed.

  (* batches: entries that carry io.EOF are skipped (continue) or end their batch (break) *)
  Lemma run_rows_app : forall a b s,
    run_rows s (a ++ b) = (fst (run_rows s a) ++ fst (run_rows (snd (run_rows s a)) b),
                           snd (run_rows (snd (run_rows s a)) b)).
  Proof.
    induction a as [|e r IH]; intros b s.
    - cbn [app run_rows fst snd]. now destruct (run_rows s b).
    - cbn [app run_rows]. destruct (emit s e) as [o s']. rewrite IH.
      destruct (run_rows s' r) as [o1 s1]. cbn [fst snd]. destruct (run_rows s1 b) as [o2 s2]. cbn [fst snd].
      now rewrite app_assoc.
  Qed.

  Lemma run_batch_continue : forall b s, forallb no_fail b = true ->
    run_batch HdrFirstOrFp EofContinue key value s b =
    (fst (run_rows s (filter is_live b)), Some (snd (run_rows s (filter is_live b)))).
  Proof.
    induction b as [|e r IH]; intros s Hb; [reflexivity|].
    cbn [forallb] in Hb. apply andb_prop in Hb. destruct Hb as [He Hr].
    cbn [run_batch filter]. unfold step_entry.
    replace (is_live e) with (match e_err e with ENone => true | _ => false end) by reflexivity.
    unfold no_fail in He. destruct (e_err e); try discriminate He.
    - fold emit. cbn [run_rows]. destruct (emit s e) as [o s']. rewrite (IH s' Hr).
      destruct (run_rows s' (filter is_live r)) as [o1 s1]. reflexivity.
    - rewrite (IH s Hr). reflexivity.
  Qed.

  Lemma run_batch_break : forall b s, forallb no_fail b = true ->
    run_batch HdrFirstOrFp EofBreak key value s b =
    (fst (run_rows s (until_eof b)), Some (snd (run_rows s (until_eof b)))).
  Proof.
    induction b as [|e r IH]; intros s Hb; [reflexivity|].
    cbn [forallb] in Hb. apply andb_prop in Hb. destruct Hb as [He Hr].
    cbn [run_batch until_eof]. unfold step_entry.
    replace (is_live e) with (match e_err e with ENone => true | _ => false end) by reflexivity.
    unfold no_fail in He. destruct (e_err e); try discriminate He.
    - fold emit. cbn [run_rows]. destruct (emit s e) as [o s']. rewrite (IH s' Hr).
      destruct (run_rows s' (until_eof r)) as [o1 s1]. reflexivity.
    - reflexivity.
  Qed.

  Lemma run_batches_rows : forall (m : eof_mode) bs s, forallb (forallb no_fail) bs = true ->
    let rows := List.concat (map (match m with EofContinue => filter is_live | EofBreak => until_eof end) bs) in
    run_batches HdrFirstOrFp m key value s bs = (fst (run_rows s rows), Some (snd (run_rows s rows))).
  Proof.
    intros m. induction bs as [|b r IH]; intros s Hb; [reflexivity|].
    cbn [forallb] in Hb. apply andb_prop in Hb. destruct Hb as [Hb Hr].
    cbn [run_batches map List.concat]. cbv zeta. rewrite run_rows_app.
    destruct m.
    - rewrite (run_batch_continue b s Hb). specialize (IH (snd (run_rows s (filter is_live b))) Hr).
      cbv zeta in IH. rewrite IH. reflexivity.
    - rewrite (run_batch_break b s Hb). specialize (IH (snd (run_rows s (until_eof b))) Hr).
      cbv zeta in IH. rewrite IH. reflexivity.
  Qed.

  Lemma writer_ok : forall m buf pre post bs, forallb (forallb no_fail) bs = true ->
    writer HdrFirstOrFp m buf key value pre post bs =
    pre ++ objs (group (List.concat (map (match m with EofContinue => filter is_live | EofBreak => until_eof end) bs))) ++ post.
  Proof.
    intros m buf pre post bs Hb. unfold writer. rewrite (run_batches_rows m bs lstate0 Hb). cbv zeta.
    rewrite <- (out_closed _ lstate0 eq_refl). unfold out. now rewrite <- app_assoc.
  Qed.
End Writers.

Lemma concat_filter : forall (bs : list (list entry)),
  List.concat (map (filter is_live) bs) = filter is_live (List.concat bs).
Proof.
  induction bs as [|b r IH]; [reflexivity|]. cbn [map List.concat]. rewrite IH.
  induction b as [|e b IHb]; [reflexivity|]. cbn [filter app]. destruct (is_live e); cbn [app]; now rewrite IHb.
Qed.

Lemma tokens_of_response : forall t res,
  tokens_of (response_doc t res) = open_response t ++ join (map tokens_of res) ++ close_response.
Proof.
  intros t res. unfold response_doc, open_response, close_response.
  rewrite tokens_of_obj. cbn [map]. rewrite join_cons2, join_one. unfold member_toks. cbn [fst snd].
  rewrite tokens_of_obj. cbn [map]. rewrite join_cons2, join_one. unfold member_toks. cbn [fst snd].
  rewrite tokens_of_arr.
  cbn [tokens_of wObjectStart wObjectField wString wMore wArrayStart wArrayEnd wObjectEnd app].
  rewrite <- !app_assoc. reflexivity.
Qed.

Lemma log_value_tokens : forall e, tokens_of (log_value_doc e) = log_value e.
Proof. reflexivity. Qed.
Lemma matrix_value_tokens : forall e, tokens_of (matrix_value_doc e) = matrix_value e.
Proof. reflexivity. Qed.

Theorem enc_streams_canonical : forall bs, forallb (forallb no_fail) bs = true ->
  enc_streams HdrFirstOrFp bs = tokens_of (doc_streams bs).
Proof.
  intros bs Hb. unfold enc_streams, doc_streams.
  rewrite (writer_ok "stream" log_value log_value_doc log_value_tokens EofContinue _ _ _ bs Hb).
  rewrite tokens_of_response, concat_filter. reflexivity.
Qed.

Theorem enc_matrix_canonical : forall bs, forallb (forallb no_fail) bs = true ->
  enc_matrix bs = tokens_of (doc_matrix bs).
Proof.
  intros bs Hb. unfold enc_matrix, doc_matrix.
  rewrite (writer_ok "metric" matrix_value matrix_value_doc matrix_value_tokens EofBreak _ _ _ bs Hb).
  rewrite tokens_of_response. reflexivity.
Qed.

Theorem enc_tail_canonical : forall bs, forallb (forallb no_fail) bs = true ->
  enc_tail HdrFirstOrFp bs = tokens_of (doc_tail bs).
Proof.
  intros bs Hb. unfold enc_tail, doc_tail.
  rewrite (writer_ok "stream" log_value log_value_doc log_value_tokens EofContinue _ _ _ bs Hb).
  rewrite tokens_of_obj, concat_filter. cbn [map]. rewrite join_one. unfold member_toks. cbn [fst snd].
  rewrite tokens_of_arr. cbn [wObjectStart wObjectField wArrayStart wArrayEnd wObjectEnd app].
  rewrite <- !app_assoc. reflexivity.
Qed.

(* ------------------------------------------------------------------------------------------ *)
(* numbers of the intended documents; the byte-level theorems *)

Lemma forallb_map' : forall (A B : Type) (f : A -> B) (p : B -> bool) l,
  forallb p (map f l) = forallb (fun x => p (f x)) l.
Proof. induction l as [|x l IH]; [reflexivity|]. cbn. now rewrite IH. Qed.
Lemma forallb_ext' : forall (A : Type) (p q : A -> bool) l, (forall x, p x = q x) -> forallb p l = forallb q l.
Proof. intros A p q l H. induction l as [|x l IH]; [reflexivity|]. cbn. now rewrite H, IH. Qed.

Lemma forallb_group : forall (P : entry -> bool) es,
  forallb (fun g => forallb P (fst g :: snd g)) (group es) = forallb P es.
Proof.
  intros P. induction es as [|e r IH]; [reflexivity|].
  cbn [group]. destruct (group r) as [|[h m] g].
  - cbn [forallb] in *. rewrite <- IH. cbn [fst snd forallb]. now rewrite !andb_true_r.
  - destruct (N.eqb (e_fp e) (e_fp h)); cbn [forallb fst snd] in *; rewrite <- IH.
    + now rewrite !andb_assoc.
    + now rewrite !andb_true_r, !andb_assoc.
Qed.

Lemma nums_ok_labels_doc : forall l, nums_ok (labels_doc l) = true.
Proof. intros l. unfold labels_doc. cbn [nums_ok]. rewrite forallb_map'. now induction l. Qed.

Lemma nums_ok_series_doc : forall key vd g,
  nums_ok (series_doc key vd g) = forallb (fun e => nums_ok (vd e)) (fst g :: snd g).
Proof.
  intros key vd g. unfold series_doc. cbn [nums_ok forallb snd]. rewrite nums_ok_labels_doc.
  rewrite andb_true_r. cbn [andb]. now rewrite forallb_map'.
Qed.

Lemma nums_ok_result : forall key vd es,
  forallb nums_ok (map (series_doc key vd) (group es)) = forallb (fun e => nums_ok (vd e)) es.
Proof.
  intros key vd es. rewrite forallb_map', <- (forallb_group (fun e => nums_ok (vd e)) es).
  apply forallb_ext'. intros g. apply nums_ok_series_doc.
Qed.

Lemma nums_ok_response : forall t res, nums_ok (response_doc t res) = forallb nums_ok res.
Proof. intros t res. unfold response_doc. cbn [nums_ok forallb snd andb]. now rewrite !andb_true_r. Qed.

Lemma nums_ok_log : forall es, forallb (fun e => nums_ok (log_value_doc e)) es = true.
Proof. induction es; [reflexivity|]. cbn [forallb]. rewrite IHes. reflexivity. Qed.

Theorem streams_bytes : forall bs, forallb (forallb no_fail) bs = true ->
  parse_bytes (render (enc_streams HdrFirstOrFp bs)) = Some (doc_streams bs).
Proof.
  intros bs Hb. rewrite (enc_streams_canonical bs Hb). apply parse_bytes_render.
  unfold doc_streams. now rewrite nums_ok_response, nums_ok_result, nums_ok_log.
Qed.

Theorem tail_bytes : forall bs, forallb (forallb no_fail) bs = true ->
  parse_bytes (render (enc_tail HdrFirstOrFp bs)) = Some (doc_tail bs).
Proof.
  intros bs Hb. rewrite (enc_tail_canonical bs Hb). apply parse_bytes_render.
  unfold doc_tail. cbn [nums_ok forallb snd]. now rewrite nums_ok_result, nums_ok_log.
Qed.

Theorem matrix_bytes : forall bs, forallb (forallb no_fail) bs = true ->
  forallb (fun e => num_ok (e_tsf e)) (rows_matrix bs) = true ->
  parse_bytes (render (enc_matrix bs)) = Some (doc_matrix bs).
Proof.
  intros bs Hb Hn. rewrite (enc_matrix_canonical bs Hb). apply parse_bytes_render.
  unfold doc_matrix. rewrite nums_ok_response, nums_ok_result.
  erewrite forallb_ext'; [exact Hn|]. intros e. cbn [matrix_value_doc nums_ok forallb]. now rewrite andb_true_r.
Qed.

(* ------------------------------------------------------------------------------------------ *)
(* content: every row once, in order; one object per run of equal fingerprints *)

Lemma group_flat : forall es, flat_map (fun g => fst g :: snd g) (group es) = es.
Proof.
  induction es as [|e r IH]; [reflexivity|]. cbn [group]. destruct (group r) as [|[h m] g].
  - cbn in *. now rewrite <- IH.
  - destruct (N.eqb (e_fp e) (e_fp h)); cbn [flat_map fst snd app] in *; now rewrite <- IH.
Qed.

Lemma rows_of_result_values : forall key vd es,
  map snd (rows_of_result (map (series_doc key vd) (group es))) = map vd es.
Proof.
  intros key vd es. rewrite <- (group_flat es) at 2. unfold rows_of_result.
  induction (group es) as [|g gs IH]; [reflexivity|].
  cbn [map flat_map]. rewrite !map_app, IH. f_equal.
  unfold series_doc, rows_of_series. rewrite !map_map. cbn [snd]. reflexivity.
Qed.

(* all members of a group carry the fingerprint of its first entry *)
Lemma group_same_fp : forall es g, In g (group es) -> forall x, In x (snd g) -> e_fp x = e_fp (fst g).
Proof.
  induction es as [|e r IH]; intros g Hg x Hx; [destruct Hg|].
  cbn [group] in Hg. destruct (group r) as [|[h m] gs] eqn:G.
  - destruct Hg as [<-|[]]. destruct Hx.
  - destruct (N.eqb_spec (e_fp e) (e_fp h)) as [E|E].
    + destruct Hg as [<-|Hg].
      * cbn [fst snd] in *. destruct Hx as [<-|Hx]; [now rewrite E|].
        rewrite E. apply (IH (h, m) (or_introl eq_refl) x Hx).
      * apply (IH g (or_intror Hg) x Hx).
    + destruct Hg as [<-|Hg]; [destruct Hx|]. apply (IH g Hg x Hx).
Qed.

Lemma rows_of_result_rows : forall key vd es,
  (forall a b, In a es -> In b es -> e_fp a = e_fp b -> e_lbls a = e_lbls b) ->
  rows_of_result (map (series_doc key vd) (group es)) = map (row_doc vd) es.
Proof.
  intros key vd es Hl.
  assert (main : forall G,
    (forall g, In g G -> forall x, In x (fst g :: snd g) -> In x es) ->
    (forall g, In g G -> forall x, In x (snd g) -> e_fp x = e_fp (fst g)) ->
    flat_map rows_of_series (map (series_doc key vd) G) = map (row_doc vd) (flat_map (fun g => fst g :: snd g) G)).
  { induction G as [|g gs IH]; intros Hin Hfp; [reflexivity|].
    cbn [map flat_map]. rewrite map_app, IH.
    - f_equal. unfold series_doc, rows_of_series, row_doc. rewrite map_map.
      apply map_ext_in. intros x Hx. f_equal. f_equal.
      destruct Hx as [<-|Hx]; [reflexivity|].
      apply Hl.
      + apply (Hin g (or_introl eq_refl)). now left.
      + apply (Hin g (or_introl eq_refl)). now right.
      + symmetry. apply (Hfp g (or_introl eq_refl) x Hx).
    - intros g' Hg'. apply Hin. now right.
    - intros g' Hg'. apply Hfp. now right. }
  unfold rows_of_result. rewrite <- (group_flat es) at 2. apply main.
  - intros g Hg x Hx. rewrite <- (group_flat es). apply in_flat_map. exists g. split; assumption.
  - apply group_same_fp.
Qed.

(* neighbouring objects never carry the same fingerprint (a run is never split) ... *)
Lemma group_adjacent : forall es g1 g2 gs, group es = g1 :: g2 :: gs -> e_fp (fst g1) <> e_fp (fst g2).
Proof.
  intros [|e r] g1 g2 gs H; [discriminate H|]. rewrite group_span in H.
  injection H as <- H. cbn [fst].
  destruct (snd (span_fp (e_fp e) r)) as [|e2 r2] eqn:S; [discriminate H|].
  rewrite group_span in H. injection H as <- _. cbn [fst].
  clear -S. revert S. induction r as [|x r IH]; [discriminate|]. cbn [span_fp].
  destruct (N.eqb_spec (e_fp e) (e_fp x)) as [E|E].
  - destruct (span_fp (e_fp e) r) as [a b]. cbn [snd] in *. exact IH.
  - cbn [snd]. intros [= <- _]. exact E.
Qed.

(* ... so when equal fingerprints are contiguous in the input (ORDER BY fingerprint), every stream
   gets exactly one object *)
Definition heads (es : list entry) : list N := map (fun g => e_fp (fst g)) (group es).
Definition fps_contiguous (l : list N) : Prop :=
  forall a f b c, l = a ++ f :: b ++ f :: c -> forall x, In x b -> x = f.

Fixpoint dedup_adj (l : list N) : list N :=
  match l with
  | [] => []
  | f :: r => match dedup_adj r with
              | h :: t => if N.eqb f h then h :: t else f :: h :: t
              | [] => [f]
              end
  end.

Lemma heads_dedup : forall es, heads es = dedup_adj (map e_fp es).
Proof.
  induction es as [|e r IH]; [reflexivity|]. unfold heads in *. cbn [group map dedup_adj].
  rewrite <- IH. destruct (group r) as [|[h m] g]; [reflexivity|]. cbn [map fst].
  destruct (N.eqb_spec (e_fp e) (e_fp h)) as [E|E]; cbn [map fst]; [now rewrite E|reflexivity].
Qed.

Lemma dedup_hd : forall f r, exists t, dedup_adj (f :: r) = f :: t.
Proof.
  intros f r. cbn [dedup_adj]. destruct (dedup_adj r) as [|h t]; [now exists []|].
  destruct (N.eqb_spec f h) as [->|E]; eauto.
Qed.
Lemma dedup_in : forall l x, In x (dedup_adj l) -> In x l.
Proof.
  induction l as [|f r IH]; intros x H; [exact H|]. cbn [dedup_adj] in H.
  destruct (dedup_adj r) as [|h t].
  - destruct H as [<-|[]]. now left.
  - destruct (N.eqb f h); [right; apply IH, H|]. destruct H as [<-|H]; [now left|right; apply IH, H].
Qed.
Lemma contiguous_tail : forall f l, fps_contiguous (f :: l) -> fps_contiguous l.
Proof. intros f l H a g b c E x Hx. apply (H (f :: a) g b c); [now rewrite E|exact Hx]. Qed.

Lemma NoDup_dedup_adj : forall l, fps_contiguous l -> NoDup (dedup_adj l).
Proof.
  induction l as [|f r IH]; intros Hc; [constructor|].
  specialize (IH (contiguous_tail f r Hc)). cbn [dedup_adj].
  destruct (dedup_adj r) as [|h t] eqn:D; [constructor; [intros []|constructor]|].
  destruct (N.eqb_spec f h) as [E|E]; [exact IH|].
  constructor; [|exact IH]. intros Hin.
  assert (Hr : In f r) by (apply dedup_in; rewrite D; exact Hin).
  destruct r as [|x r']; [destruct Hr|].
  destruct (dedup_hd x r') as [t' Ht]. rewrite Ht in D. injection D as -> _.
  destruct Hr as [Hr|Hr]; [congruence|].
  destruct (in_split _ _ Hr) as [b [c ->]].
  apply E. symmetry. apply (Hc [] f (h :: b) c); [reflexivity|now left].
Qed.

Theorem one_object_per_fingerprint : forall es, fps_contiguous (map e_fp es) -> NoDup (heads es).
Proof. intros es H. rewrite heads_dedup. apply NoDup_dedup_adj, H. Qed.

(* the header test of the code before fix #23 (lastFp != fp only): a first series with
   fingerprint 0 got no header; kept as a regression witness *)
Definition w0 : entry := {| e_fp := 0; e_lbls := [("job", "a")]; e_ts := 1; e_msg := "line1"; e_tsf := "0.000000"; e_val := "0"; e_err := ENone |}.
Definition w7 : entry := {| e_fp := 7; e_lbls := [("job", "b")]; e_ts := 2; e_msg := "line2"; e_tsf := "0.000000"; e_val := "0"; e_err := ENone |}.
Example before_fix_23_not_json : parse_bytes (render (enc_streams HdrFpOnly [[w0]; [w7]])) = None.
Proof. vm_compute. reflexivity. Qed.
Example after_fix_23 : parse_bytes (render (enc_streams HdrFirstOrFp [[w0]; [w7]])) = Some (doc_streams [[w0]; [w7]]).
Proof. vm_compute. reflexivity. Qed.

(* ------------------------------------------------------------------------------------------ *)
(* list endpoints (tempo tags / tag values, labels / label values) *)

Lemma prep_app : forall a b, prep (a ++ b) = prep a ++ prep b.
Proof. intros a b. unfold prep, strip. now rewrite filter_app, map_app. Qed.

Definition simple_tok (t : token) : bool :=
  match t with TRaw _ => false | TWs s => all_ws s | _ => true end.
Lemma simple_lexable : forall ts, forallb simple_tok ts = true -> lexable ts = true.
Proof.
  induction ts as [|t r IH]; [reflexivity|]. cbn [forallb lexable]. intros H.
  apply andb_prop in H. destruct H as [Ht Hr]. rewrite (IH Hr), andb_true_r.
  destruct t; try reflexivity; [discriminate Ht|exact Ht].
Qed.

Lemma list_loop_true : forall item xs, list_loop item xs true = flat_map (fun x => TComma :: item x) xs.
Proof. intros item. induction xs as [|x r IH]; [reflexivity|]. cbn [list_loop flat_map app]. now rewrite IH. Qed.

Lemma prep_list_loop : forall xs,
  prep (list_loop (fun x => [TStrJ x]) xs false) = join (map tokens_of (map (fun x => JStr (sanitize x)) xs)).
Proof.
  intros [|x r]; [reflexivity|]. cbn [list_loop map app]. rewrite join_flat, list_loop_true.
  change (TStrJ x :: ?l) with ([TStrJ x] ++ l). rewrite prep_app. cbn [tokens_of]. f_equal.
  induction r as [|y r IH]; [reflexivity|]. cbn [flat_map map app].
  change (TComma :: TStrJ y :: ?l) with ([TComma; TStrJ y] ++ l). rewrite prep_app, IH. reflexivity.
Qed.

Lemma simple_list_loop : forall xs i, forallb simple_tok (list_loop (fun x => [TStrJ x]) xs i) = true.
Proof.
  induction xs as [|x r IH]; intros i; [reflexivity|]. cbn [list_loop]. rewrite forallb_app.
  destruct i; cbn [forallb simple_tok andb app]; apply IH.
Qed.

Lemma parse_bytes_of_prep : forall ts d, lexable ts = true -> prep ts = tokens_of d ->
  parse_bytes (render ts) = Some d.
Proof.
  intros ts d Hl Hp. unfold parse_bytes. rewrite (lex_render ts Hl), Hp. apply parse_tokens_of.
Qed.

Theorem tempo_list_bytes : forall key xs,
  parse_bytes (render (enc_tempo_list key xs)) = Some (doc_tempo_list key xs).
Proof.
  intros key xs. apply parse_bytes_of_prep.
  - apply simple_lexable. unfold enc_tempo_list. rewrite !forallb_app, simple_list_loop. reflexivity.
  - unfold enc_tempo_list, doc_tempo_list. rewrite !prep_app, prep_list_loop.
    rewrite tokens_of_obj. cbn [map]. rewrite join_one. unfold member_toks. cbn [fst snd].
    rewrite tokens_of_arr. cbn [app]. now rewrite <- app_assoc.
Qed.

Theorem labels_bytes : forall xs, parse_bytes (render (enc_labels xs)) = Some (doc_labels xs).
Proof.
  intros xs. apply parse_bytes_of_prep.
  - apply simple_lexable. unfold enc_labels. rewrite !forallb_app, simple_list_loop. reflexivity.
  - unfold enc_labels, doc_labels. rewrite !prep_app, prep_list_loop.
    rewrite tokens_of_obj. cbn [map]. rewrite join_cons2, join_one. unfold member_toks. cbn [fst snd].
    rewrite tokens_of_arr. cbn [tokens_of app]. now rewrite <- app_assoc.
Qed.

(* valid UTF-8 made of plain ASCII is kept byte for byte by json.Marshal + reader *)
Fixpoint all_ascii (s : string) : bool :=
  match s with EmptyString => true | String c r => (code c <? 128)%N && all_ascii r end.
Lemma sanitize_ascii : forall s, all_ascii s = true -> sanitize s = s.
Proof.
  induction s as [|c r IH]; [reflexivity|]. cbn [all_ascii]. intros H. apply andb_prop in H. destruct H as [Hc Hr].
  unfold sanitize in *. cbn [gj_walk]. rewrite Hc. destruct (gj_walk r) as [e d]. cbn [snd] in *. now rewrite (IH Hr).
Qed.

(* ------------------------------------------------------------------------------------------ *)
(* QueryInstant, vector branch *)

Lemma tokens_of_vector_doc : forall e, tokens_of (vector_doc e) = vector_obj e.
Proof.
  intros e. unfold vector_doc, vector_obj. rewrite tokens_of_obj. cbn [map]. rewrite join_cons2, join_one.
  unfold member_toks. cbn [fst snd]. rewrite tokens_of_labels_doc.
  cbn [tokens_of map join wObjectStart wObjectField wMore wArrayStart wRaw wString wArrayEnd wObjectEnd app].
  rewrite <- !app_assoc. reflexivity.
Qed.

Lemma vector_loop_true : forall es, vector_loop es true = flat_map (fun e => TComma :: vector_obj e) es.
Proof. induction es as [|e r IH]; [reflexivity|]. cbn [vector_loop flat_map wMore app]. now rewrite IH. Qed.

Lemma vector_loop_join : forall es, vector_loop es false = join (map tokens_of (map vector_doc es)).
Proof.
  intros [|e r]; [reflexivity|]. cbn [vector_loop map app]. rewrite join_flat, vector_loop_true, tokens_of_vector_doc.
  f_equal. induction r as [|x r IH]; [reflexivity|]. cbn [flat_map map app]. now rewrite IH, tokens_of_vector_doc.
Qed.

Lemma no_fail_batch : forall b, forallb no_fail b = true -> batch_fails b = false.
Proof.
  induction b as [|e r IH]; [reflexivity|]. cbn [forallb batch_fails]. intros H. apply andb_prop in H.
  destruct H as [He Hr]. unfold no_fail in He. destruct (e_err e); try discriminate He; auto.
Qed.
Lemma no_fail_batches : forall bs, forallb (forallb no_fail) bs = true -> existsb batch_fails bs = false.
Proof.
  induction bs as [|b r IH]; [reflexivity|]. cbn [forallb existsb]. intros H. apply andb_prop in H.
  destruct H as [Hb Hr]. now rewrite (no_fail_batch b Hb), (IH Hr).
Qed.

Theorem enc_vector_canonical : forall order bs, forallb (forallb no_fail) bs = true ->
  enc_vector order bs = tokens_of (doc_vector order bs).
Proof.
  intros order bs Hb. unfold enc_vector, doc_vector. rewrite (no_fail_batches bs Hb).
  rewrite tokens_of_response, vector_loop_join. reflexivity.
Qed.

Lemma upd_last_in : forall m e x, In x (upd_last m e) -> In x m \/ x = e.
Proof.
  induction m as [|y r IH]; intros e x H.
  - destruct H as [<-|[]]. now right.
  - cbn [upd_last] in H. destruct (N.eqb (e_fp y) (e_fp e)).
    + destruct H as [H|H]; [|left; now right]. destruct (Z.ltb (e_ts y) (e_ts e)); [right|left; left]; congruence.
    + destruct H as [<-|H]; [left; now left|]. destruct (IH e x H) as [H'|H']; [left; now right|now right].
Qed.
Lemma fold_upd_last_in : forall es m x, In x (fold_left upd_last es m) -> In x m \/ In x es.
Proof.
  induction es as [|e r IH]; intros m x H; [now left|]. cbn [fold_left] in H.
  destruct (IH _ x H) as [H'|H']; [|right; now right].
  destruct (upd_last_in m e x H') as [H''|H'']; [now left|right; left; congruence].
Qed.
Lemma last_values_in : forall es x, In x (last_values es) -> In x es.
Proof. intros es x H. destruct (fold_upd_last_in es [] x H) as [[]|H']. exact H'. Qed.
Lemma find_fp_in : forall f m e, find_fp f m = Some e -> In e m.
Proof. intros f m e H. unfold find_fp in H. apply find_some in H. tauto. Qed.
Lemma pick_in : forall order m x, In x (pick order m) -> In x m.
Proof.
  induction order as [|f r IH]; intros m x H; [destruct H|]. cbn [pick] in H.
  destruct (find_fp f m) as [e|] eqn:E; [|apply IH, H].
  destruct H as [<-|H]; [eapply find_fp_in, E|apply IH, H].
Qed.

Theorem vector_bytes : forall order bs, forallb (forallb no_fail) bs = true ->
  forallb (fun e => num_ok (e_tsf e)) (rows_matrix bs) = true ->
  parse_bytes (render (enc_vector order bs)) = Some (doc_vector order bs).
Proof.
  intros order bs Hb Hn. rewrite (enc_vector_canonical order bs Hb). apply parse_bytes_render.
  unfold doc_vector. rewrite nums_ok_response, forallb_map'. apply forallb_forall. intros e He.
  cbn [vector_doc nums_ok forallb snd]. rewrite nums_ok_labels_doc. cbn [andb]. rewrite !andb_true_r.
  rewrite forallb_forall in Hn. apply Hn. apply last_values_in. eapply pick_in, He.
Qed.

(* the map holds every fingerprint of the rows exactly once, with its latest sample (first one on ties) *)
Lemma upd_last_fps : forall m e,
  map e_fp (upd_last m e) = if existsb (N.eqb (e_fp e)) (map e_fp m) then map e_fp m else map e_fp m ++ [e_fp e].
Proof.
  induction m as [|x r IH]; intros e; [reflexivity|]. cbn [upd_last map existsb].
  rewrite (N.eqb_sym (e_fp e) (e_fp x)). destruct (N.eqb_spec (e_fp x) (e_fp e)) as [E|E].
  - cbn [orb map]. f_equal. destruct (Z.ltb (e_ts x) (e_ts e)); congruence.
  - cbn [orb map]. rewrite IH. destruct (existsb (N.eqb (e_fp e)) (map e_fp r)); reflexivity.
Qed.
Lemma existsb_eqb_in : forall f l, existsb (N.eqb f) l = true <-> In f l.
Proof.
  intros f l. rewrite existsb_exists. split.
  - intros [x [Hx E]]. apply N.eqb_eq in E. now subst.
  - intros H. exists f. split; [exact H|apply N.eqb_refl].
Qed.
Lemma nodup_snoc : forall (l : list N) f, NoDup l -> ~ In f l -> NoDup (l ++ [f]).
Proof.
  induction l as [|y l IH]; intros f H Hn; cbn [app].
  - constructor; [intros []|constructor].
  - inversion H as [|y' l' Hy Hl]; subst. constructor.
    + intros Hi. apply in_app_or in Hi. destruct Hi as [Hi|[Hi|[]]]; [tauto|]. apply Hn. now left.
    + apply IH; [exact Hl|]. intros Hi. apply Hn. now right.
Qed.
Lemma upd_last_nodup : forall m e, NoDup (map e_fp m) -> NoDup (map e_fp (upd_last m e)).
Proof.
  intros m e H. rewrite upd_last_fps. destruct (existsb (N.eqb (e_fp e)) (map e_fp m)) eqn:E; [exact H|].
  apply nodup_snoc; [exact H|]. intros Hi. apply existsb_eqb_in in Hi. congruence.
Qed.
Lemma fold_upd_last_nodup : forall es m, NoDup (map e_fp m) -> NoDup (map e_fp (fold_left upd_last es m)).
Proof. induction es as [|e r IH]; intros m H; [exact H|]. cbn [fold_left]. apply IH, upd_last_nodup, H. Qed.
Theorem last_values_nodup : forall es, NoDup (map e_fp (last_values es)).
Proof. intros es. apply fold_upd_last_nodup. constructor. Qed.

Lemma upd_last_keeps : forall m e f, In f (map e_fp m) \/ f = e_fp e -> In f (map e_fp (upd_last m e)).
Proof.
  intros m e f H. rewrite upd_last_fps. destruct (existsb (N.eqb (e_fp e)) (map e_fp m)) eqn:E.
  - destruct H as [H| ->]; [exact H|]. now apply existsb_eqb_in.
  - apply in_or_app. destruct H as [H| ->]; [now left|right; now left].
Qed.
Lemma fold_upd_last_keeps : forall es m f,
  In f (map e_fp m) \/ In f (map e_fp es) -> In f (map e_fp (fold_left upd_last es m)).
Proof.
  induction es as [|e r IH]; intros m f H; [destruct H as [H|[]]; exact H|]. cbn [fold_left]. apply IH.
  destruct H as [H|[H|H]]; [left; apply upd_last_keeps; now left|left; apply upd_last_keeps; now right|now right].
Qed.
Theorem last_values_complete : forall es f, In f (map e_fp es) -> In f (map e_fp (last_values es)).
Proof. intros es f H. apply fold_upd_last_keeps. now right. Qed.

(* latest: no row of the same fingerprint is newer than the one kept *)
Lemma upd_last_has_new : forall m e, exists x, In x (upd_last m e) /\ e_fp x = e_fp e /\ (e_ts e <= e_ts x)%Z.
Proof.
  induction m as [|a r IH]; intros e.
  - exists e. split; [now left|split; [reflexivity|lia]].
  - cbn [upd_last]. destruct (N.eqb_spec (e_fp a) (e_fp e)) as [E|E].
    + destruct (Z.ltb_spec (e_ts a) (e_ts e)) as [L|L].
      * exists e. split; [now left|split; [reflexivity|lia]].
      * exists a. split; [now left|split; [exact E|lia]].
    + destruct (IH e) as [x [Hx Hp]]. exists x. split; [now right|exact Hp].
Qed.
Lemma upd_last_has_old : forall m e a, In a m ->
  exists x, In x (upd_last m e) /\ e_fp x = e_fp a /\ (e_ts a <= e_ts x)%Z.
Proof.
  induction m as [|b r IH]; intros e a Ha; [destruct Ha|].
  cbn [upd_last]. destruct (N.eqb_spec (e_fp b) (e_fp e)) as [E|E].
  - destruct Ha as [<-|Ha].
    + destruct (Z.ltb_spec (e_ts b) (e_ts e)) as [L|L].
      * exists e. split; [now left|split; [now symmetry|lia]].
      * exists b. split; [now left|split; [reflexivity|lia]].
    + exists a. split; [now right|split; [reflexivity|lia]].
  - destruct Ha as [<-|Ha].
    + exists b. split; [now left|split; [reflexivity|lia]].
    + destruct (IH e a Ha) as [x [Hx Hp]]. exists x. split; [now right|exact Hp].
Qed.

Definition covers (m seen : list entry) : Prop :=
  forall y, In y seen -> exists x, In x m /\ e_fp x = e_fp y /\ (e_ts y <= e_ts x)%Z.
Lemma fold_upd_last_covers : forall es m seen, covers m seen -> covers (fold_left upd_last es m) (seen ++ es).
Proof.
  induction es as [|e r IH]; intros m seen H; [now rewrite app_nil_r|].
  cbn [fold_left]. replace (seen ++ e :: r) with ((seen ++ [e]) ++ r) by now rewrite <- app_assoc.
  apply IH. intros y Hy. apply in_app_or in Hy. destruct Hy as [Hy|[<-|[]]].
  - destruct (H y Hy) as [a [Ha [Hf Ht]]]. destruct (upd_last_has_old m e a Ha) as [x [Hx [Hf' Ht']]].
    exists x. split; [exact Hx|split; [congruence|lia]].
  - apply upd_last_has_new.
Qed.
Lemma nodup_map_inj : forall (l : list entry) a b, NoDup (map e_fp l) -> In a l -> In b l -> e_fp a = e_fp b -> a = b.
Proof.
  induction l as [|x l IH]; intros a b H Ha Hb E; [destruct Ha|].
  cbn [map] in H. inversion H as [|x' l' Hx Hl]; subst.
  destruct Ha as [<-|Ha], Hb as [<-|Hb]; try reflexivity.
  - exfalso. apply Hx. rewrite E. now apply in_map.
  - exfalso. apply Hx. rewrite <- E. now apply in_map.
  - now apply IH.
Qed.
Theorem last_values_latest : forall es x y, In x (last_values es) -> In y es -> e_fp y = e_fp x ->
  (e_ts y <= e_ts x)%Z.
Proof.
  intros es x y Hx Hy E.
  assert (C : covers (last_values es) ([] ++ es)) by (apply fold_upd_last_covers; intros z []).
  destruct (C y Hy) as [x' [Hx' [Hf Ht]]].
  assert (x' = x) by (apply (nodup_map_inj (last_values es)); [apply last_values_nodup|exact Hx'|exact Hx|congruence]).
  now subst.
Qed.

(* with [order] a permutation of the map's fingerprints, the result array holds every fingerprint once *)
Lemma find_fp_fp : forall f m e, find_fp f m = Some e -> e_fp e = f.
Proof. intros f m e H. unfold find_fp in H. apply find_some in H. destruct H as [_ H]. now apply N.eqb_eq in H. Qed.
Lemma pick_fps : forall order m, (forall f, In f order -> In f (map e_fp m)) -> map e_fp (pick order m) = order.
Proof.
  induction order as [|f r IH]; intros m H; [reflexivity|]. cbn [pick].
  destruct (find_fp f m) as [e|] eqn:E.
  - cbn [map]. rewrite (find_fp_fp f m e E), IH; [reflexivity|]. intros g Hg. apply H. now right.
  - exfalso. assert (Hi : In f (map e_fp m)) by (apply H; now left).
    apply in_map_iff in Hi. destruct Hi as [x [Hx Hin]].
    unfold find_fp in E. apply (find_none _ _ E x) in Hin. rewrite Hx, N.eqb_refl in Hin. discriminate.
Qed.

(* ------------------------------------------------------------------------------------------ *)
(* Prometheus responses *)

Lemma sep_loop_true : forall A (item : A -> list token) xs,
  sep_loop item xs true = flat_map (fun x => TComma :: item x) xs.
Proof. intros A item. induction xs as [|x r IH]; [reflexivity|]. cbn [sep_loop flat_map app]. now rewrite IH. Qed.

Lemma sep_loop_join : forall A (item : A -> list token) (doc : A -> json),
  (forall x, tokens_of (doc x) = item x) ->
  forall xs, sep_loop item xs false = join (map tokens_of (map doc xs)).
Proof.
  intros A item doc H [|x r]; [reflexivity|]. cbn [sep_loop map app]. rewrite join_flat, sep_loop_true, H.
  f_equal. induction r as [|y r IH]; [reflexivity|]. cbn [flat_map map app]. now rewrite IH, H.
Qed.

Lemma tokens_of_point_doc : forall p, tokens_of (point_doc p) = prom_point p.
Proof. reflexivity. Qed.

Lemma tokens_of_prom_series_doc : forall s, tokens_of (prom_series_doc s) = prom_series s.
Proof.
  intros s. unfold prom_series_doc, prom_series. rewrite tokens_of_obj. cbn [map]. rewrite join_cons2, join_one.
  unfold member_toks. cbn [fst snd]. rewrite tokens_of_labels_doc, tokens_of_arr.
  rewrite <- (sep_loop_join psample prom_point point_doc tokens_of_point_doc).
  cbn [wObjectStart wObjectField wMore wArrayStart wArrayEnd wObjectEnd app]. rewrite <- !app_assoc.
  cbn [app]. rewrite <- !app_assoc. reflexivity.
Qed.

Lemma tokens_of_prom_sample_doc : forall s, tokens_of (prom_sample_doc s) = prom_sample s.
Proof.
  intros s. unfold prom_sample_doc, prom_sample. rewrite tokens_of_obj. cbn [map]. rewrite join_cons2, join_one.
  unfold member_toks. cbn [fst snd]. rewrite tokens_of_labels_doc.
  destruct (pr_pts s) as [|p r]; cbn [tokens_of map join point_doc prom_point wObjectStart wObjectField wMore wArrayStart
                                     wArrayEnd wObjectEnd wRaw wString app]; rewrite <- !app_assoc; reflexivity.
Qed.

Lemma nums_ok_prom_series : forall s, nums_ok (prom_series_doc s) = forallb (fun p => num_ok (ps_t p)) (pr_pts s).
Proof.
  intros s. unfold prom_series_doc. cbn [nums_ok forallb snd]. rewrite nums_ok_labels_doc, forallb_map'. cbn [andb].
  rewrite andb_true_r. apply forallb_ext'. intros p. cbn [point_doc nums_ok forallb]. now rewrite andb_true_r.
Qed.
Lemma nums_ok_prom_sample : forall s, forallb (fun p => num_ok (ps_t p)) (pr_pts s) = true -> nums_ok (prom_sample_doc s) = true.
Proof.
  intros s H. unfold prom_sample_doc. cbn [nums_ok forallb snd]. rewrite nums_ok_labels_doc. cbn [andb].
  rewrite andb_true_r. destruct (pr_pts s) as [|p r]; [reflexivity|]. cbn [forallb] in H. apply andb_prop in H.
  destruct H as [H _]. cbn [point_doc nums_ok forallb]. now rewrite H.
Qed.

Theorem prom_matrix_bytes : forall ss, series_nums_ok ss = true ->
  parse_bytes (render (enc_prom_matrix ss)) = Some (doc_prom_matrix ss).
Proof.
  intros ss Hn. unfold enc_prom_matrix, doc_prom_matrix.
  rewrite (sep_loop_join pseries prom_series prom_series_doc tokens_of_prom_series_doc), <- tokens_of_response.
  apply parse_bytes_render. rewrite nums_ok_response, forallb_map'. unfold series_nums_ok in Hn.
  erewrite forallb_ext'; [exact Hn|]. intros s. apply nums_ok_prom_series.
Qed.

Theorem prom_vector_bytes : forall ss, series_nums_ok ss = true ->
  parse_bytes (render (enc_prom_vector ss)) = Some (doc_prom_vector ss).
Proof.
  intros ss Hn. unfold enc_prom_vector, doc_prom_vector.
  rewrite (sep_loop_join pseries prom_sample prom_sample_doc tokens_of_prom_sample_doc), <- tokens_of_response.
  apply parse_bytes_render. rewrite nums_ok_response, forallb_map'. unfold series_nums_ok in Hn.
  rewrite forallb_forall in *. intros s Hs. apply nums_ok_prom_sample, Hn, Hs.
Qed.

Theorem prom_scalar_bytes : forall p, num_ok (ps_t p) = true ->
  parse_bytes (render (enc_prom_scalar p)) = Some (doc_prom_scalar p).
Proof.
  intros p Hn. apply parse_bytes_of_prep.
  - unfold enc_prom_scalar, open_response, close_response.
    cbn [wObjectStart wObjectField wString wMore wArrayStart wArrayEnd wObjectEnd app lexable closes all_ws is_ws].
    now rewrite Hn.
  - unfold enc_prom_scalar, doc_prom_scalar. rewrite tokens_of_response. rewrite !prep_app. reflexivity.
Qed.

Theorem prom_error_bytes : forall msg, parse_bytes (render (enc_prom_error msg)) = Some (doc_prom_error msg).
Proof. intros msg. apply (parse_bytes_render (doc_prom_error msg)). reflexivity. Qed.

(* ------------------------------------------------------------------------------------------ *)
(* timestamps of log lines are printed with %d: reading the decimal text back gives the int64 *)
Theorem fmt_d_lossless : forall z,
  match NilZero.int_of_string (fmt_d z) with Some d => Z.of_int d = z | None => False end.
Proof.
  intros z. unfold fmt_d. rewrite NilZero.isi.
  - apply DecimalZ.of_to.
  - destruct z; cbn [Z.to_int]; try discriminate. intros [= E]. now apply (Unsigned.to_uint_nonnil p).
  - destruct z; cbn [Z.to_int]; try discriminate. intros [= E]. now apply (Unsigned.to_uint_nonnil p).
Qed.

(* without contiguity a fingerprint can get two objects (what an upstream stage that regroups rows in
   windows, ResponseOptimizerPlanner, can cause) *)
Definition mk_fp (f : N) : entry :=
  {| e_fp := f; e_lbls := []; e_ts := 0; e_msg := ""; e_tsf := "0"; e_val := "0"; e_err := ENone |}.
Lemma heads_split_example : ~ NoDup (heads [mk_fp 1; mk_fp 2; mk_fp 1]).
Proof. vm_compute. intros H. inversion H as [|x l Hx Hl]; subst. apply Hx. right. now left. Qed.
