(* The life cycle of the promises of the sub-pushes: a promise PSub h i k is created by attempt k of sub-push (h,i),
   is then pending in exactly one place (the open batch or the portion of one worker) or completed (in the store),
   and the sub-push waits for it until it has seen it completed.  Used by the liveness statement (IngestLiveAll.v)
   and by the distinctness of the rows of a block (IngestPromises.v). *)
From Coq Require Import List NArith ZArith Bool Lia Arith Permutation.
From Qryn Require Import model.Ingest model.PushHandler model.IngestSpec model.IngestFresh proofs.IngestBase proofs.IngestAck
  proofs.IngestSpecProofs proofs.IngestHandler.
Import ListNotations.

Definition is_psub (p : pid) : bool := match p with PSub _ _ _ => true | PEnv _ => false end.

(* the pending sub-push promises of one worker (pend: model/IngestFresh.v) *)
Definition lives (sv : svc) : list pid := filter is_psub (map fst (pend sv)).
Definition LL (l : list svc) : list pid := concat (map lives l).

(* ---------------------------------------------------------------- the shapes of a worker step *)
Inductive shape (sv : svc) (a : sact) (sv' : svc) (vs : list sev) : Prop :=
 | ShQuiet : results sv' = results sv -> inflight sv' = inflight sv ->
             (vs = [] \/ exists p r sz ok, a = SRequest p r sz /\ vs = [VDone p r ok]) -> shape sv a sv' vs
 | ShAccept p r sz : a = SRequest p r sz -> results sv' = results sv ++ [(p, r)] -> inflight sv' = inflight sv ->
             vs = [] -> shape sv a sv' vs
 | ShSwap : a = SSwap -> inflight sv = None -> results sv <> [] -> results sv' = [] ->
             inflight sv' = Some {| p_cols := cols sv; p_res := results sv; p_sent := false |} -> vs = [VSwap] -> shape sv a sv' vs
 | ShSend po : a = SSend -> inflight sv = Some po -> p_sent po = false -> results sv' = results sv ->
             inflight sv' = Some {| p_cols := p_cols po; p_res := p_res po; p_sent := true |} -> vs = [VSend (p_cols po)] -> shape sv a sv' vs
 | ShRet po ok : a = SDoReturn ok -> inflight sv = Some po -> p_sent po = true -> results sv' = results sv -> inflight sv' = None ->
             vs = VRet ok :: map (fun pr => VDone (fst pr) (snd pr) ok) (p_res po) -> shape sv a sv' vs.

Lemma sstep_shape sv a sv' vs : sstep sv a = Some (sv', vs) -> shape sv a sv' vs /\ kd sv' = kd sv /\ grp sv' = grp sv.
Proof.
  intros H. destruct a as [p r sz| |ok| | |ok| |]; cbn in H.
  - destruct (running sv); cbn in H.
    + destruct (eff (kd sv) r) as [r'|]; [|discriminate]. destruct (Nat.eqb _ 0); inversion H; subst; cbn.
      * split; [|auto]. apply ShQuiet; auto. right. eauto 6.
      * split; [|auto]. eapply ShAccept; eauto.
    + inversion H; subst. split; [|auto]. apply ShQuiet; auto. right. eauto 6.
  - inversion H; subst. split; [|auto]. apply ShQuiet; auto.
  - destruct (_ && _); inversion H; subst. split; [|auto]. apply ShQuiet; auto.
  - destruct (loop_ready sv && client sv) eqn:E; [|discriminate]. destruct (is_nil (results sv)) eqn:N; inversion H; subst; cbn.
    + split; [|auto]. apply ShQuiet; auto.
    + split; [|auto]. apply ShSwap; auto.
      * unfold loop_ready in E. destruct (inflight sv); [|reflexivity]. cbn in E. rewrite !andb_false_r in E. discriminate.
      * intros X. rewrite X in N. discriminate.
  - destruct (inflight sv) as [po|] eqn:I; [|discriminate]. destruct (p_sent po) eqn:S; inversion H; subst; cbn.
    split; [|auto]. eapply ShSend; eauto.
  - destruct (inflight sv) as [po|] eqn:I; [|discriminate]. destruct (p_sent po) eqn:S; cbn in H; inversion H; subst; cbn.
    split; [|auto]. eapply ShRet; eauto.
  - destruct (is_none (inflight sv)); inversion H; subst. split; [|auto]. apply ShQuiet; auto.
  - inversion H; subst. split; [|auto]. apply ShQuiet; auto.
Qed.

(* ---------------------------------------------------------------- lists *)
Lemma upd_split {A} (l : list A) s x y : nth_error l s = Some x -> upd s y l = firstn s l ++ y :: skipn (S s) l.
Proof.
  revert s; induction l as [|a l IH]; intros [|s] H; cbn in *; try discriminate; [reflexivity|]. f_equal. auto.
Qed.
Lemma nth_split_eq {A} (l : list A) s x : nth_error l s = Some x -> l = firstn s l ++ x :: skipn (S s) l.
Proof.
  revert s; induction l as [|a l IH]; intros [|s] H; cbn in *; try discriminate.
  - inversion H; reflexivity.
  - f_equal. auto.
Qed.
Lemma LL_app a b : LL (a ++ b) = LL a ++ LL b.
Proof. unfold LL. now rewrite map_app, concat_app. Qed.
Lemma LL_cons x l : LL (x :: l) = lives x ++ LL l.
Proof. reflexivity. Qed.

Lemma LL_in l p : In p (LL l) <-> exists s sv, nth_error l s = Some sv /\ In p (lives sv).
Proof.
  split.
  - intros H. unfold LL in H. apply in_concat in H as (x & Hx & Hp). apply in_map_iff in Hx as (sv & <- & Hsv).
    apply In_nth_error in Hsv as (s & Hs). eauto.
  - intros (s & sv & Hs & Hp). unfold LL. apply in_concat. exists (lives sv). split; [|assumption].
    apply in_map. eapply nth_error_In; eauto.
Qed.
Lemma lives_in sv p : In p (lives sv) <-> is_psub p = true /\ exists r, In (p, r) (pend sv).
Proof.
  unfold lives. rewrite filter_In. split.
  - intros [H1 H2]. split; [assumption|]. apply in_map_iff in H1 as ([q r] & E & Hin). cbn in E. subst q. eauto.
  - intros [H1 (r & H2)]. split; [|assumption]. apply in_map_iff. exists (p, r). auto.
Qed.

(* the store after a burst of effects *)
Lemma apply_sevs_store s k : forall vs st st' es, apply_sevs s k st vs = (st', es) ->
  forall p, in_store p st' = in_store p st || existsb (pid_eqb p) (map fst (dones vs)).
Proof.
  induction vs as [|v vs IH]; intros st st' es H p; cbn in H.
  - inversion H; subst. cbn. now rewrite orb_false_r.
  - destruct v as [|b|ok|q r ok].
    + destruct (apply_sevs s k st vs) as [st1 es1] eqn:E. inversion H; subst. exact (IH _ _ _ E p).
    + destruct (apply_sevs s k st vs) as [st1 es1] eqn:E. inversion H; subst. exact (IH _ _ _ E p).
    + destruct (apply_sevs s k st vs) as [st1 es1] eqn:E. inversion H; subst. exact (IH _ _ _ E p).
    + cbn [dones map fst existsb]. destruct (in_store q st) eqn:Hin.
      * rewrite (IH _ _ _ H p). destruct (pid_eqb p q) eqn:Epq; [|reflexivity].
        apply pid_eqb_eq in Epq. subst q. rewrite Hin. reflexivity.
      * destruct (apply_sevs s k ((q, (k, r, ok)) :: st) vs) as [st1 es1] eqn:E. inversion H; subst.
        rewrite (IH _ _ _ E p), in_store_cons. destruct (pid_eqb p q), (in_store p st); reflexivity.
Qed.

Definition sub_at (H : list handler) (h i : nat) : option subpush :=
  match nth_error H h with Some hd => nth_error (h_subs hd) i | None => None end.

Lemma sub_at_nil h i : sub_at [] h i = None.
Proof. unfold sub_at. destruct h; reflexivity. Qed.

