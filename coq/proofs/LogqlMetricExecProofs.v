(* C08: the execution model on the two corpus witnesses, inside Coq (the check runs the same functions through the OCaml
   extraction on generated cases), and the text parser of SqlEvalAgg pinned on the fragments the planners print. *)
From Coq Require Import List ZArith NArith QArith String Bool.
From Qryn Require Import lib.Strs model.Sql model.Logql model.LogqlPlan model.SqlEval model.LogqlSem model.LogqlMetricSem
  model.LogqlMetricE2E model.SqlEvalAgg model.LogqlMetricExec proofs.LogqlMetricE2EProofs.
Import ListNotations.
Open Scope string_scope.

Example parse_count : parse_tx 6 "toFloat64(COUNT())" = TCall "toFloat64" [TCall "COUNT" []].
Proof. reflexivity. Qed.
Example parse_bytes : parse_tx 6 "toFloat64(sum(length(_string)))" = TCall "toFloat64" [TCall "sum" [TCall "length" [TId "_string"]]].
Proof. reflexivity. Qed.
Example parse_argmin : parse_tx 6 "argMin(unwrap_1.value, unwrap_1.timestamp_ns)" = TCall "argMin" [TId "unwrap_1.value"; TId "unwrap_1.timestamp_ns"].
Proof. reflexivity. Qed.
Example parse_path : parse_tx 6 "time_series.timestamp_ns" = TId "time_series.timestamp_ns" /\ parse_tx 6 "''" = TStr "".
Proof. split; reflexivity. Qed.
Example dec_q_examples : dec_q "0.0015" = Some (3 # 2000)%Q /\ dec_q "5" = Some (5 # 1)%Q /\ dec_q "1.000000" = Some (1 # 1)%Q /\ dec_q "x" = None.
Proof. repeat split; reflexivity. Qed.

(* the statement planned for rate({a="b"} | drop c [5s]), executed over the two streams {a="b",c="1"}, {a="b",c="2"}: the
   reference's one series, under both orders of ties *)
Theorem exec_drop_witness :
  exec_verdict tie_id dk_script dk_ctx dk_db = 0%Z /\ exec_verdict tie_rev dk_script dk_ctx dk_db = 0%Z /\
  option_map (map out_of_row) (exec_rows tie_id dk_script dk_ctx dk_db) = Some [Some ([("a", "b")], 1700000000000000000%Z, (2 # 5)%Q)].
Proof. repeat split; vm_compute; reflexivity. Qed.

(* the statement planned for sum(rate({a="b"}[5s])) as the reader hands it to the planners (norm_script: `by ()`), executed over
   the same streams: the definition's ONE series {} with 0.4 (before the repair of agg-without-grouping-keeps-streams the planners
   got the script as written and the statement answered one series per stream: exec_verdict_def = 1) *)
Theorem exec_agg_without_grouping_witness :
  exec_verdict tie_id (norm_script ng_script) dk_ctx dk_db = 0%Z /\ exec_verdict tie_rev (norm_script ng_script) dk_ctx dk_db = 0%Z /\
  option_map (map out_of_row) (exec_rows tie_id (norm_script ng_script) dk_ctx dk_db) = Some [Some ([], 1700000000000000000%Z, (2 # 5)%Q)] /\
  option_map (map (fun r => (v_labels r, v_ts r, Qcanon.this (v_val r)))) (ref_rows_def ng_script dk_ctx dk_db) = Some [([], 1700000000000000000%Z, (2 # 5)%Q)].
Proof. repeat split; vm_compute; reflexivity. Qed.
