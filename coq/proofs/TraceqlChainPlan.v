(* Property C11, selector chains, part 5: planComplex (planner.go), the pointer walk that turns a chain  S1 op S2 op ...  into the
   tree of && / || planners, and the reference meaning of the chain.
     - the tree under construction as a zipper (plug outer hole): addOp at the current node, the move to its last operand and the
       new || root are list operations on the frames;
     - plan_tree: the tree planComplex returns has two operands per node, every selector inside it is one of the chain, and its
       meaning ep_sem is G K sc -- a recursion over the rest of the chain carrying the context K of the current node;
     - G_sem: that recursion is the reference meaning traceql_sem (&& binds tighter than ||; the planner nests || to the left, the
       reference to the right: or_assoc), up to deq;
     - traceql_correct_chain: for EVERY chain of selectors, the planned statement evaluated up to index_grouped is accepted by
       result_ok against traceql_sem. *)
From Coq Require Import List ZArith NArith QArith String Ascii Bool Lia Permutation.
From Qryn Require Import model.TqSql model.Traceql model.TraceqlPlan model.TraceqlSem model.TraceqlCase
     proofs.TraceqlEvalProofs proofs.TraceqlBridgeLib proofs.TraceqlIndexSearchProofs proofs.TraceqlGroupedProofs
     proofs.TraceqlTopkProofs proofs.TraceqlCorrectProofs proofs.TraceqlAggProofs
     proofs.TraceqlChainSem proofs.TraceqlChainSql proofs.TraceqlChainComb proofs.TraceqlChainProofs.
Import ListNotations.
Open Scope string_scope.
Open Scope list_scope.
Open Scope nat_scope.

(* ================================================================ the zipper *)
Definition frame := (string * andor * list ep)%type.
Definition plug (outer : list frame) (t : ep) : ep :=
  fold_right (fun fr child => EPComplex (fst (fst fr)) (snd (fst fr)) (snd fr ++ [child])) t outer.
Definition opath (outer : list frame) : list nat := map (fun fr : frame => List.length (snd fr)) outer.

Lemma upd_nth_last {A} (g : A -> A) l x : upd_nth g (List.length l) (l ++ [x]) = l ++ [g x].
Proof. induction l as [|y l IH]; [reflexivity|]. cbn [List.length app upd_nth]. f_equal. exact IH. Qed.
Lemma nth_error_last {A} (l : list A) x : nth_error (l ++ [x]) (List.length l) = Some x.
Proof. induction l as [|y l IH]; [reflexivity|]. exact IH. Qed.

Lemma add_plug outer node p f ops :
  add_op_at (opath outer) node (plug outer (EPComplex p f ops)) = plug outer (EPComplex p f (ops ++ [node])).
Proof.
  induction outer as [|fr outer IH]; [reflexivity|]. cbn [opath map plug fold_right add_op_at]. f_equal.
  rewrite upd_nth_last. f_equal. f_equal. exact IH.
Qed.
Lemma node_plug outer t : node_at (opath outer) (plug outer t) = Some t.
Proof.
  induction outer as [|fr outer IH]; [destruct t; reflexivity|]. cbn [opath map plug fold_right node_at]. rewrite nth_error_last. exact IH.
Qed.
Lemma plug_app outer (fr : frame) t : plug (outer ++ [fr]) t = plug outer (EPComplex (fst (fst fr)) (snd (fst fr)) (snd fr ++ [t])).
Proof. unfold plug. now rewrite fold_right_app. Qed.
Lemma opath_app outer (fr : frame) : opath (outer ++ [fr]) = opath outer ++ [List.length (snd fr)].
Proof. unfold opath. now rewrite map_app. Qed.

Definition is_complex (t : ep) : bool := match t with EPComplex _ _ _ => true | EPSimple _ _ => false end.
Lemma plug_complex outer p f ops : is_complex (plug outer (EPComplex p f ops)) = true.
Proof. destruct outer; reflexivity. Qed.

(* the guards on a chain: every selector inside the guards of the one-selector theorems; an operator wherever a selector follows *)
Fixpoint chain_ok (s : script) : Prop :=
  match s with
  | Script h ao tl => sel_ok h /\ match tl with Some s' => ao <> AONone /\ chain_ok s' | None => True end
  end.

Section LINK.
  Variable re_match : string -> string -> bool.
  Variable parse_float : string -> option Q.
  Variable c : ctx.
  Variable d : db.
  Notation SEM := (sel_sem re_match parse_float false c d).
  Notation EPS := (ep_sem re_match parse_float c d).
  Notation AR := (and_run re_match parse_float false c d).
  Notation SSF := (script_sem_fuel re_match parse_float false).

  Definition opf (f : andor) (a b : list tres) : list tres := if tg f then and_sem a b else or_sem a b.
  Definition frame_ok (fr : frame) : Prop := snd (fst fr) <> AONone /\ exists a, snd fr = [a] /\ ep_ok a.
  Definition kctx (outer : list frame) (X : list tres) : list tres :=
    fold_right (fun (fr : frame) child => match snd fr with [a] => opf (snd (fst fr)) (EPS a) child | _ => [] end) X outer.

  Lemma eps_plug outer t : Forall frame_ok outer -> EPS (plug outer t) = kctx outer (EPS t).
  Proof.
    induction 1 as [|fr outer [Hf [a [Ha Hoa]]] _ IH]; [reflexivity|]. cbn [plug kctx fold_right]. fold (plug outer t). fold (kctx outer (EPS t)).
    rewrite Ha. cbn [app ep_sem]. now rewrite IH.
  Qed.
  Lemma ok_plug outer t : Forall frame_ok outer -> ep_ok t -> ep_ok (plug outer t).
  Proof.
    induction 1 as [|fr outer [Hf [a [Ha Hoa]]] _ IH]; intros Ht; [exact Ht|]. cbn [plug fold_right]. fold (plug outer t).
    rewrite Ha. cbn [app ep_ok]. split; [exact Hf|]. split; [exact Hoa|now apply IH].
  Qed.
  Lemma kctx_app outer fr X : kctx (outer ++ [fr]) X = kctx outer (match snd fr with [a] => opf (snd (fst fr)) (EPS a) X | _ => [] end).
  Proof. unfold kctx. now rewrite fold_right_app. Qed.

  (* the meaning of the rest of a chain inside the context K of the current node *)
  Fixpoint G (K : list tres -> list tres) (sc : script) : list tres :=
    match sc with
    | Script h ao tl =>
        match tl with
        | None => K (SEM h)
        | Some s' =>
            match ao with
            | AONone => K (SEM h)
            | AOAnd => G (fun X => K (and_sem (SEM h) X)) s'
            | AOOr => G (fun X => or_sem (K (SEM h)) X) s'
            end
        end
    end.
  Lemma G_ext : forall sc K K', (forall X, K X = K' X) -> G K sc = G K' sc.
  Proof.
    fix IH 1. intros [h ao [s'|]] K K' E; cbn [G]; [|apply E]. destruct ao; [apply E| |].
    - apply IH. intros X. apply E.
    - apply IH. intros X. now rewrite E.
  Qed.

  (* ---------- planComplex below the root ---------- *)
  Lemma plan_tree : forall sc outer p f a cnt t cnt',
    Forall frame_ok outer -> f <> AONone -> ep_ok a -> chain_ok sc ->
    plan_complex (Some (plug outer (EPComplex p f [a]))) cnt (Some (opath outer)) sc = Some (Some t, cnt') ->
    ep_ok t /\ is_complex t = true /\ EPS t = G (fun X => kctx outer (opf f (EPS a) X)) sc.
  Proof.
    fix IH 1. intros [h ao tl] outer p f a cnt t cnt' Hout Hf Ha Hch Hp.
    cbn [chain_ok] in Hch. destruct Hch as [Hh Htl].
    destruct tl as [s'|].
    - destruct Htl as [Hao Hs']. destruct ao; [congruence| |].
      + (* && : a new && node under the current one, the walk moves into it *)
        cbn [plan_complex] in Hp. rewrite add_plug, node_plug in Hp. cbn [app List.length Nat.pred] in Hp.
        set (node := EPComplex (prefix_of (cnt + 1)) AOAnd [EPSimple (Script h AOAnd (Some s')) (prefix_of (cnt + 2))]) in *.
        assert (E1 : plug outer (EPComplex p f [a; node]) = plug (outer ++ [(p, f, [a])]) node) by (rewrite plug_app; reflexivity).
        assert (E2 : opath outer ++ [1] = opath (outer ++ [(p, f, [a])])) by (rewrite opath_app; reflexivity).
        rewrite E1, E2 in Hp. unfold node in Hp.
        assert (Hout' : Forall frame_ok (outer ++ [(p, f, [a])])).
        { apply Forall_app. split; [assumption|]. constructor; [|constructor]. split; [exact Hf|]. exists a. split; [reflexivity|exact Ha]. }
        destruct (IH s' _ _ AOAnd (EPSimple (Script h AOAnd (Some s')) (prefix_of (cnt + 2))) _ t cnt' Hout' ltac:(discriminate) Hh Hs' Hp) as [H1 [H2 H3]].
        split; [exact H1|]. split; [exact H2|]. rewrite H3. cbn [G]. apply G_ext. intros X. rewrite kctx_app. reflexivity.
      + (* || : the selector closes the current node; a new || root above everything built so far *)
        cbn [plan_complex] in Hp. rewrite add_plug in Hp. cbn [app] in Hp.
        set (t1 := plug outer (EPComplex p f [a; EPSimple (Script h AOOr (Some s')) (prefix_of (cnt + 1))])) in *.
        assert (Ht1 : ep_ok t1).
        { unfold t1. apply ok_plug; [assumption|]. cbn [ep_ok]. split; [exact Hf|]. split; [exact Ha|exact Hh]. }
        change (Some (@nil nat)) with (Some (opath [])) in Hp. change (EPComplex (prefix_of (cnt + 2)) AOOr [t1]) with (plug [] (EPComplex (prefix_of (cnt + 2)) AOOr [t1])) in Hp.
        destruct (IH s' [] _ AOOr t1 _ t cnt' (Forall_nil _) ltac:(discriminate) Ht1 Hs' Hp) as [H1 [H2 H3]].
        split; [exact H1|]. split; [exact H2|]. rewrite H3. cbn [G]. apply G_ext. intros X. cbn [kctx fold_right]. unfold opf at 1. cbn [tg].
        unfold t1. rewrite (eps_plug outer _ Hout). reflexivity.
    - (* the last selector *)
      cbn [plan_complex] in Hp. rewrite add_plug in Hp. cbn [app] in Hp. injection Hp as <- _.
      split; [|split].
      + apply ok_plug; [assumption|]. cbn [ep_ok]. split; [exact Hf|]. split; [exact Ha|exact Hh].
      + apply plug_complex.
      + rewrite (eps_plug outer _ Hout). reflexivity.
  Qed.

  (* ---------- planComplex from the root ---------- *)
  Lemma plan_root h ao s' t cnt' :
    chain_ok (Script h ao (Some s')) -> plan_complex None 0 None (Script h ao (Some s')) = Some (Some t, cnt') ->
    ep_ok t /\ is_complex t = true /\ EPS t = G (fun X => X) (Script h ao (Some s')).
  Proof.
    intros Hch Hp. cbn [chain_ok] in Hch. destruct Hch as [Hh [Hao Hs']]. destruct ao; [congruence| |]; cbn [plan_complex] in Hp.
    - change (Some (@nil nat)) with (Some (opath [])) in Hp.
      change (EPComplex (prefix_of (0 + 1)) AOAnd [EPSimple (Script h AOAnd (Some s')) (prefix_of (0 + 2))])
        with (plug [] (EPComplex (prefix_of (0 + 1)) AOAnd [EPSimple (Script h AOAnd (Some s')) (prefix_of (0 + 2))])) in Hp.
      destruct (plan_tree s' [] _ AOAnd (EPSimple (Script h AOAnd (Some s')) (prefix_of (0 + 2))) _ t cnt' (Forall_nil _) ltac:(discriminate) Hh Hs' Hp) as [H1 [H2 H3]].
      split; [exact H1|]. split; [exact H2|]. rewrite H3. cbn [G]. apply G_ext. intros X. reflexivity.
    - change (Some (@nil nat)) with (Some (opath [])) in Hp.
      change (EPComplex (prefix_of (0 + 2)) AOOr [EPSimple (Script h AOOr (Some s')) (prefix_of (0 + 1))])
        with (plug [] (EPComplex (prefix_of (0 + 2)) AOOr [EPSimple (Script h AOOr (Some s')) (prefix_of (0 + 1))])) in Hp.
      destruct (plan_tree s' [] _ AOOr (EPSimple (Script h AOOr (Some s')) (prefix_of (0 + 1))) _ t cnt' (Forall_nil _) ltac:(discriminate) Hh Hs' Hp) as [H1 [H2 H3]].
      split; [exact H1|]. split; [exact H2|]. rewrite H3. cbn [G]. apply G_ext. intros X. reflexivity.
  Qed.

  (* ---------- G is the reference meaning ---------- *)
  Lemma sel_sem_tnodup h : tnodup (SEM h).
  Proof.
    unfold sel_sem, tnodup. destruct (sel_attr h) as [e|]; [|constructor].
    set (matched := filter _ (spans_of c d)). cbv zeta.
    set (traces := nodup_by String.eqb (map sp_trace matched) []).
    assert (Hnd : NoDup traces) by apply NoDup_nodup_by_str.
    induction traces as [|t l IH]; [constructor|]. inversion Hnd as [|? ? Ht Hnd']; subst. cbn [flat_map]. rewrite map_app.
    assert (Hin : forall x, In x (map t_trace (flat_map (fun t0 => if match sel_agg h with Some g => agg_sem parse_float false g (filter (fun sp => String.eqb (sp_trace sp) t0) matched) | None => true end
                                                                  then [{| t_trace := t0; t_spans := map sp_span (filter (fun sp => String.eqb (sp_trace sp) t0) matched);
                                                                           t_key := Zmax_l (map sp_ts (filter (fun sp => String.eqb (sp_trace sp) t0) matched)) |}] else []) l)) -> In x l).
    { intros x Hx. apply in_map_iff in Hx. destruct Hx as [y [<- Hy]]. apply in_flat_map in Hy. destruct Hy as [t0 [Ht0 Hy]].
      destruct (match sel_agg h with Some g => _ | None => true end); [|destruct Hy]. destruct Hy as [<-|[]]. exact Ht0. }
    destruct (match sel_agg h with Some g => _ | None => true end).
    - cbn [map app t_trace]. constructor; [|now apply IH]. intros Hx. apply Ht. now apply Hin.
    - cbn [map app]. now apply IH.
  Qed.

  Lemma and_run_tnodup : forall s, tnodup (fst (AR s)).
  Proof.
    fix IH 1. intros [h ao [s'|]]; cbn [and_run]; [|destruct ao; apply sel_sem_tnodup].
    destruct ao; [apply sel_sem_tnodup| |apply sel_sem_tnodup].
    specialize (IH s'). destruct (AR s') as [r rest]. cbn [fst] in *. apply tnodup_and. apply sel_sem_tnodup.
  Qed.
  Lemma and_run_rest_len : forall s r s', AR s = (r, Some s') -> script_len s' < script_len s.
  Proof.
    fix IH 1. intros [h ao [s1|]] r s' H; cbn [and_run] in H; [|destruct ao; discriminate].
    destruct ao; [discriminate| |].
    - specialize (IH s1). destruct (AR s1) as [r1 rest1]. injection H as _ ->. specialize (IH r1 s' eq_refl). cbn [script_len]. lia.
    - injection H as _ <-. cbn [script_len]. lia.
  Qed.
  Lemma script_len_pos s : 1 <= script_len s.
  Proof. destruct s as [h ao [s'|]]; cbn [script_len]; lia. Qed.

  Lemma SSF_S f s : SSF (S f) c d s = let '(r, rest) := AR s in match rest with None => r | Some s' => or_sem r (SSF f c d s') end.
  Proof. reflexivity. Qed.
  Lemma fuel_irrel : forall f1 f2 s, script_len s <= f1 -> script_len s <= f2 -> SSF f1 c d s = SSF f2 c d s.
  Proof.
    induction f1 as [|f1 IH]; intros f2 s H1 H2; [pose proof (script_len_pos s); lia|].
    destruct f2 as [|f2]; [pose proof (script_len_pos s); lia|]. rewrite !SSF_S.
    destruct (AR s) as [r [s'|]] eqn:E; [|reflexivity]. pose proof (and_run_rest_len s r s' E). f_equal. apply IH; lia.
  Qed.
  Definition SS (s : script) : list tres := traceql_sem re_match parse_float false c d s.
  Lemma SS_unfold s : SS s = let '(r, rest) := AR s in match rest with None => r | Some s' => or_sem r (SS s') end.
  Proof.
    unfold SS, traceql_sem. rewrite (SSF_S (script_len s) s). destruct (AR s) as [r [s'|]] eqn:E; [|reflexivity].
    pose proof (and_run_rest_len s r s' E). f_equal. apply fuel_irrel; lia.
  Qed.
  Lemma SS_tnodup : forall n s, script_len s <= n -> tnodup (SS s).
  Proof.
    induction n as [|n IH]; intros s Hn; [pose proof (script_len_pos s); lia|]. rewrite SS_unfold.
    pose proof (and_run_tnodup s) as Hr. destruct (AR s) as [r [s'|]] eqn:E; cbn [fst] in Hr; [|exact Hr].
    pose proof (and_run_rest_len s r s' E). apply tnodup_or; [exact Hr|]. apply IH. lia.
  Qed.

  Definition Kgood (K : list tres -> list tres) : Prop := forall X, tnodup X -> tnodup (K X).

  Lemma G_sem : forall sc K, Kgood K ->
    deq (G K sc) (let '(r, rest) := AR sc in match rest with None => K r | Some s' => or_sem (K r) (SS s') end).
  Proof.
    fix IH 1. intros [h ao [s'|]] K HK.
    - destruct ao.
      + cbn [G and_run]. apply deq_refl. apply HK. apply sel_sem_tnodup.
      + (* && *)
        cbn [G and_run].
        assert (HK' : Kgood (fun X => K (and_sem (SEM h) X))) by (intros X HX; apply HK; apply tnodup_and; apply sel_sem_tnodup).
        pose proof (IH s' _ HK') as H. destruct (AR s') as [r rest]. exact H.
      + (* || *)
        cbn [G and_run].
        assert (HV : tnodup (K (SEM h))) by (apply HK; apply sel_sem_tnodup).
        assert (HK' : Kgood (fun X => or_sem (K (SEM h)) X)) by (intros X HX; now apply tnodup_or).
        pose proof (IH s' _ HK') as H. rewrite (SS_unfold s').
        pose proof (and_run_tnodup s') as Hr. destruct (AR s') as [r [s''|]] eqn:E; cbn [fst] in Hr; [|exact H].
        eapply deq_trans; [exact H|]. apply or_assoc; [exact HV|exact Hr|]. apply (SS_tnodup (script_len s'')). lia.
    - cbn [G and_run]. destruct ao; apply deq_refl; apply HK; apply sel_sem_tnodup.
  Qed.

  Theorem tree_is_chain h ao s' t cnt' :
    chain_ok (Script h ao (Some s')) -> plan_complex None 0 None (Script h ao (Some s')) = Some (Some t, cnt') ->
    ep_ok t /\ is_complex t = true /\ deq (EPS t) (SS (Script h ao (Some s'))).
  Proof.
    intros Hch Hp. destruct (plan_root h ao s' t cnt' Hch Hp) as [H1 [H2 H3]]. split; [exact H1|]. split; [exact H2|].
    rewrite H3, SS_unfold. apply (G_sem (Script h ao (Some s')) (fun X => X)). intros X HX. exact HX.
  Qed.
End LINK.

(* ================================================================ the theorem *)
Lemma eval_until_g_gf re pf h c d target : forall withs cte,
  eval_until_g re pf h c d target withs cte = eval_until_gf re pf h 12 c d target withs cte.
Proof. induction withs as [|[a q] r IH]; intros cte; [reflexivity|]. cbn [eval_until_g eval_until_gf]. destruct (eval_sel _ _ _ _ 12 cte false q); [|reflexivity]. destruct (String.eqb a target); [reflexivity|apply IH]. Qed.
Lemma index_rows_g_gf re pf h c d s : index_rows_g re pf h c d s = index_rows_gf re pf h 12 c d s.
Proof. unfold index_rows_g, index_rows_gf. now rewrite eval_until_g_gf. Qed.

(* the statement fuel a chain needs: 2 per && / || node on the deepest path of the planner's tree, + 1 *)
Definition chain_need (q : script) : nat :=
  match plan_complex None 0 None q with Some (Some t, _) => ep_need t | _ => 0 end.

Section FINAL.
  Variable re_match : string -> string -> bool.
  Variable parse_float : string -> option Q.
  Variable hash64 : string -> Z.
  Variable c : ctx.
  Variable d : db.
  Hypothesis Hrf : rf_max c = 0%Z.
  Hypothesis Hcons : db_consistent c d.
  Hypothesis Hcap : spans_capped c d.

  Theorem traceql_correct_chain_fuel q n s F :
    chain_ok q -> sc_tail q <> None -> plan q MSearch c n = Ok s -> chain_need q <= S F ->
    exists res, index_rows_gf re_match parse_float hash64 F c d s = Some res
                /\ result_ok c (traceql_sem re_match parse_float false c d q) res = true.
  Proof.
    intros Hch Htl Hplan HF. destruct q as [h ao [s'|]]; [|cbn in Htl; congruence].
    unfold plan, plan_search, plan_index in Hplan. cbn [sc_tail] in Hplan. unfold chain_need in HF.
    destruct (plan_complex None 0 None (Script h ao (Some s'))) as [[[t|] cnt']|] eqn:Ep; try discriminate.
    destruct (tree_is_chain re_match parse_float c d h ao s' t cnt' Hch Ep) as [Hok [Hcx Hdeq]].
    destruct (ep_check t) as [[]|?|]; cbn [bind] in Hplan; try discriminate.
    destruct (ep_process c n t) as [y|?|] eqn:Ey; cbn [bind] in Hplan; try discriminate. injection Hplan as <-.
    destruct t as [sx px|p fn ops]; [discriminate|].
    destruct ops as [|a [|b [|x ops]]]; cbn [ep_ok] in Hok; try contradiction.
    exact (tree_correct re_match parse_float hash64 c d Hrf Hcons Hcap n p fn a b y F _ Hok Ey HF Hdeq).
  Qed.

  (* with the fuel of the run-time oracle (index_rows_g: 12): chains whose tree nests at most five && / || nodes below the root *)
  Corollary traceql_correct_chain q n s :
    chain_ok q -> sc_tail q <> None -> plan q MSearch c n = Ok s -> chain_need q <= 13 ->
    exists res, index_rows_g re_match parse_float hash64 c d s = Some res
                /\ result_ok c (traceql_sem re_match parse_float false c d q) res = true.
  Proof. intros H1 H2 H3 H4. rewrite index_rows_g_gf. exact (traceql_correct_chain_fuel q n s 12 H1 H2 H3 H4). Qed.
End FINAL.

(* ================================================================ the guards as booleans (evidence counter: which harness cases lie inside the theorem) *)
Definition sel_ok_b (h : selector) : bool :=
  match sel_attr h with
  | Some e =>
      let a := analyze_cond e ([], []) in
      keys_ok e && forallb term_lit_ok (fst (snd a)) && Nat.leb (List.length (fst (snd a))) 64 && Nat.leb (cond_depth (fst a)) 28 && lits_exact e
      && match sel_agg h with None => true | Some ag => agg_guard ag && agg_lit_exact ag end
  | None => false
  end.
Fixpoint chain_ok_b (s : script) : bool :=
  match s with
  | Script h ao tl => sel_ok_b h && match tl with Some s' => negb (match ao with AONone => true | _ => false end) && chain_ok_b s' | None => true end
  end.
Lemma sel_ok_b_sound h : sel_ok_b h = true -> sel_ok h.
Proof.
  unfold sel_ok_b, sel_ok. destruct (sel_attr h) as [e|]; [|discriminate]. intros H.
  repeat (apply andb_true_iff in H; destruct H as [H ?]). exists e. split; [reflexivity|]. split; [assumption|]. split; [assumption|].
  split; [now apply Nat.leb_le|]. split; [now apply Nat.leb_le|]. split; [assumption|].
  destruct (sel_agg h) as [ag|]; [|exact I]. now apply andb_true_iff.
Qed.
Lemma chain_ok_b_sound : forall s, chain_ok_b s = true -> chain_ok s.
Proof.
  fix IH 1. intros [h ao [s'|]] H; cbn [chain_ok_b chain_ok] in *; apply andb_true_iff in H; destruct H as [H1 H2]; (split; [now apply sel_ok_b_sound|]); [|exact I].
  apply andb_true_iff in H2. destruct H2 as [H2 H3]. split; [destruct ao; [discriminate|discriminate..]|now apply IH].
Qed.
