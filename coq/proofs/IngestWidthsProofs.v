(* C02: which requests reach ColFixedStr.Append with a wrong width -- exactly those holding an id of another width; none that
   onSpan builds. *)
From Coq Require Import List String ZArith NArith Bool Lia.
From Qryn Require Import model.Spans model.IngestWidths.
From Qryn Require Import model.IngestRobust model.IngestPipe model.IngestBridge.
Import ListNotations.
Local Open Scope nat_scope.
Local Open Scope string_scope.

Lemma fixed_append_arr_none w arr : forall buf,
  fixed_append_arr w buf arr = None <-> exists b, In b arr /\ String.length b <> w.
Proof.
  induction arr as [|b r IH]; intros buf; cbn [fixed_append_arr]; [split; [discriminate|intros (x & [] & _)]|].
  unfold fixed_append. destruct (Nat.eqb (String.length b) w) eqn:E.
  - apply Nat.eqb_eq in E. rewrite IH. split; intros (x & Hx & N); [exists x; split; [now right|exact N]|].
    destruct Hx as [<-|Hx]; [contradiction|exists x; auto].
  - apply Nat.eqb_neq in E. split; [intros _; exists b; split; [now left|exact E]|reflexivity].
Qed.

(* ProcessRequest of the span / tag service dies exactly when the request holds a trace id that is not 16 bytes or a span id
   that is not 8 bytes wide *)
Theorem span_request_panics_iff tbuf sbuf rows :
  process_span_ids tbuf sbuf rows = None <->
  exists r, In r rows /\ (String.length (t_trace r) <> 16 \/ String.length (t_span r) <> 8).
Proof.
  unfold process_span_ids. destruct (fixed_append_arr 16 tbuf (map t_trace rows)) as [t|] eqn:E1.
  - destruct (fixed_append_arr 8 sbuf (map t_span rows)) as [s|] eqn:E2.
    + split; [discriminate|]. intros (r & Hr & [N|N]); exfalso.
      * assert (X : fixed_append_arr 16 tbuf (map t_trace rows) = None) by (apply fixed_append_arr_none; exists (t_trace r); split; [now apply in_map|exact N]). congruence.
      * assert (X : fixed_append_arr 8 sbuf (map t_span rows) = None) by (apply fixed_append_arr_none; exists (t_span r); split; [now apply in_map|exact N]). congruence.
    + split; [intros _|reflexivity]. apply fixed_append_arr_none in E2 as (b & Hb & N). apply in_map_iff in Hb as (r & <- & Hr). exists r. auto.
  - split; [intros _|reflexivity]. apply fixed_append_arr_none in E1 as (b & Hb & N). apply in_map_iff in Hb as (r & <- & Hr). exists r. auto.
Qed.
Theorem tag_request_panics_iff tbuf sbuf rows :
  process_tag_ids tbuf sbuf rows = None <->
  exists r, In r rows /\ (String.length (a_trace r) <> 16 \/ String.length (a_span r) <> 8).
Proof.
  unfold process_tag_ids. destruct (fixed_append_arr 16 tbuf (map a_trace rows)) as [t|] eqn:E1.
  - destruct (fixed_append_arr 8 sbuf (map a_span rows)) as [s|] eqn:E2.
    + split; [discriminate|]. intros (r & Hr & [N|N]); exfalso.
      * assert (X : fixed_append_arr 16 tbuf (map a_trace rows) = None) by (apply fixed_append_arr_none; exists (a_trace r); split; [now apply in_map|exact N]). congruence.
      * assert (X : fixed_append_arr 8 sbuf (map a_span rows) = None) by (apply fixed_append_arr_none; exists (a_span r); split; [now apply in_map|exact N]). congruence.
    + split; [intros _|reflexivity]. apply fixed_append_arr_none in E2 as (b & Hb & N). apply in_map_iff in Hb as (r & <- & Hr). exists r. auto.
  - split; [intros _|reflexivity]. apply fixed_append_arr_none in E1 as (b & Hb & N). apply in_map_iff in Hb as (r & <- & Hr). exists r. auto.
Qed.

(* what C06's on_span (builder.go onSpan at byte level) lets through has the two widths, in the span row and in every tag row *)
Lemma on_span_widths c row attrs : call_on_span c = Some (row, attrs) ->
  String.length (t_trace row) = 16 /\ String.length (t_span row) = 8 /\
  forall a, In a attrs -> String.length (a_trace a) = 16 /\ String.length (a_span a) = 8.
Proof.
  unfold call_on_span, Spans.on_span, id_widths_ok. destruct (Nat.eqb (String.length (sc_tid c)) 16) eqn:E1; [|cbn [andb negb]; intros X; discriminate X].
  destruct (Nat.eqb (String.length (sc_sid c)) 8) eqn:E2; [|cbn [andb negb]; intros X; discriminate X]. cbn [andb negb]. intros H. inversion H; subst. clear H.
  apply Nat.eqb_eq in E1, E2. cbn [t_trace t_span]. split; [exact E1|]. split; [exact E2|].
  intros a Ha. apply in_map_iff in Ha as (e & <- & _). cbn. auto.
Qed.
Lemma accepted_widths calls : forall x, In x (accepted calls) ->
  String.length (t_trace (fst x)) = 16 /\ String.length (t_span (fst x)) = 8 /\
  forall a, In a (snd x) -> String.length (a_trace a) = 16 /\ String.length (a_span a) = 8.
Proof.
  induction calls as [|c r IH]; intros x Hx; cbn [accepted] in Hx; [destruct Hx|].
  destruct (call_on_span c) as [[row attrs]|] eqn:E; [|destruct Hx]. destruct Hx as [<-|Hx]; [|auto]. exact (on_span_widths _ _ _ E).
Qed.

(* NONE: for every sequence of onSpan calls with ids of ANY widths, every chunk the parser can send -- any part of the rows
   accepted before the first refused call -- passes both FixedString columns of both services, whatever the buffers hold *)
Theorem parser_span_requests_never_reach_the_width_panic calls chunk tb sb tb' sb' :
  incl chunk (accepted calls) ->
  process_span_ids tb sb (map fst chunk) <> None /\ process_tag_ids tb' sb' (List.concat (map snd chunk)) <> None.
Proof.
  intros I. split; intros H.
  - apply span_request_panics_iff in H as (r & Hr & N). apply in_map_iff in Hr as (x & <- & Hx).
    destruct (accepted_widths _ _ (I _ Hx)) as (A & B & _). lia.
  - apply tag_request_panics_iff in H as (a & Ha & N). apply in_concat in Ha as (l & Hl & Hal). apply in_map_iff in Hl as (x & <- & Hx).
    destruct (accepted_widths _ _ (I _ Hx)) as (_ & _ & C). destruct (C _ Hal). lia.
Qed.

(* the shape that does die: a request holding a 15-byte trace id -- built by nobody in /repo (id_producers_model: onSpan is the
   only place that appends to a trace-id / span-id slice; regenerated on every run) *)
Definition short_row : trow :=
  {| t_trace := "0123456789abcde"; t_span := "01234567"; t_parent := ""; t_name := ""; t_ts := 0%Z; t_dur := 0%Z; t_service := ""; t_ptype := 1%Z;
     t_payload := PEmpty |}.
Lemma short_id_kills_the_process : process_span_ids [] [] [short_row] = None /\
  call_on_span {| sc_ptype := 1%Z; sc_tid := "0123456789abcde"; sc_sid := "01234567"; sc_ts := 0%Z; sc_dur := 0%Z; sc_parent := ""; sc_name := "";
                  sc_svc := ""; sc_payload := PEmpty; sc_kv := [] |} = None.
Proof. split; reflexivity. Qed.

(* ... and in terms of the REGENERATED onSpan (C05's handler_prog, run at cell level by model/IngestBridge.v): with the width
   check as its first statement, a call appends to the batch only when its ids are 16 and 8 bytes wide *)
Theorem regenerated_on_span_appends_only_fixed_widths h sf af b s b' sent :
  hp_width_check h = true -> on_span_cells h sf af b s = CStOk b' sent -> se_tid s = 16%N /\ se_sid s = 8%N.
Proof.
  intros Hw H. unfold on_span_cells in H. rewrite Hw in H. cbn [andb] in H.
  destruct ((se_tid s =? 16)%N && (se_sid s =? 8)%N) eqn:E; [|discriminate]. apply andb_true_iff in E as [E1 E2].
  apply N.eqb_eq in E1, E2. auto.
Qed.
