(* C17: the Pyroscope selector planner since the absent-label fix (ProfSel.prof_selector_abs = StreamSelectorPlanner.Process;
   ProfSel.prof_selector = processIndexed).  Bridge: the reference interpreter on the planner's own tree = the list reading
   prof_fp_sel_abs; exactness: that reading = the Pyroscope (Prometheus matcher) meaning, now without a guard on selectors
   that accept the empty string.  Also small structural facts other properties use (no WITH, indexed-only case). *)
From Coq Require Import List ZArith NArith String Ascii Bool Lia.
From Qryn Require Import lib.Strs lib.CivilDate model.Sql model.SqlRender model.Logql model.LogqlPlan model.PromSelect
  model.PromSel model.PromSem model.PromCase model.ProfSel model.ProfSem proofs.PromSelProofs.
Import ListNotations.
Open Scope string_scope.
Open Scope list_scope.

(* ---------- generic: AND lists under the interpreter, extra conjuncts appended to a WHERE ---------- *)
Section GENERIC.
  Variable re : string -> string -> bool.
  Variable cte : select -> option (list N).

  Lemma is_true_and rho l : is_true (ev re cte rho (And l)) = forallb (fun e => is_true (ev re cte rho e)) l.
  Proof.
    unfold And. rewrite (ev_LOp re cte rho OAnd).
    induction l as [|e l IH]; [reflexivity|].
    cbn [map all_some forallb].
    destruct (ev re cte rho e) as [v|] eqn:Ee; [|reflexivity].
    destruct (all_some (map (ev re cte rho) l)) as [vs|] eqn:El.
    - cbn [omap]. cbn [lop_apply map] in *.
      destruct v as [z|s|a|a]; cbn [truthy all_some is_true]; try reflexivity.
      destruct (all_some (map truthy vs)) as [bs|] eqn:Eb.
      + cbn [omap is_true b2v forallb] in *. rewrite <- IH.
        destruct (negb (z =? 0)%Z), (forallb (fun b => b) bs); reflexivity.
      + cbn [omap is_true] in *. rewrite <- IH. now rewrite andb_false_r.
    - cbn [omap is_true] in *. rewrite <- IH. now rewrite andb_false_r.
  Qed.

  Lemma eval_fpq_extra q q' l extras envs :
    s_where q = Some (And l) -> s_where q' = Some (And (l ++ extras)) -> s_having q' = s_having q ->
    eval_fpq re cte q' envs =
    eval_fpq re cte q (filter (fun rho => forallb (fun e => is_true (ev re cte rho e)) extras) envs).
  Proof.
    intros Hw Hw' Hh. unfold eval_fpq. rewrite Hw, Hw', Hh.
    assert (Hf : filter (fun rho => is_true (ev re cte rho (And (l ++ extras)))) envs =
                 filter (fun rho => is_true (ev re cte rho (And l)))
                        (filter (fun rho => forallb (fun e => is_true (ev re cte rho e)) extras) envs)).
    { rewrite <- filter_andb. apply filter_ext. intros rho. rewrite !is_true_and, forallb_app. reflexivity. }
    rewrite Hf. reflexivity.
  Qed.
End GENERIC.

Lemma fold_and_where_gen {A} (f : A -> expr) neg : forall q l,
  s_where q = Some (And l) ->
  s_where (fold_left (fun q m => and_where [f m] q) neg q) = Some (And (l ++ map f neg)) /\
  s_having (fold_left (fun q m => and_where [f m] q) neg q) = s_having q /\
  s_withs (fold_left (fun q m => and_where [f m] q) neg q) = s_withs q.
Proof.
  induction neg as [|m neg IH]; intros q l Hw; cbn [fold_left map].
  - rewrite app_nil_r. split; [exact Hw|split; reflexivity].
  - destruct (IH (and_where [f m] q) (l ++ [f m])) as [H1 [H2 H3]].
    + unfold and_where. rewrite Hw. reflexivity.
    + rewrite H1, H2, H3. rewrite <- app_assoc. split; [reflexivity|split; reflexivity].
Qed.

(* ---------- shape of the planner's statement ---------- *)
Lemma prof_selector_where_and t f to sels : exists l, s_where (prof_selector t f to sels) = Some (And l).
Proof.
  unfold prof_selector. destruct (get_matchers sels) as [g kv]. destruct g, kv; eexists; reflexivity.
Qed.
Lemma prof_selector_withs t f to sels : s_withs (prof_selector t f to sels) = [].
Proof. unfold prof_selector. destruct (get_matchers sels) as [g kv]. destruct g, kv; reflexivity. Qed.

Lemma prof_selector_abs_fields re_full t f to sels l :
  s_where (prof_selector t f to (prof_indexed_sels re_full sels)) = Some (And l) ->
  s_where (prof_selector_abs re_full t f to sels) = Some (And (l ++ map (prof_not_rejected t f to) (prof_absent_sels re_full sels))) /\
  s_having (prof_selector_abs re_full t f to sels) = s_having (prof_selector t f to (prof_indexed_sels re_full sels)) /\
  s_withs (prof_selector_abs re_full t f to sels) = [].
Proof.
  intros Hw. unfold prof_selector_abs.
  destruct (fold_and_where_gen (prof_not_rejected t f to) (prof_absent_sels re_full sels) _ _ Hw) as [H1 [H2 H3]].
  rewrite H1, H2, H3, prof_selector_withs. repeat split; reflexivity.
Qed.

(* Process holds no WITH (the consumers put it under their own alias) *)
Theorem prof_selector_abs_no_withs re_full t f to sels : s_withs (prof_selector_abs re_full t f to sels) = [].
Proof.
  destruct (prof_selector_where_and t f to (prof_indexed_sels re_full sels)) as [l Hl].
  now destruct (prof_selector_abs_fields re_full t f to sels l Hl) as [_ [_ H]].
Qed.

Lemma filter_all_true {A} (f : A -> bool) l : (forall x, List.In x l -> f x = true) -> filter f l = l.
Proof.
  induction l as [|x l IH]; intros H; [reflexivity|]. cbn [filter]. rewrite (H x (or_introl eq_refl)).
  f_equal. apply IH. intros y Hy. apply H. now right.
Qed.
Lemma filter_all_false {A} (f : A -> bool) l : (forall x, List.In x l -> f x = false) -> filter f l = [].
Proof.
  induction l as [|x l IH]; intros H; [reflexivity|]. cbn [filter]. rewrite (H x (or_introl eq_refl)).
  apply IH. intros y Hy. apply H. now right.
Qed.

(* when no selector on a stored label accepts the empty string, Process is processIndexed *)
Theorem prof_selector_abs_indexed re_full t f to sels :
  (forall s, List.In s sels -> sel_accepts_absent re_full s = false) ->
  prof_selector_abs re_full t f to sels = prof_selector t f to sels.
Proof.
  intros H. unfold prof_selector_abs, prof_absent_sels, prof_indexed_sels.
  rewrite (filter_all_false _ _ H). cbn [fold_left].
  rewrite filter_all_true; [reflexivity|]. intros s Hs. now rewrite (H s Hs).
Qed.

(* ---------- bridge: interpreter on the planner's own tree = prof_fp_sel_abs ---------- *)
Section PABRIDGE.
  Variable re : string -> string -> bool.
  Variable re_full : string -> string -> bool.

  Definition pos_sels (sels : list selector) : list selector := map prof_selector_val (prof_indexed_sels re_full sels).
  Definition neg_sels (sels : list selector) : list selector :=
    map (fun s => prof_selector_val (sel_inverse s)) (prof_absent_sels re_full sels).

  Section ROWS.
    Variable rows : list pginrow.
    Variables (tbl : string) (from_ns to_ns : Z).
    Let D1 := from_day from_ns.
    Let D2 := (to_ns / (86400 * 1000000000))%Z.

    Lemma ev_prof_not_rejected r s :
      ev re (prof_cte re rows) (pgin_env r) (prof_not_rejected tbl from_ns to_ns s) =
      Some (b2v (negb (existsb (N.eqb (pg_fp r)) (prof_fp_sel re D1 D2 [prof_selector_val (sel_inverse s)] rows)))).
    Proof.
      unfold prof_not_rejected, Eq. rewrite (ev_LOp re (prof_cte re rows)). cbn [map].
      assert (Hin : ev re (prof_cte re rows) (pgin_env r)
                       (In (Id "fingerprint") [SubQ (prof_selector tbl from_ns to_ns [sel_inverse s])]) =
                    Some (b2v (existsb (N.eqb (pg_fp r)) (prof_fp_sel re D1 D2 [prof_selector_val (sel_inverse s)] rows)))).
      { cbn [PromSem.ev]. rewrite pg_fp_env. unfold prof_cte. rewrite eval_prof_selector. rewrite N2Z.id. reflexivity. }
      rewrite Hin. cbn [PromSem.ev all_some omap lop_apply].
      destruct (existsb (N.eqb (pg_fp r)) (prof_fp_sel re D1 D2 [prof_selector_val (sel_inverse s)] rows)); reflexivity.
    Qed.

    Lemma extras_not_rejected r neg :
      forallb (fun e => is_true (ev re (prof_cte re rows) (pgin_env r) e)) (map (prof_not_rejected tbl from_ns to_ns) neg) =
      negb (prof_rejected re D1 D2 (map (fun s => prof_selector_val (sel_inverse s)) neg) rows (pg_fp r)).
    Proof.
      unfold prof_rejected. induction neg as [|s neg IH]; [reflexivity|].
      cbn [map forallb existsb]. rewrite IH, ev_prof_not_rejected, is_true_b2v, negb_orb. reflexivity.
    Qed.

    Theorem eval_prof_selector_abs sels :
      eval_prof_sel re (prof_selector_abs re_full tbl from_ns to_ns sels) rows =
      prof_fp_sel_abs re D1 D2 (pos_sels sels) (neg_sels sels) rows.
    Proof.
      unfold eval_prof_sel.
      destruct (prof_selector_where_and tbl from_ns to_ns (prof_indexed_sels re_full sels)) as [l Hl].
      destruct (prof_selector_abs_fields re_full tbl from_ns to_ns sels l Hl) as [Hw [Hh _]].
      rewrite (eval_fpq_extra re (prof_cte re rows) _ _ l _ _ Hl Hw Hh).
      rewrite filter_map_comm.
      rewrite (filter_ext _ (fun r => negb (prof_rejected re D1 D2 (neg_sels sels) rows (pg_fp r))))
        by (intros r; apply extras_not_rejected).
      rewrite eval_prof_selector. reflexivity.
    Qed.
  End ROWS.
End PABRIDGE.

(* ---------- exactness against the Pyroscope meaning ---------- *)
Section PAEXACT.
  Variable re_match re_full : string -> string -> bool.
  Hypothesis anchor_law : forall v p, re_match v (anchor p) = re_full v p.

  Lemma pgin_of_filter (f : N -> bool) series :
    filter (fun r => f (pg_fp r)) (pgin_of series) = pgin_of (filter (fun s => f (p_fp s)) series).
  Proof.
    unfold pgin_of. induction series as [|s series IH]; [reflexivity|].
    cbn [flat_map filter]. rewrite filter_app, IH.
    destruct (f (p_fp s)) eqn:E.
    - cbn [flat_map]. f_equal. apply filter_all_true. intros r Hr. apply in_map_iff in Hr. destruct Hr as [kv [<- _]]. exact E.
    - rewrite filter_all_false; [reflexivity|]. intros r Hr. apply in_map_iff in Hr. destruct Hr as [kv [<- _]]. exact E.
  Qed.

  Lemma pdb_ok_filter (g : pstored -> bool) series : pdb_ok series -> pdb_ok (filter g series).
  Proof.
    intros [H1 H2 H3]. constructor.
    - intros s1 s2 Hs1 Hs2. apply filter_In in Hs1. apply filter_In in Hs2. apply H1; tauto.
    - intros s Hs. apply filter_In in Hs. apply H2; tauto.
    - intros s Hs. apply filter_In in Hs. apply H3; tauto.
  Qed.

  Lemma inverse_matches s st : pseudo_of (sl_name s) = None ->
    sel_matches re_full (sel_inverse s) st = negb (sel_matches re_full s st).
  Proof.
    intros Hn. unfold sel_matches, sel_inverse. cbn [sl_name sl_op sl_val]. rewrite Hn.
    unfold prom_match_val. destruct (sl_op s); try reflexivity; now rewrite negb_involutive.
  Qed.
  Lemma kv_matches_labels s st1 st2 : pseudo_of (sl_name s) = None -> p_labels st1 = p_labels st2 ->
    sel_matches re_full s st1 = sel_matches re_full s st2.
  Proof. intros Hn Hl. unfold sel_matches. rewrite Hn, Hl. reflexivity. Qed.

  Lemma absent_sel_facts s : sel_accepts_absent re_full s = true ->
    pseudo_of (sl_name s) = None /\ prom_match_val re_full (sl_op s) (sl_val s) "" = true.
  Proof. unfold sel_accepts_absent. destruct (pseudo_of (sl_name s)); [discriminate|]. tauto. Qed.

  (* a series is excluded exactly when a stored row of its fingerprint inside the date bounds fails a selector that
     accepts the empty string *)
  Lemma rejected_spec D1 D2 sels series fp : pdb_ok series ->
    prof_rejected re_match D1 D2 (neg_sels re_full sels) (pgin_of series) fp = true <->
    exists n s', List.In n (prof_absent_sels re_full sels) /\ List.In s' series /\ p_fp s' = fp /\
                 (D1 <= p_date s')%Z /\ (p_date s' <= D2)%Z /\ sel_matches re_full n s' = false.
  Proof.
    intros Hdb. unfold prof_rejected, neg_sels. rewrite existsb_exists. split.
    - intros [n' [Hn' Hex]]. apply in_map_iff in Hn'. destruct Hn' as [n [<- Hn]].
      apply existsb_exists in Hex. destruct Hex as [y [Hy He]]. apply N.eqb_eq in He. subst y.
      assert (Ha := Hn). apply filter_In in Ha. destruct Ha as [_ Ha]. destruct (absent_sel_facts n Ha) as [Hps Hacc].
      change [prof_selector_val (sel_inverse n)] with (map prof_selector_val [sel_inverse n]) in Hy.
      apply (prof_fp_select re_match re_full anchor_law D1 D2 [sel_inverse n] series fp Hdb) in Hy.
      + unfold prof_expected in Hy. apply nodup_In in Hy. apply in_map_iff in Hy. destruct Hy as [s' [Hfp Hs']].
        apply filter_In in Hs'. destruct Hs' as [Hs' Hok]. rewrite !andb_true_iff, !Z.leb_le in Hok.
        destruct Hok as [[Hd1 Hd2] Hm]. cbn [forallb] in Hm. rewrite andb_true_r in Hm.
        rewrite (inverse_matches n s' Hps) in Hm. apply negb_true_iff in Hm.
        exists n, s'. tauto.
      + cbn [map]. destruct (split_selectors [prof_selector_val (sel_inverse n)]) as [g kv] eqn:E.
        cbn [split_selectors] in E. destruct (pseudo_of (sl_name (prof_selector_val (sel_inverse n)))); inversion E; cbn; lia.
      + intros sel [<-|[]] _. left. cbn [sel_inverse sl_op sl_val]. unfold prom_match_val in *.
        destruct (sl_op n); cbn in *; try rewrite Hacc; try reflexivity; try (now apply negb_true_iff in Hacc).
    - intros [n [s' [Hn [Hs' [Hfp [Hd1 [Hd2 Hm]]]]]]].
      exists (prof_selector_val (sel_inverse n)). split; [apply in_map_iff; exists n; tauto|].
      apply existsb_exists. exists fp. split; [|apply N.eqb_refl].
      assert (Ha := Hn). apply filter_In in Ha. destruct Ha as [_ Ha]. destruct (absent_sel_facts n Ha) as [Hps Hacc].
      change [prof_selector_val (sel_inverse n)] with (map prof_selector_val [sel_inverse n]).
      apply (prof_fp_select re_match re_full anchor_law D1 D2 [sel_inverse n] series fp Hdb).
      + cbn [map]. destruct (split_selectors [prof_selector_val (sel_inverse n)]) as [g kv] eqn:E.
        cbn [split_selectors] in E. destruct (pseudo_of (sl_name (prof_selector_val (sel_inverse n)))); inversion E; cbn; lia.
      + intros sel [<-|[]] _. left. cbn [sel_inverse sl_op sl_val]. unfold prom_match_val in *.
        destruct (sl_op n); cbn in *; try rewrite Hacc; try reflexivity; try (now apply negb_true_iff in Hacc).
      + unfold prof_expected. apply nodup_In. apply in_map_iff. exists s'. split; [assumption|].
        apply filter_In. split; [assumption|]. rewrite !andb_true_iff, !Z.leb_le. cbn [forallb].
        rewrite (inverse_matches n s' Hps), Hm. tauto.
  Qed.

  (* THE PYROSCOPE SELECTION STATEMENT, in full: the reading of the statement Process builds returns exactly the
     fingerprints of the stored series inside the date bounds that satisfy every selector *)
  Theorem prof_fp_select_abs D1 D2 sels series fp :
    pdb_ok series ->
    (List.length (snd (split_selectors (pos_sels re_full sels))) <= 63)%nat ->
    (List.In fp (prof_fp_sel_abs re_match D1 D2 (pos_sels re_full sels) (neg_sels re_full sels) (pgin_of series)) <->
     List.In fp (prof_expected re_full D1 D2 sels series)).
  Proof.
    intros Hdb Hlen. unfold prof_fp_sel_abs.
    rewrite (pgin_of_filter (fun fp' => negb (prof_rejected re_match D1 D2 (neg_sels re_full sels) (pgin_of series) fp'))).
    set (series' := filter _ series).
    assert (Hdb' : pdb_ok series') by (apply pdb_ok_filter; exact Hdb).
    unfold pos_sels in *.
    rewrite (prof_fp_select re_match re_full anchor_law D1 D2 (prof_indexed_sels re_full sels) series' fp Hdb' Hlen).
    2:{ intros sel Hsel Hn. left. apply filter_In in Hsel. destruct Hsel as [_ Hsel]. apply negb_true_iff in Hsel.
        unfold sel_accepts_absent in Hsel. now rewrite Hn in Hsel. }
    unfold prof_expected. rewrite !nodup_In, !in_map_iff.
    assert (Hsplit : forall sel, List.In sel sels ->
              List.In sel (prof_indexed_sels re_full sels) \/ List.In sel (prof_absent_sels re_full sels)).
    { intros sel Hsel. unfold prof_indexed_sels, prof_absent_sels. rewrite !filter_In.
      destruct (sel_accepts_absent re_full sel); cbn; tauto. }
    split.
    - intros [s [Hfp Hs]]. exists s. split; [assumption|]. apply filter_In in Hs. destruct Hs as [Hs Hok].
      unfold series' in Hs. apply filter_In in Hs. destruct Hs as [Hs Hrej]. apply negb_true_iff in Hrej.
      rewrite !andb_true_iff, !Z.leb_le, forallb_forall in Hok. destruct Hok as [[Hd1 Hd2] Hpos].
      apply filter_In. split; [assumption|]. rewrite !andb_true_iff, !Z.leb_le, forallb_forall.
      split; [tauto|]. intros sel Hsel. destruct (Hsplit sel Hsel) as [Hp|Hn]; [now apply Hpos|].
      destruct (sel_matches re_full sel s) eqn:Em; [reflexivity|]. exfalso.
      assert (Hr : prof_rejected re_match D1 D2 (neg_sels re_full sels) (pgin_of series) (p_fp s) = true).
      { apply (rejected_spec D1 D2 sels series (p_fp s) Hdb). exists sel, s. tauto. }
      congruence.
    - intros [s [Hfp Hs]]. exists s. split; [assumption|]. apply filter_In in Hs. destruct Hs as [Hs Hok].
      rewrite !andb_true_iff, !Z.leb_le, forallb_forall in Hok. destruct Hok as [[Hd1 Hd2] Hall].
      apply filter_In. split.
      + unfold series'. apply filter_In. split; [assumption|]. apply negb_true_iff.
        destruct (prof_rejected re_match D1 D2 (neg_sels re_full sels) (pgin_of series) (p_fp s)) eqn:Er; [|reflexivity].
        exfalso. apply (rejected_spec D1 D2 sels series (p_fp s) Hdb) in Er.
        destruct Er as [n [s' [Hn [Hs' [Hfp' [_ [_ Hm]]]]]]].
        assert (Ha := Hn). apply filter_In in Ha. destruct Ha as [Hnin Ha]. destruct (absent_sel_facts n Ha) as [Hps _].
        assert (Hl : p_labels s' = p_labels s) by (apply (plabels_functional _ Hdb); assumption).
        rewrite (kv_matches_labels n s' s Hps Hl) in Hm. rewrite (Hall n Hnin) in Hm. discriminate.
      + rewrite !andb_true_iff, !Z.leb_le, forallb_forall. split; [tauto|]. intros sel Hsel.
        apply Hall. apply filter_In in Hsel. tauto.
  Qed.

  (* ... and in terms of the statement itself under the reference interpreter *)
  Theorem prof_select_statement_exact tbl from_ns to_ns sels series fp :
    pdb_ok series ->
    (List.length (snd (split_selectors (pos_sels re_full sels))) <= 63)%nat ->
    (List.In fp (eval_prof_sel re_match (prof_selector_abs re_full tbl from_ns to_ns sels) (pgin_of series)) <->
     List.In fp (prof_expected re_full (from_day from_ns) (to_ns / (86400 * 1000000000))%Z sels series)).
  Proof.
    intros Hdb Hlen. rewrite eval_prof_selector_abs. now apply prof_fp_select_abs.
  Qed.
End PAEXACT.

(* ---------- a Series request with several matchers (PlanSeries: one UNION ALL member per matcher, each reading the
   fingerprints of ITS OWN selector statement since fix c94f1fe): the fingerprints read by the members together ---------- *)
Definition prof_series_fps (re re_full : string -> string -> bool) (tbl : string) (from_ns to_ns : Z)
    (scripts : list (list selector)) (rows : list pginrow) : list N :=
  flat_map (fun sels => eval_prof_sel re (prof_selector_abs re_full tbl from_ns to_ns sels) rows) scripts.

Theorem prof_series_union_exact (re_match re_full : string -> string -> bool) :
  (forall v p, re_match v (anchor p) = re_full v p) ->
  forall tbl from_ns to_ns scripts series fp, pdb_ok series ->
    (forall sels, List.In sels scripts -> (List.length (snd (split_selectors (pos_sels re_full sels))) <= 63)%nat) ->
    (List.In fp (prof_series_fps re_match re_full tbl from_ns to_ns scripts (pgin_of series)) <->
     exists sels, List.In sels scripts /\
                  List.In fp (prof_expected re_full (from_day from_ns) (to_ns / (86400 * 1000000000))%Z sels series)).
Proof.
  intros Hl tbl from_ns to_ns scripts series fp Hdb Hlen. unfold prof_series_fps. rewrite in_flat_map. split.
  - intros [sels [Hin Hfp]]. exists sels. split; [assumption|].
    now apply (prof_select_statement_exact re_match re_full Hl tbl from_ns to_ns sels series fp Hdb (Hlen sels Hin)).
  - intros [sels [Hin Hfp]]. exists sels. split; [assumption|].
    now apply (prof_select_statement_exact re_match re_full Hl tbl from_ns to_ns sels series fp Hdb (Hlen sels Hin)).
Qed.

(* the former refutation witness (one stored series without a region label, selector region != eu-west) is now selected *)
Example prof_absent_label_selected :
  pdb_ok pw_series /\
  (List.length (snd (split_selectors (pos_sels re_none pw_sels))) <= 63)%nat /\
  eval_prof_sel re_none (prof_selector_abs re_none "profiles_series_gin" 1700000000000000000 1700003600000000000 pw_sels) (pgin_of pw_series) = [61%N] /\
  prof_expected re_none 19675 19675 pw_sels pw_series = [61%N].
Proof. split; [exact pw_db_ok|]. split; [cbn; lia|]. split; vm_compute; reflexivity. Qed.
(* a series carrying the rejected value is left out, one with another value is kept *)
Definition pa_series : list pstored :=
  [{| p_fp := 61; p_date := 19675; p_type_id := "process_cpu:cpu:nanoseconds"; p_service := "api";
      p_stu := [("cpu", "nanoseconds")]; p_labels := [("pod", "p-1")] |};
   {| p_fp := 62; p_date := 19675; p_type_id := "process_cpu:cpu:nanoseconds"; p_service := "api";
      p_stu := [("cpu", "nanoseconds")]; p_labels := [("pod", "p-2"); ("region", "eu-west")] |};
   {| p_fp := 63; p_date := 19675; p_type_id := "process_cpu:cpu:nanoseconds"; p_service := "api";
      p_stu := [("cpu", "nanoseconds")]; p_labels := [("pod", "p-3"); ("region", "us-east")] |}].
Example prof_absent_label_exclusion :
  eval_prof_sel re_none (prof_selector_abs re_none "profiles_series_gin" 1700000000000000000 1700003600000000000
     [{| sl_name := "region"; sl_op := MNeq; sl_val := "eu-west" |}; {| sl_name := "service_name"; sl_op := MEq; sl_val := "api" |}])
     (pgin_of pa_series) = [61%N; 63%N].
Proof. vm_compute. reflexivity. Qed.
