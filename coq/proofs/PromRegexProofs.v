(* C17 part 2, round 5: the anchoring law is a theorem of the concrete regular-expression reading model/PromRegex.v; the
   "already anchored" shortcut of seed C17-e is refuted. *)
From Coq Require Import List String Ascii Arith Bool Lia.
From Qryn Require Import model.PromSel model.PromRegex.
Import ListNotations.
Open Scope string_scope.

Lemma flat_map_if_filter : forall (p : nat -> bool) l,
  flat_map (fun j => if p j then [j] else []) l = filter p l.
Proof.
  intros p l. induction l as [|x l IH]; [reflexivity|].
  cbn [flat_map filter]. rewrite IH. destruct (p x); reflexivity.
Qed.

Lemma nonempty_filter : forall (p : nat -> bool) l, nonempty (filter p l) = existsb p l.
Proof.
  intros p l. induction l as [|x l IH]; [reflexivity|].
  cbn [filter existsb]. destruct (p x); [reflexivity|exact IH].
Qed.

Lemma ends_wrap : forall r s i,
  ends (wrap r) s i = if Nat.eqb i 0 then filter (Nat.eqb (List.length s)) (ends r s 0) else [].
Proof.
  intros r s i. unfold wrap. cbn [ends].
  destruct (Nat.eqb i 0) eqn:E.
  - apply Nat.eqb_eq in E. subst i. cbn [flat_map]. rewrite app_nil_r.
    rewrite <- flat_map_if_filter. apply flat_map_ext. intro j.
    rewrite (Nat.eqb_sym j). reflexivity.
  - reflexivity.
Qed.

Lemma ends_enclosed : forall r s i,
  ends (RCat RBol (RCat r REol)) s i = if Nat.eqb i 0 then filter (Nat.eqb (List.length s)) (ends r s 0) else [].
Proof. intros r s i. exact (ends_wrap r s i). Qed.

Lemma existsb_all_false : forall (A : Type) (f : A -> bool) l, (forall x, In x l -> f x = false) -> existsb f l = false.
Proof.
  intros A f l H. induction l as [|x l IH]; [reflexivity|].
  cbn [existsb]. rewrite (H x (or_introl eq_refl)). apply IH. intros y Hy. apply H. right. exact Hy.
Qed.

Lemma search_of_anchored_ends : forall (q r : re) s,
  (forall i, ends q s i = if Nat.eqb i 0 then filter (Nat.eqb (List.length s)) (ends r s 0) else []) ->
  re_search_l q s = re_whole_l r s.
Proof.
  intros q r s H. unfold re_search_l, re_whole_l.
  cbn [seq existsb]. rewrite (H 0). cbn [Nat.eqb]. rewrite nonempty_filter.
  assert (R : existsb (fun i : nat => nonempty (ends q s i)) (seq 1 (List.length s)) = false).
  { apply existsb_all_false. intros i Hi. apply in_seq in Hi. rewrite (H i).
    destruct i as [|i]; [lia|reflexivity]. }
  rewrite R. apply orb_false_r.
Qed.

(* THE ANCHORING LAW: searching ^(?:r)$ (what LabelMatcher.GetVal hands to ClickHouse match()) = r matches the whole value
   (what Prometheus means), for every expression of the fragment and every value *)
Lemma anchoring_law : forall r v, re_search (wrap r) v = re_whole r v.
Proof. intros r v. unfold re_search, re_whole. apply search_of_anchored_ends. apply ends_wrap. Qed.

Lemma prom_is_whole : forall r v, re_prom r v = re_whole r v.
Proof. exact anchoring_law. Qed.

(* anchors written by the caller AROUND everything (^r$ with r one item, e.g. a group): searching = whole match; only then
   would the shortcut be right *)
Lemma enclosing_anchors : forall r v, re_search (RCat RBol (RCat r REol)) v = re_whole r v.
Proof. intros r v. unfold re_search, re_whole. apply search_of_anchored_ends. apply ends_enclosed. Qed.

Lemma append_assoc3 : forall a b c : string, ((a ++ b) ++ c = a ++ (b ++ c))%string.
Proof. intros a b c. induction a as [|x a IH]; [reflexivity|]. cbn [append]. rewrite IH. reflexivity. Qed.

(* the text GetVal builds is the text of wrap r *)
Lemma wrap_text : forall r, re_print (wrap r) = anchor (re_print r).
Proof.
  intro r. unfold wrap, anchor. cbn [re_print append].
  rewrite append_assoc3. reflexivity.
Qed.

(* the oracles of the selection theorems instantiated: for every reader of pattern texts that reads the wrapped text as the
   wrapped expression, the hypothesis of prom_select_exact* / prof_select_exact holds *)
Lemma anchoring_law_for_readers : forall rd : string -> option re,
  (forall p, rd (anchor p) = option_map wrap (rd p)) ->
  forall v p, re_match_of rd v (anchor p) = re_full_of rd v p.
Proof.
  intros rd H v p. unfold re_match_of, re_full_of. rewrite H.
  destruct (rd p) as [r|]; [cbn [option_map]; apply anchoring_law|reflexivity].
Qed.

(* seed C17-e refuted inside the model *)
Lemma shortcut_witness_alternation :
  re_wf re_api_or_canary = true /\ re_print re_api_or_canary = "^api|canary$" /\ self_anchored (re_print re_api_or_canary) = true /\
  re_search re_api_or_canary "api-gateway" = true /\ re_prom re_api_or_canary "api-gateway" = false /\
  re_search re_api_or_canary "web-canary" = true /\ re_prom re_api_or_canary "web-canary" = false /\
  re_prom re_api_or_canary "api" = true /\ re_prom re_api_or_canary "canary" = true.
Proof. vm_compute. repeat split; reflexivity. Qed.

Lemma shortcut_witness_escaped_dollar :
  re_wf re_api_dollar = true /\ re_print re_api_dollar = "^api\$" /\ self_anchored (re_print re_api_dollar) = true /\
  re_search re_api_dollar "api$-gw" = true /\ re_prom re_api_dollar "api$-gw" = false /\ re_prom re_api_dollar "api$" = true.
Proof. vm_compute. repeat split; reflexivity. Qed.

Lemma self_anchored_shortcut_refuted :
  ~ (forall r v, re_wf r = true -> self_anchored (re_print r) = true -> re_search r v = re_prom r v).
Proof.
  intro H. specialize (H re_api_or_canary "api-gateway").
  destruct shortcut_witness_alternation as (W & _ & S & A & B & _).
  rewrite A, B in H. specialize (H W S). discriminate H.
Qed.

(* ... and in terms of the oracles: with the shortcut in GetVal the anchoring law fails for every reader that reads
   ^api|canary$ the way RE2 does *)
Lemma shortcut_breaks_the_law : forall rd : string -> option re,
  rd "^api|canary$" = Some re_api_or_canary ->
  (forall p, rd (anchor p) = option_map wrap (rd p)) ->
  exists v p, re_match_of rd v (anchor_shortcut p) <> re_full_of rd v p /\ re_match_of rd v (anchor p) = re_full_of rd v p.
Proof.
  intros rd H1 H2. exists "api-gateway", "^api|canary$". split.
  - unfold re_match_of, re_full_of. change (anchor_shortcut "^api|canary$") with "^api|canary$". rewrite H1.
    destruct shortcut_witness_alternation as (_ & _ & _ & A & B & _).
    rewrite A. rewrite <- prom_is_whole. rewrite B. discriminate.
  - apply anchoring_law_for_readers. exact H2.
Qed.

(* where the anchors do enclose the expression the shortcut is harmless: ^(?:api|canary)$ *)
Lemma enclosed_example :
  re_wf re_enclosed = true /\ re_print re_enclosed = "^(?:api|canary)$" /\
  re_search re_enclosed "api-gateway" = false /\ re_search re_enclosed "canary" = true.
Proof. vm_compute. repeat split; reflexivity. Qed.
