(* C18 -- obligations over the REGENERATED script lists (gen/GenScripts.v, rebuilt from ctrl/qryn/sql/*.sql on
   every run).  Finite domain: discharged by computation.  A statement the translator could not classify, a
   statement ClickHouse (as modelled) rejects in file order, or one that is not re-executable right after
   itself makes gen_reexec fail; checks/c18.py then asks first_bad_streams for the witness. *)
From Coq Require Import List String NArith ZArith Bool Arith Lia.
From Qryn Require Import model.Migrate proofs.MigrateProofs proofs.MigrateClusterProofs proofs.MigrateConcProofs gen.GenScripts.
Import ListNotations.
Open Scope nat_scope.

(* every statement of every stream, along the uninterrupted run of every configuration, succeeds and is
   re-executable right after itself without changing the catalogue *)
Lemma gen_reexec : forall c : cfg,
  reexec_streams cat stmt (exec_ch (cloud c)) gen_scripts cat_eqb (streams_of c) cat0 = true.
Proof. intros [[] [] []]; vm_compute; reflexivity. Qed.

(* frame: no script creates / alters / drops / renames ver or ver_dist (the protocol model keeps these two
   tables outside the catalogue the scripts act on) *)
Lemma gen_frame :
  forallb (fun k => forallb (fun s => negb (touches_ver s)) (gen_scripts k)) all_streams = true.
Proof. vm_compute. reflexivity. Qed.

(* the statement-id table is parallel to the statement lists *)
Lemma gen_sids_parallel :
  forallb (fun k => List.length (gen_sids k) =? List.length (gen_scripts k)) all_streams = true.
Proof. vm_compute. reflexivity. Qed.

(* the ON CLUSTER table is parallel to the statement lists *)
Lemma gen_oncl_len k : List.length (gen_oncluster k) = List.length (gen_scripts k).
Proof. destruct k; vm_compute; reflexivity. Qed.
Lemma cl_scripts_len c k : List.length (cl_scripts gen_scripts gen_oncluster c k) = List.length (gen_scripts k).
Proof. unfold cl_scripts. rewrite map_length, combine_length, gen_oncl_len. apply Nat.min_id. Qed.

(* ---- the cluster: per host, along the uninterrupted run of every configuration, the connected host accepts
   every statement and any other host every ON CLUSTER statement, and each is re-executable right after itself
   on that host without changing its catalogue *)
Lemma gen_cl_reexec : forall c : cfg,
  cl_reexec_streams cat stmt (exec_ch (cloud c)) cat_eqb (cl_scripts gen_scripts gen_oncluster c) (streams_of c) cat0 cat0 = true.
Proof. intros [[] [] []]; vm_compute; reflexivity. Qed.

(* the model the harness is compared with: 1 + n hosts, statements that complete on some hosts only *)
Definition cl_multi (c : cfg) :=
  multi_run (ccat cat) (cstmt stmt) (cl_exec cat stmt (exec_ch (cloud c))) (cl_pexec cat stmt (exec_ch (cloud c)))
            (cl_scripts gen_scripts gen_oncluster c) c.

Lemma gen_converges : forall (c : cfg) (n : nat) (runs : list (list outcome)),
  let d := fst (cl_multi c runs (db0 (ccat cat) (hosts0 (S n)))) in
  let r := ch_update gen_scripts gen_oncluster c [] d in
  r_ok r = true /\
  d_cat (r_db r) = d_cat (expected_final gen_scripts gen_oncluster c (S n)) /\
  (forall k, In k (streams_of c) -> d_vers (r_db r) k = List.length (gen_scripts k)) /\
  (* ... and starting it once more executes no script statement *)
  (forall os, filter is_script_event (r_log (ch_update gen_scripts gen_oncluster c os (r_db r))) = []).
Proof.
  intros c n runs d r.
  destruct (cl_converges cat stmt (exec_ch (cloud c)) cat_eqb cat_eqb_sound (cl_scripts gen_scripts gen_oncluster c)
              c cat0 cat0 n runs (gen_cl_reexec c)) as (Hok & (a & b & Htr & Hcat) & Hv).
  destruct (cl_converges cat stmt (exec_ch (cloud c)) cat_eqb cat_eqb_sound (cl_scripts gen_scripts gen_oncluster c)
              c cat0 cat0 n [] (gen_cl_reexec c)) as (_ & (a' & b' & Htr' & Hcat') & _).
  change (cat0 :: repeat cat0 n) with (hosts0 (S n)) in Hok, Hcat, Hv, Hcat'.
  fold (cl_multi c runs (db0 (ccat cat) (hosts0 (S n)))) in Hok, Hcat, Hv. fold d in Hok, Hcat, Hv.
  change (update (ccat cat) (cstmt stmt) (cl_exec cat stmt (exec_ch (cloud c))) (cl_pexec cat stmt (exec_ch (cloud c)))
            (cl_scripts gen_scripts gen_oncluster c) c [] d) with r in Hok, Hcat, Hv.
  assert (Hv' : forall k, In k (streams_of c) -> d_vers (r_db r) k = List.length (gen_scripts k)).
  { intros k Hk. rewrite (Hv k Hk). apply cl_scripts_len. }
  split; [exact Hok|]. split; [|split; [exact Hv'|]].
  - cbn [multi_run fst] in Hcat'. unfold expected_final, ch_update. rewrite Hcat, Hcat'. congruence.
  - intros os.
    destruct (run_streams_noop (ccat cat) (cstmt stmt) (cl_exec cat stmt (exec_ch (cloud c))) (cl_pexec cat stmt (exec_ch (cloud c)))
                (cl_scripts gen_scripts gen_oncluster c) c (streams_of c) os (r_db r)) as (_ & _ & Hns & _).
    + intros k Hk. rewrite (Hv k Hk). lia.
    + exact Hns.
Qed.

(* what the hosts end with: the connected host exactly where the one-server model ends (it runs every
   statement); on a configured cluster the other hosts end elsewhere -- statements without {{.OnCluster}}
   (the type_v2 ALIAS columns, the settings rows) never reach them *)
Definition hosts_final_ok (c : cfg) : bool :=
  match cl_track_streams cat stmt (exec_ch (cloud c)) (cl_scripts gen_scripts gen_oncluster c) (streams_of c) cat0 cat0,
        apply_streams cat stmt (exec_ch (cloud c)) gen_scripts (streams_of c) cat0 with
  | Some (a, b), Some a' => cat_eqb a a' && negb (cat_eqb a b)
  | _, _ => false
  end.
Lemma gen_hosts_final : forall c : cfg, hosts_final_ok c = true.
Proof. intros [[] [] []]; vm_compute; reflexivity. Qed.

(* ---- the premise of `converges` is necessary: the shape of the statements this check found in log.sql
   (RENAME TABLE without IF EXISTS after the object was created) does not converge *)
Definition old_shape (k : stream) : list stmt :=
  match k with
  | SLog => [ CreateTable true "t" ["a"] ["a"] EMergeTree RTemplated;
              CreateMV true "v" "t" ["t"] 1%N;
              RenameTable false "v" "v_bak";
              CreateMV true "v" "t" ["t"] 2%N;
              DropTable true "v_bak" ]%string
  | _ => []
  end.
Definition cfg_single := {| cloud := false; dist := false; clustered := false |}.
(* calls of a single-node run: 0 create ver, 1 read, 2 script0, 3 ver, 4 script1, 5 ver, 6 script2 (the RENAME) *)
Definition old_shape_stuck : bool :=
  let upd := update cat stmt (exec_ch false) pexec_one old_shape cfg_single in
  let d1 := r_db (upd (fault_at 6 OAfter) (db0 cat cat0)) in
  let r2 := upd [] d1 in
  let r3 := upd [] (r_db r2) in
  negb (r_ok r2) && negb (r_ok r3) && (d_vers (r_db r3) SLog =? 2).
Lemma old_shape_does_not_converge : old_shape_stuck = true.
Proof. vm_compute. reflexivity. Qed.
Lemma old_shape_clean_run_ok :
  r_ok (update cat stmt (exec_ch false) pexec_one old_shape cfg_single [] (db0 cat cat0)) = true.
Proof. vm_compute. reflexivity. Qed.

(* ---- the observation oracle (statements identified by id) never rejects a log of the model *)
Lemma gen_sids_len k : List.length (gen_sids k) = List.length (gen_scripts k).
Proof. destruct k; vm_compute; reflexivity. Qed.
Lemma gen_sids_nonzero k i : i < List.length (gen_sids k) -> sid_at gen_sids k i <> 0%N.
Proof.
  intros H. unfold sid_at. pose proof (nth_In (gen_sids k) 0%N H) as HIn.
  assert (Hall : forallb (fun s => negb (N.eqb s 0)) (gen_sids k) = true) by (destruct k; vm_compute; reflexivity).
  rewrite forallb_forall in Hall. specialize (Hall _ HIn). apply negb_true_iff in Hall. now apply N.eqb_neq.
Qed.
Lemma cl_sids_len c k : List.length (gen_sids k) = List.length (cl_scripts gen_scripts gen_oncluster c k).
Proof. now rewrite cl_scripts_len, gen_sids_len. Qed.
Lemma gen_oracle_accepts : forall (c : cfg) (hs : ccat cat) (runs : list (list outcome)),
  omon_ok gen_sids (map (abs_event gen_sids) (snd (cl_multi c runs (db0 (ccat cat) hs)))) = true.
Proof.
  intros c hs runs.
  exact (oracle_accepts_model_logs (ccat cat) (cstmt stmt) (cl_exec cat stmt (exec_ch (cloud c))) (cl_pexec cat stmt (exec_ch (cloud c)))
           (cl_scripts gen_scripts gen_oncluster c) gen_sids (cl_sids_len c) gen_sids_nonzero c runs hs).
Qed.

(* ---- the cluster needs the guards as well: the pre-fix RENAME, sent ON CLUSTER to two hosts, completes on
   the connected host only (the other one is down); every later undisturbed start fails there *)
Definition old_shape_cl (k : stream) : list (cstmt stmt) := map (fun s => (true, s)) (old_shape k).
Definition cfg_clustered := {| cloud := false; dist := true; clustered := true |}.
(* calls: 0 create ver, 1 create ver_dist, 2 read, 3 script0, 4 ver, 5 script1, 6 ver, 7 script2 (the RENAME) *)
Definition old_shape_cl_stuck : bool :=
  let upd := update (ccat cat) (cstmt stmt) (cl_exec cat stmt (exec_ch false)) (cl_pexec cat stmt (exec_ch false)) old_shape_cl cfg_clustered in
  let d1 := r_db (upd (fault_at 7 (OPartial [false; true])) (db0 (ccat cat) (hosts0 2))) in
  let r2 := upd [] d1 in
  let r3 := upd [] (r_db r2) in
  negb (r_ok r2) && negb (r_ok r3) && (d_vers (r_db r3) SLog =? 2).
Lemma old_shape_cl_does_not_converge : old_shape_cl_stuck = true.
Proof. vm_compute. reflexivity. Qed.

(* a version written after a statement that completed on some hosts only is rejected by the monitor (what
   the seeded change C18-a does: distributed_ddl_task_timeout taken as success) *)
Lemma partial_then_recorded_rejected :
  mon_ok [EScript SLog 0 (RFPartial); EInsVer SLog 1 ROk] = false /\
  mon_ok [EScript SLog 0 (RFPartial); EScript SLog 0 ROk; EInsVer SLog 1 ROk] = true.
Proof. vm_compute. split; reflexivity. Qed.

(* ---- two concurrent starters (single node, the repository's scripts): q creates ver and reads version 0 of
   log.sql, then p runs the whole initialisation (108 calls), then q goes on from its stale position -- scripts
   0, 1, 2 are no-ops, script 3 (DROP TABLE IF EXISTS samples_read) removes the table p created with script 4 --
   and is killed.  The monitor rejects the merged log (a recorded script runs again); p returned nil; every
   later undisturbed start returns nil, runs no script, finds every version current -- and the schema lacks
   samples_read for good. *)
Definition conc_sched : list (bool * outcome) := repeat (true, OOk) 2 ++ repeat (false, OOk) 110 ++ repeat (true, OOk) 7.
Definition conc_witness : bool :=
  let c := cfg_single in
  let '(p, q, d, l) := ch_conc gen_scripts gen_oncluster c conc_sched (proc0 c) (proc0 c) (db0 (ccat cat) (hosts0 1)) in
  let r := ch_update gen_scripts gen_oncluster c [] d in
  negb (mon_ok (map snd l)) && returned_nil p
  && r_ok r && match filter is_script_event (r_log r) with [] => true | _ => false end
  && forallb (fun k => d_vers (r_db r) k =? List.length (gen_scripts k)) (streams_of c)
  && negb (list_eqb cat_eqb (d_cat (r_db r)) (d_cat (expected_final gen_scripts gen_oncluster c 1)))
  && negb (has "samples_read" (c_objs (hd cat0 (d_cat (r_db r)))))
  && has "samples_read" (c_objs (hd cat0 (d_cat (expected_final gen_scripts gen_oncluster c 1)))).
Lemma conc_witness_holds : conc_witness = true.
Proof. vm_compute. reflexivity. Qed.

(* one process alone, in small steps, is the big-step update (computed on the repository's scripts: no
   failure, a failure after a call, a statement completing on one of two hosts, a failing version write) *)
Definition solo_same (c : cfg) (n : nat) (os : list outcome) : bool :=
  let '(p, d, l) := solo_run (ccat cat) (cstmt stmt) (cl_exec cat stmt (exec_ch (cloud c))) (cl_pexec cat stmt (exec_ch (cloud c)))
                      (cl_scripts gen_scripts gen_oncluster c) c 400 (proc0 c) os (db0 (ccat cat) (hosts0 n)) in
  let r := ch_update gen_scripts gen_oncluster c os (db0 (ccat cat) (hosts0 n)) in
  Bool.eqb (returned_nil p) (r_ok r) && list_eqb oevent_eqb (map (abs_event gen_sids) l) (map (abs_event gen_sids) (r_log r))
  && list_eqb cat_eqb (d_cat d) (d_cat (r_db r)) && vers_eqb (vers_list d) (vers_list (r_db r)).
Lemma solo_is_update_examples :
  forallb (fun c => solo_same c 2 []) [cfg_single; cfg_clustered; {| cloud := true; dist := true; clustered := true |}; {| cloud := true; dist := false; clustered := false |}]
  && solo_same cfg_single 1 (fault_at 38 OAfter) && solo_same cfg_clustered 2 (fault_at 40 (OPartial [false; true]))
  && solo_same cfg_clustered 3 (fault_at 41 OBefore) && solo_same cfg_single 1 (fault_at 1 OBefore) = true.
Proof. vm_compute. reflexivity. Qed.

Lemma gen_conc_oracle_accepts : forall (c : cfg) (sched : list (bool * outcome)) (hs : ccat cat) (who : bool),
  opmon gen_sids None (oplog who (map (fun e => (fst e, abs_event gen_sids (snd e)))
     (snd (ch_conc gen_scripts gen_oncluster c sched (proc0 c) (proc0 c) (db0 (ccat cat) hs))))) = true.
Proof.
  intros c sched hs who.
  exact (conc_oracle_accepts (ccat cat) (cstmt stmt) (cl_exec cat stmt (exec_ch (cloud c))) (cl_pexec cat stmt (exec_ch (cloud c)))
           (cl_scripts gen_scripts gen_oncluster c) gen_sids (cl_sids_len c) gen_sids_nonzero c sched (db0 (ccat cat) hs) who).
Qed.

(* the hypothesis of noop_when_current is met by a non-trivial database: the one an uninterrupted run of
   the clustered, replicated configuration (all six streams, 75 statements) ends with *)
Example noop_hypothesis_met :
  let c := {| cloud := true; dist := true; clustered := true |} in
  forallb (fun k => List.length (gen_scripts k) <=? d_vers (expected_final gen_scripts gen_oncluster c 3) k) (streams_of c) = true
  /\ map (fun h => List.length (c_objs h)) (d_cat (expected_final gen_scripts gen_oncluster c 3)) = [38; 38; 38].
Proof. vm_compute. split; reflexivity. Qed.
