(* C18 -- obligations over the REGENERATED script lists (gen/GenScripts.v, rebuilt from ctrl/qryn/sql/*.sql on
   every run).  Finite domain: discharged by computation.  A statement the translator could not classify, a
   statement ClickHouse (as modelled) rejects in file order, or one that is not re-executable right after
   itself makes gen_reexec fail; checks/c18.py then asks first_bad_streams for the witness. *)
From Coq Require Import List String NArith ZArith Bool Arith Lia.
From Qryn Require Import model.Migrate model.MigrateRepair proofs.MigrateProofs proofs.MigrateClusterProofs proofs.MigrateConcProofs
  proofs.MigrateClassProofs proofs.MigrateSoloProofs proofs.MigrateRepairProofs proofs.MigrateBootProofs gen.GenScripts.
Import ListNotations.
Open Scope nat_scope.

(* every statement of every stream, along the uninterrupted run of every configuration, succeeds and is
   re-executable right after itself without changing the catalogue *)
Lemma gen_reexec : forall c : cfg,
  reexec_streams cat stmt (exec_ch (cloud c)) gen_scripts cat_eqb (streams_of c) cat0 = true.
Proof. intros [[] [] []]; vm_compute; reflexivity. Qed.

(* frame: no script creates / alters / drops / renames ver or ver_dist (the protocol model keeps these two
   tables outside the catalogue the scripts act on) *)
Lemma gen_frame :
  forallb (fun k => forallb (fun s => negb (touches_ver s)) (gen_scripts k)) all_streams = true.
Proof. vm_compute. reflexivity. Qed.

(* the statement-id table is parallel to the statement lists *)
Lemma gen_sids_parallel :
  forallb (fun k => List.length (gen_sids k) =? List.length (gen_scripts k)) all_streams = true.
Proof. vm_compute. reflexivity. Qed.

(* the ON CLUSTER table is parallel to the statement lists *)
Lemma gen_oncl_len k : List.length (gen_oncluster k) = List.length (gen_scripts k).
Proof. destruct k; vm_compute; reflexivity. Qed.
Lemma cl_scripts_len c k : List.length (cl_scripts gen_scripts gen_oncluster c k) = List.length (gen_scripts k).
Proof. unfold cl_scripts. rewrite map_length, combine_length, gen_oncl_len. apply Nat.min_id. Qed.

(* ---- the cluster: per host, along the uninterrupted run of every configuration, the connected host accepts
   every statement and any other host every ON CLUSTER statement, and each is re-executable right after itself
   on that host without changing its catalogue *)
Lemma gen_cl_reexec : forall c : cfg,
  cl_reexec_streams cat stmt (exec_ch (cloud c)) cat_eqb (cl_scripts gen_scripts gen_oncluster c) (streams_of c) cat0 cat0 = true.
Proof. intros [[] [] []]; vm_compute; reflexivity. Qed.

(* ---- the same premise WITHOUT computing any re-execution: every statement belongs to a guarded class (a purely
   syntactic test of the classified statements) and the uninterrupted run is accepted on both tracks; the class
   lemmas of MigrateClassProofs.v (guarded_idem, exec_ch_wf) do the rest *)
Lemma gen_guarded : forallb (fun k => forallb guarded (gen_scripts k)) all_streams = true.
Proof. vm_compute. reflexivity. Qed.
Lemma gen_guarded_k k : forallb guarded (gen_scripts k) = true.
Proof.
  pose proof gen_guarded as G. rewrite forallb_forall in G. apply G. destruct k; cbn; auto 10.
Qed.
Lemma gen_track_accepted : forall c : cfg,
  is_some (cl_track_streams cat stmt (exec_ch (cloud c)) (cl_scripts gen_scripts gen_oncluster c) (streams_of c) cat0 cat0) = true.
Proof. intros [[] [] []]; vm_compute; reflexivity. Qed.
Lemma gen_cl_reexec_by_class : forall c : cfg,
  cl_reexec_streams cat stmt (exec_ch (cloud c)) cat_eqb (cl_scripts gen_scripts gen_oncluster c) (streams_of c) cat0 cat0 = true.
Proof.
  intros c. pose proof (gen_track_accepted c) as H.
  destruct (cl_track_streams cat stmt (exec_ch (cloud c)) (cl_scripts gen_scripts gen_oncluster c) (streams_of c) cat0 cat0) as [[a b]|] eqn:E;
    [|discriminate].
  apply (cl_reexec_streams_of_track cat stmt (exec_ch (cloud c)) cat_eqb wf guarded cat_eqb_refl
           (fun x h h1 => guarded_idem (cloud c) x h h1) (exec_ch_wf (cloud c)) _ _ cat0 cat0 a b wf_cat0 wf_cat0); [|exact E].
  intros k _. apply cl_scripts_guarded. apply gen_guarded_k.
Qed.

(* the hypotheses of the class theorem are met by a non-trivial value: the catalogue after the first 18 statements
   of log.sql (17 objects, no duplicate names) and statement #18, RENAME TABLE IF EXISTS time_series_gin_view TO
   .._bak, which is accepted there and changes the catalogue *)
Definition class_example_cat : cat := Eval vm_compute in
  match prefix cat stmt (exec_ch false) (gen_scripts SLog) 18 cat0 with Some c => c | None => cat0 end.
Definition class_example_stmt : stmt := Eval vm_compute in nth 18 (gen_scripts SLog) Unclassified.
Example class_hypotheses_met : exists c1,
  wf class_example_cat /\ guarded class_example_stmt = true /\ exec_ch false class_example_stmt class_example_cat = Some c1 /\
  cat_eqb class_example_cat c1 = false /\ (match class_example_stmt with RenameTable true _ _ => true | _ => false end) = true.
Proof.
  eexists. split; [|split; [|split; [vm_compute; reflexivity|split; vm_compute; reflexivity]]].
  - apply (apply_all_wf false (firstn 18 (gen_scripts SLog)) cat0); [exact wf_cat0|vm_compute; reflexivity].
  - vm_compute. reflexivity.
Qed.

(* the model the harness is compared with: 1 + n hosts, statements that complete on some hosts only *)
Definition cl_multi (c : cfg) :=
  multi_run (ccat cat) (cstmt stmt) (cl_exec cat stmt (exec_ch (cloud c))) (cl_pexec cat stmt (exec_ch (cloud c)))
            (cl_scripts gen_scripts gen_oncluster c) c.

Lemma gen_converges : forall (c : cfg) (n : nat) (runs : list (list outcome)),
  let d := fst (cl_multi c runs (db0 (ccat cat) (hosts0 (S n)))) in
  let r := ch_update gen_scripts gen_oncluster c [] d in
  r_ok r = true /\
  d_cat (r_db r) = d_cat (expected_final gen_scripts gen_oncluster c (S n)) /\
  (forall k, In k (streams_of c) -> d_vers (r_db r) k = List.length (gen_scripts k)) /\
  (* ... and starting it once more executes no script statement *)
  (forall os, filter is_script_event (r_log (ch_update gen_scripts gen_oncluster c os (r_db r))) = []).
Proof.
  intros c n runs d r.
  destruct (cl_converges cat stmt (exec_ch (cloud c)) cat_eqb cat_eqb_sound (cl_scripts gen_scripts gen_oncluster c)
              c cat0 cat0 n runs (gen_cl_reexec_by_class c)) as (Hok & (a & b & Htr & Hcat) & Hv).
  destruct (cl_converges cat stmt (exec_ch (cloud c)) cat_eqb cat_eqb_sound (cl_scripts gen_scripts gen_oncluster c)
              c cat0 cat0 n [] (gen_cl_reexec_by_class c)) as (_ & (a' & b' & Htr' & Hcat') & _).
  change (cat0 :: repeat cat0 n) with (hosts0 (S n)) in Hok, Hcat, Hv, Hcat'.
  fold (cl_multi c runs (db0 (ccat cat) (hosts0 (S n)))) in Hok, Hcat, Hv. fold d in Hok, Hcat, Hv.
  change (update (ccat cat) (cstmt stmt) (cl_exec cat stmt (exec_ch (cloud c))) (cl_pexec cat stmt (exec_ch (cloud c)))
            (cl_scripts gen_scripts gen_oncluster c) c [] d) with r in Hok, Hcat, Hv.
  assert (Hv' : forall k, In k (streams_of c) -> d_vers (r_db r) k = List.length (gen_scripts k)).
  { intros k Hk. rewrite (Hv k Hk). apply cl_scripts_len. }
  split; [exact Hok|]. split; [|split; [exact Hv'|]].
  - cbn [multi_run fst] in Hcat'. unfold expected_final, ch_update. rewrite Hcat, Hcat'. congruence.
  - intros os.
    destruct (run_streams_noop (ccat cat) (cstmt stmt) (cl_exec cat stmt (exec_ch (cloud c))) (cl_pexec cat stmt (exec_ch (cloud c)))
                (cl_scripts gen_scripts gen_oncluster c) c (streams_of c) os (r_db r)) as (_ & _ & Hns & _).
    + intros k Hk. rewrite (Hv k Hk). lia.
    + exact Hns.
Qed.

(* ---- through the bootstrap (ctrl.Init = InitDB, then Update): whatever happened in earlier starts -- failures in
   the bootstrap calls, panics, failures anywhere in Update -- the next undisturbed start gets through the bootstrap,
   returns nil, ends in the expected schema with every version recorded, and a further start runs no script *)
Definition cl_init_multi (bc : bcfg) :=
  init_multi (ccat cat) (cstmt stmt) (cl_exec cat stmt (exec_ch (cloud (b_cfg bc)))) (cl_pexec cat stmt (exec_ch (cloud (b_cfg bc))))
             (cl_scripts gen_scripts gen_oncluster (b_cfg bc)) bc.
Lemma gen_init_converges : forall (bc : bcfg) (n : nat) (runs : list (list outcome)), b_ttl0 bc = false ->
  let d := fst (cl_init_multi bc runs {| bd_exists := false; bd_db := db0 (ccat cat) (hosts0 (S n)) |}) in
  let r := ch_init gen_scripts gen_oncluster bc [] d in
  br_ok r = true /\
  d_cat (bd_db (br_db r)) = d_cat (expected_final gen_scripts gen_oncluster (b_cfg bc) (S n)) /\
  (forall k, In k (streams_of (b_cfg bc)) -> d_vers (bd_db (br_db r)) k = List.length (gen_scripts k)) /\
  (forall os, filter is_script_event (br_log (ch_init gen_scripts gen_oncluster bc os (br_db r))) = []).
Proof.
  intros bc n runs Ht d r.
  destruct (init_multi_is_multi_run (ccat cat) (cstmt stmt) (cl_exec cat stmt (exec_ch (cloud (b_cfg bc)))) (cl_pexec cat stmt (exec_ch (cloud (b_cfg bc))))
              (cl_scripts gen_scripts gen_oncluster (b_cfg bc)) bc runs {| bd_exists := false; bd_db := db0 (ccat cat) (hosts0 (S n)) |}) as [Hd _].
  cbn [bd_exists bd_db] in Hd. fold (cl_init_multi bc runs {| bd_exists := false; bd_db := db0 (ccat cat) (hosts0 (S n)) |}) in Hd. fold d in Hd.
  destruct (init_clean (ccat cat) (cstmt stmt) (cl_exec cat stmt (exec_ch (cloud (b_cfg bc)))) (cl_pexec cat stmt (exec_ch (cloud (b_cfg bc))))
              (cl_scripts gen_scripts gen_oncluster (b_cfg bc)) bc d Ht) as (Hok & Hdb & _ & _).
  destruct (gen_converges (b_cfg bc) n (init_update_runs bc runs false)) as (Cok & Ccat & Cv & Cno).
  unfold cl_multi in Cok, Ccat, Cv, Cno. rewrite <- Hd in Cok, Ccat, Cv, Cno.
  unfold ch_update in Cok, Ccat, Cv, Cno.
  change (ch_init gen_scripts gen_oncluster bc [] d) with r in Hok, Hdb.
  rewrite <- Hok in Cok. rewrite <- Hdb in Ccat, Cv, Cno.
  split; [exact Cok|]. split; [exact Ccat|]. split; [exact Cv|].
  intros os.
  destruct (init_log_is_update (ccat cat) (cstmt stmt) (cl_exec cat stmt (exec_ch (cloud (b_cfg bc)))) (cl_pexec cat stmt (exec_ch (cloud (b_cfg bc))))
              (cl_scripts gen_scripts gen_oncluster (b_cfg bc)) bc os (br_db r)) as [[Hl _]|(os' & Hl & _)].
  - change (ch_init gen_scripts gen_oncluster bc os (br_db r)) with
      (init (ccat cat) (cstmt stmt) (cl_exec cat stmt (exec_ch (cloud (b_cfg bc)))) (cl_pexec cat stmt (exec_ch (cloud (b_cfg bc))))
            (cl_scripts gen_scripts gen_oncluster (b_cfg bc)) bc os (br_db r)). now rewrite Hl.
  - change (ch_init gen_scripts gen_oncluster bc os (br_db r)) with
      (init (ccat cat) (cstmt stmt) (cl_exec cat stmt (exec_ch (cloud (b_cfg bc)))) (cl_pexec cat stmt (exec_ch (cloud (b_cfg bc))))
            (cl_scripts gen_scripts gen_oncluster (b_cfg bc)) bc os (br_db r)). rewrite Hl. apply Cno.
Qed.

(* what the hosts end with: the connected host exactly where the one-server model ends (it runs every
   statement); on a configured cluster the other hosts end elsewhere -- statements without {{.OnCluster}}
   (the type_v2 ALIAS columns, the settings rows) never reach them *)
Definition hosts_final_ok (c : cfg) : bool :=
  match cl_track_streams cat stmt (exec_ch (cloud c)) (cl_scripts gen_scripts gen_oncluster c) (streams_of c) cat0 cat0,
        apply_streams cat stmt (exec_ch (cloud c)) gen_scripts (streams_of c) cat0 with
  | Some (a, b), Some a' => cat_eqb a a' && negb (cat_eqb a b)
  | _, _ => false
  end.
Lemma gen_hosts_final : forall c : cfg, hosts_final_ok c = true.
Proof. intros [[] [] []]; vm_compute; reflexivity. Qed.

(* ---- the premise of `converges` is necessary: the shape of the statements this check found in log.sql
   (RENAME TABLE without IF EXISTS after the object was created) does not converge *)
Definition old_shape (k : stream) : list stmt :=
  match k with
  | SLog => [ CreateTable true "t" ["a"] ["a"] EMergeTree RTemplated;
              CreateMV true "v" "t" ["t"] 1%N;
              RenameTable false "v" "v_bak";
              CreateMV true "v" "t" ["t"] 2%N;
              DropTable true "v_bak" ]%string
  | _ => []
  end.
Definition cfg_single := {| cloud := false; dist := false; clustered := false |}.
(* calls of a single-node run: 0 create ver, 1 read, 2 script0, 3 ver, 4 script1, 5 ver, 6 script2 (the RENAME) *)
Definition old_shape_stuck : bool :=
  let upd := update cat stmt (exec_ch false) pexec_one old_shape cfg_single in
  let d1 := r_db (upd (fault_at 6 OAfter) (db0 cat cat0)) in
  let r2 := upd [] d1 in
  let r3 := upd [] (r_db r2) in
  negb (r_ok r2) && negb (r_ok r3) && (d_vers (r_db r3) SLog =? 2).
Lemma old_shape_does_not_converge : old_shape_stuck = true.
Proof. vm_compute. reflexivity. Qed.
Lemma old_shape_clean_run_ok :
  r_ok (update cat stmt (exec_ch false) pexec_one old_shape cfg_single [] (db0 cat cat0)) = true.
Proof. vm_compute. reflexivity. Qed.

(* ---- the observation oracle (statements identified by id) never rejects a log of the model *)
Lemma gen_sids_len k : List.length (gen_sids k) = List.length (gen_scripts k).
Proof. destruct k; vm_compute; reflexivity. Qed.
Lemma gen_sids_nonzero k i : i < List.length (gen_sids k) -> sid_at gen_sids k i <> 0%N.
Proof.
  intros H. unfold sid_at. pose proof (nth_In (gen_sids k) 0%N H) as HIn.
  assert (Hall : forallb (fun s => negb (N.eqb s 0)) (gen_sids k) = true) by (destruct k; vm_compute; reflexivity).
  rewrite forallb_forall in Hall. specialize (Hall _ HIn). apply negb_true_iff in Hall. now apply N.eqb_neq.
Qed.
Lemma cl_sids_len c k : List.length (gen_sids k) = List.length (cl_scripts gen_scripts gen_oncluster c k).
Proof. now rewrite cl_scripts_len, gen_sids_len. Qed.
Lemma gen_oracle_accepts : forall (c : cfg) (hs : ccat cat) (runs : list (list outcome)),
  omon_ok gen_sids (map (abs_event gen_sids) (snd (cl_multi c runs (db0 (ccat cat) hs)))) = true.
Proof.
  intros c hs runs.
  exact (oracle_accepts_model_logs (ccat cat) (cstmt stmt) (cl_exec cat stmt (exec_ch (cloud c))) (cl_pexec cat stmt (exec_ch (cloud c)))
           (cl_scripts gen_scripts gen_oncluster c) gen_sids (cl_sids_len c) gen_sids_nonzero c runs hs).
Qed.

(* ---- the cluster needs the guards as well: the pre-fix RENAME, sent ON CLUSTER to two hosts, completes on
   the connected host only (the other one is down); every later undisturbed start fails there *)
Definition old_shape_cl (k : stream) : list (cstmt stmt) := map (fun s => (true, s)) (old_shape k).
Definition cfg_clustered := {| cloud := false; dist := true; clustered := true |}.
(* calls: 0 create ver, 1 create ver_dist, 2 read, 3 script0, 4 ver, 5 script1, 6 ver, 7 script2 (the RENAME) *)
Definition old_shape_cl_stuck : bool :=
  let upd := update (ccat cat) (cstmt stmt) (cl_exec cat stmt (exec_ch false)) (cl_pexec cat stmt (exec_ch false)) old_shape_cl cfg_clustered in
  let d1 := r_db (upd (fault_at 7 (OPartial [false; true])) (db0 (ccat cat) (hosts0 2))) in
  let r2 := upd [] d1 in
  let r3 := upd [] (r_db r2) in
  negb (r_ok r2) && negb (r_ok r3) && (d_vers (r_db r3) SLog =? 2).
Lemma old_shape_cl_does_not_converge : old_shape_cl_stuck = true.
Proof. vm_compute. reflexivity. Qed.

(* a version written after a statement that completed on some hosts only is rejected by the monitor (what
   the seeded change C18-a does: distributed_ddl_task_timeout taken as success) *)
Lemma partial_then_recorded_rejected :
  mon_ok [EScript SLog 0 (RFPartial); EInsVer SLog 1 ROk] = false /\
  mon_ok [EScript SLog 0 (RFPartial); EScript SLog 0 ROk; EInsVer SLog 1 ROk] = true.
Proof. vm_compute. split; reflexivity. Qed.

(* ---- two concurrent starters (single node, the repository's scripts): q creates ver and reads version 0 of
   log.sql, then p runs the whole initialisation (108 calls), then q goes on from its stale position -- scripts
   0, 1, 2 are no-ops, script 3 (DROP TABLE IF EXISTS samples_read) removes the table p created with script 4 --
   and is killed.  The monitor rejects the merged log (a recorded script runs again); p returned nil; every
   later undisturbed start returns nil, runs no script, finds every version current -- and the schema lacks
   samples_read for good. *)
Definition conc_sched : list (bool * outcome) := repeat (true, OOk) 2 ++ repeat (false, OOk) 110 ++ repeat (true, OOk) 7.
Definition conc_witness : bool :=
  let c := cfg_single in
  let '(p, q, d, l) := ch_conc gen_scripts gen_oncluster c conc_sched (proc0 c) (proc0 c) (db0 (ccat cat) (hosts0 1)) in
  let r := ch_update gen_scripts gen_oncluster c [] d in
  negb (mon_ok (map snd l)) && returned_nil p
  && r_ok r && match filter is_script_event (r_log r) with [] => true | _ => false end
  && forallb (fun k => d_vers (r_db r) k =? List.length (gen_scripts k)) (streams_of c)
  && negb (list_eqb cat_eqb (d_cat (r_db r)) (d_cat (expected_final gen_scripts gen_oncluster c 1)))
  && negb (has "samples_read" (c_objs (hd cat0 (d_cat (r_db r)))))
  && has "samples_read" (c_objs (hd cat0 (d_cat (expected_final gen_scripts gen_oncluster c 1)))).
Lemma conc_witness_holds : conc_witness = true.
Proof. vm_compute. reflexivity. Qed.

(* one process alone, in small steps, is the big-step update (computed on the repository's scripts: no
   failure, a failure after a call, a statement completing on one of two hosts, a failing version write) *)
Definition solo_same (c : cfg) (n : nat) (os : list outcome) : bool :=
  let '(p, d, l) := solo_run (ccat cat) (cstmt stmt) (cl_exec cat stmt (exec_ch (cloud c))) (cl_pexec cat stmt (exec_ch (cloud c)))
                      (cl_scripts gen_scripts gen_oncluster c) c 400 (proc0 c) os (db0 (ccat cat) (hosts0 n)) in
  let r := ch_update gen_scripts gen_oncluster c os (db0 (ccat cat) (hosts0 n)) in
  Bool.eqb (returned_nil p) (r_ok r) && list_eqb oevent_eqb (map (abs_event gen_sids) l) (map (abs_event gen_sids) (r_log r))
  && list_eqb cat_eqb (d_cat d) (d_cat (r_db r)) && vers_eqb (vers_list d) (vers_list (r_db r)).
Lemma solo_is_update_examples :
  forallb (fun c => solo_same c 2 []) [cfg_single; cfg_clustered; {| cloud := true; dist := true; clustered := true |}; {| cloud := true; dist := false; clustered := false |}]
  && solo_same cfg_single 1 (fault_at 38 OAfter) && solo_same cfg_clustered 2 (fault_at 40 (OPartial [false; true]))
  && solo_same cfg_clustered 3 (fault_at 41 OBefore) && solo_same cfg_single 1 (fault_at 1 OBefore) = true.
Proof. vm_compute. reflexivity. Qed.

(* ... and in general (MigrateSoloProofs.v), instantiated for the model the harness is compared with *)
Lemma gen_solo_refines : forall (c : cfg) (hs : ccat cat) (os : list outcome),
  let upd := ch_update gen_scripts gen_oncluster c os (db0 (ccat cat) hs) in
  solo_run (ccat cat) (cstmt stmt) (cl_exec cat stmt (exec_ch (cloud c))) (cl_pexec cat stmt (exec_ch (cloud c)))
           (cl_scripts gen_scripts gen_oncluster c) c
           (calls_bound (cstmt stmt) (cl_scripts gen_scripts gen_oncluster c) c) (proc0 c) os (db0 (ccat cat) hs)
  = (p_done (r_ok upd), r_db upd, r_log upd).
Proof. intros c hs os. apply solo_refines_update. Qed.

(* ---- the candidate repair "re-read max(ver) before every script" (model/MigrateRepair.v), on the repository's
   scripts, single node.  It closes the recorded witness shape: q creates ver and reads version 0, p runs the whole
   initialisation, q goes on -- q's re-read finds every version current, the merged log is accepted, both return
   nil, the schema is the expected one.  It does NOT close the finding: let q run alone up to and including its
   re-read before script 3 (12 calls: it read version 3), then p runs the whole initialisation, then q sends
   script 3 (DROP TABLE IF EXISTS samples_read) -- the monitor rejects the merged log, both return nil, every
   later start is a no-op with all versions current, and samples_read is missing for good. *)
Definition ch_concR (c : cfg) :=
  conc_runR (ccat cat) (cstmt stmt) (cl_exec cat stmt (exec_ch (cloud c))) (cl_pexec cat stmt (exec_ch (cloud c)))
            (cl_scripts gen_scripts gen_oncluster c) c.
Definition rr_sched_stale : list (bool * outcome) := repeat (true, OOk) 2 ++ repeat (false, OOk) 170 ++ repeat (true, OOk) 30.
Definition reread_closes_stale_start : bool :=
  let c := cfg_single in
  let '(p, q, d, l) := ch_concR c rr_sched_stale (procR0 c) (procR0 c) (db0 (ccat cat) (hosts0 1)) in
  mon_ok (map snd l) && returned_nilR p && returned_nilR q
  && list_eqb cat_eqb (d_cat d) (d_cat (expected_final gen_scripts gen_oncluster c 1))
  && forallb (fun k => d_vers d k =? List.length (gen_scripts k)) (streams_of c).
Definition rr_sched_window : list (bool * outcome) := repeat (true, OOk) 12 ++ repeat (false, OOk) 170 ++ repeat (true, OOk) 30.
Definition reread_witness : bool :=
  let c := cfg_single in
  let '(p, q, d, l) := ch_concR c rr_sched_window (procR0 c) (procR0 c) (db0 (ccat cat) (hosts0 1)) in
  let r := ch_update gen_scripts gen_oncluster c [] d in
  negb (mon_ok (map snd l)) && returned_nilR p && returned_nilR q
  && r_ok r && match filter is_script_event (r_log r) with [] => true | _ => false end
  && forallb (fun k => d_vers (r_db r) k =? List.length (gen_scripts k)) (streams_of c)
  && negb (list_eqb cat_eqb (d_cat (r_db r)) (d_cat (expected_final gen_scripts gen_oncluster c 1)))
  && negb (has "samples_read" (c_objs (hd cat0 (d_cat (r_db r)))))
  && has "samples_read" (c_objs (hd cat0 (d_cat (expected_final gen_scripts gen_oncluster c 1)))).
Lemma reread_repair_examined : reread_closes_stale_start = true /\ reread_witness = true.
Proof. vm_compute. split; reflexivity. Qed.

(* the statements that do harm when a stale starter sends them once more on the finished schema (single node):
   executed on the final catalogue they change it *)
Fixpoint with_idx {A} (l : list A) (i : nat) : list (nat * A) := match l with [] => [] | x :: r => (i, x) :: with_idx r (S i) end.
Definition stale_harmful (c : cfg) : list (N * nat) :=
  match apply_streams cat stmt (exec_ch (cloud c)) gen_scripts (streams_of c) cat0 with
  | None => []
  | Some fin =>
    flat_map (fun k => flat_map (fun p => match exec_ch (cloud c) (snd p) fin with
                                           | Some c' => if cat_eqb c' fin then [] else [(stream_k k, fst p)]
                                           | None => [(stream_k k, fst p)]
                                           end) (with_idx (gen_scripts k) 0)) (streams_of c)
  end.

Lemma stale_harmful_single : stale_harmful cfg_single = [(1%N, 3); (1%N, 18); (1%N, 21); (5%N, 11)].
Proof. vm_compute. reflexivity. Qed.

Lemma gen_conc_oracle_accepts : forall (c : cfg) (sched : list (bool * outcome)) (hs : ccat cat) (who : bool),
  opmon gen_sids None (oplog who (map (fun e => (fst e, abs_event gen_sids (snd e)))
     (snd (ch_conc gen_scripts gen_oncluster c sched (proc0 c) (proc0 c) (db0 (ccat cat) hs))))) = true.
Proof.
  intros c sched hs who.
  exact (conc_oracle_accepts (ccat cat) (cstmt stmt) (cl_exec cat stmt (exec_ch (cloud c))) (cl_pexec cat stmt (exec_ch (cloud c)))
           (cl_scripts gen_scripts gen_oncluster c) gen_sids (cl_sids_len c) gen_sids_nonzero c sched (db0 (ccat cat) hs) who).
Qed.

(* the hypothesis of noop_when_current is met by a non-trivial database: the one an uninterrupted run of
   the clustered, replicated configuration (all six streams, 75 statements) ends with *)
Example noop_hypothesis_met :
  let c := {| cloud := true; dist := true; clustered := true |} in
  forallb (fun k => List.length (gen_scripts k) <=? d_vers (expected_final gen_scripts gen_oncluster c 3) k) (streams_of c) = true
  /\ map (fun h => List.length (c_objs h)) (d_cat (expected_final gen_scripts gen_oncluster c 3)) = [38; 38; 38].
Proof. vm_compute. split; reflexivity. Qed.
