(* C18 -- obligations over the REGENERATED script lists (gen/GenScripts.v, rebuilt from ctrl/qryn/sql/*.sql on
   every run).  Finite domain: discharged by computation.  A statement the translator could not classify, a
   statement ClickHouse (as modelled) rejects in file order, or one that is not re-executable right after
   itself makes gen_reexec fail; checks/c18.py then asks first_bad_streams for the witness. *)
From Coq Require Import List String NArith ZArith Bool Arith Lia.
From Qryn Require Import model.Migrate proofs.MigrateProofs gen.GenScripts.
Import ListNotations.
Open Scope nat_scope.

(* every statement of every stream, along the uninterrupted run of every configuration, succeeds and is
   re-executable right after itself without changing the catalogue *)
Lemma gen_reexec : forall c : cfg,
  reexec_streams cat stmt (exec_ch (cloud c)) gen_scripts cat_eqb (streams_of c) cat0 = true.
Proof. intros [[] [] []]; vm_compute; reflexivity. Qed.

(* frame: no script creates / alters / drops / renames ver or ver_dist (the protocol model keeps these two
   tables outside the catalogue the scripts act on) *)
Lemma gen_frame :
  forallb (fun k => forallb (fun s => negb (touches_ver s)) (gen_scripts k)) all_streams = true.
Proof. vm_compute. reflexivity. Qed.

(* the statement-id table is parallel to the statement lists *)
Lemma gen_sids_parallel :
  forallb (fun k => List.length (gen_sids k) =? List.length (gen_scripts k)) all_streams = true.
Proof. vm_compute. reflexivity. Qed.

Definition ch_multi (c : cfg) := multi_run cat stmt (exec_ch (cloud c)) gen_scripts c.

Lemma gen_converges : forall (c : cfg) (runs : list (list outcome)),
  let d := fst (ch_multi c runs (db0 cat cat0)) in
  let r := ch_update gen_scripts c [] d in
  r_ok r = true /\
  d_cat (r_db r) = d_cat (expected_final gen_scripts c) /\
  (forall k, In k (streams_of c) -> d_vers (r_db r) k = List.length (gen_scripts k)) /\
  (* ... and starting it once more executes no script statement *)
  (forall os, filter is_script_event (r_log (ch_update gen_scripts c os (r_db r))) = []).
Proof.
  intros c runs d r.
  destruct (converges cat stmt (exec_ch (cloud c)) gen_scripts cat_eqb cat_eqb_sound c cat0 runs (gen_reexec c))
    as (Hok & Hcat & Hv).
  destruct (converges cat stmt (exec_ch (cloud c)) gen_scripts cat_eqb cat_eqb_sound c cat0 [] (gen_reexec c))
    as (_ & Hcat0 & _).
  fold (ch_multi c runs (db0 cat cat0)) in Hok, Hcat, Hv. fold d in Hok, Hcat, Hv.
  change (update cat stmt (exec_ch (cloud c)) gen_scripts c [] d) with r in Hok, Hcat, Hv.
  split; [exact Hok|]. split; [|split; [exact Hv|]].
  - cbn [multi_run fst] in Hcat0. unfold expected_final, ch_update. congruence.
  - intros os.
    destruct (run_streams_noop cat stmt (exec_ch (cloud c)) gen_scripts c (streams_of c) os (r_db r)) as (_ & _ & Hns & _).
    + intros k Hk. rewrite (Hv k Hk). lia.
    + exact Hns.
Qed.

(* ---- the premise of `converges` is necessary: the shape of the statements this check found in log.sql
   (RENAME TABLE without IF EXISTS after the object was created) does not converge *)
Definition old_shape (k : stream) : list stmt :=
  match k with
  | SLog => [ CreateTable true "t" ["a"] ["a"] EMergeTree RTemplated;
              CreateMV true "v" "t" ["t"] 1%N;
              RenameTable false "v" "v_bak";
              CreateMV true "v" "t" ["t"] 2%N;
              DropTable true "v_bak" ]%string
  | _ => []
  end.
Definition cfg_single := {| cloud := false; dist := false; clustered := false |}.
(* calls of a single-node run: 0 create ver, 1 read, 2 script0, 3 ver, 4 script1, 5 ver, 6 script2 (the RENAME) *)
Definition old_shape_stuck : bool :=
  let upd := update cat stmt (exec_ch false) old_shape cfg_single in
  let d1 := r_db (upd (fault_at 6 OAfter) (db0 cat cat0)) in
  let r2 := upd [] d1 in
  let r3 := upd [] (r_db r2) in
  negb (r_ok r2) && negb (r_ok r3) && (d_vers (r_db r3) SLog =? 2).
Lemma old_shape_does_not_converge : old_shape_stuck = true.
Proof. vm_compute. reflexivity. Qed.
Lemma old_shape_clean_run_ok :
  r_ok (update cat stmt (exec_ch false) old_shape cfg_single [] (db0 cat cat0)) = true.
Proof. vm_compute. reflexivity. Qed.

(* ---- the observation oracle (statements identified by id) never rejects a log of the model *)
Lemma gen_sids_len k : List.length (gen_sids k) = List.length (gen_scripts k).
Proof. destruct k; vm_compute; reflexivity. Qed.
Lemma gen_sids_nonzero k i : i < List.length (gen_sids k) -> sid_at gen_sids k i <> 0%N.
Proof.
  intros H. unfold sid_at. pose proof (nth_In (gen_sids k) 0%N H) as HIn.
  assert (Hall : forallb (fun s => negb (N.eqb s 0)) (gen_sids k) = true) by (destruct k; vm_compute; reflexivity).
  rewrite forallb_forall in Hall. specialize (Hall _ HIn). apply negb_true_iff in Hall. now apply N.eqb_neq.
Qed.
Lemma gen_oracle_accepts : forall (c : cfg) (runs : list (list outcome)),
  omon_ok gen_sids (map (abs_event gen_sids) (snd (ch_multi c runs (db0 cat cat0)))) = true.
Proof.
  intros c runs.
  exact (oracle_accepts_model_logs cat stmt (exec_ch (cloud c)) gen_scripts gen_sids gen_sids_len gen_sids_nonzero c runs cat0).
Qed.

(* the hypothesis of noop_when_current is met by a non-trivial database: the one an uninterrupted run of
   the clustered, replicated configuration (all six streams, 75 statements) ends with *)
Example noop_hypothesis_met :
  let c := {| cloud := true; dist := true; clustered := true |} in
  forallb (fun k => List.length (gen_scripts k) <=? d_vers (expected_final gen_scripts c) k) (streams_of c) = true
  /\ List.length (c_objs (d_cat (expected_final gen_scripts c))) = 38.
Proof. vm_compute. split; reflexivity. Qed.
