(* Round trip of the protobuf wire encoding of a Span (model/SpansWire.v):
     dec_enc_span : span_wire_ok s = true -> dec_span (enc_span s) = Some s
   for every span of the domain, with no bound on lengths, list sizes or nesting depth.

   Layer 1 (raw_fields_ser): parsing the serialisation of a list of well-formed raw fields returns the list;
   rests on enc_varint_roundtrip / dec_len_enc (varints), take_n_app (length-delimited payloads) and
   le_dec_bytes (fixed width).  Layer 2 (dec_any_enc, by nested induction over the value): interpreting the
   raw fields of a value returns the value merged into the initial one; the fuel only has to exceed the
   length of the encoding (a nested payload is at least two bytes shorter than the message carrying it).
   double_bits_roundtrip: the binary64 bit pattern of k/8, |k| < 2^53, is read back.
   The examples at the end include two byte-exact vectors produced by proto.Marshal of the implementation. *)
From Coq Require Import List ZArith NArith Bool String Ascii Lia ZifyBool ZifyN ZifyNat.
From Qryn Require Import model.Spans model.SpansWire.
Import ListNotations.
Open Scope string_scope.
Open Scope Z_scope.

(* ================================================================== strings *)
Lemma sapp_assoc (a b c : string) : (a ++ b) ++ c = a ++ (b ++ c).
Proof. induction a as [|x a IH]; cbn [append]; [reflexivity|]. now rewrite IH. Qed.
Lemma sapp_nil_r (a : string) : a ++ "" = a.
Proof. induction a as [|x a IH]; cbn [append]; [reflexivity|]. now rewrite IH. Qed.
Lemma length_sapp (a b : string) : String.length (a ++ b) = (String.length a + String.length b)%nat.
Proof. induction a as [|x a IH]; cbn [append String.length]; [reflexivity|]. now rewrite IH. Qed.
Lemma slen_sapp (a b : string) : slen (a ++ b) = (slen a + slen b)%N.
Proof. induction a as [|x a IH]; cbn [append slen]; [reflexivity|]. rewrite IH. lia. Qed.

Lemma take_n_eq c r n :
  take_n (String c r) n =
  if (n =? 0)%N then Some ("", String c r)
  else match take_n r (N.pred n) with Some (a, b) => Some (String c a, b) | None => None end.
Proof. reflexivity. Qed.
Lemma take_n_0 s : take_n s 0 = Some ("", s).
Proof. destruct s; reflexivity. Qed.
Lemma take_n_app (a b : string) : take_n (a ++ b) (slen a) = Some (a, b).
Proof.
  induction a as [|x a IH]; cbn [append slen]; [apply take_n_0|].
  rewrite take_n_eq. replace (N.succ (slen a) =? 0)%N with false by (symmetry; lia).
  rewrite N.pred_succ, IH. reflexivity.
Qed.

(* ================================================================== varints *)
Lemma enc_varint_f_eq k n :
  enc_varint_f (S k) n =
  if (n <? 128)%N then String (ascii_of_N n) ""
  else String (ascii_of_N (n mod 128 + 128)) (enc_varint_f k (n / 128)).
Proof. reflexivity. Qed.
Lemma dec_varint_raw_eq c r :
  dec_varint_raw (String c r) =
  let b := N_of_ascii c in
  if (b <? 128)%N then Some (b, 1%nat, r)
  else match dec_varint_raw r with
       | Some (n, k, r') => Some ((b - 128) + 128 * n, S k, r')%N
       | None => None
       end.
Proof. reflexivity. Qed.

Lemma dec_enc_varint_f : forall fuel n rest, (n < 2 ^ N.of_nat fuel)%N ->
  dec_varint_raw (enc_varint_f (S fuel) n ++ rest) = Some (n, String.length (enc_varint_f (S fuel) n), rest).
Proof.
  induction fuel as [|k IH]; intros n rest Hn; rewrite enc_varint_f_eq.
  - change (2 ^ N.of_nat 0)%N with 1%N in Hn.
    replace (n <? 128)%N with true by (symmetry; lia).
    cbn [append String.length]. rewrite dec_varint_raw_eq. cbv zeta.
    rewrite N_ascii_embedding by lia. replace (n <? 128)%N with true by (symmetry; lia). reflexivity.
  - destruct (N.ltb_spec n 128) as [Hlt|Hge].
    + cbn [append String.length]. rewrite dec_varint_raw_eq. cbv zeta.
      rewrite N_ascii_embedding by lia. replace (n <? 128)%N with true by (symmetry; lia). reflexivity.
    + cbn [append String.length]. rewrite dec_varint_raw_eq. cbv zeta.
      assert (Hm : (n mod 128 < 128)%N) by (apply N.mod_lt; lia).
      rewrite N_ascii_embedding by lia.
      replace (n mod 128 + 128 <? 128)%N with false by (symmetry; lia).
      rewrite IH.
      * assert (Hd : (n = 128 * (n / 128) + n mod 128)%N) by (apply N.div_mod; lia).
        f_equal. f_equal. f_equal. lia.
      * rewrite Nat2N.inj_succ, N.pow_succ_r' in Hn.
        apply N.div_lt_upper_bound; lia.
Qed.

Lemma dec_varint_raw_enc n rest :
  dec_varint_raw (enc_varint n ++ rest) = Some (n, String.length (enc_varint n), rest).
Proof.
  unfold enc_varint. apply dec_enc_varint_f. rewrite N2Nat.id. apply N.size_gt.
Qed.

Lemma enc_varint_f_len : forall k fuel n, (n < 128 ^ N.of_nat (S k))%N ->
  (String.length (enc_varint_f fuel n) <= S k)%nat.
Proof.
  induction k as [|k IH]; intros fuel n Hn; (destruct fuel as [|f]; [cbn [enc_varint_f String.length]; lia|]);
    rewrite enc_varint_f_eq; destruct (N.ltb_spec n 128) as [Hlt|Hge]; cbn [String.length]; try lia.
  assert (Hd : (n / 128 < 128 ^ N.of_nat (S k))%N).
  { rewrite Nat2N.inj_succ, N.pow_succ_r' in Hn. apply N.div_lt_upper_bound; lia. }
  specialize (IH f _ Hd). lia.
Qed.
Lemma enc_varint_len10 n : (n < two64N)%N -> (String.length (enc_varint n) <= 10)%nat.
Proof.
  intros Hn. unfold enc_varint. apply enc_varint_f_len.
  assert (H : (two64N <= 128 ^ N.of_nat 10)%N) by (vm_compute; discriminate). lia.
Qed.
Lemma enc_varint_cons n : exists c r, enc_varint n = String c r.
Proof. unfold enc_varint. rewrite enc_varint_f_eq. destruct (n <? 128)%N; eauto. Qed.

(* the deliverable: a varint below 2^64 followed by anything is read back *)
Lemma enc_varint_roundtrip n rest : (n < two64N)%N -> dec_varint64 (enc_varint n ++ rest) = Some (n, rest).
Proof.
  intros Hn. unfold dec_varint64. rewrite dec_varint_raw_enc.
  pose proof (enc_varint_len10 n Hn) as Hl.
  replace (Nat.leb (String.length (enc_varint n)) 10) with true by (symmetry; apply Nat.leb_le; exact Hl).
  replace (n <? two64N)%N with true by (symmetry; apply N.ltb_lt; exact Hn). reflexivity.
Qed.
(* a length prefix of any size *)
Lemma dec_len_enc n rest : dec_len (enc_varint n ++ rest) = Some (n, rest).
Proof.
  unfold dec_len. rewrite dec_varint_raw_enc.
  destruct (N.leb_spec two64N n) as [Hge|Hlt]; [now rewrite orb_true_r|].
  pose proof (enc_varint_len10 n Hlt) as Hl.
  replace (Nat.leb (String.length (enc_varint n)) 10) with true by (symmetry; apply Nat.leb_le; exact Hl).
  reflexivity.
Qed.

(* ================================================================== fixed width *)
Lemma le_dec_bytes : forall k n, (n < 256 ^ N.of_nat k)%N -> le_dec (le_bytes k n) = n.
Proof.
  induction k as [|k IH]; intros n Hn.
  - change (256 ^ N.of_nat 0)%N with 1%N in Hn. cbn [le_bytes le_dec]. lia.
  - cbn [le_bytes le_dec].
    assert (Hm : (n mod 256 < 256)%N) by (apply N.mod_lt; lia).
    rewrite N_ascii_embedding by exact Hm. rewrite IH.
    + assert (Hd : (n = 256 * (n / 256) + n mod 256)%N) by (apply N.div_mod; lia). lia.
    + rewrite Nat2N.inj_succ, N.pow_succ_r' in Hn. apply N.div_lt_upper_bound; lia.
Qed.
Lemma slen_le_bytes : forall k n, slen (le_bytes k n) = N.of_nat k.
Proof. induction k as [|k IH]; intros n; cbn [le_bytes slen]; [reflexivity|]. rewrite IH. lia. Qed.
Lemma take_le_bytes k n rest : take_n (le_bytes k n ++ rest) (N.of_nat k) = Some (le_bytes k n, rest).
Proof. rewrite <- (slen_le_bytes k n). apply take_n_app. Qed.

(* ================================================================== layer 1: raw fields *)
Definition wf_field (f : field) : Prop :=
  (1 <= fst f <= max_field)%N /\
  match snd f with
  | RVarint x => (x < two64N)%N
  | RFixed64 x => (x < two64N)%N
  | RBytes _ => True
  | RFixed32 x => (x < 4294967296)%N
  end.

Lemma tag_parts n w : (w < 8)%N -> ((n * 8 + w) / 8 = n /\ (n * 8 + w) mod 8 = w)%N.
Proof.
  intros Hw.
  assert (Hd : (n * 8 + w = 8 * ((n * 8 + w) / 8) + (n * 8 + w) mod 8)%N) by (apply N.div_mod; lia).
  assert (Hm : ((n * 8 + w) mod 8 < 8)%N) by (apply N.mod_lt; lia).
  lia.
Qed.

Lemma parse_field_ser f rest : wf_field f -> parse_field (ser_field f ++ rest) = Some (f, rest).
Proof.
  destruct f as [n v]. intros [[Hn1 Hn2] Hv]. cbn [fst snd] in *. unfold max_field, two64N in *.
  assert (Hnz : ((n =? 0) || (536870911 <? n))%N = false) by lia.
  destruct v as [x|x|s|x]; unfold ser_field, parse_field; rewrite sapp_assoc.
  - replace (n * 8)%N with (n * 8 + 0)%N by lia.
    rewrite enc_varint_roundtrip by (unfold two64N; lia).
    destruct (tag_parts n 0) as [Hd Hm]; [lia|]. cbv zeta. rewrite Hd, Hm. unfold max_field. rewrite Hnz.
    cbn [N.eqb Pos.eqb]. rewrite enc_varint_roundtrip by (unfold two64N; lia). reflexivity.
  - rewrite enc_varint_roundtrip by (unfold two64N; lia).
    destruct (tag_parts n 1) as [Hd Hm]; [lia|]. cbv zeta. rewrite Hd, Hm. unfold max_field. rewrite Hnz.
    cbn [N.eqb Pos.eqb]. change 8%N with (N.of_nat 8). rewrite take_le_bytes.
    rewrite le_dec_bytes; [reflexivity|]. change (256 ^ N.of_nat 8)%N with 18446744073709551616%N. lia.
  - rewrite enc_varint_roundtrip by (unfold two64N; lia).
    destruct (tag_parts n 2) as [Hd Hm]; [lia|]. cbv zeta. rewrite Hd, Hm. unfold max_field. rewrite Hnz.
    cbn [N.eqb Pos.eqb]. rewrite sapp_assoc, dec_len_enc, take_n_app. reflexivity.
  - rewrite enc_varint_roundtrip by (unfold two64N; lia).
    destruct (tag_parts n 5) as [Hd Hm]; [lia|]. cbv zeta. rewrite Hd, Hm. unfold max_field. rewrite Hnz.
    cbn [N.eqb Pos.eqb]. change 4%N with (N.of_nat 4). rewrite take_le_bytes.
    rewrite le_dec_bytes; [reflexivity|]. change (256 ^ N.of_nat 4)%N with 4294967296%N. lia.
Qed.

Lemma ser_field_cons f : exists c r, ser_field f = String c r.
Proof.
  destruct f as [n v]. destruct v as [x|x|s|x]; cbn [ser_field];
    match goal with |- context [enc_varint ?t ++ _] => destruct (enc_varint_cons t) as (c & r & E); rewrite E end;
    cbn [append]; eauto.
Qed.
Lemma ser_field_len1 f : (1 <= String.length (ser_field f))%nat.
Proof. destruct (ser_field_cons f) as (c & r & E). rewrite E. cbn [String.length]. lia. Qed.

Lemma raw_fields_f_eq k s : s <> "" ->
  raw_fields_f (S k) s =
  match parse_field s with
  | None => None
  | Some (f, r) => match raw_fields_f k r with Some l => Some (f :: l) | None => None end
  end.
Proof. destruct s; [congruence|reflexivity]. Qed.

Lemma raw_fields_f_ser : forall fs fuel, Forall wf_field fs -> (List.length fs <= fuel)%nat ->
  raw_fields_f fuel (ser_fields fs) = Some fs.
Proof.
  induction fs as [|f fs IH]; intros fuel Hwf Hlen.
  - destruct fuel; reflexivity.
  - cbn [List.length] in Hlen. destruct fuel as [|k]; [lia|].
    cbn [ser_fields]. rewrite raw_fields_f_eq.
    + rewrite parse_field_ser by (inversion Hwf; assumption).
      rewrite IH; [reflexivity | inversion Hwf; assumption | lia].
    + destruct (ser_field_cons f) as (c & r & E). rewrite E. cbn [append]. discriminate.
Qed.
Lemma ser_fields_len fs : (List.length fs <= String.length (ser_fields fs))%nat.
Proof.
  induction fs as [|f fs IH]; cbn [List.length ser_fields]; [lia|].
  rewrite length_sapp. pose proof (ser_field_len1 f). lia.
Qed.
Lemma raw_fields_ser fs : Forall wf_field fs -> raw_fields (ser_fields fs) = Some fs.
Proof. intros H. unfold raw_fields. apply raw_fields_f_ser; [exact H|apply ser_fields_len]. Qed.

(* sizes: a nested payload is at least two bytes shorter than the field list that carries it *)
Lemma enc_varint_len1 n : (1 <= String.length (enc_varint n))%nat.
Proof. destruct (enc_varint_cons n) as (c & r & E). rewrite E. cbn [String.length]. lia. Qed.
Lemma ser_field_bytes_len n s : (String.length s + 2 <= String.length (ser_field (n, RBytes s)))%nat.
Proof.
  cbn [ser_field]. rewrite !length_sapp.
  pose proof (enc_varint_len1 (n * 8 + 2)). pose proof (enc_varint_len1 (slen s)). lia.
Qed.
Lemma ser_fields_in f fs : In f fs -> (String.length (ser_field f) <= String.length (ser_fields fs))%nat.
Proof.
  induction fs as [|g fs IH]; intros Hin; [destruct Hin|].
  cbn [ser_fields]. rewrite length_sapp. destruct Hin as [->|Hin]; [lia|]. specialize (IH Hin). lia.
Qed.
Lemma bytes_in_len n s fs : In (n, RBytes s) fs -> (String.length s + 2 <= String.length (ser_fields fs))%nat.
Proof. intros Hin. pose proof (ser_fields_in _ _ Hin). pose proof (ser_field_bytes_len n s). lia. Qed.

(* ================================================================== doubles *)
Lemma bits_parts s e m : (s = 0 \/ s = 1) -> 0 <= e < 2048 -> 0 <= m < two52 ->
  let z := s * two63 + e * two52 + m in
  z / two63 = s /\ (z / two52) mod 2048 = e /\ z mod two52 = m /\ 0 <= z < two64.
Proof.
  intros Hs He Hm z. subst z. unfold two63, two52, two64 in *.
  repeat split; lia.
Qed.

Lemma double_bits_spec k : Z.abs k < two53 ->
  (double_bits (k * 125000) < two64N)%N /\ dec_double (double_bits (k * 125000)) = Some (k * 125000).
Proof.
  intros Hk. unfold double_bits. rewrite Z.div_mul by lia. cbv zeta.
  destruct (Z.eqb_spec k 0) as [->|Hnz]; [split; reflexivity|].
  set (a := Z.abs k). assert (Ha : 0 < a) by (subst a; lia).
  set (p := Z.log2 a).
  assert (Hp0 : 0 <= p) by (apply Z.log2_nonneg).
  destruct (Z.log2_spec a Ha) as [Hlo Hhi]. fold p in Hlo, Hhi.
  assert (Hp52 : p < 53).
  { apply Z.log2_lt_pow2; [exact Ha|]. change (2 ^ 53) with two53. exact Hk. }
  rewrite Z.pow_succ_r in Hhi by exact Hp0.
  set (P := 2 ^ p) in *. set (sh := 2 ^ (52 - p)).
  assert (HP : 0 < P) by (apply Z.pow_pos_nonneg; lia).
  assert (Hsh : 0 < sh) by (apply Z.pow_pos_nonneg; lia).
  assert (HPsh : P * sh = two52).
  { subst P sh. rewrite <- Z.pow_add_r by lia. replace (p + (52 - p)) with 52 by lia. reflexivity. }
  set (m := (a - P) * sh).
  assert (Hm : 0 <= m < two52).
  { subst m. split; [apply Z.mul_nonneg_nonneg; lia|]. rewrite <- HPsh. apply Z.mul_lt_mono_pos_r; lia. }
  set (s := if k <? 0 then 1 else 0).
  replace ((if k <? 0 then two63 else 0) + (p + 1020) * two52 + m) with (s * two63 + (p + 1020) * two52 + m)
    by (subst s; destruct (k <? 0); lia).
  destruct (bits_parts s (p + 1020) m) as (Hs & He & Hmm & Hz);
    [subst s; destruct (k <? 0); lia | lia | exact Hm |].
  set (z := s * two63 + (p + 1020) * two52 + m) in *.
  split.
  - unfold two64N. unfold two64 in Hz. lia.
  - unfold dec_double. rewrite Z2N.id by lia. cbv zeta.
    assert (Hz0 : z <> 0). { subst z s. unfold two63, two52 in *. destruct (k <? 0); lia. }
    replace (z =? 0) with false by (symmetry; apply Z.eqb_neq; exact Hz0).
    rewrite Hs, He, Hmm.
    replace ((1020 <=? p + 1020) && (p + 1020 <=? 1072)) with true by (symmetry; lia).
    replace (p + 1020 - 1020) with p by lia. fold P. fold sh.
    subst m. rewrite Z.mod_mul by lia. rewrite Z.eqb_refl. rewrite Z.div_mul by lia.
    f_equal. f_equal. subst s a. destruct (Z.ltb_spec k 0); cbn [Z.eqb]; lia.
Qed.

(* the deliverable *)
Lemma double_bits_roundtrip k : Z.abs k < two53 -> dec_double (double_bits (k * 125000)) = Some (k * 125000).
Proof. intros Hk. apply double_bits_spec. exact Hk. Qed.

Lemma double_ok_inv m : double_ok m = true -> exists k, m = k * 125000 /\ Z.abs k < two53.
Proof.
  unfold double_ok. intros H. apply andb_true_iff in H. destruct H as [H1 H2].
  apply Z.eqb_eq in H1. apply Z.ltb_lt in H2.
  exists (m / 125000). split; [|exact H2].
  pose proof (Z.div_mod m 125000). lia.
Qed.

(* ================================================================== nested induction over values *)
Section AVAL_IND.
  Variable P : aval -> Prop.
  Hypothesis HStr : forall s, P (AStr s).
  Hypothesis HInt : forall z, P (AInt z).
  Hypothesis HBool : forall b, P (ABool b).
  Hypothesis HDouble : forall d, P (ADouble d).
  Hypothesis HBytes : forall s, P (ABytes s).
  Hypothesis HEmpty : P AEmpty.
  Hypothesis HNil : P ANil.
  Hypothesis HList : forall l, Forall P l -> P (AList l).
  Hypothesis HMap : forall l, Forall (fun kv => P (snd kv)) l -> P (AMap l).
  Fixpoint aval_wire_ind (v : aval) : P v :=
    match v with
    | AStr s => HStr s | AInt z => HInt z | ABool b => HBool b | ADouble d => HDouble d | ABytes s => HBytes s
    | AEmpty => HEmpty | ANil => HNil
    | AList l => HList l ((fix go (l : list aval) : Forall P l :=
                             match l with [] => Forall_nil _ | x :: r => Forall_cons x (aval_wire_ind x) (go r) end) l)
    | AMap l => HMap l ((fix go (l : list (string * aval)) : Forall (fun kv => P (snd kv)) l :=
                           match l with [] => Forall_nil _ | x :: r => Forall_cons x (aval_wire_ind (snd x)) (go r) end) l)
    end.
End AVAL_IND.

(* ================================================================== layer 2: unfolding equations *)
Definition elem_field (x : aval) : field := (1%N, RBytes (enc_any x)).
Definition kv_elem_field (num : N) (p : string * aval) : field := (num, RBytes (enc_kv p)).

Lemma fields_any_list l : fields_any (AList l) = [(5%N, RBytes (ser_fields (map elem_field l)))].
Proof. reflexivity. Qed.
Lemma fields_any_map l : fields_any (AMap l) = [(6%N, RBytes (ser_fields (map (kv_elem_field 1) l)))].
Proof. reflexivity. Qed.
Lemma any_ok_list l : any_ok (AList l) = forallb (fun x => negb (is_nil x) && any_ok x) l.
Proof. reflexivity. Qed.
Lemma any_ok_map l : any_ok (AMap l) = forallb (fun p => any_ok (snd p)) l.
Proof. reflexivity. Qed.

Lemma fold_opt_app {S A} (step : S -> A -> option S) (a b : list A) (st : S) :
  fold_opt step (a ++ b)%list st = match fold_opt step a st with Some st' => fold_opt step b st' | None => None end.
Proof.
  revert st. induction a as [|x a IH]; intros st; cbn [fold_opt app]; [reflexivity|].
  destruct (step st x) as [st'|]; [apply IH|reflexivity].
Qed.

Lemma dec_any_f_eq k init b :
  dec_any_f (S k) init b =
  match raw_fields b with Some fs => fold_opt (any_step (dec_any_f k)) fs init | None => None end.
Proof. reflexivity. Qed.

(* ================================================================== layer 2: repeated elements *)
Lemma dec_elems_map rec l : (forall x, In x l -> rec AEmpty (enc_any x) = Some x) ->
  dec_elems rec (map elem_field l) = Some l.
Proof.
  induction l as [|x l IH]; intros H; [reflexivity|].
  cbn [map elem_field dec_elems N.eqb Pos.eqb]. rewrite (H x) by (left; reflexivity).
  rewrite IH; [reflexivity|]. intros y Hy. apply H. right. exact Hy.
Qed.

Lemma wf_bytes n s : (1 <= n <= max_field)%N -> wf_field (n, RBytes s).
Proof. intros H. split; [exact H|exact I]. Qed.
Lemma wf_bytes_field n s : (1 <= n <= max_field)%N -> Forall wf_field (bytes_field n s).
Proof.
  intros H. unfold bytes_field. destruct (String.eqb s ""); [constructor|].
  constructor; [apply wf_bytes; exact H|constructor].
Qed.
Lemma wf_fields_kv p : Forall wf_field (fields_kv p).
Proof.
  unfold fields_kv, kv_fields. apply Forall_app. split.
  - apply wf_bytes_field. unfold max_field. lia.
  - destruct (is_nil (snd p)); [constructor|]. constructor; [apply wf_bytes; unfold max_field; lia|constructor].
Qed.

Lemma merge_nil_case v : is_nil v = true -> v = ANil.
Proof. destruct v; try discriminate. reflexivity. Qed.

Lemma dec_kv_enc rec p :
  (is_nil (snd p) = false -> rec AEmpty (enc_any (snd p)) = Some (snd p)) ->
  dec_kv rec (enc_kv p) = Some p.
Proof.
  intros H. unfold dec_kv, enc_kv. rewrite raw_fields_ser by apply wf_fields_kv.
  destruct p as [k v]. unfold fields_kv, kv_fields, bytes_field. cbn [fst snd] in *.
  destruct (String.eqb_spec k "") as [->|Hk]; destruct (is_nil v) eqn:En;
    cbn [app fold_opt kv_step N.eqb Pos.eqb fst snd].
  - now rewrite (merge_nil_case v En).
  - rewrite (H eq_refl). reflexivity.
  - now rewrite (merge_nil_case v En).
  - rewrite (H eq_refl). reflexivity.
Qed.

Lemma dec_kvs_map rec num l : (forall p, In p l -> dec_kv rec (enc_kv p) = Some p) ->
  dec_kvs rec num (map (kv_elem_field num) l) = Some l.
Proof.
  induction l as [|x l IH]; intros H; [reflexivity|].
  cbn [map kv_elem_field dec_kvs]. rewrite N.eqb_refl. rewrite (H x) by (left; reflexivity).
  rewrite IH; [reflexivity|]. intros y Hy. apply H. right. exact Hy.
Qed.
Lemma dec_kvs_app rec num a b :
  dec_kvs rec num (a ++ b)%list =
  match dec_kvs rec num a, dec_kvs rec num b with Some x, Some y => Some (x ++ y)%list | _, _ => None end.
Proof.
  induction a as [|[n v] a IH]; cbn [app dec_kvs].
  - destruct (dec_kvs rec num b); reflexivity.
  - destruct v as [x|x|s|x]; try exact IH.
    destruct (n =? num)%N; [|exact IH].
    destruct (dec_kv rec s) as [kv|]; [|reflexivity].
    rewrite IH. destruct (dec_kvs rec num a) as [x|]; [|reflexivity].
    destruct (dec_kvs rec num b) as [y|]; reflexivity.
Qed.

(* ================================================================== layer 2: AnyValue *)
Definition merge (init v : aval) : aval :=
  match v with
  | AEmpty | ANil => init
  | AList l => AList (match init with AList l0 => (l0 ++ l)%list | _ => l end)
  | AMap l => AMap (match init with AMap l0 => (l0 ++ l)%list | _ => l end)
  | _ => v
  end.
Lemma merge_empty v : is_nil v = false -> merge AEmpty v = v.
Proof. destruct v; try reflexivity. discriminate. Qed.

Lemma to_u64_range z : 0 <= to_u64 z < two64.
Proof. unfold to_u64. apply Z.mod_pos_bound. reflexivity. Qed.
Lemma wrap_u64 z : in_int64 z = true -> wrap64 (Z.of_N (Z.to_N (to_u64 z))) = z.
Proof.
  unfold in_int64. intros H. pose proof (to_u64_range z) as Hr. rewrite Z2N.id by lia.
  unfold wrap64, to_u64, two63, two64 in *. lia.
Qed.

Lemma wf_fields_any v : any_ok v = true -> Forall wf_field (fields_any v).
Proof.
  intros Hok. destruct v as [s|z|b|d|s| | |l|l].
  - constructor; [apply wf_bytes; unfold max_field; lia|constructor].
  - constructor; [|constructor]. split; [unfold max_field; cbn [fst]; lia|]. cbn [snd].
    pose proof (to_u64_range z). unfold two64N, two64 in *. lia.
  - constructor; [|constructor]. split; [unfold max_field; cbn [fst]; lia|]. cbn [snd]. unfold two64N. destruct b; lia.
  - constructor; [|constructor]. split; [unfold max_field; cbn [fst]; lia|]. cbn [snd].
    cbn [any_ok] in Hok. destruct (double_ok_inv d Hok) as (k & -> & Hk). apply double_bits_spec. exact Hk.
  - constructor; [apply wf_bytes; unfold max_field; lia|constructor].
  - constructor.
  - constructor.
  - rewrite fields_any_list. constructor; [apply wf_bytes; unfold max_field; lia|constructor].
  - rewrite fields_any_map. constructor; [apply wf_bytes; unfold max_field; lia|constructor].
Qed.
Lemma wf_map_bytes {A} n (g : A -> string) l : (1 <= n <= max_field)%N -> Forall wf_field (map (fun x => (n, RBytes (g x))) l).
Proof. intros H. induction l as [|x l IH]; cbn [map]; constructor; [apply wf_bytes; exact H|exact IH]. Qed.

Lemma enc_any_single f v : fields_any v = [f] -> enc_any v = ser_field f.
Proof. intros E. unfold enc_any. rewrite E. cbn [ser_fields]. apply sapp_nil_r. Qed.

Lemma dec_any_enc v : forall fuel init, (String.length (enc_any v) < fuel)%nat -> any_ok v = true ->
  dec_any_f fuel init (enc_any v) = Some (merge init v).
Proof.
  induction v as [s|z|b|d|s| | |l HF|l HF] using aval_wire_ind; intros fuel init Hfuel Hok;
    (destruct fuel as [|k]; [lia|]); rewrite dec_any_f_eq; pose proof (wf_fields_any _ Hok) as Hwf;
    unfold enc_any in *; rewrite (raw_fields_ser _ Hwf).
  - reflexivity.
  - cbn [fields_any fold_opt any_step N.eqb Pos.eqb merge]. cbn [any_ok] in Hok. now rewrite wrap_u64.
  - cbn [fields_any fold_opt any_step N.eqb Pos.eqb merge]. destruct b; reflexivity.
  - cbn [fields_any fold_opt any_step N.eqb Pos.eqb merge]. cbn [any_ok] in Hok.
    destruct (double_ok_inv d Hok) as (k0 & -> & Hk). now rewrite double_bits_roundtrip.
  - reflexivity.
  - reflexivity.
  - reflexivity.
  - (* list *)
    rewrite fields_any_list in *. cbn [fold_opt any_step N.eqb Pos.eqb merge].
    unfold dec_list. rewrite raw_fields_ser by (apply (wf_map_bytes 1 enc_any); unfold max_field; lia).
    change (map (fun x => (1%N, RBytes (enc_any x))) l) with (map elem_field l).
    rewrite dec_elems_map; [reflexivity|].
    intros x Hx. rewrite any_ok_list in Hok. rewrite forallb_forall in Hok. specialize (Hok x Hx).
    apply andb_true_iff in Hok. destruct Hok as [Hnil Hokx]. apply negb_true_iff in Hnil.
    rewrite Forall_forall in HF. unfold enc_any in HF. unfold enc_any. rewrite (HF x Hx); [now rewrite merge_empty| |exact Hokx].
    assert (Hin : In (elem_field x) (map elem_field l)) by (apply in_map; exact Hx).
    pose proof (bytes_in_len _ _ _ Hin) as H1. unfold enc_any in H1.
    cbn [ser_fields] in Hfuel. rewrite sapp_nil_r in Hfuel.
    pose proof (ser_field_bytes_len 5 (ser_fields (map elem_field l))) as H2. lia.
  - (* map *)
    rewrite fields_any_map in *. cbn [fold_opt any_step N.eqb Pos.eqb merge].
    unfold dec_kvlist. rewrite raw_fields_ser by (apply (wf_map_bytes 1 enc_kv); unfold max_field; lia).
    change (map (fun x => (1%N, RBytes (enc_kv x))) l) with (map (kv_elem_field 1) l).
    rewrite dec_kvs_map; [reflexivity|].
    intros p Hp. apply dec_kv_enc. intros Hnil.
    rewrite any_ok_map in Hok. rewrite forallb_forall in Hok. specialize (Hok p Hp).
    rewrite Forall_forall in HF. unfold enc_any in HF. unfold enc_any. rewrite (HF p Hp); [now rewrite merge_empty| |exact Hok].
    assert (Hin : In (kv_elem_field 1 p) (map (kv_elem_field 1) l)) by (apply in_map; exact Hp).
    pose proof (bytes_in_len _ _ _ Hin) as H1.
    assert (Hin2 : In (2%N, RBytes (enc_any (snd p))) (fields_kv p)).
    { unfold fields_kv, kv_fields. rewrite Hnil. apply in_or_app. right. left. reflexivity. }
    pose proof (bytes_in_len _ _ _ Hin2) as H3. unfold enc_kv in H1. unfold enc_any in H3.
    cbn [ser_fields] in Hfuel. rewrite sapp_nil_r in Hfuel.
    pose proof (ser_field_bytes_len 6 (ser_fields (map (kv_elem_field 1) l))) as H2. lia.
Qed.

(* ================================================================== layer 2: Span *)
Lemma span_step_attr st b : span_step st (9%N, RBytes b) = Some st.
Proof. reflexivity. Qed.
Lemma fold_span_attrs a st : fold_opt span_step (fields_attrs a) st = Some st.
Proof.
  induction a as [|p a IH]; [reflexivity|].
  unfold fields_attrs in *. cbn [map fold_opt]. rewrite span_step_attr. exact IH.
Qed.

Lemma int32_kind z : 0 <= z < 2147483648 -> int32_of (Z.to_N (to_u64 z)) = z.
Proof.
  intros H. unfold int32_of. pose proof (to_u64_range z) as Hr. rewrite Z2N.id by lia.
  unfold to_u64, two64 in *. rewrite (Z.mod_small z) by lia. rewrite (Z.mod_small z) by lia. cbv zeta.
  destruct (Z.ltb_spec z 2147483648); lia.
Qed.
Lemma time_u64 z : 0 <= z < two64 -> Z.of_N (Z.to_N (to_u64 z)) = z.
Proof.
  intros H. pose proof (to_u64_range z) as Hr. rewrite Z2N.id by lia.
  unfold to_u64, two64 in *. lia.
Qed.

Definition scalars_ok (s : ospan) : Prop :=
  0 <= o_start s < two64 /\ 0 <= o_end s < two64 /\ 0 <= o_kind s < 2147483648.

Local Notation mk_sp t sp pa nm st en kd :=
  {| o_trace := t; o_span := sp; o_parent := pa; o_name := nm; o_start := st; o_end := en; o_kind := kd; o_attrs := [] |}.

Lemma fold_span_scalars s : scalars_ok s ->
  fold_opt span_step (fields_scalars s) span0 =
  Some (mk_sp (o_trace s) (o_span s) (o_parent s) (o_name s) (o_start s) (o_end s) (o_kind s)).
Proof.
  destruct s as [t sp pa nm st en kd at_]. unfold scalars_ok. cbn [o_start o_end o_kind].
  intros (Hst & Hen & Hkd).
  pose proof (int32_kind kd Hkd) as Ek. pose proof (time_u64 st Hst) as Es. pose proof (time_u64 en Hen) as Ee.
  unfold fields_scalars, span0. cbn [o_trace o_span o_parent o_name o_start o_end o_kind].
  assert (E1 : fold_opt span_step (bytes_field 1 t) (mk_sp "" "" "" "" 0 0 0) = Some (mk_sp t "" "" "" 0 0 0)).
  { unfold bytes_field. destruct (String.eqb_spec t "") as [->|Hne]; reflexivity. }
  assert (E2 : fold_opt span_step (bytes_field 2 sp) (mk_sp t "" "" "" 0 0 0) = Some (mk_sp t sp "" "" 0 0 0)).
  { unfold bytes_field. destruct (String.eqb_spec sp "") as [->|Hne]; reflexivity. }
  assert (E3 : fold_opt span_step (bytes_field 4 pa) (mk_sp t sp "" "" 0 0 0) = Some (mk_sp t sp pa "" 0 0 0)).
  { unfold bytes_field. destruct (String.eqb_spec pa "") as [->|Hne]; reflexivity. }
  assert (E4 : fold_opt span_step (bytes_field 5 nm) (mk_sp t sp pa "" 0 0 0) = Some (mk_sp t sp pa nm 0 0 0)).
  { unfold bytes_field. destruct (String.eqb_spec nm "") as [->|Hne]; reflexivity. }
  assert (E5 : fold_opt span_step (varint_field 6 kd) (mk_sp t sp pa nm 0 0 0)
               = Some (mk_sp t sp pa nm 0 0 kd)).
  { unfold varint_field. destruct (Z.eqb_spec kd 0) as [->|Hne]; [reflexivity|].
    cbn [fold_opt span_step N.eqb Pos.eqb o_trace o_span o_parent o_name o_start o_end o_kind o_attrs]. now rewrite Ek. }
  assert (E6 : fold_opt span_step (fixed64_field 7 st) (mk_sp t sp pa nm 0 0 kd) = Some (mk_sp t sp pa nm st 0 kd)).
  { unfold fixed64_field. destruct (Z.eqb_spec st 0) as [->|Hne]; [reflexivity|].
    cbn [fold_opt span_step N.eqb Pos.eqb o_trace o_span o_parent o_name o_start o_end o_kind o_attrs]. now rewrite Es. }
  assert (E7 : fold_opt span_step (fixed64_field 8 en) (mk_sp t sp pa nm st 0 kd) = Some (mk_sp t sp pa nm st en kd)).
  { unfold fixed64_field. destruct (Z.eqb_spec en 0) as [->|Hne]; [reflexivity|].
    cbn [fold_opt span_step N.eqb Pos.eqb o_trace o_span o_parent o_name o_start o_end o_kind o_attrs]. now rewrite Ee. }
  rewrite fold_opt_app, E1, fold_opt_app, E2, fold_opt_app, E3, fold_opt_app, E4, fold_opt_app, E5, fold_opt_app, E6.
  exact E7.
Qed.

Lemma dec_kvs_scalars rec s : dec_kvs rec 9 (fields_scalars s) = Some [].
Proof.
  unfold fields_scalars, bytes_field, fixed64_field, varint_field.
  destruct (String.eqb (o_trace s) ""); destruct (String.eqb (o_span s) ""); destruct (String.eqb (o_parent s) "");
    destruct (String.eqb (o_name s) ""); destruct (o_kind s =? 0); destruct (o_start s =? 0); destruct (o_end s =? 0);
    reflexivity.
Qed.

Lemma wf_fields_scalars s : scalars_ok s -> Forall wf_field (fields_scalars s).
Proof.
  intros (Hst & Hen & Hkd). unfold fields_scalars, fixed64_field, varint_field.
  repeat (apply Forall_app; split); try (apply wf_bytes_field; unfold max_field; lia).
  - destruct (o_kind s =? 0); [constructor|]. constructor; [|constructor].
    split; [unfold max_field; cbn [fst]; lia|]. cbn [snd].
    pose proof (to_u64_range (o_kind s)). unfold two64N, two64 in *. lia.
  - destruct (o_start s =? 0); [constructor|]. constructor; [|constructor].
    split; [unfold max_field; cbn [fst]; lia|]. cbn [snd].
    pose proof (to_u64_range (o_start s)). unfold two64N, two64 in *. lia.
  - destruct (o_end s =? 0); [constructor|]. constructor; [|constructor].
    split; [unfold max_field; cbn [fst]; lia|]. cbn [snd].
    pose proof (to_u64_range (o_end s)). unfold two64N, two64 in *. lia.
Qed.

(* ================================================================== the round trip *)
Theorem dec_enc_span : forall s, span_wire_ok s = true -> dec_span (enc_span s) = Some s.
Proof.
  intros s Hok. unfold span_wire_ok in Hok.
  repeat (apply andb_true_iff in Hok; let H := fresh "Hc" in destruct Hok as [Hok H]).
  assert (Hsc : scalars_ok s) by (unfold scalars_ok; lia).
  rewrite forallb_forall in Hc.
  unfold dec_span, enc_span.
  assert (Hwf : Forall wf_field (fields_span s)).
  { unfold fields_span. apply Forall_app. split; [apply wf_fields_scalars; exact Hsc|].
    unfold fields_attrs. apply (wf_map_bytes 9 enc_kv). unfold max_field. lia. }
  rewrite (raw_fields_ser _ Hwf).
  remember (String.length (ser_fields (fields_span s))) as fuel eqn:Efuel.
  unfold fields_span. rewrite fold_opt_app, (fold_span_scalars s Hsc), fold_span_attrs.
  rewrite dec_kvs_app, dec_kvs_scalars.
  change (fields_attrs (o_attrs s)) with (map (kv_elem_field 9) (o_attrs s)).
  rewrite dec_kvs_map.
  - cbn [app o_trace o_span o_parent o_name o_start o_end o_kind]. destruct s; reflexivity.
  - intros p Hp. apply dec_kv_enc. intros Hnil.
    rewrite dec_any_enc; [now rewrite merge_empty| |apply Hc; exact Hp].
    assert (Hin : In (kv_elem_field 9 p) (fields_span s)).
    { unfold fields_span. apply in_or_app. right. apply in_map. exact Hp. }
    pose proof (bytes_in_len _ _ _ Hin) as H1.
    assert (Hin2 : In (2%N, RBytes (enc_any (snd p))) (fields_kv p)).
    { unfold fields_kv, kv_fields. rewrite Hnil. apply in_or_app. right. left. reflexivity. }
    pose proof (bytes_in_len _ _ _ Hin2) as H3. unfold enc_kv in H1. lia.
Qed.

(* ================================================================== examples *)
(* the hypotheses of the lemmas are met *)
Example enc_varint_roundtrip_ex :
  enc_varint 300 = hx "ac02" /\ dec_varint64 (enc_varint 18446744073709551615 ++ "x") = Some (18446744073709551615%N, "x").
Proof. vm_compute. split; reflexivity. Qed.
Example double_bits_ex :
  double_bits 1500000 = 4609434218613702656%N /\ double_bits (-1500000) = 13832806255468478464%N
  /\ double_bits 125000 = 4593671619917905920%N /\ double_bits 0 = 0%N
  /\ dec_double 9223372036854775808 = None            (* -0 *)
  /\ dec_double 9218868437227405312 = None            (* +inf *)
  /\ dec_double 4591870180066957722 = None            (* 0.1 *)
  /\ dec_double 1 = None.                             (* a subnormal *)
Proof. vm_compute. repeat split; reflexivity. Qed.

(* byte-exact test vector: the bytes proto.Marshal of google.golang.org/protobuf returns for this span *)
Definition wire_ex1 : ospan :=
  {| o_trace := hx "0102030405060708090a0b0c0d0e0f10"; o_span := hx "a1a2a3a4a5a6a7a8"; o_parent := ""; o_name := "op";
     o_start := 1727700000000000000; o_end := 1727700000000001000; o_kind := 2;
     o_attrs := [("k", AStr "v"); ("n", AInt (-1)); ("d", ADouble 1500000); ("l", AList [ABool true; AEmpty]);
                 ("m", AMap [("x", ABytes "ab")]); ("nil", ANil)] |}.
Example wire_ex1_bytes :
  enc_span wire_ex1 =
  hx "0a100102030405060708090a0b0c0d0e0f101208a1a2a3a4a5a6a7a82a026f703002390040710aff05fa1741e843710aff05fa174a080a016b12030a01764a100a016e120b18ffffffffffffffffff014a0e0a0164120921000000000000f83f4a0d0a016c12082a060a0210010a004a120a016d120d320b0a090a017812043a0261624a050a036e696c"
  /\ span_wire_ok wire_ex1 = true /\ dec_span (enc_span wire_ex1) = Some wire_ex1.
Proof. vm_compute. repeat split; reflexivity. Qed.

(* second vector of the implementation: set oneof members with zero values are emitted, empty key omitted *)
Definition wire_ex2 : ospan :=
  {| o_trace := ""; o_span := ""; o_parent := ""; o_name := ""; o_start := 0; o_end := 0; o_kind := 0;
     o_attrs := [("", AStr ""); ("b", ABool false); ("i", AInt 0); ("d", ADouble 0); ("d2", ADouble (-1500000));
                 ("d3", ADouble 125000); ("y", ABytes ""); ("y2", ABytes ""); ("l", AList []); ("m", AMap []); ("e", AEmpty)] |}.
Example wire_ex2_bytes :
  enc_span wire_ex2 =
  hx "4a0412020a004a070a0162120210004a070a0169120218004a0e0a016412092100000000000000004a0f0a026432120921000000000000f8bf4a0f0a026433120921000000000000c03f4a070a017912023a004a080a02793212023a004a070a016c12022a004a070a016d120232004a050a01651200"
  /\ span_wire_ok wire_ex2 = true /\ dec_span (enc_span wire_ex2) = Some wire_ex2.
Proof. vm_compute. repeat split; reflexivity. Qed.

(* a nested value: the hypothesis of dec_enc_span is met by a non-trivial span, and the round trip computes *)
Definition wire_ex3 : ospan :=
  {| o_trace := hx "00ff"; o_span := ""; o_parent := hx "0102030405060708"; o_name := "";
     o_start := 18446744073709551615; o_end := 1; o_kind := 2147483647;
     o_attrs := [("", ANil); ("a", AList [AList [AList []; AMap [("", ANil); ("q", AList [AInt (-9223372036854775808)])]];
                                           AInt 9223372036854775807; ADouble (-1500000); ABool false; ABytes (hx "00ff80"); AEmpty;
                                           AStr ""]);
                 ("a", AMap [("k", AMap [("k", AMap [("d", ADouble 1125899906842623875000)])]); ("k", AEmpty)]);
                 ("neg", AInt (-2)); ("e", AEmpty)] |}.
Example wire_ex3_roundtrip : span_wire_ok wire_ex3 = true /\ dec_span (enc_span wire_ex3) = Some wire_ex3.
Proof. vm_compute. split; reflexivity. Qed.

(* outside the domain the decoder does not return the span: ANil inside a list reads back as AEmpty *)
Example wire_nil_in_list :
  let s := {| o_trace := ""; o_span := ""; o_parent := ""; o_name := ""; o_start := 0; o_end := 0; o_kind := 0;
              o_attrs := [("l", AList [ANil])] |} in
  span_wire_ok s = false /\
  dec_span (enc_span s) = Some {| o_trace := ""; o_span := ""; o_parent := ""; o_name := ""; o_start := 0; o_end := 0; o_kind := 0;
                                  o_attrs := [("l", AList [AEmpty])] |}.
Proof. vm_compute. split; reflexivity. Qed.

(* decoder conventions on inputs the encoder never produces: unknown fields (3 trace_state, 10 as varint, 15 as fixed32)
   are skipped, the last name wins, a repeated KeyValue.value is merged (lists concatenate), truncation is an error *)
Example wire_decoder_conventions :
  dec_span (hx "1a027473" ++ hx "2a0161" ++ hx "5007" ++ hx "7d01020304" ++ hx "2a0162"
            ++ hx "4a13" ++ hx "0a016c" ++ hx "12062a040a021001" ++ hx "12062a040a021000")
  = Some {| o_trace := ""; o_span := ""; o_parent := ""; o_name := "b"; o_start := 0; o_end := 0; o_kind := 0;
            o_attrs := [("l", AList [ABool true; ABool false])] |}
  /\ dec_span (hx "2a05616263") = None
  /\ dec_span (hx "0b") = None
  /\ dec_span (hx "00") = None.
Proof. vm_compute. repeat split; reflexivity. Qed.
