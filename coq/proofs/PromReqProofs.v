(* Proofs about model/PromReq.v: a Select never answers a truncated row stream; overlapping requests read under
   their own, un-cancelled context for EVERY interleaving; the shared-queryable variant (seed C17-f) refuted. *)
From Coq Require Import List ZArith NArith Bool String Lia.
From Qryn Require Import model.PromSelect model.PromReq.
Import ListNotations.

(* ---------------------------------------------------------------- (1) streams *)
Lemma select_series_no_rows mr f : select_series mr [] f = [].
Proof. reflexivity. Qed.

Lemma select_stream_full_or_error mr rows fetch :
  select_stream mr rows fetch =
  if failure_met rows fetch then SelErr else SelOk (select_series mr (st_rows rows) (st_rows fetch)).
Proof.
  unfold select_stream, failure_met.
  destruct (failed rows) eqn:Hr; cbn [orb]; [reflexivity|].
  destruct (st_rows rows) as [|x l] eqn:Hl; cbn [List.length Nat.eqb negb andb].
  - rewrite !select_series_no_rows. reflexivity.
  - destruct (failed fetch); reflexivity.
Qed.

Lemma select_stream_error_iff mr rows fetch :
  select_stream mr rows fetch = SelErr <-> failure_met rows fetch = true.
Proof.
  rewrite select_stream_full_or_error. destruct (failure_met rows fetch); split; intro H; try reflexivity; discriminate.
Qed.

Lemma select_stream_complete mr rows fetch l :
  select_stream mr rows fetch = SelOk l ->
  failure_met rows fetch = false /\ l = select_series mr (st_rows rows) (st_rows fetch).
Proof.
  rewrite select_stream_full_or_error. destruct (failure_met rows fetch); intro H; [discriminate|].
  injection H as H. split; [reflexivity|symmetry; exact H].
Qed.

(* a stream that ends normally is read whole *)
Lemma select_stream_whole mr rows fetch :
  select_stream mr {| st_rows := rows; st_cut := None |} {| st_rows := fetch; st_cut := None |} = SelOk (select_series mr rows fetch).
Proof. rewrite select_stream_full_or_error. unfold failure_met, failed. cbn. rewrite andb_false_r. reflexivity. Qed.

(* the reading before the fix: two series, the label stream breaks off after the first label row *)
Open Scope string_scope.
Definition w_rows : list row :=
  [ {| r_fp := 2001; r_val := 1; r_ts := 1000 |}; {| r_fp := 2001; r_val := 2; r_ts := 2000 |};
    {| r_fp := 2002; r_val := 7; r_ts := 1000 |}; {| r_fp := 2002; r_val := 8; r_ts := 2000 |} ]%Z.
Definition w_fetch : list fetch_row :=
  [ (2001%N, [("__name__", "m"); ("job", "b1")]); (2002%N, [("__name__", "m"); ("job", "b2")]) ].
Definition w_labels_cut : stream fetch_row := {| st_rows := w_fetch; st_cut := Some 1%nat |}.
Definition w_rows_cut : stream row := {| st_rows := w_rows; st_cut := Some 3%nat |}.
Definition w_rows_whole : stream row := {| st_rows := w_rows; st_cut := None |}.
Definition w_fetch_whole : stream fetch_row := {| st_rows := w_fetch; st_cut := None |}.

Lemma unchecked_label_stream_refuted :
  exists l, select_stream_unchecked false w_rows_whole w_labels_cut = SelOk l
            /\ stream_spec_ok false w_rows_whole w_labels_cut (SelOk l) = false
            /\ existsb (fun o => match o_labels o with [] => true | _ => false end) l = true.
Proof. eexists. split; [reflexivity|]. split; vm_compute; reflexivity. Qed.

Lemma unchecked_sample_stream_refuted :
  exists l, select_stream_unchecked false w_rows_cut w_fetch_whole = SelOk l
            /\ stream_spec_ok false w_rows_cut w_fetch_whole (SelOk l) = false
            /\ List.length (flat_map o_samples l) = 3%nat.
Proof. eexists. split; [reflexivity|]. split; vm_compute; reflexivity. Qed.

Lemma checked_streams_on_the_witnesses :
  select_stream false w_rows_whole w_labels_cut = SelErr /\ select_stream false w_rows_cut w_fetch_whole = SelErr
  /\ stream_spec_ok false w_rows_whole w_fetch_whole (select_stream false w_rows_whole w_fetch_whole) = true.
Proof. split; [|split]; vm_compute; reflexivity. Qed.
Close Scope string_scope.

(* ---------------------------------------------------------------- (2) requests and contexts *)
Lemma phase_cons r p ph r' : phase ((r, p) :: ph) r' = if N.eqb r r' then p else phase ph r'.
Proof. unfold phase. cbn [lookup]. destruct (N.eqb r r'); reflexivity. Qed.

Definition inv (st : rstate) (ph : list (N * N)) : Prop :=
  (forall r, (1 <= phase ph r)%N -> lookup r (rs_handles st) = Some (HCopy r)) /\
  (forall r, phase ph r = 2%N -> lookup r (rs_qctx st) = Some (Some r)) /\
  (forall r, existsb (N.eqb r) (rs_ended st) = true -> phase ph r = 3%N).

Lemma inv_init : inv rs_init [].
Proof.
  split; [|split]; intros r H; cbn in H; try discriminate.
  unfold phase in H. cbn in H. lia.
Qed.

Lemma run_looks_ok : forall tr st ph,
  inv st ph -> wf_go ph tr = true -> forall o, In o (run false st tr) -> look_ok o = true.
Proof.
  induction tr as [|e t IH]; intros st ph (I1 & I2 & I3) Hwf o Hin; [destruct Hin|].
  destruct e as [r|r|r|r]; cbn [wf_go] in Hwf; apply andb_prop in Hwf; destruct Hwf as [Hp Hwf];
    cbn [run step] in Hin.
  - (* ESet *)
    apply N.eqb_eq in Hp. cbn [app] in Hin.
    refine (IH _ _ _ Hwf o Hin). unfold set_oid_and_db.
    split; [|split]; intros r' H; cbn [rs_handles rs_qctx rs_ended] in *; rewrite phase_cons in *.
    + cbn [lookup]. destruct (N.eqb r r') eqn:E; [apply N.eqb_eq in E; subst; reflexivity|apply I1; exact H].
    + destruct (N.eqb r r') eqn:E; [discriminate|apply I2; exact H].
    + destruct (N.eqb r r') eqn:E; [|apply I3; exact H].
      apply N.eqb_eq in E; subst r'. apply I3 in H. rewrite Hp in H. discriminate.
  - (* EQuerier *)
    apply N.eqb_eq in Hp. cbn [app] in Hin.
    refine (IH _ _ _ Hwf o Hin). unfold querier.
    assert (Hh : lookup r (rs_handles st) = Some (HCopy r)) by (apply I1; rewrite Hp; lia).
    rewrite Hh.
    split; [|split]; intros r' H; cbn [rs_handles rs_qctx rs_ended] in *; rewrite phase_cons in *.
    + destruct (N.eqb r r') eqn:E; [apply N.eqb_eq in E; subst; exact Hh|apply I1; exact H].
    + cbn [lookup]. destruct (N.eqb r r') eqn:E; [apply N.eqb_eq in E; subst; reflexivity|apply I2; exact H].
    + destruct (N.eqb r r') eqn:E; [|apply I3; exact H].
      apply N.eqb_eq in E; subst r'. apply I3 in H. rewrite Hp in H. discriminate.
  - (* ELook *)
    apply N.eqb_eq in Hp. cbn [app] in Hin. destruct Hin as [Ho|Hin].
    + subst o. unfold look. rewrite (I2 r Hp). unfold ctx_done.
      destruct (existsb (N.eqb r) (rs_ended st)) eqn:E.
      * apply I3 in E. rewrite Hp in E. discriminate.
      * cbn [look_ok]. rewrite N.eqb_refl. reflexivity.
    + refine (IH st ph _ Hwf o Hin). split; [|split]; assumption.
  - (* EEnd *)
    cbn [app] in Hin.
    refine (IH _ _ _ Hwf o Hin).
    split; [|split]; intros r' H; cbn [rs_handles rs_qctx rs_ended] in *; rewrite phase_cons in *.
    + destruct (N.eqb r r') eqn:E; [|apply I1; exact H].
      apply N.eqb_eq in E; subst r'. apply I1.
      apply orb_prop in Hp. destruct Hp as [Hp|Hp]; apply N.eqb_eq in Hp; rewrite Hp; lia.
    + destruct (N.eqb r r') eqn:E; [discriminate|apply I2; exact H].
    + destruct (N.eqb r r') eqn:E; [reflexivity|].
      cbn [existsb] in H. rewrite N.eqb_sym in E. rewrite E in H. cbn [orb] in H. apply I3; exact H.
Qed.

Lemma look_ok_inv o : look_ok o = true -> snd (fst o) = Some (fst (fst o)) /\ snd o = false.
Proof.
  destruct o as [[r [c|]] d]; cbn; intro H; [|discriminate].
  apply andb_prop in H. destruct H as [H1 H2]. apply N.eqb_eq in H1. subst c.
  split; [reflexivity|]. destruct d; [discriminate|reflexivity].
Qed.

Lemma own_context_all_interleavings tr :
  wf tr = true -> forall o, In o (run false rs_init tr) -> snd (fst o) = Some (fst (fst o)) /\ snd o = false.
Proof. intros Hwf o Hin. apply look_ok_inv. exact (run_looks_ok tr rs_init [] inv_init Hwf o Hin). Qed.

Lemma no_cut_of_ok_looks l r : (forall o, In o l -> snd o = false) -> ctx_cut (req_looks r l) = false.
Proof.
  intro H. unfold ctx_cut, req_looks. induction l as [|o t IH]; [reflexivity|].
  cbn [filter]. destruct (N.eqb (fst (fst o)) r).
  - cbn [existsb]. rewrite (H o (or_introl eq_refl)). cbn [orb]. apply IH. intros o' Ho'. apply H. right; exact Ho'.
  - apply IH. intros o' Ho'. apply H. right; exact Ho'.
Qed.

(* each request of every well-formed interleaving, no driver fault: Select = select_series over ALL its rows *)
Lemma request_select_whole tr r mr rows fetch k k' :
  wf tr = true ->
  request_select false tr r mr rows None fetch None k k' = SelOk (select_series mr rows fetch).
Proof.
  intro Hwf. unfold request_select.
  rewrite (no_cut_of_ok_looks _ r (fun o Ho => proj2 (own_context_all_interleavings tr Hwf o Ho))).
  cbn [cut_at]. apply select_stream_whole.
Qed.

(* a driver fault fails the request, whatever the interleaving; never a shorter answer *)
Lemma request_select_full_or_error shared tr r mr rows fr fetch ff k k' :
  request_select shared tr r mr rows fr fetch ff k k' = SelErr \/
  request_select shared tr r mr rows fr fetch ff k k' = SelOk (select_series mr rows fetch).
Proof.
  unfold request_select. rewrite select_stream_full_or_error.
  match goal with |- context [failure_met ?a ?b] => destruct (failure_met a b) end; [left|right]; reflexivity.
Qed.

(* ---- requests whose client goes away: the model's looks = the specification function of the trace, for every wfc trace *)
Definition invc (st : rstate) (ph : list (N * N)) (ended : list N) : Prop :=
  (forall r, (1 <= phase ph r)%N -> lookup r (rs_handles st) = Some (HCopy r)) /\
  (forall r, phase ph r = 2%N -> lookup r (rs_qctx st) = Some (Some r)) /\
  rs_ended st = ended.

Lemma run_is_spec : forall tr st ph ended,
  invc st ph ended -> wfc_go ph ended tr = true -> run false st tr = spec_go ended tr.
Proof.
  induction tr as [|e t IH]; intros st ph ended (I1 & I2 & I3) Hwf; [reflexivity|].
  destruct e as [r|r|r|r]; cbn [wfc_go] in Hwf; apply andb_prop in Hwf; destruct Hwf as [Hp Hwf];
    cbn [run step spec_go app].
  - apply N.eqb_eq in Hp. apply (IH _ ((r, 1%N) :: ph) ended); [|exact Hwf]. unfold set_oid_and_db.
    split; [|split]; [intros r' H|intros r' H|exact I3]; cbn [rs_handles rs_qctx rs_ended] in *; rewrite phase_cons in *.
    + cbn [lookup]. destruct (N.eqb r r') eqn:E; [apply N.eqb_eq in E; subst; reflexivity|apply I1; exact H].
    + destruct (N.eqb r r') eqn:E; [discriminate|apply I2; exact H].
  - apply N.eqb_eq in Hp. apply (IH _ ((r, 2%N) :: ph) ended); [|exact Hwf]. unfold querier.
    assert (Hh : lookup r (rs_handles st) = Some (HCopy r)) by (apply I1; rewrite Hp; lia).
    rewrite Hh.
    split; [|split]; [intros r' H|intros r' H|exact I3]; cbn [rs_handles rs_qctx rs_ended] in *; rewrite phase_cons in *.
    + destruct (N.eqb r r') eqn:E; [apply N.eqb_eq in E; subst; exact Hh|apply I1; exact H].
    + cbn [lookup]. destruct (N.eqb r r') eqn:E; [apply N.eqb_eq in E; subst; reflexivity|apply I2; exact H].
  - apply N.eqb_eq in Hp. f_equal.
    + unfold look. rewrite (I2 r Hp). unfold ctx_done. rewrite I3. reflexivity.
    + apply (IH st ph ended); [|exact Hwf]. split; [|split]; assumption.
  - apply andb_prop in Hp. destruct Hp as [Hp _].
    apply (IH _ ph (r :: ended)); [|exact Hwf].
    split; [|split]; [exact I1|exact I2|]. cbn [rs_ended]. rewrite I3. reflexivity.
Qed.

Lemma run_is_spec_looks tr : wfc tr = true -> run false rs_init tr = spec_looks tr.
Proof.
  intro H. apply (run_is_spec tr rs_init [] []); [|exact H].
  split; [|split]; [intros r Hr|intros r Hr|reflexivity]; unfold phase in Hr; cbn in Hr; [lia|discriminate].
Qed.

(* what the specification function says: own context; done only when the request itself ended before *)
Lemma spec_go_own : forall tr ended o, In o (spec_go ended tr) ->
  snd (fst o) = Some (fst (fst o)) /\
  (snd o = true -> existsb (N.eqb (fst (fst o))) ended = true \/ In (EEnd (fst (fst o))) tr).
Proof.
  induction tr as [|e t IH]; intros ended o Hin; [destruct Hin|].
  destruct e as [r|r|r|r]; cbn [spec_go] in Hin.
  - destruct (IH _ _ Hin) as [A B]. split; [exact A|]. intro D. destruct (B D) as [X|X]; [left; exact X|right; right; exact X].
  - destruct (IH _ _ Hin) as [A B]. split; [exact A|]. intro D. destruct (B D) as [X|X]; [left; exact X|right; right; exact X].
  - destruct Hin as [Ho|Hin].
    + subst o. cbn. split; [reflexivity|]. intro D. left. exact D.
    + destruct (IH _ _ Hin) as [A B]. split; [exact A|]. intro D. destruct (B D) as [X|X]; [left; exact X|right; right; exact X].
  - destruct (IH _ _ Hin) as [A B]. split; [exact A|]. intro D. destruct (B D) as [X|X].
    + cbn [existsb] in X. apply orb_prop in X. destruct X as [X|X].
      * apply N.eqb_eq in X. right. left. f_equal. symmetry. exact X.
      * left. exact X.
    + right. right. exact X.
Qed.

Lemma cut_only_by_own_end tr : wfc tr = true -> forall o, In o (run false rs_init tr) ->
  snd (fst o) = Some (fst (fst o)) /\ (snd o = true -> In (EEnd (fst (fst o))) tr).
Proof.
  intros H o Hin. rewrite (run_is_spec_looks tr H) in Hin. destruct (spec_go_own tr [] o Hin) as [A B].
  split; [exact A|]. intro D. destruct (B D) as [X|X]; [discriminate|exact X].
Qed.

(* the client of request 0 goes away while request 1 reads: request 1 is not touched (code), is cut (shared variant) *)
Definition w_trace_client_gone : list ev :=
  [ESet 1; ESet 0; EQuerier 0; ELook 0; EQuerier 1; ELook 1; EEnd 0; ELook 0; ELook 1; EEnd 1]%N.
Lemma client_gone_witness :
  wfc w_trace_client_gone = true
  /\ run false rs_init w_trace_client_gone = [(0, Some 0, false); (1, Some 1, false); (0, Some 0, true); (1, Some 1, false)]%N
  /\ run true rs_init w_trace_client_gone = [(0, Some 0, false); (1, Some 0, false); (0, Some 0, true); (1, Some 0, true)]%N.
Proof. split; [reflexivity|]. split; reflexivity. Qed.

(* seed C17-f: request 1 (B) is set up, request 0 (A) is set up before B's engine asked for its querier, A ends
   while B still reads *)
Definition w_trace : list ev :=
  [ESet 1; ESet 0; EQuerier 0; ELook 0; EQuerier 1; ELook 1; EEnd 0; ELook 1]%N.

Lemma shared_queryable_refuted :
  wf w_trace = true
  /\ In (1%N, Some 0%N, true) (run true rs_init w_trace)
  /\ request_select true w_trace 1 false w_rows None w_fetch None 3 1 = SelErr
  /\ request_select false w_trace 1 false w_rows None w_fetch None 3 1 = SelOk (select_series false w_rows w_fetch).
Proof.
  split; [reflexivity|]. split; [vm_compute; tauto|]. split; [vm_compute; reflexivity|].
  apply request_select_whole. reflexivity.
Qed.

(* under the shared variant a querier runs under the context of the request that was set up LAST before its Querier() *)
Lemma shared_last_setter_wins r a st :
  lookup r (rs_handles st) = Some HShared ->
  let st1 := set_oid_and_db true st a in
  lookup r (rs_qctx (querier st1 r)) = Some (Some a) \/ a = r.
Proof.
  intros H st1. destruct (N.eqb a r) eqn:E; [right; apply N.eqb_eq; exact E|left].
  unfold st1, set_oid_and_db, querier. cbn [rs_handles rs_shared rs_qctx lookup]. rewrite E, H. cbn [lookup].
  rewrite N.eqb_refl. reflexivity.
Qed.
