(* Time arithmetic of the trace write path (property C06): no loss and no overflow in the stated domains, and what
   happens outside them.
     Zipkin: timestamp / duration are microseconds (JSON integer or decimal string), stored as int64 nanoseconds
             (usToNs: refused when the product leaves int64).
     OTLP:   start / end are uint64 nanoseconds, stored as int64(start) and int64(end - start). *)
From Coq Require Import List ZArith NArith Bool String Ascii Lia.
From Qryn Require Import model.Spans proofs.SpansProofs.
Import ListNotations.
Open Scope list_scope.
Open Scope Z_scope.

Lemma in_int64_spec z : in_int64 z = true <-> - two63 <= z < two63.
Proof. unfold in_int64. rewrite andb_true_iff, Z.leb_le, Z.ltb_lt. tauto. Qed.

Lemma wrap64_small z : - two63 <= z < two63 -> wrap64 z = z.
Proof. intros H. unfold wrap64, two64, two63 in *. rewrite Z.mod_small; lia. Qed.

(* ---- Zipkin: the stored value is exactly 1000 times the pushed number, for every accepted number *)
Lemma time_field_exact v t :
  time_field v = Some t -> exists x, string_or_int64 v = Some x /\ t = x * 1000 /\ - two63 <= t < two63.
Proof.
  unfold time_field, ns_of_us. destruct (string_or_int64 v) as [x|]; [|discriminate].
  destruct (in_int64 (x * 1000)) eqn:E; [|discriminate]. intros H; inversion H; subst.
  exists x. split; [reflexivity|]. split; [reflexivity|]. apply in_int64_spec, E.
Qed.

(* ... and every number whose product fits is accepted: the domain is exactly |x * 1000| within int64 *)
Lemma time_field_total v x :
  string_or_int64 v = Some x -> - two63 <= x * 1000 < two63 -> time_field v = Some (x * 1000).
Proof.
  intros Hv Hr. unfold time_field, ns_of_us. rewrite Hv. apply in_int64_spec in Hr. rewrite Hr. reflexivity.
Qed.

Lemma time_field_refused v x :
  string_or_int64 v = Some x -> ~ (- two63 <= x * 1000 < two63) -> time_field v = None.
Proof.
  intros Hv Hr. unfold time_field, ns_of_us. rewrite Hv.
  destruct (in_int64 (x * 1000)) eqn:E; [|reflexivity]. apply in_int64_spec in E. contradiction.
Qed.

Definition z_time_of (key : string) (fs : list (string * jv)) (t : Z) : Prop :=
  match jget key fs with
  | Some v => exists x, string_or_int64 v = Some x /\ t = x * 1000
  | None => t = 0
  end.

Lemma zipkin_pushed_times fs p :
  zipkin_pushed (JObj fs) = Some p ->
  z_time_of "timestamp" fs (p_ts p) /\ z_time_of "duration" fs (p_dur p) /\
  - two63 <= p_ts p < two63 /\ - two63 <= p_dur p < two63.
Proof.
  unfold zipkin_pushed, z_time_of. destruct (jget "traceId" fs); [|discriminate]. destruct (jget "id" fs); [|discriminate].
  destruct (hex_field 32 j); [|discriminate]. destruct (hex_field 16 j0); [|discriminate].
  destruct (opt_field (jget "parentId" fs) "" (hex_field 16)); [|discriminate].
  destruct (opt_field (jget "timestamp" fs) 0 time_field) as [ts|] eqn:Ets; [|discriminate].
  destruct (opt_field (jget "duration" fs) 0 time_field) as [dur|] eqn:Ed; [|discriminate].
  destruct (opt_field (jget "name" fs) None _); [|discriminate].
  destruct (_ && _); [|discriminate]. intros H; inversion H; subst; clear H. cbn [p_ts p_dur].
  unfold opt_field in *. unfold two63.
  destruct (jget "timestamp" fs) as [v|]; destruct (jget "duration" fs) as [w|].
  - destruct (time_field_exact _ _ Ets) as [x [H1 [H2 H3]]]. destruct (time_field_exact _ _ Ed) as [y [H4 [H5 H6]]].
    unfold two63 in *. split; [eauto|]. split; [eauto|]. lia.
  - destruct (time_field_exact _ _ Ets) as [x [H1 [H2 H3]]]. inversion Ed; subst. unfold two63 in *. split; [eauto|]. split; [reflexivity|]. lia.
  - destruct (time_field_exact _ _ Ed) as [y [H4 [H5 H6]]]. inversion Ets; subst. unfold two63 in *. split; [reflexivity|]. split; [eauto|]. lia.
  - inversion Ets; inversion Ed; subst. split; [reflexivity|]. split; [reflexivity|]. lia.
Qed.

Lemma mapM_each {A B} (f : A -> option B) l ys : mapM f l = Some ys -> Forall2 (fun x y => f x = Some y) l ys.
Proof.
  revert ys. induction l as [|x l IH]; intros ys H; cbn [mapM] in H.
  - inversion H. constructor.
  - destruct (f x) as [y|] eqn:E; [|discriminate]. destruct (mapM f l) as [ys'|]; [|discriminate]. inversion H; subst.
    constructor; [exact E|apply IH; reflexivity].
Qed.

Lemma Forall2_comp {A B C} (R : A -> B -> Prop) (S : B -> C -> Prop) a b c :
  Forall2 R a b -> Forall2 S b c -> Forall2 (fun x z => exists y, R x y /\ S y z) a c.
Proof.
  intros H. revert c. induction H; intros c H2; inversion H2; subst; constructor; eauto.
Qed.

(* every trace row of an accepted Zipkin request carries exactly 1000 x the pushed microseconds, inside int64 *)
Theorem zipkin_times_no_loss_l : forall nd es rows ps,
  decode fixed (InZipkin nd es) = Some rows -> pushed_of (InZipkin nd es) = Some ps ->
  Forall2 (fun e sr => forall fs, e = JObj fs ->
             z_time_of "timestamp" fs (t_ts (fst sr)) /\ z_time_of "duration" fs (t_dur (fst sr)) /\
             - two63 <= t_ts (fst sr) < two63 /\ - two63 <= t_dur (fst sr) < two63) es rows.
Proof.
  intros nd es rows ps Hd Hp. pose proof (one_row_per_span_l _ _ _ Hd Hp) as Hrows.
  cbn [pushed_of] in Hp. destruct (forallb z_wellformed es); [|discriminate].
  pose proof (mapM_each _ _ _ Hp) as Hps.
  assert (Hr : Forall2 (fun p sr => row_of p (fst sr)) ps rows).
  { clear -Hrows. revert ps Hrows. induction rows as [|sr rows IH]; intros ps H; inversion H; subst; constructor; auto. }
  pose proof (Forall2_comp _ _ _ _ _ Hps Hr) as Hc.
  eapply Forall2_imp; [|exact Hc]. intros e sr [p [Hpu Hro]] fs ->.
  destruct (zipkin_pushed_times _ _ Hpu) as [H1 [H2 [H3 H4]]].
  destruct Hro as [_ [_ [_ [_ [Hts [Hdur _]]]]]]. rewrite Hts, Hdur. tauto.
Qed.

(* ---- OTLP *)
Lemma otlp_pushed_times ra s p :
  otlp_pushed ra s = Some p -> 0 <= o_start s <= o_end s -> o_end s < two63 ->
  p_ts p = o_start s /\ p_dur p = o_end s - o_start s.
Proof.
  unfold otlp_pushed. destruct (flat_attrs true _ []); [|discriminate]. intros H Hs He. inversion H; subst; clear H.
  cbn [p_ts p_dur]. unfold two63 in *. split.
  - apply wrap64_small. unfold two63. lia.
  - rewrite Z.mod_small by (unfold two64; lia). apply wrap64_small. unfold two63. lia.
Qed.

(* outside that domain nothing is refused: a start of 2^63 ns or more is stored as a NEGATIVE timestamp_ns, an end before
   the start as a NEGATIVE duration_ns (the int64 conversions wrap); the read path still returns the pushed uint64 values
   (read_back, otlp_times), but the columns no longer order or filter by time *)
Example otlp_time_outside :
  wrap64 two63 = - two63 /\ wrap64 ((100 - 200) mod two64) = -100 /\
  to_u64 (wrap64 two63) = two63 /\ to_u64 (wrap64 (wrap64 200 + wrap64 ((100 - 200) mod two64))) = 100.
Proof. vm_compute. repeat split. Qed.

(* the hypotheses of the no-loss statements are met by non-trivial values *)
Example ex_zipkin_time_exact :
  time_field (JInt 1727700000000000) = Some 1727700000000000000 /\
  time_field (JStr "9223372036854775") = Some 9223372036854775000 /\
  time_field (JInt 9223372036854776) = None /\ time_field (JInt (-9223372036854775)) = Some (-9223372036854775000) /\
  time_field (JInt (-9223372036854776)) = None /\
  time_field (JInt 25000000000000000000) = None /\ time_field JFloat = None.
Proof. vm_compute. repeat split. Qed.
