(* sanitizeProfile drops no sample of a well-formed payload (round 8): under wf_raw_b every mapping, function and location
   reference is found again by the renumbering passes, so no location and no sample is removed and the values are untouched;
   with payload_merge_is_sum_all: the per-type totals of the merged profile are the sums of the totals of the RAW payloads. *)
From Coq Require Import List NArith ZArith Bool Lia Permutation.
From Qryn Require Import model.Pprof model.ProfMerge model.ProfRewrite proofs.PprofProofs proofs.ProfMergeProofs
  proofs.ProfRewriteProofs proofs.ProfSanitizeProofs proofs.ProfSaneProofs.
Import ListNotations.
Open Scope Z_scope.

Section Renumber3.
  Context {A : Type} (getid : A -> Z) (setid : A -> Z -> A).

  (* every id of the list (and every key already mapped to a positive number) is mapped to a positive number *)
  Lemma renumber_hit : forall l j t i, 1 <= j -> (has_id getid l i = true \/ 1 <= aget t i) ->
    1 <= aget (snd (renumber getid setid l j t)) i.
  Proof.
    induction l as [|x r IH]; intros j t i Hj H; cbn [renumber].
    - cbn [snd]. destruct H as [H|H]; [discriminate H|exact H].
    - specialize (IH (j + 1) (aset t (getid x) j) i ltac:(lia)).
      destruct (renumber getid setid r (j + 1) (aset t (getid x) j)) as [r' t'] eqn:E. cbn [snd] in *. apply IH.
      unfold has_id in H. cbn [existsb] in H. unfold aset. cbn [aget].
      destruct (Z.eqb (getid x) i) eqn:Ex; [right; lia|]. cbn [orb] in H.
      destruct H as [H|H]; [left; exact H|right; exact H].
  Qed.

  Lemma renumber_proj {B} (f : A -> B) : (forall x j, f (setid x j) = f x) ->
    forall l j t, map f (fst (renumber getid setid l j t)) = map f l.
  Proof.
    intros Hf. induction l as [|x r IH]; intros j t; cbn [renumber]; [reflexivity|].
    specialize (IH (j + 1) (aset t (getid x) j)).
    destruct (renumber getid setid r (j + 1) (aset t (getid x) j)) as [r' t'] eqn:E. cbn [fst map] in *.
    rewrite Hf, IH. reflexivity.
  Qed.
End Renumber3.

Lemma has_id_ids {A B} (ga : A -> Z) (gb : B -> Z) i : forall la lb, map ga la = map gb lb -> has_id ga la i = has_id gb lb i.
Proof.
  unfold has_id. induction la as [|a la IH]; intros [|b lb] H; cbn [map] in H; try discriminate; [reflexivity|].
  inversion H as [[H1 H2]]. cbn [existsb]. rewrite H1, (IH _ H2). reflexivity.
Qed.

Lemma san_loc_maps_keeps t n : forall ls fake, Forall (fun l => l_map l = 0 \/ 1 <= aget t (l_map l)) ls ->
  map l_id (fst (san_loc_maps t n ls fake)) = map l_id ls /\ map l_lines (fst (san_loc_maps t n ls fake)) = map l_lines ls.
Proof.
  induction ls as [|x r IH]; intros fake H; cbn [san_loc_maps]; [split; reflexivity|].
  inversion H as [|? ? Hx Hr]; subst. destruct (Z.eqb (l_map x) 0) eqn:E0.
  - set (fake' := if Z.eqb fake 0 then n + 1 else fake). destruct (IH fake' Hr) as [I1 I2].
    destruct (san_loc_maps t n r fake') as [r' f']. cbn [fst map set_lmap l_id l_lines] in *. rewrite I1, I2. split; reflexivity.
  - destruct (IH fake Hr) as [I1 I2]. destruct (san_loc_maps t n r fake) as [r' f'].
    apply Z.eqb_neq in E0. destruct Hx as [Hx|Hx]; [contradiction|].
    destruct (Z.eqb (aget t (l_map x)) 0) eqn:Em; [apply Z.eqb_eq in Em; lia|].
    cbn [fst map set_lmap l_id l_lines] in *. rewrite I1, I2. split; reflexivity.
Qed.

Lemma san_lines_some t : forall ls, Forall (fun ln => 1 <= aget t (ln_fn ln)) ls -> exists r, san_lines t ls = Some r.
Proof.
  induction ls as [|x ls IH]; intros H; cbn [san_lines]; [eexists; reflexivity|].
  inversion H as [|? ? Hx Hr]; subst. destruct (Z.eqb (aget t (ln_fn x)) 0) eqn:E; [apply Z.eqb_eq in E; lia|].
  destruct (IH Hr) as [r' ->]. eexists; reflexivity.
Qed.

Lemma san_loc_funs_keeps t : forall ls, Forall (fun lines => Forall (fun ln => 1 <= aget t (ln_fn ln)) lines) (map l_lines ls) ->
  map l_id (san_loc_funs t ls) = map l_id ls.
Proof.
  induction ls as [|x ls IH]; intros H; cbn [san_loc_funs]; [reflexivity|]. cbn [map] in H.
  inversion H as [|? ? Hx Hr]; subst. destruct (san_lines_some t _ Hx) as [lines ->].
  cbn [map set_llines l_id]. rewrite (IH Hr). reflexivity.
Qed.

Lemma san_locids_some t : forall ids, Forall (fun i => 1 <= aget t i) ids -> exists r, san_locids t ids = Some r.
Proof.
  induction ids as [|x ids IH]; intros H; cbn [san_locids]; [eexists; reflexivity|].
  inversion H as [|? ? Hx Hr]; subst. destruct (Z.eqb (aget t x) 0) eqn:E; [apply Z.eqb_eq in E; lia|].
  destruct (IH Hr) as [r' ->]. eexists; reflexivity.
Qed.

Lemma san_samples_keeps str t vs : forall ss,
  Forall (fun s => length (s_vals s) = vs /\ Forall (fun i => 1 <= aget t i) (s_locs s)) ss ->
  map s_vals (san_samples str t vs ss) = map s_vals ss.
Proof.
  induction ss as [|x ss IH]; intros H; cbn [san_samples]; [reflexivity|].
  inversion H as [|? ? [Hv Hl] Hr]; subst. rewrite Nat.eqb_refl. cbn [negb].
  destruct (san_locids_some t _ Hl) as [ids ->]. cbn [map s_vals]. rewrite (IH Hr). reflexivity.
Qed.

(* no sample of a well-formed payload is dropped, no value is touched *)
Theorem sanitize_keeps_samples p : wf_raw_b p = true -> map s_vals (p_samps (sanitize p)) = map s_vals (p_samps p).
Proof.
  unfold wf_raw_b. intro H.
  apply andb_true_iff in H. destruct H as [H H9]. apply andb_true_iff in H. destruct H as [_ H8].
  unfold sanitize. cbv zeta.
  match goal with |- context [san_str ?z ?ms] => set (str := san_str z ms) end. clearbody str.
  (* mappings *)
  match goal with |- context [renumber m_id set_mid ?l 1 []] => set (ml := l) end.
  assert (Hmids : map m_id ml = map m_id (p_maps p)) by (unfold ml; rewrite map_map; reflexivity).
  assert (Hmh : forall i, has_id m_id (p_maps p) i = true -> 1 <= aget (snd (renumber m_id set_mid ml 1 [])) i).
  { intros i Hi. apply renumber_hit; [lia|]. left. rewrite (has_id_ids m_id m_id i _ _ Hmids). exact Hi. }
  destruct (renumber m_id set_mid ml 1 []) as [maps1 tm]. cbn [snd] in Hmh.
  (* locations, first pass: nothing dropped *)
  assert (Hl1 : Forall (fun l => l_map l = 0 \/ 1 <= aget tm (l_map l)) (p_locs p)).
  { apply Forall_forall. intros l Hl. rewrite forallb_forall in H8. specialize (H8 l Hl).
    apply andb_true_iff in H8. destruct H8 as [H8 _]. apply orb_true_iff in H8.
    destruct H8 as [H8|H8]; [left; apply Z.eqb_eq; exact H8|right; apply Hmh; exact H8]. }
  destruct (san_loc_maps_keeps tm (Z.of_nat (length maps1)) (p_locs p) 0 Hl1) as [K1 K2].
  destruct (san_loc_maps tm (Z.of_nat (length maps1)) (p_locs p) 0) as [locs1 fake]. cbn [fst] in K1, K2.
  (* functions *)
  match goal with |- context [renumber f_id set_fid ?l 1 []] => set (fl := l) end.
  assert (Hfids : map f_id fl = map f_id (p_funs p)) by (unfold fl; rewrite map_map; reflexivity).
  assert (Hfh : forall i, has_id f_id (p_funs p) i = true -> 1 <= aget (snd (renumber f_id set_fid fl 1 [])) i).
  { intros i Hi. apply renumber_hit; [lia|]. left. rewrite (has_id_ids f_id f_id i _ _ Hfids). exact Hi. }
  destruct (renumber f_id set_fid fl 1 []) as [funs tf]. cbn [snd] in Hfh.
  (* locations, second pass: nothing dropped *)
  assert (Hl2 : Forall (fun lines => Forall (fun ln => 1 <= aget tf (ln_fn ln)) lines) (map l_lines locs1)).
  { rewrite K2. apply Forall_forall. intros lines Hin. apply in_map_iff in Hin. destruct Hin as [l [<- Hl]].
    rewrite forallb_forall in H8. specialize (H8 l Hl). apply andb_true_iff in H8. destruct H8 as [_ H8].
    apply Forall_forall. intros ln Hln. rewrite forallb_forall in H8. apply Hfh. exact (H8 ln Hln). }
  pose proof (san_loc_funs_keeps tf locs1 Hl2) as K3. rewrite K1 in K3.
  set (l2 := san_loc_funs tf locs1) in *.
  assert (Hlh : forall i, has_id l_id (p_locs p) i = true -> 1 <= aget (snd (renumber l_id set_lid l2 1 [])) i).
  { intros i Hi. apply renumber_hit; [lia|]. left. rewrite (has_id_ids l_id l_id i _ _ K3). exact Hi. }
  destruct (renumber l_id set_lid l2 1 []) as [locs tl]. cbn [snd] in Hlh.
  cbn [p_samps]. apply san_samples_keeps.
  apply Forall_forall. intros s Hs. rewrite forallb_forall in H9. specialize (H9 s Hs).
  apply andb_true_iff in H9. destruct H9 as [Hv Hl]. split; [apply Nat.eqb_eq; exact Hv|].
  apply Forall_forall. intros i Hi. rewrite forallb_forall in Hl. apply Hlh. exact (Hl i Hi).
Qed.

Definition all_stacks : list (list fden) -> bool := fun _ => true.

Lemma weight_all k p : weight all_stacks k p = sumZ (map (fun v => nth k v 0) (map s_vals (p_samps p))).
Proof. unfold weight, all_stacks. rewrite map_map. reflexivity. Qed.

Theorem sanitize_keeps_totals p k : wf_raw_b p = true -> weight all_stacks k (sanitize p) = weight all_stacks k p.
Proof. intro H. rewrite !weight_all, (sanitize_keeps_samples p H). reflexivity. Qed.

(* the per-type totals of the merged profile are the sums of the totals of the RAW payloads *)
Definition raw_totals (k : nat) (ps : list pprofile) : Z :=
  sumZ (map (fun p => if merged_in p then weight all_stacks k p else 0) ps).

Theorem payload_merge_totals_raw (ps : list pprofile) (st : mstate) :
  merge_all exact_keqs mstate0 ps = inl st -> Z.of_nat (length (ms_funs st)) < two32 ->
  Forall (fun p => merged_in p = true -> wf_raw_b p = true) ps ->
  forall k, (k < length (p_types (merged_profile st)))%nat ->
  eqm (weight all_stacks k (merged_profile st)) (raw_totals k ps).
Proof.
  intros H Hb Hwf k Hk. rewrite (payload_merge_is_sum_all ps st H Hb all_stacks k Hk).
  apply eqm_of_eq. unfold payload_weights, raw_totals. f_equal. apply map_ext_in. intros p Hp.
  destruct (merged_in p) eqn:E; [|reflexivity]. apply sanitize_keeps_totals.
  rewrite Forall_forall in Hwf. exact (Hwf p Hp E).
Qed.

Example payload_merge_totals_raw_applies :
  forallb wf_raw_b [ex_p1; ex_p2] = true /\ forallb merged_in [ex_p1; ex_p2] = true /\
  exists st, merge_all exact_keqs mstate0 [ex_p1; ex_p2] = inl st /\ Z.of_nat (length (ms_funs st)) < two32 /\
    length (p_types (merged_profile st)) = 1%nat /\
    weight all_stacks 0 (merged_profile st) = 18 /\ raw_totals 0 [ex_p1; ex_p2] = 18.
Proof. split; [vm_compute; reflexivity|]. split; [vm_compute; reflexivity|]. eexists. split; [vm_compute; reflexivity|]. vm_compute. repeat split; reflexivity. Qed.

(* the hypothesis matters: ex_bad is not well formed and sanitizeProfile drops three of its four samples *)
Example sanitize_drops_samples_of_malformed :
  wf_raw_b ex_bad = false /\ length (p_samps ex_bad) = 4%nat /\ length (p_samps (sanitize ex_bad)) = 1%nat.
Proof. vm_compute. repeat split; reflexivity. Qed.
