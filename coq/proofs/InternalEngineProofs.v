(* Proofs about the model of the in-process LogQL engine (model/InternalEngine.v). *)
From Coq Require Import List ZArith NArith Bool String Ascii Lia.
From Qryn Require Import model.InternalEngine.
Import ListNotations.
Open Scope Z_scope.

Section PROOFS.
  Variable V : Type.
  Variables (v0 v1 : V) (vadd vdiv : V -> V -> V) (vltb vleb veqb : V -> V -> bool) (vofZ : Z -> V).
  Variable panic_kills : bool.
  Variable fpf : lbls -> N.
  Variable re_match : string -> string -> bool.
  Variable pfloat : string -> option V.
  Variable parse : N -> string -> option lbls.
  Variable tmpl : N -> lbls -> option string.

  Notation entry := (entry V).
  Notation batches := (list (list entry)).
  Notation wrap := (wrap V v0 panic_kills).

  (* ---------- filter stages ---------- *)
  Lemma fold_filter (keep : entry -> bool) : forall b acc,
    fold_entries V (filter_ops V keep) acc b = Ok (acc ++ filter keep b, b).
  Proof.
    induction b as [|e r IH]; intros acc; cbn [fold_entries filter].
    - now rewrite app_nil_r.
    - cbn [on_entry filter_ops]. rewrite IH. destruct (keep e).
      + now rewrite <- app_assoc.
      + reflexivity.
  Qed.

  Lemma wrap_filter (keep : entry -> bool) : forall bs,
    wrap (filter_ops V keep) [] bs = map (filter keep) bs.
  Proof.
    induction bs as [|b r IH]; cbn [wrap map]; [reflexivity|].
    rewrite fold_filter. cbn [on_slice filter_ops app]. now rewrite IH.
  Qed.

  Lemma concat_map_filter (keep : entry -> bool) (bs : batches) :
    List.concat (map (filter keep) bs) = filter keep (List.concat bs).
  Proof.
    induction bs as [|b r IH]; cbn; [reflexivity|]. now rewrite IH, filter_app.
  Qed.

  (* ---------- stages that rewrite every entry and forward the batch ---------- *)
  Fixpoint mapM (f : entry -> res entry) (l : list entry) : res (list entry) :=
    match l with
    | [] => Ok []
    | e :: r => match f e with
                | Fail k => Fail k
                | Ok e' => match mapM f r with Fail k => Fail k | Ok r' => Ok (e' :: r') end
                end
    end.

  Lemma fold_map_ops (f : entry -> res entry) : forall b,
    fold_entries V (map_ops V f) tt b = match mapM f b with Ok b' => Ok (tt, b') | Fail k => Fail k end.
  Proof.
    induction b as [|e r IH]; cbn [fold_entries mapM]; [reflexivity|].
    cbn [on_entry map_ops]. destruct (f e) as [e'|k]; [|reflexivity].
    rewrite IH. destruct (mapM f r); reflexivity.
  Qed.

  Lemma mapM_total (f : entry -> res entry) (g : entry -> entry) :
    (forall e, f e = Ok (g e)) -> forall l, mapM f l = Ok (map g l).
  Proof.
    intros H. induction l as [|e r IH]; cbn [mapM map]; [reflexivity|]. now rewrite H, IH.
  Qed.

  Lemma wrap_map_total (f : entry -> res entry) (g : entry -> entry) :
    (forall e, f e = Ok (g e)) -> forall bs, wrap (map_ops V f) tt bs = map (map g) bs.
  Proof.
    intros H. induction bs as [|b r IH]; cbn [wrap map]; [reflexivity|].
    rewrite fold_map_ops, (mapM_total f g H). cbn [on_slice map_ops app]. now rewrite IH.
  Qed.

  Lemma concat_map_map (g : entry -> entry) (bs : batches) :
    List.concat (map (map g) bs) = map g (List.concat bs).
  Proof. induction bs as [|b r IH]; cbn; [reflexivity|]. now rewrite IH, map_app. Qed.

  Lemma mapM_app (f : entry -> res entry) : forall a b,
    mapM f (a ++ b) = match mapM f a with
                      | Fail k => Fail k
                      | Ok a' => match mapM f b with Fail k => Fail k | Ok b' => Ok (a' ++ b') end
                      end.
  Proof.
    induction a as [|e r IH]; intros b; cbn [mapM app].
    - destruct (mapM f b); reflexivity.
    - destruct (f e) as [e'|k]; [|reflexivity]. rewrite IH.
      destruct (mapM f r) as [r'|k]; [|reflexivity]. destruct (mapM f b); reflexivity.
  Qed.

  (* the general shape of the output of a rewriting stage: either every entry was rewritten, or the
     batches before the failing one were forwarded and one error entry ends the stream *)
  Lemma wrap_map_shape (f : entry -> res entry) : forall bs,
    match mapM f (List.concat bs) with
    | Ok l' => List.concat (wrap (map_ops V f) tt bs) = l'
    | Fail k => exists pre, wrap (map_ops V f) tt bs = pre ++ [[fail_entry V v0 panic_kills k]] /\
                            exists a b, List.concat bs = a ++ b /\ mapM f a = Ok (List.concat pre)
    end.
  Proof.
    induction bs as [|b r IH]; cbn [wrap List.concat mapM].
    - reflexivity.
    - rewrite fold_map_ops, mapM_app. destruct (mapM f b) as [b'|k] eqn:Hb.
      + cbn [on_slice map_ops]. destruct (mapM f (List.concat r)) as [r'|k] eqn:Hr.
        * cbn [app List.concat]. now rewrite IH.
        * destruct IH as [pre [Hw [a [c [Hc Ha]]]]]. exists (b' :: pre). split.
          { cbn [app]. now rewrite Hw. }
          exists (b ++ a), c. split; [now rewrite Hc, app_assoc|].
          rewrite mapM_app, Hb, Ha. reflexivity.
      + exists []. split; [reflexivity|]. exists [], (b ++ List.concat r). split; reflexivity.
  Qed.

  (* ---------- line_format ---------- *)
  Definition lf_one (id : N) (e : entry) : list entry :=
    match tmpl id (lset match e_lbl V e with None => [] | Some m => m end entry_key (e_msg V e)) with
    | Some s => [set_msg V e s]
    | None => []
    end.

  Lemma fold_line_format id : forall b acc,
    exists b', fold_entries V (line_format_ops V tmpl id) acc b = Ok (acc ++ flat_map (lf_one id) b, b').
  Proof.
    induction b as [|e r IH]; intros acc; cbn [fold_entries flat_map].
    - exists []. now rewrite app_nil_r.
    - cbn [on_entry line_format_ops]. unfold lf_one at 1.
      destruct (tmpl id _) as [s|].
      + destruct (IH (acc ++ [set_msg V e s])) as [b' Hb]. rewrite Hb. eexists. cbn [app]. now rewrite <- app_assoc.
      + destruct (IH acc) as [b' Hb]. rewrite Hb. eexists. reflexivity.
  Qed.

  Lemma wrap_line_format id : forall bs,
    wrap (line_format_ops V tmpl id) [] bs = map (flat_map (lf_one id)) bs.
  Proof.
    induction bs as [|b r IH]; cbn [wrap map]; [reflexivity|].
    destruct (fold_line_format id b []) as [b' Hb]. rewrite Hb. cbn [on_slice line_format_ops app]. now rewrite IH.
  Qed.

  Lemma concat_map_flat_map (g : entry -> list entry) (bs : batches) :
    List.concat (map (flat_map g) bs) = flat_map g (List.concat bs).
  Proof. induction bs as [|b r IH]; cbn; [reflexivity|]. now rewrite IH, flat_map_app. Qed.

  (* ---------- limit ---------- *)
  Lemma fold_limit L : forall b s, fold_entries V (limit_ops V L) s b = Ok (s, b).
  Proof.
    induction b as [|e r IH]; intros s; cbn [fold_entries]; [reflexivity|].
    cbn [on_entry limit_ops]. now rewrite IH.
  Qed.

  Lemma wrap_limit_zero : forall bs s, wrap (limit_ops V 0) s bs = bs.
  Proof.
    induction bs as [|b r IH]; intros s; cbn [wrap]; [reflexivity|].
    rewrite fold_limit. cbn [on_slice limit_ops]. cbn. now rewrite IH.
  Qed.

  Lemma wrap_limit_done L : 0 < L -> forall bs, List.concat (wrap (limit_ops V L) L bs) = [].
  Proof.
    intros HL. induction bs as [|b r IH]; cbn [wrap]; [reflexivity|].
    rewrite fold_limit. cbn [on_slice limit_ops].
    destruct (Z.eqb_spec L 0) as [->|_]; [lia|]. rewrite Z.leb_refl. cbn [app]. exact IH.
  Qed.

  Lemma wrap_limit_pos L : 0 < L -> forall bs s, 0 <= s <= L ->
    List.concat (wrap (limit_ops V L) s bs) = firstn (Z.to_nat (L - s)) (List.concat bs).
  Proof.
    intros HL. induction bs as [|b r IH]; intros s Hs; cbn [wrap List.concat].
    - now rewrite firstn_nil.
    - rewrite fold_limit. cbn [on_slice limit_ops].
      destruct (Z.eqb_spec L 0) as [->|_]; [lia|].
      destruct (Z.leb_spec L s) as [H1|H1].
      + cbn [app]. replace s with L by lia. rewrite wrap_limit_done by exact HL.
        replace (Z.to_nat (L - L)) with O by lia. reflexivity.
      + destruct (Z.ltb_spec (s + Z.of_nat (List.length b)) L) as [H2|H2]; cbn [app List.concat].
        * rewrite IH by lia. rewrite firstn_app, (firstn_all2 b) by lia. f_equal. f_equal. lia.
        * rewrite wrap_limit_done by exact HL. rewrite app_nil_r, firstn_app.
          replace (Z.to_nat (L - s) - List.length b)%nat with O by lia. cbn [firstn]. now rewrite app_nil_r.
  Qed.

  (* ---------- stages that only send at the end of the input (the aggregators) ---------- *)
  Lemma fold_entries_app {S} (o : ops V S) : forall a b s,
    fold_entries V o s (a ++ b) =
    match fold_entries V o s a with
    | Fail k => Fail k
    | Ok (s1, a1) => match fold_entries V o s1 b with Fail k => Fail k | Ok (s2, b1) => Ok (s2, a1 ++ b1) end
    end.
  Proof.
    induction a as [|e r IH]; intros b s; cbn [fold_entries app].
    - destruct (fold_entries V o s b) as [[s2 b1]|k]; reflexivity.
    - destruct (on_entry V S o s e) as [[s1 e1]|k]; [|reflexivity]. rewrite IH.
      destruct (fold_entries V o s1 r) as [[s2 r2]|k]; [|reflexivity].
      destruct (fold_entries V o s2 b) as [[s3 b3]|k]; reflexivity.
  Qed.

  Lemma wrap_end_only {S} (o : ops V S) :
    (forall s b, on_slice V S o s b = Ok (s, [])) ->
    forall bs s, wrap o s bs = wrap o s [List.concat bs].
  Proof.
    intros Hs. induction bs as [|b r IH]; intros s.
    - cbn [wrap List.concat fold_entries]. rewrite Hs. reflexivity.
    - cbn [List.concat]. cbn [wrap]. rewrite fold_entries_app.
      destruct (fold_entries V o s b) as [[s1 b1]|k]; [|reflexivity].
      rewrite Hs. cbn [app]. rewrite IH. cbn [wrap].
      destruct (fold_entries V o s1 (List.concat r)) as [[s2 r2]|k]; [|reflexivity].
      rewrite !Hs. reflexivity.
  Qed.

  (* ---------- the rewriting stages that never fail ---------- *)
  Definition unwrap_g (label : string) (e : entry) : entry :=
    match unwrap_f V pfloat label e with Ok e' => e' | Fail _ => e end.
  Lemma unwrap_total label e : unwrap_f V pfloat label e = Ok (unwrap_g label e).
  Proof.
    unfold unwrap_g, unwrap_f. destruct (negb _); [reflexivity|].
    destruct (String.eqb _ EmptyString); [reflexivity|]. destruct (pfloat _); reflexivity.
  Qed.
  Definition drop_g (names vals : list string) (e : entry) : entry :=
    match drop_f V fpf names vals e with Ok e' => e' | Fail _ => e end.
  Lemma drop_total names vals e : drop_f V fpf names vals e = Ok (drop_g names vals e).
  Proof. unfold drop_g, drop_f. destruct (e_lbl V e); [|reflexivity]. destruct (Nat.eqb _ _); reflexivity. Qed.
  Definition by_without_g (by_ : bool) (names : list string) (e : entry) : entry :=
    match by_without_f V fpf by_ names e with Ok e' => e' | Fail _ => e end.
  Lemma by_without_total by_ names e : by_without_f V fpf by_ names e = Ok (by_without_g by_ names e).
  Proof. unfold by_without_g, by_without_f. destruct (e_lbl V e); reflexivity. Qed.
  Definition label_format_g (fs : list lfmt_op) (e : entry) : entry :=
    match label_format_f V fs e with Ok e' => e' | Fail _ => e end.
  Lemma label_format_total fs e : label_format_f V fs e = Ok (label_format_g fs e).
  Proof. unfold label_format_g, label_format_f. destruct (e_lbl V e); reflexivity. Qed.

  (* ---------- response optimizer: a regrouping by fingerprint ---------- *)
  Definition proj (f : N) (l : list entry) : list entry := filter (fun e => N.eqb (e_fp V e) f) l.
  Definition gflat (g : groups V) : list entry := List.concat (map snd g).

  Fixpoint gwf (g : groups V) : Prop :=
    match g with
    | [] => True
    | (k, es) :: r => (forall e, In e es -> e_fp V e = k) /\ (forall k' es', In (k', es') r -> (k < k')%N) /\ gwf r
    end.

  Lemma proj_app f a b : proj f (a ++ b) = proj f a ++ proj f b.
  Proof. apply filter_app. Qed.

  Lemma proj_none f l : (forall e, In e l -> e_fp V e <> f) -> proj f l = [].
  Proof.
    induction l as [|e r IH]; intros H; cbn; [reflexivity|].
    destruct (N.eqb_spec (e_fp V e) f) as [E|_]; [exfalso; apply (H e); [now left|exact E]|].
    apply IH. intros x Hx. apply H. now right.
  Qed.

  Lemma gflat_later_none f k g : gwf g -> (forall k' es', In (k', es') g -> (k < k')%N) -> (f <= k)%N -> proj f (gflat g) = [].
  Proof.
    induction g as [|[k1 es] r IH]; intros Hwf Hlt Hle; [reflexivity|].
    unfold gflat. cbn [map snd List.concat]. rewrite proj_app. destruct Hwf as [H1 [H2 H3]].
    rewrite (proj_none f es).
    - cbn [app]. apply IH; [exact H3| |exact Hle]. intros k' es' Hin. apply (Hlt k' es'). now right.
    - intros e He. rewrite (H1 e He). specialize (Hlt k1 es (or_introl eq_refl)). lia.
  Qed.

  Lemma group_add_spec e : forall g, gwf g ->
    gwf (group_add V g e) /\
    (forall k es, In (k, es) (group_add V g e) -> k = e_fp V e \/ exists es0, In (k, es0) g) /\
    forall f, proj f (gflat (group_add V g e)) = proj f (gflat g) ++ proj f [e].
  Proof.
    induction g as [|[k es] r IH]; intros Hwf.
    - cbn [group_add]. split; [|split].
      + cbn. split; [intros x [<-|[]]; reflexivity|]. split; [intros ? ? []|exact I].
      + intros k es [H|[]]. left. now inversion H.
      + intros f. unfold gflat. cbn. rewrite ?app_nil_r. reflexivity.
    - destruct Hwf as [H1 [H2 H3]]. cbn [group_add].
      destruct (N.compare_spec (e_fp V e) k) as [E|L|G].
      + split; [|split].
        * cbn [gwf]. split; [|split; assumption].
          intros x Hx. apply in_app_or in Hx. destruct Hx as [Hx|[<-|[]]]; [now apply H1|exact E].
        * intros k' es' [H|H]; [right; exists es; left; inversion H; reflexivity|right; exists es'; now right].
        * intros f. unfold gflat. cbn [map snd List.concat]. rewrite !proj_app. rewrite <- !app_assoc. f_equal.
          fold (gflat r).
          destruct (N.eqb_spec (e_fp V e) f) as [Ef|Nf].
          { rewrite (gflat_later_none f k r H3 H2) by lia. cbn [proj filter app]. rewrite (proj2 (N.eqb_eq _ _) Ef). reflexivity. }
          { cbn [proj filter]. rewrite (proj2 (N.eqb_neq _ _) Nf). cbn [app]. now rewrite app_nil_r. }
      + split; [|split].
        * cbn [gwf]. split; [intros x [<-|[]]; reflexivity|]. split; [|cbn [gwf]; auto].
          intros k' es' [H|H]; [inversion H; subst; exact L|]. specialize (H2 k' es' H). lia.
        * intros k' es' [H|H]; [left; now inversion H|right; exists es'; exact H].
        * intros f. unfold gflat. cbn [map snd List.concat app].
          destruct (N.eqb_spec (e_fp V e) f) as [Ef|Nf].
          { assert (Hz : proj f (es ++ gflat r) = []).
            { change (es ++ gflat r) with (gflat ((k, es) :: r)).
              apply (gflat_later_none f (e_fp V e)); [cbn [gwf]; auto| |lia].
              intros k' es' [H|H]; [inversion H; subst; exact L|]. specialize (H2 k' es' H). lia. }
            fold (gflat r). rewrite Hz. change (e :: es ++ gflat r) with ([e] ++ (es ++ gflat r)).
            rewrite proj_app, Hz. cbn [app]. now rewrite app_nil_r. }
          { fold (gflat r). change (e :: es ++ gflat r) with ([e] ++ (es ++ gflat r)). rewrite (proj_app f [e]).
            cbn [proj filter]. rewrite (proj2 (N.eqb_neq _ _) Nf). cbn [app]. now rewrite app_nil_r. }
      + destruct (IH H3) as [I1 [I2 I3]]. split; [|split].
        * cbn [gwf]. split; [exact H1|]. split; [|exact I1].
          intros k' es' Hin. destruct (I2 k' es' Hin) as [->|[es0 H0]]; [exact G|exact (H2 k' es0 H0)].
        * intros k' es' [H|H]; [right; exists es; left; now inversion H|].
          destruct (I2 k' es' H) as [->|[es0 H0]]; [now left|right; exists es0; now right].
        * intros f. unfold gflat. cbn [map snd List.concat]. rewrite !proj_app.
          change (List.concat (map snd (group_add V r e))) with (gflat (group_add V r e)).
          rewrite I3. unfold gflat. now rewrite app_assoc.
  Qed.

  Lemma gflat_add_len e : forall g, List.length (gflat (group_add V g e)) = S (List.length (gflat g)).
  Proof.
    induction g as [|[k es] r IHg]; [reflexivity|]. cbn [group_add].
    destruct (N.compare (e_fp V e) k); unfold gflat in *; cbn [map snd List.concat].
    - rewrite !app_length. cbn [List.length]. lia.
    - cbn [app List.length]. reflexivity.
    - rewrite !app_length, IHg. lia.
  Qed.

  Lemma fold_optimizer : forall b g n, gwf g ->
    exists g', fold_entries V (optimizer_ops V) (g, n) b = Ok ((g', n + Z.of_nat (List.length b)), b) /\ gwf g' /\
               List.length (gflat g') = (List.length (gflat g) + List.length b)%nat /\
               forall f, proj f (gflat g') = proj f (gflat g) ++ proj f b.
  Proof.
    induction b as [|e r IH]; intros g n Hwf.
    - exists g. cbn [fold_entries List.length]. split; [now rewrite Z.add_0_r|]. split; [exact Hwf|]. split; [lia|].
      intros f. now rewrite app_nil_r.
    - cbn [fold_entries]. cbn [on_entry optimizer_ops fst snd].
      destruct (group_add_spec e g Hwf) as [W1 [_ W3]].
      destruct (IH (group_add V g e) (n + 1) W1) as [g' [Hf [W' [L' P']]]].
      exists g'. rewrite Hf. split; [|split; [exact W'|split]].
      + do 3 f_equal. cbn [List.length]. lia.
      + rewrite L', gflat_add_len. cbn [List.length]. lia.
      + intros f. rewrite P', W3. rewrite <- app_assoc, <- proj_app. reflexivity.
  Qed.

  Lemma wrap_optimizer f : forall bs g n, gwf g -> n = Z.of_nat (List.length (gflat g)) ->
    proj f (List.concat (wrap (optimizer_ops V) (g, n) bs)) = proj f (gflat g) ++ proj f (List.concat bs).
  Proof.
    induction bs as [|b r IH]; intros g n Hwf Hn; cbn [wrap List.concat].
    - cbn [on_end optimizer_ops snd fst]. rewrite app_nil_r.
      destruct (Z.eqb_spec n 0) as [E|_]; [|reflexivity].
      assert (Hl : gflat g = []) by (apply length_zero_iff_nil; lia). now rewrite Hl.
    - destruct (fold_optimizer b g n Hwf) as [g' [Hf [W' [L' P']]]]. rewrite Hf.
      cbn [on_slice optimizer_ops snd fst].
      assert (Hn' : n + Z.of_nat (List.length b) = Z.of_nat (List.length (gflat g'))) by (rewrite L'; lia).
      destruct (Z.ltb_spec (n + Z.of_nat (List.length b)) 3000) as [Hs|Hs].
      + cbn [app]. rewrite (IH g' _ W' Hn'). rewrite P', proj_app. now rewrite app_assoc.
      + rewrite concat_app, proj_app. change (List.concat (map snd g')) with (gflat g').
        match goal with |- _ ++ proj f (List.concat ?w) = _ => change w with (wrap (optimizer_ops V) (@pair (groups V) Z [] 0) r) end.
        rewrite (IH [] 0 I eq_refl). unfold gflat at 2. cbn [map List.concat proj filter app].
        rewrite P', proj_app. now rewrite app_assoc.
  Qed.

  (* ---------- observations depend on the flat output only ---------- *)
  Notation run_stage := (run_stage V v0 v1 vadd vdiv vltb vleb veqb vofZ panic_kills fpf re_match pfloat parse tmpl).
  Notation observe := (observe V).
  Notation outcome_of := (outcome_of V).
  Definition is_crash (e : entry) : bool := errk_eqb (e_err V e) ECrash.

  Lemma has_crash_concat (bs : batches) : has_crash V bs = existsb is_crash (List.concat bs).
  Proof.
    unfold has_crash. induction bs as [|b r IH]; cbn [existsb List.concat]; [reflexivity|].
    now rewrite existsb_app, IH.
  Qed.

  Lemma observe_concat (a b : batches) : List.concat a = List.concat b -> observe a = observe b.
  Proof. intros H. unfold InternalEngine.observe. now rewrite !has_crash_concat, H. Qed.

  Lemma outcome_concat (a b : batches) : List.concat a = List.concat b -> outcome_of a = outcome_of b.
  Proof. intros H. unfold InternalEngine.outcome_of. now rewrite (observe_concat a b H). Qed.

  (* ---------- parser: outcome is independent of the batching ---------- *)
  Lemma parser_f_err id e e' : parser_f V fpf parse id e = Ok e' -> e_err V e' = e_err V e.
  Proof.
    unfold parser_f. destruct (negb _); [intros H; now inversion H|].
    destruct (parse id _) as [kvs|]; [|discriminate].
    destruct (e_lbl V e) as [m|]; [intros H; now inversion H|].
    destruct kvs; [intros H; now inversion H|discriminate].
  Qed.
  Lemma parser_f_fail id e k : parser_f V fpf parse id e = Fail k -> k = EErr \/ k = ECrash.
  Proof.
    unfold parser_f. destruct (negb _); [discriminate|].
    destruct (parse id _) as [kvs|]; [|intros H; inversion H; now left].
    destruct (e_lbl V e) as [m|]; [discriminate|]. destruct kvs; [discriminate|intros H; inversion H; now right].
  Qed.

  Lemma mapM_no_crash (f : entry -> res entry) :
    (forall e e', f e = Ok e' -> e_err V e' = e_err V e) ->
    forall a a', mapM f a = Ok a' -> existsb is_crash a = false -> existsb is_crash a' = false.
  Proof.
    intros Hf. induction a as [|e r IH]; intros a' H Hc; cbn [mapM] in H.
    - now inversion H.
    - destruct (f e) as [e1|] eqn:E; [|discriminate]. destruct (mapM f r) as [r1|] eqn:R; [|discriminate].
      inversion H; subst. cbn [existsb] in *. apply orb_false_iff in Hc. destruct Hc as [H1 H2].
      apply orb_false_iff. split; [|now apply IH]. unfold is_crash in *. now rewrite (Hf e e1 E).
  Qed.

  Lemma first_err_app_err (l : list entry) (x : entry) :
    (e_err V x = EErr \/ e_err V x = EPanic) -> existsb is_crash l = false ->
    exists k, first_err V (l ++ [x]) = Some k /\ k <> ECrash.
  Proof.
    intros Hx. induction l as [|e r IH]; intros Hc; cbn [app first_err].
    - destruct Hx as [-> | ->]; eexists; split; try reflexivity; discriminate.
    - cbn [existsb] in Hc. apply orb_false_iff in Hc. destruct Hc as [H1 H2]. unfold is_crash in H1.
      destruct (e_err V e); try (exact (IH H2)); try (eexists; split; [reflexivity|discriminate]).
  Qed.

  Lemma outcome_failed (pre : batches) (x : entry) :
    (e_err V x = EErr \/ e_err V x = EPanic) -> existsb is_crash (List.concat pre) = false ->
    outcome_of (pre ++ [[x]]) = OFailed V.
  Proof.
    intros Hx Hc. unfold InternalEngine.outcome_of, InternalEngine.observe.
    rewrite has_crash_concat, concat_app. cbn [List.concat]. rewrite app_nil_r, existsb_app, Hc.
    cbn [existsb]. unfold is_crash at 1. destruct Hx as [Hx|Hx]; rewrite Hx; cbn [errk_eqb orb];
      (destruct (first_err_app_err (List.concat pre) x) as [k [Hk Hn]]; [rewrite Hx; auto|exact Hc|]);
      rewrite Hk; destruct k; try reflexivity; contradiction.
  Qed.

  Lemma outcome_crashed (pre : batches) (x : entry) : e_err V x = ECrash -> outcome_of (pre ++ [[x]]) = OCrash V.
  Proof.
    intros Hx. unfold InternalEngine.outcome_of, InternalEngine.observe.
    rewrite has_crash_concat, concat_app. cbn [List.concat]. rewrite app_nil_r, existsb_app.
    cbn [existsb]. unfold is_crash at 2. rewrite Hx. cbn [errk_eqb]. now rewrite !orb_true_r.
  Qed.

  Lemma map_stage_outcome (f : entry -> res entry) :
    (forall e e', f e = Ok e' -> e_err V e' = e_err V e) ->
    (forall e k, f e = Fail k -> k = EErr \/ k = ECrash) ->
    forall bs, no_crash_in V bs ->
      outcome_of (wrap (map_ops V f) tt bs) = outcome_of (wrap (map_ops V f) tt [List.concat bs]).
  Proof.
    intros Hok Hfail bs Hnc. unfold no_crash_in in Hnc. rewrite has_crash_concat in Hnc.
    pose proof (wrap_map_shape f bs) as S1. pose proof (wrap_map_shape f [List.concat bs]) as S2.
    cbn [List.concat] in S2. rewrite app_nil_r in S2.
    destruct (mapM f (List.concat bs)) as [l'|k] eqn:E.
    - apply outcome_concat. now rewrite S1, S2.
    - destruct S1 as [pre1 [W1 [a1 [b1 [C1 M1]]]]]. destruct S2 as [pre2 [W2 [a2 [b2 [C2 M2]]]]].
      rewrite W1, W2.
      assert (Hk : k = EErr \/ k = ECrash).
      { clear - E Hfail. revert k E. induction (List.concat bs) as [|e r IH]; intros k E; cbn [mapM] in E; [discriminate|].
        destruct (f e) as [e1|k1] eqn:F; [|inversion E; subst; exact (Hfail e k F)].
        destruct (mapM f r) as [r1|k2]; [discriminate|]. inversion E; subst. now apply IH. }
      assert (N1 : existsb is_crash (List.concat pre1) = false).
      { apply (mapM_no_crash f Hok a1 _ M1). rewrite C1, existsb_app in Hnc. now apply orb_false_iff in Hnc. }
      assert (N2 : existsb is_crash (List.concat pre2) = false).
      { apply (mapM_no_crash f Hok a2 _ M2). rewrite C2, existsb_app in Hnc. now apply orb_false_iff in Hnc. }
      unfold fail_entry. destruct Hk as [-> | ->].
      + rewrite !outcome_failed; auto.
      + destruct panic_kills.
        * rewrite !outcome_crashed; auto.
        * rewrite !outcome_failed; auto.
  Qed.
  (* ============================================================================================ *)
  (* engines_agree: the in-process chain against the reference semantics, stage by stage           *)
  Notation erase := (erase V).
  Notation run_chain := (run_chain V v0 v1 vadd vdiv vltb vleb veqb vofZ panic_kills fpf re_match pfloat parse tmpl).
  Notation sem_stage := (sem_stage V v0 v1 vadd vdiv vltb vleb veqb vofZ fpf re_match pfloat parse tmpl).
  Notation sem_chain := (sem_chain V v0 v1 vadd vdiv vltb vleb veqb vofZ fpf re_match pfloat parse tmpl).

  Lemma limit_agrees c bs : 0 <= c_limit c ->
    List.concat (run_stage c (SLimit V) bs) = sem_limit V (c_limit c) (List.concat bs).
  Proof.
    intros H. cbn [InternalEngine.run_stage]. unfold sem_limit.
    destruct (Z.eqb_spec (c_limit c) 0) as [E|E].
    - rewrite E. now rewrite wrap_limit_zero.
    - rewrite (wrap_limit_pos (c_limit c)) by lia. now rewrite Z.sub_0_r.
  Qed.

  Definition good (e : entry) : Prop := data_row V e.
  Notation nondata := (terminator V).

  Definition sim (l r : list entry) : Prop :=
    exists d t, l = d ++ t /\ Forall good d /\ Forall nondata t /\ map erase d = map erase r.

  Definition compat (G H : entry -> list entry) : Prop :=
    forall e e', erase e = erase e' ->
      (good e -> map erase (G e) = map erase (H e') /\ Forall good (G e)) /\ (nondata e -> Forall nondata (G e)).

  Lemma Forall_flat_map {A} (P : A -> Prop) (G : A -> list A) (Q : A -> Prop) :
    (forall x, Q x -> Forall P (G x)) -> forall l, Forall Q l -> Forall P (flat_map G l).
  Proof.
    intros H. induction l as [|x r IH]; intros HQ; cbn [flat_map]; [constructor|].
    inversion HQ; subst. apply Forall_app. split; [now apply H|now apply IH].
  Qed.

  Lemma sim_flat_map G H l r : compat G H -> sim l r -> sim (flat_map G l) (flat_map H r).
  Proof.
    intros C [d [t [-> [Hd [Ht He]]]]]. exists (flat_map G d), (flat_map G t).
    split; [apply flat_map_app|]. split; [|split].
    - apply (Forall_flat_map good G good); [|exact Hd]. intros x Hx. exact (proj2 (proj1 (C x x eq_refl) Hx)).
    - apply (Forall_flat_map nondata G nondata); [|exact Ht]. intros x Hx. exact (proj2 (C x x eq_refl) Hx).
    - clear Ht t. revert r He. induction d as [|e d' IH]; intros [|e' r'] He; cbn [map] in He; try discriminate; [reflexivity|].
      assert (H1 : erase e = erase e') by congruence. assert (H2 : map erase d' = map erase r') by congruence.
      inversion Hd as [|? ? Hg Hd']; subst. cbn [flat_map]. rewrite !map_app.
      rewrite (proj1 (proj1 (C e e' H1) Hg)). f_equal. now apply IH.
  Qed.

  (* ---- the three shapes as flat_map ---- *)
  Lemma filter_flat_map {A} (p : A -> bool) (l : list A) : filter p l = flat_map (fun e => if p e then [e] else []) l.
  Proof. induction l as [|x r IH]; cbn; [reflexivity|]. destruct (p x); cbn; now rewrite IH. Qed.
  Lemma map_flat_map {A B} (g : A -> B) (l : list A) : map g l = flat_map (fun e => [g e]) l.
  Proof. induction l as [|x r IH]; cbn; [reflexivity|]. now rewrite IH. Qed.

  Lemma erase_fields e e' : erase e = erase e' ->
    e_ts V e = e_ts V e' /\ e_lbl V e = e_lbl V e' /\ e_msg V e = e_msg V e' /\ e_val V e = e_val V e' /\ e_err V e = e_err V e'.
  Proof. unfold InternalEngine.erase. intros H. inversion H. auto. Qed.

  Lemma compat_filter (keep : entry -> bool) :
    (forall e e', erase e = erase e' -> keep e = keep e') ->
    compat (fun e => if keep e then [e] else []) (fun e => if keep e then [e] else []).
  Proof.
    intros Hk e e' He. rewrite <- (Hk e e' He). split.
    - intros Hg. destruct (keep e); cbn [map]; [|split; [reflexivity|constructor]].
      split; [now rewrite He|]. constructor; [exact Hg|constructor].
    - intros Hn. destruct (keep e); [constructor; [exact Hn|constructor]|constructor].
  Qed.

  Lemma compat_map (g h : entry -> entry) :
    (forall e e', erase e = erase e' -> good e -> erase (g e) = erase (h e') /\ good (g e)) ->
    (forall e, e_err V (g e) = e_err V e) ->
    compat (fun e => [g e]) (fun e => [h e]).
  Proof.
    intros Hgh Herr e e' He. split.
    - intros Hg. destruct (Hgh e e' He Hg) as [H1 H2]. cbn [map]. split; [now rewrite H1|]. constructor; [exact H2|constructor].
    - intros [Hn1 Hn2]. constructor; [|constructor]. unfold nondata. now rewrite Herr.
  Qed.

  Lemma errk_eqb_none k : k <> ENone -> errk_eqb k ENone = false.
  Proof. destruct k; intros H; try reflexivity. contradiction. Qed.

  Lemma filter_length_eq {A} (p : A -> bool) (l : list A) : List.length (filter p l) = List.length l -> filter p l = l.
  Proof.
    induction l as [|x r IH]; cbn; [reflexivity|]. destruct (p x); cbn.
    - intros H. f_equal. apply IH. lia.
    - intros H. exfalso. assert (Hle : (List.length (filter p r) <= List.length r)%nat).
      { clear. induction r as [|y r' IHr]; cbn; [lia|]. destruct (p y); cbn; lia. }
      lia.
  Qed.

  Lemma lfmt_fold_eq fs : forall m, fold_left lfmt_apply fs m = fold_left sem_lfmt fs m.
  Proof.
    induction fs as [|f r IH]; intros m; cbn [fold_left]; [reflexivity|]. rewrite IH.
    replace (lfmt_apply m f) with (sem_lfmt m f); [reflexivity|]. destruct f; reflexivity.
  Qed.

  (* ---- per stage: model output and reference as flat_map of compatible functions ---- *)
  Definition G_of (c : ctx) (s : stage V) : entry -> list entry :=
    match s with
    | SLineFilter _ op val => fun e => if line_keep V re_match op val e then [e] else []
    | SLabelFilter _ f => fun e => if lfilter_eval V vltb vleb veqb re_match pfloat f (e_lbl V e) then [e] else []
    | SComparison _ op val => fun e => if comparison_keep V vltb vleb veqb op val e then [e] else []
    | SLabelFormat _ fs => fun e => [label_format_g fs e]
    | SUnwrap _ label => fun e => [unwrap_g label e]
    | SDrop _ names vals => fun e => [drop_g names vals e]
    | SByWithout _ by_ names => fun e => [by_without_g by_ names e]
    | SLineFormat _ id => lf_one id
    | _ => fun e => [e]
    end.

  Definition flat_stage (s : stage V) : bool :=
    match s with SLimit _ => false | _ => simple_stage V s end.

  Lemma run_stage_flat c s bs : flat_stage s = true ->
    List.concat (run_stage c s bs) = flat_map (G_of c s) (List.concat bs).
  Proof.
    destruct s; cbn [flat_stage simple_stage]; try discriminate; intros _; cbn [InternalEngine.run_stage G_of].
    - rewrite wrap_filter, concat_map_filter. apply filter_flat_map.
    - rewrite wrap_filter, concat_map_filter. apply filter_flat_map.
    - rewrite (wrap_map_total _ _ (label_format_total fs)), concat_map_map. apply map_flat_map.
    - rewrite wrap_line_format. apply concat_map_flat_map.
    - rewrite (wrap_map_total _ _ (unwrap_total label)), concat_map_map. apply map_flat_map.
    - rewrite (wrap_map_total _ _ (drop_total names vals)), concat_map_map. apply map_flat_map.
    - rewrite (wrap_map_total _ _ (by_without_total by_ names)), concat_map_map. apply map_flat_map.
    - rewrite wrap_filter, concat_map_filter. apply filter_flat_map.
  Qed.

  Definition H_of (c : ctx) (s : stage V) : entry -> list entry :=
    match s with
    | SLabelFormat _ fs => fun e => [with_lbl V fpf e (fold_left sem_lfmt fs (lbl_of V e))]
    | SUnwrap _ label => fun e =>
        [let x := if String.eqb label entry_key then e_msg V e else lget (lbl_of V e) label in
         if String.eqb x EmptyString then e else match pfloat x with Some f => set_val V e f | None => e end]
    | SDrop _ names vals => fun e => [with_lbl V fpf e (filter (fun kv => negb (drop_hit (fst kv) (snd kv) names vals)) (lbl_of V e))]
    | SByWithout _ by_ names => fun e => [with_lbl V fpf e (filter (fun kv => bw_keep by_ names (fst kv)) (lbl_of V e))]
    | SLineFormat _ id => fun e => match tmpl id (lset (lbl_of V e) entry_key (e_msg V e)) with Some s => [set_msg V e s] | None => [] end
    | _ => G_of c s
    end.

  Lemma sem_stage_flat c s r : flat_stage s = true -> sem_stage c s r = flat_map (H_of c s) r.
  Proof.
    destruct s; cbn [flat_stage simple_stage]; try discriminate; intros _; cbn [InternalEngine.sem_stage H_of G_of];
      try apply filter_flat_map; try apply map_flat_map. reflexivity.
  Qed.

  Lemma compat_stage c s : flat_stage s = true -> compat (G_of c s) (H_of c s).
  Proof.
    destruct s; cbn [flat_stage simple_stage]; try discriminate; intros _; cbn [G_of H_of].
    - (* line filter *) apply compat_filter. intros e e' He. destruct (erase_fields e e' He) as [_ [_ [Hm [_ Hr]]]].
      unfold line_keep. now rewrite Hm, Hr.
    - (* label filter *) apply compat_filter. intros e e' He. destruct (erase_fields e e' He) as [_ [Hl _]]. now rewrite Hl.
    - (* label_format *) apply compat_map.
      + intros e e' He [Hg1 [m Hm]]. destruct (erase_fields e e' He) as [Ht [Hl [Hs [Hv Hr]]]].
        unfold label_format_g, label_format_f. rewrite Hm. unfold InternalEngine.erase, with_lbl, lbl_of. rewrite <- Hl, Hm.
        cbn. rewrite lfmt_fold_eq, Ht, Hs, Hv, Hr. split; [reflexivity|]. split; [exact Hg1|eexists; reflexivity].
      + intros e. unfold label_format_g, label_format_f. destruct (e_lbl V e); reflexivity.
    - (* line_format *) intros e e' He. destruct (erase_fields e e' He) as [Ht [Hl [Hs [Hv Hr]]]]. unfold lf_one. split.
      + intros [Hg1 [m Hm]]. unfold lbl_of. rewrite <- Hl, Hm, <- Hs. destruct (tmpl id _) as [x|]; cbn [map].
        * split; [unfold InternalEngine.erase; cbn; now rewrite Ht, Hl, Hv, Hr|]. constructor; [|constructor].
          split; [exact Hg1|exists m; exact Hm].
        * split; [reflexivity|constructor].
      + intros Hn. destruct (tmpl id _); constructor; [exact Hn|constructor].
    - (* unwrap *) apply compat_map.
      + intros e e' He [Hg1 [m Hm]]. destruct (erase_fields e e' He) as [Ht [Hl [Hs [Hv Hr]]]].
        unfold unwrap_g, unwrap_f. rewrite Hg1. cbn [errk_eqb negb]. unfold olget, lbl_of. rewrite <- Hl, Hm, <- Hs.
        set (x := if String.eqb label entry_key then e_msg V e else lget m label).
        destruct (String.eqb x EmptyString); [split; [exact He|split; [exact Hg1|exists m; exact Hm]]|].
        destruct (pfloat x) as [f|]; [|split; [exact He|split; [exact Hg1|exists m; exact Hm]]].
        split; [unfold InternalEngine.erase; cbn; now rewrite Ht, Hl, Hs, Hr|split; [exact Hg1|exists m; exact Hm]].
      + intros e. unfold unwrap_g, unwrap_f. destruct (negb _); [reflexivity|]. destruct (String.eqb _ EmptyString); [reflexivity|].
        destruct (pfloat _); reflexivity.
    - (* drop *) apply compat_map.
      + intros e e' He [Hg1 [m Hm]]. destruct (erase_fields e e' He) as [Ht [Hl [Hs [Hv Hr]]]].
        unfold drop_g, drop_f. rewrite Hm. unfold with_lbl, lbl_of. rewrite <- Hl, Hm.
        set (p := fun kv : string * string => negb (drop_hit (fst kv) (snd kv) names vals)).
        destruct (Nat.eqb_spec (List.length (filter p m)) (List.length m)) as [E|E].
        * rewrite (filter_length_eq p m E). split; [unfold InternalEngine.erase; cbn; now rewrite Ht, Hm, Hs, Hv, Hr|].
          split; [exact Hg1|exists m; exact Hm].
        * split; [unfold InternalEngine.erase; cbn; now rewrite Ht, Hs, Hv, Hr|]. split; [exact Hg1|eexists; reflexivity].
      + intros e. unfold drop_g, drop_f. destruct (e_lbl V e); [|reflexivity]. destruct (Nat.eqb _ _); reflexivity.
    - (* by / without *) apply compat_map.
      + intros e e' He [Hg1 [m Hm]]. destruct (erase_fields e e' He) as [Ht [Hl [Hs [Hv Hr]]]].
        unfold by_without_g, by_without_f. rewrite Hm. unfold with_lbl, lbl_of. rewrite <- Hl, Hm.
        split; [unfold InternalEngine.erase; cbn; now rewrite Ht, Hs, Hv, Hr|]. split; [exact Hg1|eexists; reflexivity].
      + intros e. unfold by_without_g, by_without_f. destruct (e_lbl V e); reflexivity.
    - (* comparison *) apply compat_filter. intros e e' He. destruct (erase_fields e e' He) as [_ [_ [_ [Hv _]]]].
      unfold comparison_keep. now rewrite Hv.
  Qed.

  (* ---- limit ---- *)
  Lemma Forall_firstn {A} (P : A -> Prop) n (l : list A) : Forall P l -> Forall P (firstn n l).
  Proof. revert l. induction n as [|n IH]; intros [|x r] H; cbn; try constructor; inversion H; subst; auto. Qed.

  Lemma sim_limit L l r : sim l r -> sim (sem_limit V L l) (sem_limit V L r).
  Proof.
    intros [d [t [-> [Hd [Ht He]]]]]. unfold sem_limit. destruct (L =? 0); [exists d, t; auto|].
    rewrite firstn_app. exists (firstn (Z.to_nat L) d), (firstn (Z.to_nat L - List.length d) t).
    split; [reflexivity|]. split; [now apply Forall_firstn|]. split; [now apply Forall_firstn|].
    now rewrite <- !firstn_map, He.
  Qed.

  (* ---- one stage, then a chain ---- *)
  Lemma sim_no_crash bs r : sim (List.concat bs) r -> has_crash V bs = false.
  Proof.
    intros [d [t [E [Hd [Ht _]]]]]. rewrite has_crash_concat, E, existsb_app. apply orb_false_iff. split.
    - clear E. induction Hd as [|e d' [He _] _ IH]; [reflexivity|]. cbn [existsb]. unfold is_crash at 1. now rewrite He, IH.
    - clear E. induction Ht as [|e t' [_ He] _ IH]; [reflexivity|]. cbn [existsb]. unfold is_crash at 1. rewrite IH.
      destruct (e_err V e); try reflexivity. contradiction.
  Qed.

  Lemma sim_stage c s bs r : simple_stage V s = true -> 0 <= c_limit c ->
    sim (List.concat bs) r -> sim (List.concat (run_stage c s bs)) (sem_stage c s r).
  Proof.
    intros Hs HL Hsim. destruct (flat_stage s) eqn:F.
    - rewrite (run_stage_flat c s bs F), (sem_stage_flat c s r F). apply sim_flat_map; [now apply compat_stage|exact Hsim].
    - destruct s; cbn [flat_stage simple_stage] in *; try discriminate.
      cbn [InternalEngine.run_stage InternalEngine.sem_stage].
      pose proof (limit_agrees c bs HL) as E. cbn [InternalEngine.run_stage] in E. rewrite E. now apply sim_limit.
  Qed.

  Lemma sim_chain c : 0 <= c_limit c -> forall ch, forallb (simple_stage V) ch = true ->
    forall bs r, sim (List.concat bs) r ->
      sim (List.concat (run_chain c ch bs)) (fold_left (fun x s => sem_stage c s x) ch r).
  Proof.
    intros HL. induction ch as [|s ch IH]; intros Hs bs r Hsim; [exact Hsim|].
    cbn [forallb] in Hs. apply andb_true_iff in Hs. destruct Hs as [H1 H2].
    unfold InternalEngine.run_chain. cbn [fold_left]. rewrite (sim_no_crash bs r Hsim).
    apply (IH H2). now apply sim_stage.
  Qed.

  Lemma data_of_sim l r : sim l r -> map erase (data_of V l) = map erase r.
  Proof.
    intros [d [t [-> [Hd [Ht He]]]]]. unfold data_of. rewrite filter_app.
    assert (E1 : filter (fun e => errk_eqb (e_err V e) ENone) d = d).
    { clear He. induction Hd as [|e d' [Hx _] _ IH]; [reflexivity|]. cbn [filter]. now rewrite Hx, IH. }
    assert (E2 : filter (fun e => errk_eqb (e_err V e) ENone) t = []).
    { induction Ht as [|e t' [Hx _] _ IH]; [reflexivity|]. cbn [filter]. now rewrite (errk_eqb_none _ Hx), IH. }
    now rewrite E1, E2, app_nil_r.
  Qed.

  Lemma sim_start rows t : Forall good rows -> Forall nondata t -> sim (rows ++ t) (data_of V (rows ++ t)).
  Proof.
    intros Hd Ht. exists rows, t. split; [reflexivity|]. split; [exact Hd|]. split; [exact Ht|].
    f_equal. symmetry.
    unfold data_of. rewrite filter_app.
    assert (E1 : filter (fun e => errk_eqb (e_err V e) ENone) rows = rows).
    { induction Hd as [|e d' [Hx _] _ IH]; [reflexivity|]. cbn [filter]. now rewrite Hx, IH. }
    assert (E2 : filter (fun e => errk_eqb (e_err V e) ENone) t = []).
    { induction Ht as [|e t' [Hx _] _ IH]; [reflexivity|]. cbn [filter]. now rewrite (errk_eqb_none _ Hx), IH. }
    now rewrite E1, E2, app_nil_r.
  Qed.

  (* ---- agreement of a whole chain of simple stages ---- *)
  Lemma chain_agrees c ch rows t bs :
    0 <= c_limit c -> forallb (simple_stage V) ch = true ->
    Forall good rows -> Forall nondata t -> List.concat bs = rows ++ t ->
    map erase (data_of V (List.concat (run_chain c ch bs))) = map erase (sem_chain c ch (List.concat bs)).
  Proof.
    intros HL Hs Hd Ht E. apply data_of_sim. unfold InternalEngine.sem_chain.
    apply (sim_chain c HL ch Hs). rewrite E. now apply sim_start.
  Qed.

  (* ---- a json / logfmt stage in front, every line decoding ---- *)
  Definition parser_g (id : N) (e : entry) : entry := match parser_f V fpf parse id e with Ok e' => e' | Fail _ => e end.

  Lemma parser_good id e : good e -> decodes V parse id e ->
    parser_f V fpf parse id e = Ok (parser_g id e) /\ good (parser_g id e) /\ erase (parser_g id e) = erase (sem_parser V fpf parse id e).
  Proof.
    intros [He [m Hm]] Hdec. unfold parser_g, parser_f, sem_parser, decodes in *. rewrite He, Hm. cbn [errk_eqb negb].
    destruct (parse id (e_msg V e)) as [kvs|]; [|contradiction]. split; [reflexivity|]. split.
    - split; [exact He|eexists; reflexivity].
    - reflexivity.
  Qed.
  Lemma parser_nondata id e : nondata e -> parser_f V fpf parse id e = Ok e.
  Proof. intros [H _]. unfold parser_f. now rewrite (errk_eqb_none _ H). Qed.

  Lemma parser_first c id rows t bs :
    Forall good rows -> Forall (decodes V parse id) rows -> Forall nondata t -> List.concat bs = rows ++ t ->
    sim (List.concat (run_stage c (SParser V id) bs)) (map (sem_parser V fpf parse id) rows).
  Proof.
    intros Hd Hdec Ht E. cbn [InternalEngine.run_stage].
    assert (M : mapM (parser_f V fpf parse id) (rows ++ t) = Ok (map (parser_g id) rows ++ t)).
    { rewrite mapM_app.
      assert (M1 : mapM (parser_f V fpf parse id) rows = Ok (map (parser_g id) rows)).
      { clear E. induction Hd as [|e r Hg _ IH]; [reflexivity|]. inversion Hdec; subst. cbn [mapM map].
        destruct (parser_good id e Hg H1) as [P1 _]. now rewrite P1, IH. }
      assert (M2 : mapM (parser_f V fpf parse id) t = Ok t).
      { clear E. induction Ht as [|e r Hn _ IH]; [reflexivity|]. cbn [mapM]. now rewrite (parser_nondata id e Hn), IH. }
      now rewrite M1, M2. }
    pose proof (wrap_map_shape (parser_f V fpf parse id) bs) as S. rewrite E, M in S. rewrite S.
    exists (map (parser_g id) rows), t. split; [reflexivity|]. split; [|split; [exact Ht|]].
    - clear E M S. induction Hd as [|e r Hg _ IH]; [constructor|]. inversion Hdec; subst. cbn [map]. constructor; [|now apply IH].
      exact (proj1 (proj2 (parser_good id e Hg H1))).
    - clear E M S. induction Hd as [|e r Hg _ IH]; [reflexivity|]. inversion Hdec; subst. cbn [map]. f_equal; [|now apply IH].
      exact (proj2 (proj2 (parser_good id e Hg H1))).
  Qed.

  Lemma chain_agrees_parser_first c id ch rows t bs :
    0 <= c_limit c -> forallb (simple_stage V) ch = true ->
    Forall good rows -> Forall (decodes V parse id) rows -> Forall nondata t -> List.concat bs = rows ++ t ->
    map erase (data_of V (List.concat (run_chain c (SParser V id :: ch) bs))) =
    map erase (sem_chain c (SParser V id :: ch) (List.concat bs)).
  Proof.
    intros HL Hs Hd Hdec Ht E. apply data_of_sim.
    assert (S0 : sim (List.concat bs) (data_of V (List.concat bs))) by (rewrite E; now apply sim_start).
    unfold InternalEngine.run_chain, InternalEngine.sem_chain. cbn [fold_left]. rewrite (sim_no_crash bs _ S0).
    apply (sim_chain c HL ch Hs). cbn [InternalEngine.sem_stage].
    assert (D : data_of V (List.concat bs) = rows).
    { rewrite E. unfold data_of. rewrite filter_app.
      assert (E1 : filter (fun e => errk_eqb (e_err V e) ENone) rows = rows).
      { clear E S0. induction Hd as [|e d' [Hx _] _ IH]; [reflexivity|]. inversion Hdec; subst. cbn [filter]. now rewrite Hx, IH. }
      assert (E2 : filter (fun e => errk_eqb (e_err V e) ENone) t = []).
      { clear E S0. induction Ht as [|e t' [Hx _] _ IH]; [reflexivity|]. cbn [filter]. now rewrite (errk_eqb_none _ Hx), IH. }
      now rewrite E1, E2, app_nil_r. }
    rewrite D. now apply (parser_first c id rows t bs).
  Qed.

  Lemma data_of_rows rows t : Forall good rows -> Forall nondata t -> data_of V (rows ++ t) = rows.
  Proof.
    intros Hd Ht. unfold data_of. rewrite filter_app.
    assert (E1 : filter (fun e => errk_eqb (e_err V e) ENone) rows = rows).
    { induction Hd as [|e d' [Hx _] _ IH]; [reflexivity|]. cbn [filter]. now rewrite Hx, IH. }
    assert (E2 : filter (fun e => errk_eqb (e_err V e) ENone) t = []).
    { induction Ht as [|e t' [Hx _] _ IH]; [reflexivity|]. cbn [filter]. now rewrite (errk_eqb_none _ Hx), IH. }
    now rewrite E1, E2, app_nil_r.
  Qed.

  Lemma stage_agrees c s rows t bs :
    0 <= c_limit c -> simple_stage V s = true ->
    Forall good rows -> Forall nondata t -> List.concat bs = rows ++ t ->
    map erase (data_of V (List.concat (run_stage c s bs))) = map erase (sem_stage c s rows).
  Proof.
    intros HL Hs Hd Ht E. apply data_of_sim. apply sim_stage; [exact Hs|exact HL|].
    rewrite E. exists rows, t. auto.
  Qed.
End PROOFS.

(* ============================================================================================ *)
(* hash.go *)
From Coq Require Import Permutation.
Section HASH.
  Variable ch64 : string -> N.
  Open Scope N_scope.

  Lemma w64_idem x : w64 (w64 x) = w64 x.
  Proof. unfold w64. apply N.mod_mod. unfold m64. discriminate. Qed.
  Lemma w64_add_l a b : w64 (w64 a + b) = w64 (a + b).
  Proof. unfold w64. apply N.add_mod_idemp_l. unfold m64. discriminate. Qed.
  Lemma w64_mul_l a b : w64 (w64 a * b) = w64 (a * b).
  Proof. unfold w64. apply N.mul_mod_idemp_l. unfold m64. discriminate. Qed.

  Lemma fp_step_comm d x y : fp_step ch64 (fp_step ch64 d x) y = fp_step ch64 (fp_step ch64 d y) x.
  Proof.
    destruct d as [[a b] c]. unfold fp_step.
    set (h1 := w64 (ch64 (fst x ++ snd x))). set (h2 := w64 (ch64 (fst y ++ snd y))).
    f_equal; [f_equal|].
    - rewrite !w64_add_l. f_equal. lia.
    - rewrite !N.lxor_assoc. f_equal. apply N.lxor_comm.
    - rewrite !w64_mul_l. f_equal. lia.
  Qed.

  Lemma fold_fp_step_perm : forall m1 m2, Permutation m1 m2 -> forall d, fold_left (fp_step ch64) m1 d = fold_left (fp_step ch64) m2 d.
  Proof.
    induction 1 as [|x l l' _ IH|x y l|l l' l'' _ IH1 _ IH2]; intros d; cbn [fold_left].
    - reflexivity.
    - apply IH.
    - now rewrite fp_step_comm.
    - now rewrite IH1, IH2.
  Qed.

  (* Go ranges over the label map in an unspecified order; the fingerprint does not depend on it *)
  Lemma fingerprint_perm m1 m2 : Permutation m1 m2 -> fingerprint ch64 m1 = fingerprint ch64 m2.
  Proof. intros H. unfold fingerprint, fp_descr. now rewrite (fold_fp_step_perm m1 m2 H). Qed.

  (* the only thing the fingerprint reads off a label is the string k ++ v *)
  Lemma fingerprint_kv m1 m2 :
    map (fun kv => (fst kv ++ snd kv)%string) m1 = map (fun kv => (fst kv ++ snd kv)%string) m2 ->
    fingerprint ch64 m1 = fingerprint ch64 m2.
  Proof.
    intros H. unfold fingerprint, fp_descr.
    assert (G : forall d, fold_left (fp_step ch64) m1 d = fold_left (fp_step ch64) m2 d).
    { revert m2 H. induction m1 as [|x r IH]; intros [|y r2] H d; cbn [map] in H; try discriminate; [reflexivity|].
      inversion H as [[H1 H2]]. cbn [fold_left].
      replace (fp_step ch64 d x) with (fp_step ch64 d y).
      - now apply IH.
      - destruct d as [[a b] c]. unfold fp_step. now rewrite H1. }
    now rewrite G.
  Qed.
End HASH.

Lemma hash_collision_witness : forall ch64 : string -> N,
  fingerprint ch64 [("a", "bc")]%string = fingerprint ch64 [("ab", "c")]%string.
Proof. intros ch64. apply fingerprint_kv. reflexivity. Qed.

