(* Proofs about the model of the in-process LogQL engine (model/InternalEngine.v). *)
From Coq Require Import List ZArith NArith Bool String Ascii Lia.
From Qryn Require Import model.InternalEngine.
Import ListNotations.
Open Scope Z_scope.

Section PROOFS.
  Variable V : Type.
  Variables (v0 v1 : V) (vadd vdiv : V -> V -> V) (vltb vleb veqb : V -> V -> bool) (vofZ : Z -> V).
  Variable panic_kills : bool.
  Variable fpf : lbls -> N.
  Variable re_match : string -> string -> bool.
  Variable pfloat : string -> option V.
  Variable parse : N -> string -> option lbls.
  Variable tmpl : N -> lbls -> option string.

  Notation entry := (entry V).
  Notation batches := (list (list entry)).
  Notation wrap := (wrap V v0 panic_kills).

  (* ---------- filter stages ---------- *)
  Lemma fold_filter (keep : entry -> bool) : forall b acc,
    fold_entries V (filter_ops V keep) acc b = Ok (acc ++ filter keep b, b).
  Proof.
    induction b as [|e r IH]; intros acc; cbn [fold_entries filter].
    - now rewrite app_nil_r.
    - cbn [on_entry filter_ops]. rewrite IH. destruct (keep e).
      + now rewrite <- app_assoc.
      + reflexivity.
  Qed.

  Lemma wrap_filter (keep : entry -> bool) : forall bs,
    wrap (filter_ops V keep) [] bs = map (filter keep) bs.
  Proof.
    induction bs as [|b r IH]; cbn [wrap map]; [reflexivity|].
    rewrite fold_filter. cbn [on_slice filter_ops app]. now rewrite IH.
  Qed.

  Lemma concat_map_filter (keep : entry -> bool) (bs : batches) :
    List.concat (map (filter keep) bs) = filter keep (List.concat bs).
  Proof.
    induction bs as [|b r IH]; cbn; [reflexivity|]. now rewrite IH, filter_app.
  Qed.
End PROOFS.
