(* Proofs about the model of the in-process LogQL engine (model/InternalEngine.v). *)
From Coq Require Import List ZArith NArith Bool String Ascii Lia.
From Qryn Require Import model.InternalEngine.
Import ListNotations.
Open Scope Z_scope.

Section PROOFS.
  Variable V : Type.
  Variables (v0 v1 : V) (vadd vdiv : V -> V -> V) (vltb vleb veqb : V -> V -> bool) (vofZ : Z -> V).
  Variable panic_kills : bool.
  Variable fpf : lbls -> N.
  Variable re_match : string -> string -> bool.
  Variable pfloat : string -> option V.
  Variable parse : N -> string -> option lbls.
  Variable tmpl : N -> lbls -> option string.

  Notation entry := (entry V).
  Notation batches := (list (list entry)).
  Notation wrap := (wrap V v0 panic_kills).

  (* ---------- filter stages ---------- *)
  Lemma fold_filter (keep : entry -> bool) : forall b acc,
    fold_entries V (filter_ops V keep) acc b = Ok (acc ++ filter keep b, b).
  Proof.
    induction b as [|e r IH]; intros acc; cbn [fold_entries filter].
    - now rewrite app_nil_r.
    - cbn [on_entry filter_ops]. rewrite IH. destruct (keep e).
      + now rewrite <- app_assoc.
      + reflexivity.
  Qed.

  Lemma wrap_filter (keep : entry -> bool) : forall bs,
    wrap (filter_ops V keep) [] bs = map (filter keep) bs.
  Proof.
    induction bs as [|b r IH]; cbn [wrap map]; [reflexivity|].
    rewrite fold_filter. cbn [on_slice filter_ops app]. now rewrite IH.
  Qed.

  Lemma concat_map_filter (keep : entry -> bool) (bs : batches) :
    List.concat (map (filter keep) bs) = filter keep (List.concat bs).
  Proof.
    induction bs as [|b r IH]; cbn; [reflexivity|]. now rewrite IH, filter_app.
  Qed.

  (* ---------- stages that rewrite every entry and forward the batch ---------- *)
  Fixpoint mapM (f : entry -> res entry) (l : list entry) : res (list entry) :=
    match l with
    | [] => Ok []
    | e :: r => match f e with
                | Fail k => Fail k
                | Ok e' => match mapM f r with Fail k => Fail k | Ok r' => Ok (e' :: r') end
                end
    end.

  Lemma fold_map_ops (f : entry -> res entry) : forall b,
    fold_entries V (map_ops V f) tt b = match mapM f b with Ok b' => Ok (tt, b') | Fail k => Fail k end.
  Proof.
    induction b as [|e r IH]; cbn [fold_entries mapM]; [reflexivity|].
    cbn [on_entry map_ops]. destruct (f e) as [e'|k]; [|reflexivity].
    rewrite IH. destruct (mapM f r); reflexivity.
  Qed.

  Lemma mapM_total (f : entry -> res entry) (g : entry -> entry) :
    (forall e, f e = Ok (g e)) -> forall l, mapM f l = Ok (map g l).
  Proof.
    intros H. induction l as [|e r IH]; cbn [mapM map]; [reflexivity|]. now rewrite H, IH.
  Qed.

  Lemma wrap_map_total (f : entry -> res entry) (g : entry -> entry) :
    (forall e, f e = Ok (g e)) -> forall bs, wrap (map_ops V f) tt bs = map (map g) bs.
  Proof.
    intros H. induction bs as [|b r IH]; cbn [wrap map]; [reflexivity|].
    rewrite fold_map_ops, (mapM_total f g H). cbn [on_slice map_ops app]. now rewrite IH.
  Qed.

  Lemma concat_map_map (g : entry -> entry) (bs : batches) :
    List.concat (map (map g) bs) = map g (List.concat bs).
  Proof. induction bs as [|b r IH]; cbn; [reflexivity|]. now rewrite IH, map_app. Qed.

  Lemma mapM_app (f : entry -> res entry) : forall a b,
    mapM f (a ++ b) = match mapM f a with
                      | Fail k => Fail k
                      | Ok a' => match mapM f b with Fail k => Fail k | Ok b' => Ok (a' ++ b') end
                      end.
  Proof.
    induction a as [|e r IH]; intros b; cbn [mapM app].
    - destruct (mapM f b); reflexivity.
    - destruct (f e) as [e'|k]; [|reflexivity]. rewrite IH.
      destruct (mapM f r) as [r'|k]; [|reflexivity]. destruct (mapM f b); reflexivity.
  Qed.

  (* the general shape of the output of a rewriting stage: either every entry was rewritten, or the
     batches before the failing one were forwarded and one error entry ends the stream *)
  Lemma wrap_map_shape (f : entry -> res entry) : forall bs,
    match mapM f (List.concat bs) with
    | Ok l' => List.concat (wrap (map_ops V f) tt bs) = l'
    | Fail k => exists pre, wrap (map_ops V f) tt bs = pre ++ [[fail_entry V v0 panic_kills k]] /\
                            exists a b, List.concat bs = a ++ b /\ mapM f a = Ok (List.concat pre)
    end.
  Proof.
    induction bs as [|b r IH]; cbn [wrap List.concat mapM].
    - reflexivity.
    - rewrite fold_map_ops, mapM_app. destruct (mapM f b) as [b'|k] eqn:Hb.
      + cbn [on_slice map_ops]. destruct (mapM f (List.concat r)) as [r'|k] eqn:Hr.
        * cbn [app List.concat]. now rewrite IH.
        * destruct IH as [pre [Hw [a [c [Hc Ha]]]]]. exists (b' :: pre). split.
          { cbn [app]. now rewrite Hw. }
          exists (b ++ a), c. split; [now rewrite Hc, app_assoc|].
          rewrite mapM_app, Hb, Ha. reflexivity.
      + exists []. split; [reflexivity|]. exists [], (b ++ List.concat r). split; reflexivity.
  Qed.

  (* ---------- line_format ---------- *)
  Definition lf_one (id : N) (e : entry) : list entry :=
    match tmpl id (lset match e_lbl V e with None => [] | Some m => m end entry_key (e_msg V e)) with
    | Some s => [set_msg V e s]
    | None => []
    end.

  Lemma fold_line_format id : forall b acc,
    exists b', fold_entries V (line_format_ops V tmpl id) acc b = Ok (acc ++ flat_map (lf_one id) b, b').
  Proof.
    induction b as [|e r IH]; intros acc; cbn [fold_entries flat_map].
    - exists []. now rewrite app_nil_r.
    - cbn [on_entry line_format_ops]. unfold lf_one at 1.
      destruct (tmpl id _) as [s|].
      + destruct (IH (acc ++ [set_msg V e s])) as [b' Hb]. rewrite Hb. eexists. cbn [app]. now rewrite <- app_assoc.
      + destruct (IH acc) as [b' Hb]. rewrite Hb. eexists. reflexivity.
  Qed.

  Lemma wrap_line_format id : forall bs,
    wrap (line_format_ops V tmpl id) [] bs = map (flat_map (lf_one id)) bs.
  Proof.
    induction bs as [|b r IH]; cbn [wrap map]; [reflexivity|].
    destruct (fold_line_format id b []) as [b' Hb]. rewrite Hb. cbn [on_slice line_format_ops app]. now rewrite IH.
  Qed.

  Lemma concat_map_flat_map (g : entry -> list entry) (bs : batches) :
    List.concat (map (flat_map g) bs) = flat_map g (List.concat bs).
  Proof. induction bs as [|b r IH]; cbn; [reflexivity|]. now rewrite IH, flat_map_app. Qed.

  (* ---------- limit ---------- *)
  Lemma fold_limit L : forall b s, fold_entries V (limit_ops V L) s b = Ok (s, b).
  Proof.
    induction b as [|e r IH]; intros s; cbn [fold_entries]; [reflexivity|].
    cbn [on_entry limit_ops]. now rewrite IH.
  Qed.

  Lemma wrap_limit_zero : forall bs s, wrap (limit_ops V 0) s bs = bs.
  Proof.
    induction bs as [|b r IH]; intros s; cbn [wrap]; [reflexivity|].
    rewrite fold_limit. cbn [on_slice limit_ops]. cbn. now rewrite IH.
  Qed.

  Lemma wrap_limit_done L : 0 < L -> forall bs, List.concat (wrap (limit_ops V L) L bs) = [].
  Proof.
    intros HL. induction bs as [|b r IH]; cbn [wrap]; [reflexivity|].
    rewrite fold_limit. cbn [on_slice limit_ops].
    destruct (Z.eqb_spec L 0) as [->|_]; [lia|]. rewrite Z.leb_refl. cbn [app]. exact IH.
  Qed.

  Lemma wrap_limit_pos L : 0 < L -> forall bs s, 0 <= s <= L ->
    List.concat (wrap (limit_ops V L) s bs) = firstn (Z.to_nat (L - s)) (List.concat bs).
  Proof.
    intros HL. induction bs as [|b r IH]; intros s Hs; cbn [wrap List.concat].
    - now rewrite firstn_nil.
    - rewrite fold_limit. cbn [on_slice limit_ops].
      destruct (Z.eqb_spec L 0) as [->|_]; [lia|].
      destruct (Z.leb_spec L s) as [H1|H1].
      + cbn [app]. replace s with L by lia. rewrite wrap_limit_done by exact HL.
        replace (Z.to_nat (L - L)) with O by lia. reflexivity.
      + destruct (Z.ltb_spec (s + Z.of_nat (List.length b)) L) as [H2|H2]; cbn [app List.concat].
        * rewrite IH by lia. rewrite firstn_app, (firstn_all2 b) by lia. f_equal. f_equal. lia.
        * rewrite wrap_limit_done by exact HL. rewrite app_nil_r, firstn_app.
          replace (Z.to_nat (L - s) - List.length b)%nat with O by lia. cbn [firstn]. now rewrite app_nil_r.
  Qed.

  (* ---------- stages that only send at the end of the input (the aggregators) ---------- *)
  Lemma fold_entries_app {S} (o : ops V S) : forall a b s,
    fold_entries V o s (a ++ b) =
    match fold_entries V o s a with
    | Fail k => Fail k
    | Ok (s1, a1) => match fold_entries V o s1 b with Fail k => Fail k | Ok (s2, b1) => Ok (s2, a1 ++ b1) end
    end.
  Proof.
    induction a as [|e r IH]; intros b s; cbn [fold_entries app].
    - destruct (fold_entries V o s b) as [[s2 b1]|k]; reflexivity.
    - destruct (on_entry V S o s e) as [[s1 e1]|k]; [|reflexivity]. rewrite IH.
      destruct (fold_entries V o s1 r) as [[s2 r2]|k]; [|reflexivity].
      destruct (fold_entries V o s2 b) as [[s3 b3]|k]; reflexivity.
  Qed.

  Lemma wrap_end_only {S} (o : ops V S) :
    (forall s b, on_slice V S o s b = Ok (s, [])) ->
    forall bs s, wrap o s bs = wrap o s [List.concat bs].
  Proof.
    intros Hs. induction bs as [|b r IH]; intros s.
    - cbn [wrap List.concat fold_entries]. rewrite Hs. reflexivity.
    - cbn [List.concat]. cbn [wrap]. rewrite fold_entries_app.
      destruct (fold_entries V o s b) as [[s1 b1]|k]; [|reflexivity].
      rewrite Hs. cbn [app]. rewrite IH. cbn [wrap].
      destruct (fold_entries V o s1 (List.concat r)) as [[s2 r2]|k]; [|reflexivity].
      rewrite !Hs. reflexivity.
  Qed.

  (* ---------- the rewriting stages that never fail ---------- *)
  Definition unwrap_g (label : string) (e : entry) : entry :=
    match unwrap_f V pfloat label e with Ok e' => e' | Fail _ => e end.
  Lemma unwrap_total label e : unwrap_f V pfloat label e = Ok (unwrap_g label e).
  Proof.
    unfold unwrap_g, unwrap_f. destruct (negb _); [reflexivity|].
    destruct (String.eqb _ EmptyString); [reflexivity|]. destruct (pfloat _); reflexivity.
  Qed.
  Definition drop_g (names vals : list string) (e : entry) : entry :=
    match drop_f V fpf names vals e with Ok e' => e' | Fail _ => e end.
  Lemma drop_total names vals e : drop_f V fpf names vals e = Ok (drop_g names vals e).
  Proof. unfold drop_g, drop_f. destruct (e_lbl V e); [|reflexivity]. destruct (Nat.eqb _ _); reflexivity. Qed.
  Definition by_without_g (by_ : bool) (names : list string) (e : entry) : entry :=
    match by_without_f V fpf by_ names e with Ok e' => e' | Fail _ => e end.
  Lemma by_without_total by_ names e : by_without_f V fpf by_ names e = Ok (by_without_g by_ names e).
  Proof. unfold by_without_g, by_without_f. destruct (e_lbl V e); reflexivity. Qed.
  Definition label_format_g (fs : list lfmt_op) (e : entry) : entry :=
    match label_format_f V fs e with Ok e' => e' | Fail _ => e end.
  Lemma label_format_total fs e : label_format_f V fs e = Ok (label_format_g fs e).
  Proof. unfold label_format_g, label_format_f. destruct (e_lbl V e); reflexivity. Qed.

  (* ---------- response optimizer: a regrouping by fingerprint ---------- *)
  Definition proj (f : N) (l : list entry) : list entry := filter (fun e => N.eqb (e_fp V e) f) l.
  Definition gflat (g : groups V) : list entry := List.concat (map snd g).

  Fixpoint gwf (g : groups V) : Prop :=
    match g with
    | [] => True
    | (k, es) :: r => (forall e, In e es -> e_fp V e = k) /\ (forall k' es', In (k', es') r -> (k < k')%N) /\ gwf r
    end.

  Lemma proj_app f a b : proj f (a ++ b) = proj f a ++ proj f b.
  Proof. apply filter_app. Qed.

  Lemma proj_none f l : (forall e, In e l -> e_fp V e <> f) -> proj f l = [].
  Proof.
    induction l as [|e r IH]; intros H; cbn; [reflexivity|].
    destruct (N.eqb_spec (e_fp V e) f) as [E|_]; [exfalso; apply (H e); [now left|exact E]|].
    apply IH. intros x Hx. apply H. now right.
  Qed.

  Lemma gflat_later_none f k g : gwf g -> (forall k' es', In (k', es') g -> (k < k')%N) -> (f <= k)%N -> proj f (gflat g) = [].
  Proof.
    induction g as [|[k1 es] r IH]; intros Hwf Hlt Hle; [reflexivity|].
    unfold gflat. cbn [map snd List.concat]. rewrite proj_app. destruct Hwf as [H1 [H2 H3]].
    rewrite (proj_none f es).
    - cbn [app]. apply IH; [exact H3| |exact Hle]. intros k' es' Hin. apply (Hlt k' es'). now right.
    - intros e He. rewrite (H1 e He). specialize (Hlt k1 es (or_introl eq_refl)). lia.
  Qed.

  Lemma group_add_spec e : forall g, gwf g ->
    gwf (group_add V g e) /\
    (forall k es, In (k, es) (group_add V g e) -> k = e_fp V e \/ exists es0, In (k, es0) g) /\
    forall f, proj f (gflat (group_add V g e)) = proj f (gflat g) ++ proj f [e].
  Proof.
    induction g as [|[k es] r IH]; intros Hwf.
    - cbn [group_add]. split; [|split].
      + cbn. split; [intros x [<-|[]]; reflexivity|]. split; [intros ? ? []|exact I].
      + intros k es [H|[]]. left. now inversion H.
      + intros f. unfold gflat. cbn. rewrite ?app_nil_r. reflexivity.
    - destruct Hwf as [H1 [H2 H3]]. cbn [group_add].
      destruct (N.compare_spec (e_fp V e) k) as [E|L|G].
      + split; [|split].
        * cbn [gwf]. split; [|split; assumption].
          intros x Hx. apply in_app_or in Hx. destruct Hx as [Hx|[<-|[]]]; [now apply H1|exact E].
        * intros k' es' [H|H]; [right; exists es; left; inversion H; reflexivity|right; exists es'; now right].
        * intros f. unfold gflat. cbn [map snd List.concat]. rewrite !proj_app. rewrite <- !app_assoc. f_equal.
          fold (gflat r).
          destruct (N.eqb_spec (e_fp V e) f) as [Ef|Nf].
          { rewrite (gflat_later_none f k r H3 H2) by lia. cbn [proj filter app]. rewrite (proj2 (N.eqb_eq _ _) Ef). reflexivity. }
          { cbn [proj filter]. rewrite (proj2 (N.eqb_neq _ _) Nf). cbn [app]. now rewrite app_nil_r. }
      + split; [|split].
        * cbn [gwf]. split; [intros x [<-|[]]; reflexivity|]. split; [|cbn [gwf]; auto].
          intros k' es' [H|H]; [inversion H; subst; exact L|]. specialize (H2 k' es' H). lia.
        * intros k' es' [H|H]; [left; now inversion H|right; exists es'; exact H].
        * intros f. unfold gflat. cbn [map snd List.concat app].
          destruct (N.eqb_spec (e_fp V e) f) as [Ef|Nf].
          { assert (Hz : proj f (es ++ gflat r) = []).
            { change (es ++ gflat r) with (gflat ((k, es) :: r)).
              apply (gflat_later_none f (e_fp V e)); [cbn [gwf]; auto| |lia].
              intros k' es' [H|H]; [inversion H; subst; exact L|]. specialize (H2 k' es' H). lia. }
            fold (gflat r). rewrite Hz. change (e :: es ++ gflat r) with ([e] ++ (es ++ gflat r)).
            rewrite proj_app, Hz. cbn [app]. now rewrite app_nil_r. }
          { fold (gflat r). change (e :: es ++ gflat r) with ([e] ++ (es ++ gflat r)). rewrite (proj_app f [e]).
            cbn [proj filter]. rewrite (proj2 (N.eqb_neq _ _) Nf). cbn [app]. now rewrite app_nil_r. }
      + destruct (IH H3) as [I1 [I2 I3]]. split; [|split].
        * cbn [gwf]. split; [exact H1|]. split; [|exact I1].
          intros k' es' Hin. destruct (I2 k' es' Hin) as [->|[es0 H0]]; [exact G|exact (H2 k' es0 H0)].
        * intros k' es' [H|H]; [right; exists es; left; now inversion H|].
          destruct (I2 k' es' H) as [->|[es0 H0]]; [now left|right; exists es0; now right].
        * intros f. unfold gflat. cbn [map snd List.concat]. rewrite !proj_app.
          change (List.concat (map snd (group_add V r e))) with (gflat (group_add V r e)).
          rewrite I3. unfold gflat. now rewrite app_assoc.
  Qed.

  Lemma gflat_add_len e : forall g, List.length (gflat (group_add V g e)) = S (List.length (gflat g)).
  Proof.
    induction g as [|[k es] r IHg]; [reflexivity|]. cbn [group_add].
    destruct (N.compare (e_fp V e) k); unfold gflat in *; cbn [map snd List.concat].
    - rewrite !app_length. cbn [List.length]. lia.
    - cbn [app List.length]. reflexivity.
    - rewrite !app_length, IHg. lia.
  Qed.

  Lemma fold_optimizer : forall b g n, gwf g ->
    exists g', fold_entries V (optimizer_ops V) (g, n) b = Ok ((g', n + Z.of_nat (List.length b)), b) /\ gwf g' /\
               List.length (gflat g') = (List.length (gflat g) + List.length b)%nat /\
               forall f, proj f (gflat g') = proj f (gflat g) ++ proj f b.
  Proof.
    induction b as [|e r IH]; intros g n Hwf.
    - exists g. cbn [fold_entries List.length]. split; [now rewrite Z.add_0_r|]. split; [exact Hwf|]. split; [lia|].
      intros f. now rewrite app_nil_r.
    - cbn [fold_entries]. cbn [on_entry optimizer_ops fst snd].
      destruct (group_add_spec e g Hwf) as [W1 [_ W3]].
      destruct (IH (group_add V g e) (n + 1) W1) as [g' [Hf [W' [L' P']]]].
      exists g'. rewrite Hf. split; [|split; [exact W'|split]].
      + do 3 f_equal. cbn [List.length]. lia.
      + rewrite L', gflat_add_len. cbn [List.length]. lia.
      + intros f. rewrite P', W3. rewrite <- app_assoc, <- proj_app. reflexivity.
  Qed.

  Lemma wrap_optimizer f : forall bs g n, gwf g -> n = Z.of_nat (List.length (gflat g)) ->
    proj f (List.concat (wrap (optimizer_ops V) (g, n) bs)) = proj f (gflat g) ++ proj f (List.concat bs).
  Proof.
    induction bs as [|b r IH]; intros g n Hwf Hn; cbn [wrap List.concat].
    - cbn [on_end optimizer_ops snd fst]. rewrite app_nil_r.
      destruct (Z.eqb_spec n 0) as [E|_]; [|reflexivity].
      assert (Hl : gflat g = []) by (apply length_zero_iff_nil; lia). now rewrite Hl.
    - destruct (fold_optimizer b g n Hwf) as [g' [Hf [W' [L' P']]]]. rewrite Hf.
      cbn [on_slice optimizer_ops snd fst].
      assert (Hn' : n + Z.of_nat (List.length b) = Z.of_nat (List.length (gflat g'))) by (rewrite L'; lia).
      destruct (Z.ltb_spec (n + Z.of_nat (List.length b)) 3000) as [Hs|Hs].
      + cbn [app]. rewrite (IH g' _ W' Hn'). rewrite P', proj_app. now rewrite app_assoc.
      + rewrite concat_app, proj_app. change (List.concat (map snd g')) with (gflat g').
        match goal with |- _ ++ proj f (List.concat ?w) = _ => change w with (wrap (optimizer_ops V) (@pair (groups V) Z [] 0) r) end.
        rewrite (IH [] 0 I eq_refl). unfold gflat at 2. cbn [map List.concat proj filter app].
        rewrite P', proj_app. now rewrite app_assoc.
  Qed.

  (* ---------- observations depend on the flat output only ---------- *)
  Notation run_stage := (run_stage V v0 v1 vadd vdiv vltb vleb veqb vofZ panic_kills fpf re_match pfloat parse tmpl).
  Notation observe := (observe V).
  Notation outcome_of := (outcome_of V).
  Definition is_crash (e : entry) : bool := errk_eqb (e_err V e) ECrash.

  Lemma has_crash_concat (bs : batches) : has_crash V bs = existsb is_crash (List.concat bs).
  Proof.
    unfold has_crash. induction bs as [|b r IH]; cbn [existsb List.concat]; [reflexivity|].
    now rewrite existsb_app, IH.
  Qed.

  Lemma observe_concat (a b : batches) : List.concat a = List.concat b -> observe a = observe b.
  Proof. intros H. unfold InternalEngine.observe. now rewrite !has_crash_concat, H. Qed.

  Lemma outcome_concat (a b : batches) : List.concat a = List.concat b -> outcome_of a = outcome_of b.
  Proof. intros H. unfold InternalEngine.outcome_of. now rewrite (observe_concat a b H). Qed.

  (* ---------- parser: outcome is independent of the batching ---------- *)
  Lemma parser_f_err id e e' : parser_f V fpf parse id e = Ok e' -> e_err V e' = e_err V e.
  Proof.
    unfold parser_f. destruct (negb _); [intros H; now inversion H|].
    destruct (parse id _) as [kvs|]; [|discriminate].
    destruct (e_lbl V e) as [m|]; [intros H; now inversion H|].
    destruct kvs; [intros H; now inversion H|discriminate].
  Qed.
  Lemma parser_f_fail id e k : parser_f V fpf parse id e = Fail k -> k = EErr \/ k = ECrash.
  Proof.
    unfold parser_f. destruct (negb _); [discriminate|].
    destruct (parse id _) as [kvs|]; [|intros H; inversion H; now left].
    destruct (e_lbl V e) as [m|]; [discriminate|]. destruct kvs; [discriminate|intros H; inversion H; now right].
  Qed.

  Lemma mapM_no_crash (f : entry -> res entry) :
    (forall e e', f e = Ok e' -> e_err V e' = e_err V e) ->
    forall a a', mapM f a = Ok a' -> existsb is_crash a = false -> existsb is_crash a' = false.
  Proof.
    intros Hf. induction a as [|e r IH]; intros a' H Hc; cbn [mapM] in H.
    - now inversion H.
    - destruct (f e) as [e1|] eqn:E; [|discriminate]. destruct (mapM f r) as [r1|] eqn:R; [|discriminate].
      inversion H; subst. cbn [existsb] in *. apply orb_false_iff in Hc. destruct Hc as [H1 H2].
      apply orb_false_iff. split; [|now apply IH]. unfold is_crash in *. now rewrite (Hf e e1 E).
  Qed.

  Lemma first_err_app_err (l : list entry) (x : entry) :
    (e_err V x = EErr \/ e_err V x = EPanic) -> existsb is_crash l = false ->
    exists k, first_err V (l ++ [x]) = Some k /\ k <> ECrash.
  Proof.
    intros Hx. induction l as [|e r IH]; intros Hc; cbn [app first_err].
    - destruct Hx as [-> | ->]; eexists; split; try reflexivity; discriminate.
    - cbn [existsb] in Hc. apply orb_false_iff in Hc. destruct Hc as [H1 H2]. unfold is_crash in H1.
      destruct (e_err V e); try (exact (IH H2)); try (eexists; split; [reflexivity|discriminate]).
  Qed.

  Lemma outcome_failed (pre : batches) (x : entry) :
    (e_err V x = EErr \/ e_err V x = EPanic) -> existsb is_crash (List.concat pre) = false ->
    outcome_of (pre ++ [[x]]) = OFailed V.
  Proof.
    intros Hx Hc. unfold InternalEngine.outcome_of, InternalEngine.observe.
    rewrite has_crash_concat, concat_app. cbn [List.concat]. rewrite app_nil_r, existsb_app, Hc.
    cbn [existsb]. unfold is_crash at 1. destruct Hx as [Hx|Hx]; rewrite Hx; cbn [errk_eqb orb];
      (destruct (first_err_app_err (List.concat pre) x) as [k [Hk Hn]]; [rewrite Hx; auto|exact Hc|]);
      rewrite Hk; destruct k; try reflexivity; contradiction.
  Qed.

  Lemma outcome_crashed (pre : batches) (x : entry) : e_err V x = ECrash -> outcome_of (pre ++ [[x]]) = OCrash V.
  Proof.
    intros Hx. unfold InternalEngine.outcome_of, InternalEngine.observe.
    rewrite has_crash_concat, concat_app. cbn [List.concat]. rewrite app_nil_r, existsb_app.
    cbn [existsb]. unfold is_crash at 2. rewrite Hx. cbn [errk_eqb]. now rewrite !orb_true_r.
  Qed.

  Lemma map_stage_outcome (f : entry -> res entry) :
    (forall e e', f e = Ok e' -> e_err V e' = e_err V e) ->
    (forall e k, f e = Fail k -> k = EErr \/ k = ECrash) ->
    forall bs, no_crash_in V bs ->
      outcome_of (wrap (map_ops V f) tt bs) = outcome_of (wrap (map_ops V f) tt [List.concat bs]).
  Proof.
    intros Hok Hfail bs Hnc. unfold no_crash_in in Hnc. rewrite has_crash_concat in Hnc.
    pose proof (wrap_map_shape f bs) as S1. pose proof (wrap_map_shape f [List.concat bs]) as S2.
    cbn [List.concat] in S2. rewrite app_nil_r in S2.
    destruct (mapM f (List.concat bs)) as [l'|k] eqn:E.
    - apply outcome_concat. now rewrite S1, S2.
    - destruct S1 as [pre1 [W1 [a1 [b1 [C1 M1]]]]]. destruct S2 as [pre2 [W2 [a2 [b2 [C2 M2]]]]].
      rewrite W1, W2.
      assert (Hk : k = EErr \/ k = ECrash).
      { clear - E Hfail. revert k E. induction (List.concat bs) as [|e r IH]; intros k E; cbn [mapM] in E; [discriminate|].
        destruct (f e) as [e1|k1] eqn:F; [|inversion E; subst; exact (Hfail e k F)].
        destruct (mapM f r) as [r1|k2]; [discriminate|]. inversion E; subst. now apply IH. }
      assert (N1 : existsb is_crash (List.concat pre1) = false).
      { apply (mapM_no_crash f Hok a1 _ M1). rewrite C1, existsb_app in Hnc. now apply orb_false_iff in Hnc. }
      assert (N2 : existsb is_crash (List.concat pre2) = false).
      { apply (mapM_no_crash f Hok a2 _ M2). rewrite C2, existsb_app in Hnc. now apply orb_false_iff in Hnc. }
      unfold fail_entry. destruct Hk as [-> | ->].
      + rewrite !outcome_failed; auto.
      + destruct panic_kills.
        * rewrite !outcome_crashed; auto.
        * rewrite !outcome_failed; auto.
  Qed.
End PROOFS.

(* ============================================================================================ *)
(* hash.go *)
From Coq Require Import Permutation.
Section HASH.
  Variable ch64 : string -> N.
  Open Scope N_scope.

  Lemma w64_idem x : w64 (w64 x) = w64 x.
  Proof. unfold w64. apply N.mod_mod. unfold m64. discriminate. Qed.
  Lemma w64_add_l a b : w64 (w64 a + b) = w64 (a + b).
  Proof. unfold w64. apply N.add_mod_idemp_l. unfold m64. discriminate. Qed.
  Lemma w64_mul_l a b : w64 (w64 a * b) = w64 (a * b).
  Proof. unfold w64. apply N.mul_mod_idemp_l. unfold m64. discriminate. Qed.

  Lemma fp_step_comm d x y : fp_step ch64 (fp_step ch64 d x) y = fp_step ch64 (fp_step ch64 d y) x.
  Proof.
    destruct d as [[a b] c]. unfold fp_step.
    set (h1 := w64 (ch64 (fst x ++ snd x))). set (h2 := w64 (ch64 (fst y ++ snd y))).
    f_equal; [f_equal|].
    - rewrite !w64_add_l. f_equal. lia.
    - rewrite !N.lxor_assoc. f_equal. apply N.lxor_comm.
    - rewrite !w64_mul_l. f_equal. lia.
  Qed.

  Lemma fold_fp_step_perm : forall m1 m2, Permutation m1 m2 -> forall d, fold_left (fp_step ch64) m1 d = fold_left (fp_step ch64) m2 d.
  Proof.
    induction 1 as [|x l l' _ IH|x y l|l l' l'' _ IH1 _ IH2]; intros d; cbn [fold_left].
    - reflexivity.
    - apply IH.
    - now rewrite fp_step_comm.
    - now rewrite IH1, IH2.
  Qed.

  (* Go ranges over the label map in an unspecified order; the fingerprint does not depend on it *)
  Lemma fingerprint_perm m1 m2 : Permutation m1 m2 -> fingerprint ch64 m1 = fingerprint ch64 m2.
  Proof. intros H. unfold fingerprint, fp_descr. now rewrite (fold_fp_step_perm m1 m2 H). Qed.

  (* the only thing the fingerprint reads off a label is the string k ++ v *)
  Lemma fingerprint_kv m1 m2 :
    map (fun kv => (fst kv ++ snd kv)%string) m1 = map (fun kv => (fst kv ++ snd kv)%string) m2 ->
    fingerprint ch64 m1 = fingerprint ch64 m2.
  Proof.
    intros H. unfold fingerprint, fp_descr.
    assert (G : forall d, fold_left (fp_step ch64) m1 d = fold_left (fp_step ch64) m2 d).
    { revert m2 H. induction m1 as [|x r IH]; intros [|y r2] H d; cbn [map] in H; try discriminate; [reflexivity|].
      inversion H as [[H1 H2]]. cbn [fold_left].
      replace (fp_step ch64 d x) with (fp_step ch64 d y).
      - now apply IH.
      - destruct d as [[a b] c]. unfold fp_step. now rewrite H1. }
    now rewrite G.
  Qed.
End HASH.

Lemma hash_collision_witness : forall ch64 : string -> N,
  fingerprint ch64 [("a", "bc")]%string = fingerprint ch64 [("ab", "c")]%string.
Proof. intros ch64. apply fingerprint_kv. reflexivity. Qed.
