(* Proofs about the model of the in-process LogQL engine (model/InternalEngine.v). *)
From Coq Require Import List ZArith NArith Bool String Ascii Lia.
From Qryn Require Import model.InternalEngine.
Import ListNotations.
Open Scope Z_scope.

Section PROOFS.
  Variable V : Type.
  Variables (v0 v1 : V) (vadd vdiv : V -> V -> V) (vltb vleb veqb : V -> V -> bool) (vofZ : Z -> V).
  Variable panic_kills : bool.
  Variable fpf : lbls -> N.
  Variable re_match : string -> string -> bool.
  Variable pfloat : string -> option V.
  Variable parse : N -> string -> option lbls.
  Variable tmpl : N -> lbls -> option string.

  Notation entry := (entry V).
  Notation batches := (list (list entry)).
  Notation wrap := (wrap V v0 panic_kills).

  (* ---------- filter stages ---------- *)
  Lemma fold_filter (keep : entry -> bool) : forall b acc,
    fold_entries V (filter_ops V keep) acc b = Ok (acc ++ filter keep b, b).
  Proof.
    induction b as [|e r IH]; intros acc; cbn [fold_entries filter].
    - now rewrite app_nil_r.
    - cbn [on_entry filter_ops]. rewrite IH. destruct (keep e).
      + now rewrite <- app_assoc.
      + reflexivity.
  Qed.

  Lemma wrap_filter (keep : entry -> bool) : forall bs,
    wrap (filter_ops V keep) [] bs = map (filter keep) bs.
  Proof.
    induction bs as [|b r IH]; cbn [wrap map]; [reflexivity|].
    rewrite fold_filter. cbn [on_slice filter_ops app]. now rewrite IH.
  Qed.

  Lemma concat_map_filter (keep : entry -> bool) (bs : batches) :
    List.concat (map (filter keep) bs) = filter keep (List.concat bs).
  Proof.
    induction bs as [|b r IH]; cbn; [reflexivity|]. now rewrite IH, filter_app.
  Qed.

  (* ---------- stages that rewrite every entry and forward the batch ---------- *)
  Fixpoint mapM (f : entry -> res entry) (l : list entry) : res (list entry) :=
    match l with
    | [] => Ok []
    | e :: r => match f e with
                | Fail k => Fail k
                | Ok e' => match mapM f r with Fail k => Fail k | Ok r' => Ok (e' :: r') end
                end
    end.

  Lemma fold_map_ops (f : entry -> res entry) : forall b,
    fold_entries V (map_ops V f) tt b = match mapM f b with Ok b' => Ok (tt, b') | Fail k => Fail k end.
  Proof.
    induction b as [|e r IH]; cbn [fold_entries mapM]; [reflexivity|].
    cbn [on_entry map_ops]. destruct (f e) as [e'|k]; [|reflexivity].
    rewrite IH. destruct (mapM f r); reflexivity.
  Qed.

  Lemma mapM_total (f : entry -> res entry) (g : entry -> entry) :
    (forall e, f e = Ok (g e)) -> forall l, mapM f l = Ok (map g l).
  Proof.
    intros H. induction l as [|e r IH]; cbn [mapM map]; [reflexivity|]. now rewrite H, IH.
  Qed.

  Lemma wrap_map_total (f : entry -> res entry) (g : entry -> entry) :
    (forall e, f e = Ok (g e)) -> forall bs, wrap (map_ops V f) tt bs = map (map g) bs.
  Proof.
    intros H. induction bs as [|b r IH]; cbn [wrap map]; [reflexivity|].
    rewrite fold_map_ops, (mapM_total f g H). cbn [on_slice map_ops app]. now rewrite IH.
  Qed.

  Lemma concat_map_map (g : entry -> entry) (bs : batches) :
    List.concat (map (map g) bs) = map g (List.concat bs).
  Proof. induction bs as [|b r IH]; cbn; [reflexivity|]. now rewrite IH, map_app. Qed.

  Lemma mapM_app (f : entry -> res entry) : forall a b,
    mapM f (a ++ b) = match mapM f a with
                      | Fail k => Fail k
                      | Ok a' => match mapM f b with Fail k => Fail k | Ok b' => Ok (a' ++ b') end
                      end.
  Proof.
    induction a as [|e r IH]; intros b; cbn [mapM app].
    - destruct (mapM f b); reflexivity.
    - destruct (f e) as [e'|k]; [|reflexivity]. rewrite IH.
      destruct (mapM f r) as [r'|k]; [|reflexivity]. destruct (mapM f b); reflexivity.
  Qed.

  (* the general shape of the output of a rewriting stage: either every entry was rewritten, or the
     batches before the failing one were forwarded and one error entry ends the stream *)
  Lemma wrap_map_shape (f : entry -> res entry) : forall bs,
    match mapM f (List.concat bs) with
    | Ok l' => List.concat (wrap (map_ops V f) tt bs) = l'
    | Fail k => exists pre, wrap (map_ops V f) tt bs = pre ++ [[fail_entry V v0 panic_kills k]] /\
                            exists a b, List.concat bs = a ++ b /\ mapM f a = Ok (List.concat pre)
    end.
  Proof.
    induction bs as [|b r IH]; cbn [wrap List.concat mapM].
    - reflexivity.
    - rewrite fold_map_ops, mapM_app. destruct (mapM f b) as [b'|k] eqn:Hb.
      + cbn [on_slice map_ops]. destruct (mapM f (List.concat r)) as [r'|k] eqn:Hr.
        * cbn [app List.concat]. now rewrite IH.
        * destruct IH as [pre [Hw [a [c [Hc Ha]]]]]. exists (b' :: pre). split.
          { cbn [app]. now rewrite Hw. }
          exists (b ++ a), c. split; [now rewrite Hc, app_assoc|].
          rewrite mapM_app, Hb, Ha. reflexivity.
      + exists []. split; [reflexivity|]. exists [], (b ++ List.concat r). split; reflexivity.
  Qed.

  (* ---------- line_format ---------- *)
  Definition lf_one (id : N) (e : entry) : list entry :=
    if negb (errk_eqb (e_err V e) ENone) then [e] else
    match tmpl id (lset match e_lbl V e with None => [] | Some m => m end entry_key (e_msg V e)) with
    | Some s => [set_msg V e s]
    | None => []
    end.

  Lemma fold_line_format id : forall b acc,
    exists b', fold_entries V (line_format_ops V tmpl id) acc b = Ok (acc ++ flat_map (lf_one id) b, b').
  Proof.
    induction b as [|e r IH]; intros acc; cbn [fold_entries flat_map].
    - exists []. now rewrite app_nil_r.
    - cbn [on_entry line_format_ops]. unfold lf_one at 1.
      destruct (negb (errk_eqb (e_err V e) ENone)).
      + destruct (IH (acc ++ [e])) as [b' Hb]. rewrite Hb. eexists. cbn [app]. now rewrite <- app_assoc.
      + destruct (tmpl id _) as [s|].
        * destruct (IH (acc ++ [set_msg V e s])) as [b' Hb]. rewrite Hb. eexists. cbn [app]. now rewrite <- app_assoc.
        * destruct (IH acc) as [b' Hb]. rewrite Hb. eexists. reflexivity.
  Qed.

  Lemma wrap_line_format id : forall bs,
    wrap (line_format_ops V tmpl id) [] bs = map (flat_map (lf_one id)) bs.
  Proof.
    induction bs as [|b r IH]; cbn [wrap map]; [reflexivity|].
    destruct (fold_line_format id b []) as [b' Hb]. rewrite Hb. cbn [on_slice line_format_ops app]. now rewrite IH.
  Qed.

  Lemma concat_map_flat_map (g : entry -> list entry) (bs : batches) :
    List.concat (map (flat_map g) bs) = flat_map g (List.concat bs).
  Proof. induction bs as [|b r IH]; cbn; [reflexivity|]. now rewrite IH, flat_map_app. Qed.

  (* ---------- limit ---------- *)
  Lemma fold_limit L : forall b s, fold_entries V (limit_ops V L) s b = Ok (s, b).
  Proof.
    induction b as [|e r IH]; intros s; cbn [fold_entries]; [reflexivity|].
    cbn [on_entry limit_ops]. now rewrite IH.
  Qed.

  Lemma wrap_limit_zero : forall bs s, wrap (limit_ops V 0) s bs = bs.
  Proof.
    induction bs as [|b r IH]; intros s; cbn [wrap]; [reflexivity|].
    rewrite fold_limit. cbn [on_slice limit_ops]. cbn. now rewrite IH.
  Qed.

  (* once `sent >= limit` (the limit is filled, or it is negative) nothing is sent any more *)
  Lemma wrap_limit_done L : L <> 0 -> forall bs s fl, L <= s -> List.concat (wrap (limit_ops V L) (s, fl) bs) = [].
  Proof.
    intros HL. induction bs as [|b r IH]; intros s fl Hs; cbn [wrap]; [reflexivity|].
    rewrite fold_limit. cbn [on_slice limit_ops fst snd].
    destruct (Z.eqb_spec L 0) as [->|_]; [lia|].
    destruct (Z.leb_spec L s) as [_|H]; [|lia]. cbn [app]. now apply IH.
  Qed.

  Lemma wrap_limit_pos L : 0 < L -> forall bs s fl, 0 <= s <= L ->
    List.concat (wrap (limit_ops V L) (s, fl) bs) = firstn (Z.to_nat (L - s)) (List.concat bs).
  Proof.
    intros HL. induction bs as [|b r IH]; intros s fl Hs; cbn [wrap List.concat].
    - now rewrite firstn_nil.
    - rewrite fold_limit. cbn [on_slice limit_ops fst snd].
      destruct (Z.eqb_spec L 0) as [->|_]; [lia|].
      destruct (Z.leb_spec L s) as [H1|H1].
      + cbn [app]. rewrite wrap_limit_done by lia.
        replace (Z.to_nat (L - s)) with O by lia. reflexivity.
      + destruct (Z.ltb_spec (s + Z.of_nat (List.length b)) L) as [H2|H2]; cbn [app List.concat].
        * rewrite IH by lia. rewrite firstn_app, (firstn_all2 b) by lia. f_equal. f_equal. lia.
        * rewrite wrap_limit_done by lia. rewrite app_nil_r, firstn_app.
          replace (Z.to_nat (L - s) - List.length b)%nat with O by lia. cbn [firstn]. now rewrite app_nil_r.
  Qed.

  (* for EVERY value of the limit parameter, negative ones included (they send nothing) *)
  Lemma wrap_limit_all L bs :
    List.concat (wrap (limit_ops V L) (0, false) bs) = sem_limit V L (List.concat bs).
  Proof.
    unfold sem_limit. destruct (Z.eqb_spec L 0) as [E|E].
    - rewrite E. now rewrite wrap_limit_zero.
    - destruct (Z.ltb_spec 0 L) as [HL|HL].
      + rewrite (wrap_limit_pos L HL) by lia. now rewrite Z.sub_0_r.
      + rewrite wrap_limit_done by lia. replace (Z.to_nat L) with O by lia. reflexivity.
  Qed.

  (* the side effect: ctx.CancelCtx is called exactly when a positive limit is filled by the entries that arrived *)
  Lemma limit_final L : forall bs s fl, 0 <= s ->
    wrap_final V (limit_ops V L) (s, fl) bs =
    Some (if (L =? 0) || (L <=? s) then (s, fl)
          else if s + Z.of_nat (List.length (List.concat bs)) <? L then (s + Z.of_nat (List.length (List.concat bs)), fl)
          else (L, true)).
  Proof.
    induction bs as [|b r IH]; intros s fl Hs; cbn [wrap_final List.concat].
    - cbn [on_end limit_ops List.length]. rewrite Z.add_0_r.
      destruct (Z.eqb_spec L 0) as [E|E]; [reflexivity|]. cbn [orb].
      destruct (Z.leb_spec L s) as [H1|H1]; [reflexivity|].
      destruct (Z.ltb_spec s L) as [H2|H2]; [reflexivity|lia].
    - rewrite fold_limit. cbn [on_slice limit_ops fst snd]. rewrite app_length, Nat2Z.inj_add.
      destruct (Z.eqb_spec L 0) as [E|E]; [rewrite IH by lia; subst L; reflexivity|]. cbn [orb].
      destruct (Z.leb_spec L s) as [H1|H1].
      + rewrite IH by lia. destruct (Z.eqb_spec L 0) as [E'|_]; [lia|]. cbn [orb].
        destruct (Z.leb_spec L s) as [_|H]; [reflexivity|lia].
      + destruct (Z.ltb_spec (s + Z.of_nat (List.length b)) L) as [H2|H2].
        * rewrite IH by lia. destruct (Z.eqb_spec L 0) as [E'|_]; [lia|]. cbn [orb].
          destruct (Z.leb_spec L (s + Z.of_nat (List.length b))) as [H|_]; [lia|].
          rewrite <- Z.add_assoc.
          destruct (Z.ltb_spec (s + (Z.of_nat (List.length b) + Z.of_nat (List.length (List.concat r)))) L); reflexivity.
        * rewrite IH by lia. destruct (Z.eqb_spec L 0) as [E'|_]; [lia|]. cbn [orb].
          rewrite Z.leb_refl.
          destruct (Z.ltb_spec (s + (Z.of_nat (List.length b) + Z.of_nat (List.length (List.concat r)))) L) as [H|_]; [lia|reflexivity].
  Qed.

  Lemma limit_cancelled_iff c bs :
    limit_cancelled V c bs = (0 <? c_limit c) && (c_limit c <=? Z.of_nat (List.length (List.concat bs))).
  Proof.
    unfold limit_cancelled. rewrite limit_final by lia. rewrite Z.add_0_l.
    destruct (Z.eqb_spec (c_limit c) 0) as [E|E]; [rewrite E; reflexivity|]. cbn [orb].
    destruct (Z.leb_spec (c_limit c) 0) as [H1|H1]; cbn [snd].
    - destruct (Z.ltb_spec 0 (c_limit c)); [lia|reflexivity].
    - destruct (Z.ltb_spec 0 (c_limit c)) as [_|H]; [|lia]. cbn [andb].
      destruct (Z.ltb_spec (Z.of_nat (List.length (List.concat bs))) (c_limit c)) as [H2|H2]; cbn [snd];
        destruct (Z.leb_spec (c_limit c) (Z.of_nat (List.length (List.concat bs)))); try reflexivity; lia.
  Qed.

  (* ---------- stages that only send at the end of the input (the aggregators) ---------- *)
  Lemma fold_entries_app {S} (o : ops V S) : forall a b s,
    fold_entries V o s (a ++ b) =
    match fold_entries V o s a with
    | Fail k => Fail k
    | Ok (s1, a1) => match fold_entries V o s1 b with Fail k => Fail k | Ok (s2, b1) => Ok (s2, a1 ++ b1) end
    end.
  Proof.
    induction a as [|e r IH]; intros b s; cbn [fold_entries app].
    - destruct (fold_entries V o s b) as [[s2 b1]|k]; reflexivity.
    - destruct (on_entry V S o s e) as [[s1 e1]|k]; [|reflexivity]. rewrite IH.
      destruct (fold_entries V o s1 r) as [[s2 r2]|k]; [|reflexivity].
      destruct (fold_entries V o s2 b) as [[s3 b3]|k]; reflexivity.
  Qed.

  Lemma wrap_end_only {S} (o : ops V S) :
    (forall s b, on_slice V S o s b = Ok (s, [])) ->
    forall bs s, wrap o s bs = wrap o s [List.concat bs].
  Proof.
    intros Hs. induction bs as [|b r IH]; intros s.
    - cbn [wrap List.concat fold_entries]. rewrite Hs. reflexivity.
    - cbn [List.concat]. cbn [wrap]. rewrite fold_entries_app.
      destruct (fold_entries V o s b) as [[s1 b1]|k]; [|reflexivity].
      rewrite Hs. cbn [app]. rewrite IH. cbn [wrap].
      destruct (fold_entries V o s1 (List.concat r)) as [[s2 r2]|k]; [|reflexivity].
      rewrite !Hs. reflexivity.
  Qed.

  (* ---------- the rewriting stages that never fail ---------- *)
  Definition unwrap_g (label : string) (e : entry) : entry :=
    match unwrap_f V pfloat label e with Ok e' => e' | Fail _ => e end.
  Lemma unwrap_total label e : unwrap_f V pfloat label e = Ok (unwrap_g label e).
  Proof.
    unfold unwrap_g, unwrap_f. destruct (negb _); [reflexivity|].
    destruct (String.eqb _ EmptyString); [reflexivity|]. destruct (pfloat _); reflexivity.
  Qed.
  Definition drop_g (names vals : list string) (e : entry) : entry :=
    match drop_f V fpf names vals e with Ok e' => e' | Fail _ => e end.
  Lemma drop_total names vals e : drop_f V fpf names vals e = Ok (drop_g names vals e).
  Proof. unfold drop_g, drop_f. destruct (e_lbl V e); reflexivity. Qed.
  Definition by_without_g (by_ : bool) (names : list string) (e : entry) : entry :=
    match by_without_f V fpf by_ names e with Ok e' => e' | Fail _ => e end.
  Lemma by_without_total by_ names e : by_without_f V fpf by_ names e = Ok (by_without_g by_ names e).
  Proof. unfold by_without_g, by_without_f. destruct (e_lbl V e); reflexivity. Qed.
  Definition label_format_g (fs : list lfmt_op) (e : entry) : entry :=
    match label_format_f V fpf fs e with Ok e' => e' | Fail _ => e end.
  Lemma label_format_total fs e : label_format_f V fpf fs e = Ok (label_format_g fs e).
  Proof. unfold label_format_g, label_format_f. destruct (e_lbl V e); reflexivity. Qed.

  (* ---------- response optimizer: a regrouping by fingerprint ---------- *)
  Definition proj (f : N) (l : list entry) : list entry := filter (fun e => N.eqb (e_fp V e) f) l.
  Definition gflat (g : groups V) : list entry := List.concat (map snd g).

  Fixpoint gwf (g : groups V) : Prop :=
    match g with
    | [] => True
    | (k, es) :: r => (forall e, In e es -> e_fp V e = k) /\ (forall k' es', In (k', es') r -> (k < k')%N) /\ gwf r
    end.

  Lemma proj_app f a b : proj f (a ++ b) = proj f a ++ proj f b.
  Proof. apply filter_app. Qed.

  Lemma proj_none f l : (forall e, In e l -> e_fp V e <> f) -> proj f l = [].
  Proof.
    induction l as [|e r IH]; intros H; cbn; [reflexivity|].
    destruct (N.eqb_spec (e_fp V e) f) as [E|_]; [exfalso; apply (H e); [now left|exact E]|].
    apply IH. intros x Hx. apply H. now right.
  Qed.

  Lemma gflat_later_none f k g : gwf g -> (forall k' es', In (k', es') g -> (k < k')%N) -> (f <= k)%N -> proj f (gflat g) = [].
  Proof.
    induction g as [|[k1 es] r IH]; intros Hwf Hlt Hle; [reflexivity|].
    unfold gflat. cbn [map snd List.concat]. rewrite proj_app. destruct Hwf as [H1 [H2 H3]].
    rewrite (proj_none f es).
    - cbn [app]. apply IH; [exact H3| |exact Hle]. intros k' es' Hin. apply (Hlt k' es'). now right.
    - intros e He. rewrite (H1 e He). specialize (Hlt k1 es (or_introl eq_refl)). lia.
  Qed.

  Lemma group_add_spec e : forall g, gwf g ->
    gwf (group_add V g e) /\
    (forall k es, In (k, es) (group_add V g e) -> k = e_fp V e \/ exists es0, In (k, es0) g) /\
    forall f, proj f (gflat (group_add V g e)) = proj f (gflat g) ++ proj f [e].
  Proof.
    induction g as [|[k es] r IH]; intros Hwf.
    - cbn [group_add]. split; [|split].
      + cbn. split; [intros x [<-|[]]; reflexivity|]. split; [intros ? ? []|exact I].
      + intros k es [H|[]]. left. now inversion H.
      + intros f. unfold gflat. cbn. rewrite ?app_nil_r. reflexivity.
    - destruct Hwf as [H1 [H2 H3]]. cbn [group_add].
      destruct (N.compare_spec (e_fp V e) k) as [E|L|G].
      + split; [|split].
        * cbn [gwf]. split; [|split; assumption].
          intros x Hx. apply in_app_or in Hx. destruct Hx as [Hx|[<-|[]]]; [now apply H1|exact E].
        * intros k' es' [H|H]; [right; exists es; left; inversion H; reflexivity|right; exists es'; now right].
        * intros f. unfold gflat. cbn [map snd List.concat]. rewrite !proj_app. rewrite <- !app_assoc. f_equal.
          fold (gflat r).
          destruct (N.eqb_spec (e_fp V e) f) as [Ef|Nf].
          { rewrite (gflat_later_none f k r H3 H2) by lia. cbn [proj filter app]. rewrite (proj2 (N.eqb_eq _ _) Ef). reflexivity. }
          { cbn [proj filter]. rewrite (proj2 (N.eqb_neq _ _) Nf). cbn [app]. now rewrite app_nil_r. }
      + split; [|split].
        * cbn [gwf]. split; [intros x [<-|[]]; reflexivity|]. split; [|cbn [gwf]; auto].
          intros k' es' [H|H]; [inversion H; subst; exact L|]. specialize (H2 k' es' H). lia.
        * intros k' es' [H|H]; [left; now inversion H|right; exists es'; exact H].
        * intros f. unfold gflat. cbn [map snd List.concat app].
          destruct (N.eqb_spec (e_fp V e) f) as [Ef|Nf].
          { assert (Hz : proj f (es ++ gflat r) = []).
            { change (es ++ gflat r) with (gflat ((k, es) :: r)).
              apply (gflat_later_none f (e_fp V e)); [cbn [gwf]; auto| |lia].
              intros k' es' [H|H]; [inversion H; subst; exact L|]. specialize (H2 k' es' H). lia. }
            fold (gflat r). rewrite Hz. change (e :: es ++ gflat r) with ([e] ++ (es ++ gflat r)).
            rewrite proj_app, Hz. cbn [app]. now rewrite app_nil_r. }
          { fold (gflat r). change (e :: es ++ gflat r) with ([e] ++ (es ++ gflat r)). rewrite (proj_app f [e]).
            cbn [proj filter]. rewrite (proj2 (N.eqb_neq _ _) Nf). cbn [app]. now rewrite app_nil_r. }
      + destruct (IH H3) as [I1 [I2 I3]]. split; [|split].
        * cbn [gwf]. split; [exact H1|]. split; [|exact I1].
          intros k' es' Hin. destruct (I2 k' es' Hin) as [->|[es0 H0]]; [exact G|exact (H2 k' es0 H0)].
        * intros k' es' [H|H]; [right; exists es; left; now inversion H|].
          destruct (I2 k' es' H) as [->|[es0 H0]]; [now left|right; exists es0; now right].
        * intros f. unfold gflat. cbn [map snd List.concat]. rewrite !proj_app.
          change (List.concat (map snd (group_add V r e))) with (gflat (group_add V r e)).
          rewrite I3. unfold gflat. now rewrite app_assoc.
  Qed.

  Lemma gflat_add_len e : forall g, List.length (gflat (group_add V g e)) = S (List.length (gflat g)).
  Proof.
    induction g as [|[k es] r IHg]; [reflexivity|]. cbn [group_add].
    destruct (N.compare (e_fp V e) k); unfold gflat in *; cbn [map snd List.concat].
    - rewrite !app_length. cbn [List.length]. lia.
    - cbn [app List.length]. reflexivity.
    - rewrite !app_length, IHg. lia.
  Qed.

  Lemma fold_optimizer : forall b g n, gwf g ->
    exists g', fold_entries V (optimizer_ops V) (g, n) b = Ok ((g', n + Z.of_nat (List.length b)), b) /\ gwf g' /\
               List.length (gflat g') = (List.length (gflat g) + List.length b)%nat /\
               forall f, proj f (gflat g') = proj f (gflat g) ++ proj f b.
  Proof.
    induction b as [|e r IH]; intros g n Hwf.
    - exists g. cbn [fold_entries List.length]. split; [now rewrite Z.add_0_r|]. split; [exact Hwf|]. split; [lia|].
      intros f. now rewrite app_nil_r.
    - cbn [fold_entries]. cbn [on_entry optimizer_ops fst snd].
      destruct (group_add_spec e g Hwf) as [W1 [_ W3]].
      destruct (IH (group_add V g e) (n + 1) W1) as [g' [Hf [W' [L' P']]]].
      exists g'. rewrite Hf. split; [|split; [exact W'|split]].
      + do 3 f_equal. cbn [List.length]. lia.
      + rewrite L', gflat_add_len. cbn [List.length]. lia.
      + intros f. rewrite P', W3. rewrite <- app_assoc, <- proj_app. reflexivity.
  Qed.

  Lemma wrap_optimizer f : forall bs g n, gwf g -> n = Z.of_nat (List.length (gflat g)) ->
    proj f (List.concat (wrap (optimizer_ops V) (g, n) bs)) = proj f (gflat g) ++ proj f (List.concat bs).
  Proof.
    induction bs as [|b r IH]; intros g n Hwf Hn; cbn [wrap List.concat].
    - cbn [on_end optimizer_ops snd fst]. rewrite app_nil_r.
      destruct (Z.eqb_spec n 0) as [E|_]; [|reflexivity].
      assert (Hl : gflat g = []) by (apply length_zero_iff_nil; lia). now rewrite Hl.
    - destruct (fold_optimizer b g n Hwf) as [g' [Hf [W' [L' P']]]]. rewrite Hf.
      cbn [on_slice optimizer_ops snd fst].
      assert (Hn' : n + Z.of_nat (List.length b) = Z.of_nat (List.length (gflat g'))) by (rewrite L'; lia).
      destruct (Z.ltb_spec (n + Z.of_nat (List.length b)) 3000) as [Hs|Hs].
      + cbn [app]. rewrite (IH g' _ W' Hn'). rewrite P', proj_app. now rewrite app_assoc.
      + rewrite concat_app, proj_app. change (List.concat (map snd g')) with (gflat g').
        match goal with |- _ ++ proj f (List.concat ?w) = _ => change w with (wrap (optimizer_ops V) (@pair (groups V) Z [] 0) r) end.
        rewrite (IH [] 0 I eq_refl). unfold gflat at 2. cbn [map List.concat proj filter app].
        rewrite P', proj_app. now rewrite app_assoc.
  Qed.

  (* ---------- observations depend on the flat output only ---------- *)
  Notation run_stage := (run_stage V v0 v1 vadd vdiv vltb vleb veqb vofZ panic_kills fpf re_match pfloat parse tmpl).
  Notation observe := (observe V).
  Notation outcome_of := (outcome_of V).
  Definition is_crash (e : entry) : bool := errk_eqb (e_err V e) ECrash.

  Lemma has_crash_concat (bs : batches) : has_crash V bs = existsb is_crash (List.concat bs).
  Proof.
    unfold has_crash. induction bs as [|b r IH]; cbn [existsb List.concat]; [reflexivity|].
    now rewrite existsb_app, IH.
  Qed.

  Lemma observe_concat (a b : batches) : List.concat a = List.concat b -> observe a = observe b.
  Proof. intros H. unfold InternalEngine.observe. now rewrite !has_crash_concat, H. Qed.

  Lemma outcome_concat (a b : batches) : List.concat a = List.concat b -> outcome_of a = outcome_of b.
  Proof. intros H. unfold InternalEngine.outcome_of. now rewrite (observe_concat a b H). Qed.

  (* ---------- parser: outcome is independent of the batching ---------- *)
  Definition parser_g (id : N) (e : entry) : entry := match parser_f V fpf parse id e with Ok e' => e' | Fail _ => e end.
  Lemma parser_total id e : parser_f V fpf parse id e = Ok (parser_g id e).
  Proof. unfold parser_g, parser_f. destruct (negb _); [reflexivity|]. destruct (parse id _); reflexivity. Qed.

  Lemma mapM_no_crash (f : entry -> res entry) :
    (forall e e', f e = Ok e' -> e_err V e' = e_err V e) ->
    forall a a', mapM f a = Ok a' -> existsb is_crash a = false -> existsb is_crash a' = false.
  Proof.
    intros Hf. induction a as [|e r IH]; intros a' H Hc; cbn [mapM] in H.
    - now inversion H.
    - destruct (f e) as [e1|] eqn:E; [|discriminate]. destruct (mapM f r) as [r1|] eqn:R; [|discriminate].
      inversion H; subst. cbn [existsb] in *. apply orb_false_iff in Hc. destruct Hc as [H1 H2].
      apply orb_false_iff. split; [|now apply IH]. unfold is_crash in *. now rewrite (Hf e e1 E).
  Qed.

  Lemma first_err_app_err (l : list entry) (x : entry) :
    (e_err V x = EErr \/ e_err V x = EPanic) -> existsb is_crash l = false ->
    exists k, first_err V (l ++ [x]) = Some k /\ k <> ECrash.
  Proof.
    intros Hx. induction l as [|e r IH]; intros Hc; cbn [app first_err].
    - destruct Hx as [-> | ->]; eexists; split; try reflexivity; discriminate.
    - cbn [existsb] in Hc. apply orb_false_iff in Hc. destruct Hc as [H1 H2]. unfold is_crash in H1.
      destruct (e_err V e); try (exact (IH H2)); try (eexists; split; [reflexivity|discriminate]).
  Qed.

  Lemma outcome_failed (pre : batches) (x : entry) :
    (e_err V x = EErr \/ e_err V x = EPanic) -> existsb is_crash (List.concat pre) = false ->
    outcome_of (pre ++ [[x]]) = OFailed V.
  Proof.
    intros Hx Hc. unfold InternalEngine.outcome_of, InternalEngine.observe.
    rewrite has_crash_concat, concat_app. cbn [List.concat]. rewrite app_nil_r, existsb_app, Hc.
    cbn [existsb]. unfold is_crash at 1. destruct Hx as [Hx|Hx]; rewrite Hx; cbn [errk_eqb orb];
      (destruct (first_err_app_err (List.concat pre) x) as [k [Hk Hn]]; [rewrite Hx; auto|exact Hc|]);
      rewrite Hk; destruct k; try reflexivity; contradiction.
  Qed.

  Lemma outcome_crashed (pre : batches) (x : entry) : e_err V x = ECrash -> outcome_of (pre ++ [[x]]) = OCrash V.
  Proof.
    intros Hx. unfold InternalEngine.outcome_of, InternalEngine.observe.
    rewrite has_crash_concat, concat_app. cbn [List.concat]. rewrite app_nil_r, existsb_app.
    cbn [existsb]. unfold is_crash at 2. rewrite Hx. cbn [errk_eqb]. now rewrite !orb_true_r.
  Qed.

  Lemma map_stage_outcome (f : entry -> res entry) :
    (forall e e', f e = Ok e' -> e_err V e' = e_err V e) ->
    (forall e k, f e = Fail k -> k = EErr \/ k = ECrash) ->
    forall bs, no_crash_in V bs ->
      outcome_of (wrap (map_ops V f) tt bs) = outcome_of (wrap (map_ops V f) tt [List.concat bs]).
  Proof.
    intros Hok Hfail bs Hnc. unfold no_crash_in in Hnc. rewrite has_crash_concat in Hnc.
    pose proof (wrap_map_shape f bs) as S1. pose proof (wrap_map_shape f [List.concat bs]) as S2.
    cbn [List.concat] in S2. rewrite app_nil_r in S2.
    destruct (mapM f (List.concat bs)) as [l'|k] eqn:E.
    - apply outcome_concat. now rewrite S1, S2.
    - destruct S1 as [pre1 [W1 [a1 [b1 [C1 M1]]]]]. destruct S2 as [pre2 [W2 [a2 [b2 [C2 M2]]]]].
      rewrite W1, W2.
      assert (Hk : k = EErr \/ k = ECrash).
      { clear - E Hfail. revert k E. induction (List.concat bs) as [|e r IH]; intros k E; cbn [mapM] in E; [discriminate|].
        destruct (f e) as [e1|k1] eqn:F; [|inversion E; subst; exact (Hfail e k F)].
        destruct (mapM f r) as [r1|k2]; [discriminate|]. inversion E; subst. now apply IH. }
      assert (N1 : existsb is_crash (List.concat pre1) = false).
      { apply (mapM_no_crash f Hok a1 _ M1). rewrite C1, existsb_app in Hnc. now apply orb_false_iff in Hnc. }
      assert (N2 : existsb is_crash (List.concat pre2) = false).
      { apply (mapM_no_crash f Hok a2 _ M2). rewrite C2, existsb_app in Hnc. now apply orb_false_iff in Hnc. }
      unfold fail_entry. destruct Hk as [-> | ->].
      + rewrite !outcome_failed; auto.
      + destruct panic_kills.
        * rewrite !outcome_crashed; auto.
        * rewrite !outcome_failed; auto.
  Qed.
  (* ============================================================================================ *)
  (* engines_agree: the in-process chain against the reference semantics, stage by stage           *)
  Notation erase := (erase V).
  Notation run_chain := (run_chain V v0 v1 vadd vdiv vltb vleb veqb vofZ panic_kills fpf re_match pfloat parse tmpl).
  Notation sem_stage := (sem_stage V v0 v1 vadd vdiv vltb vleb veqb vofZ fpf re_match pfloat parse tmpl).
  Notation sem_chain := (sem_chain V v0 v1 vadd vdiv vltb vleb veqb vofZ fpf re_match pfloat parse tmpl).

  Lemma limit_agrees c bs :
    List.concat (run_stage c (SLimit V) bs) = sem_limit V (c_limit c) (List.concat bs).
  Proof. cbn [InternalEngine.run_stage]. apply wrap_limit_all. Qed.

  (* cancelling the upstream query loses nothing: once the limit stage has cancelled, whatever else the upstream could
     still have sent would not have changed what the stage sends *)
  Lemma cancel_loses_nothing c bs more :
    limit_cancelled V c bs = true ->
    List.concat (run_stage c (SLimit V) (bs ++ more)) = List.concat (run_stage c (SLimit V) bs).
  Proof.
    intros H. rewrite limit_cancelled_iff in H. apply andb_true_iff in H. destruct H as [H1 H2].
    apply Z.ltb_lt in H1. apply Z.leb_le in H2. rewrite !limit_agrees, concat_app. unfold sem_limit.
    destruct (Z.eqb_spec (c_limit c) 0) as [E|_]; [lia|].
    rewrite firstn_app. replace (Z.to_nat (c_limit c) - List.length (List.concat bs))%nat with O by lia.
    cbn [firstn]. apply app_nil_r.
  Qed.

  Definition good (e : entry) : Prop := data_row V e.
  Notation nondata := (terminator V).

  Definition sim (l r : list entry) : Prop :=
    exists d t, l = d ++ t /\ Forall good d /\ Forall nondata t /\ map erase d = map erase r.

  Definition compat (G H : entry -> list entry) : Prop :=
    forall e e', erase e = erase e' ->
      (good e -> map erase (G e) = map erase (H e') /\ Forall good (G e)) /\ (nondata e -> Forall nondata (G e)).

  Lemma Forall_flat_map {A} (P : A -> Prop) (G : A -> list A) (Q : A -> Prop) :
    (forall x, Q x -> Forall P (G x)) -> forall l, Forall Q l -> Forall P (flat_map G l).
  Proof.
    intros H. induction l as [|x r IH]; intros HQ; cbn [flat_map]; [constructor|].
    inversion HQ; subst. apply Forall_app. split; [now apply H|now apply IH].
  Qed.

  Lemma sim_flat_map G H l r : compat G H -> sim l r -> sim (flat_map G l) (flat_map H r).
  Proof.
    intros C [d [t [-> [Hd [Ht He]]]]]. exists (flat_map G d), (flat_map G t).
    split; [apply flat_map_app|]. split; [|split].
    - apply (Forall_flat_map good G good); [|exact Hd]. intros x Hx. exact (proj2 (proj1 (C x x eq_refl) Hx)).
    - apply (Forall_flat_map nondata G nondata); [|exact Ht]. intros x Hx. exact (proj2 (C x x eq_refl) Hx).
    - clear Ht t. revert r He. induction d as [|e d' IH]; intros [|e' r'] He; cbn [map] in He; try discriminate; [reflexivity|].
      assert (H1 : erase e = erase e') by congruence. assert (H2 : map erase d' = map erase r') by congruence.
      inversion Hd as [|? ? Hg Hd']; subst. cbn [flat_map]. rewrite !map_app.
      rewrite (proj1 (proj1 (C e e' H1) Hg)). f_equal. now apply IH.
  Qed.

  (* ---- the three shapes as flat_map ---- *)
  Lemma filter_flat_map {A} (p : A -> bool) (l : list A) : filter p l = flat_map (fun e => if p e then [e] else []) l.
  Proof. induction l as [|x r IH]; cbn; [reflexivity|]. destruct (p x); cbn; now rewrite IH. Qed.
  Lemma map_flat_map {A B} (g : A -> B) (l : list A) : map g l = flat_map (fun e => [g e]) l.
  Proof. induction l as [|x r IH]; cbn; [reflexivity|]. now rewrite IH. Qed.

  Lemma erase_fields e e' : erase e = erase e' ->
    e_ts V e = e_ts V e' /\ e_lbl V e = e_lbl V e' /\ e_msg V e = e_msg V e' /\ e_val V e = e_val V e' /\ e_err V e = e_err V e'.
  Proof. unfold InternalEngine.erase. intros H. inversion H. auto. Qed.

  Lemma compat_filter (keep : entry -> bool) :
    (forall e e', erase e = erase e' -> keep e = keep e') ->
    compat (fun e => if keep e then [e] else []) (fun e => if keep e then [e] else []).
  Proof.
    intros Hk e e' He. rewrite <- (Hk e e' He). split.
    - intros Hg. destruct (keep e); cbn [map]; [|split; [reflexivity|constructor]].
      split; [now rewrite He|]. constructor; [exact Hg|constructor].
    - intros Hn. destruct (keep e); [constructor; [exact Hn|constructor]|constructor].
  Qed.

  Lemma compat_map (g h : entry -> entry) :
    (forall e e', erase e = erase e' -> good e -> erase (g e) = erase (h e') /\ good (g e)) ->
    (forall e, e_err V (g e) = e_err V e) ->
    compat (fun e => [g e]) (fun e => [h e]).
  Proof.
    intros Hgh Herr e e' He. split.
    - intros Hg. destruct (Hgh e e' He Hg) as [H1 H2]. cbn [map]. split; [now rewrite H1|]. constructor; [exact H2|constructor].
    - intros [Hn1 Hn2]. constructor; [|constructor]. unfold nondata. now rewrite Herr.
  Qed.

  Lemma errk_eqb_none k : k <> ENone -> errk_eqb k ENone = false.
  Proof. destruct k; intros H; try reflexivity. contradiction. Qed.

  Lemma filter_length_eq {A} (p : A -> bool) (l : list A) : List.length (filter p l) = List.length l -> filter p l = l.
  Proof.
    induction l as [|x r IH]; cbn; [reflexivity|]. destruct (p x); cbn.
    - intros H. f_equal. apply IH. lia.
    - intros H. exfalso. assert (Hle : (List.length (filter p r) <= List.length r)%nat).
      { clear. induction r as [|y r' IHr]; cbn; [lia|]. destruct (p y); cbn; lia. }
      lia.
  Qed.

  Lemma lfmt_fold_eq fs : forall m, fold_left lfmt_apply fs m = fold_left sem_lfmt fs m.
  Proof.
    induction fs as [|f r IH]; intros m; cbn [fold_left]; [reflexivity|]. rewrite IH.
    replace (lfmt_apply m f) with (sem_lfmt m f); [reflexivity|]. destruct f; reflexivity.
  Qed.

  (* ---- per stage: model output and reference as flat_map of compatible functions ---- *)
  Definition G_of (c : ctx) (s : stage V) : entry -> list entry :=
    match s with
    | SLineFilter _ op val => fun e => if line_keep V re_match op val e then [e] else []
    | SLabelFilter _ f => fun e => if label_keep V vltb vleb veqb re_match pfloat f e then [e] else []
    | SParser _ id => fun e => [parser_g id e]
    | SComparison _ op val => fun e => if comparison_keep V vltb vleb veqb op val e then [e] else []
    | SLabelFormat _ fs => fun e => [label_format_g fs e]
    | SUnwrap _ label => fun e => [unwrap_g label e]
    | SDrop _ names vals => fun e => [drop_g names vals e]
    | SByWithout _ by_ names => fun e => [by_without_g by_ names e]
    | SLineFormat _ id => lf_one id
    | _ => fun e => [e]
    end.

  Definition flat_stage (s : stage V) : bool :=
    match s with SLimit _ => false | _ => simple_stage V s end.

  Lemma run_stage_flat c s bs : flat_stage s = true ->
    List.concat (run_stage c s bs) = flat_map (G_of c s) (List.concat bs).
  Proof.
    destruct s; cbn [flat_stage simple_stage]; try discriminate; intros _; cbn [InternalEngine.run_stage G_of].
    - rewrite wrap_filter, concat_map_filter. apply filter_flat_map.
    - rewrite wrap_filter, concat_map_filter. apply filter_flat_map.
    - rewrite (wrap_map_total _ _ (parser_total id)), concat_map_map. apply map_flat_map.
    - rewrite (wrap_map_total _ _ (label_format_total fs)), concat_map_map. apply map_flat_map.
    - rewrite wrap_line_format. apply concat_map_flat_map.
    - rewrite (wrap_map_total _ _ (unwrap_total label)), concat_map_map. apply map_flat_map.
    - rewrite (wrap_map_total _ _ (drop_total names vals)), concat_map_map. apply map_flat_map.
    - rewrite (wrap_map_total _ _ (by_without_total by_ names)), concat_map_map. apply map_flat_map.
    - rewrite wrap_filter, concat_map_filter. apply filter_flat_map.
  Qed.

  Definition H_of (c : ctx) (s : stage V) : entry -> list entry :=
    match s with
    | SParser _ id => fun e => [sem_parser V fpf parse id e]
    | SLabelFormat _ fs => fun e => [with_lbl V fpf e (fold_left sem_lfmt fs (lbl_of V e))]
    | SUnwrap _ label => fun e =>
        [let x := if String.eqb label entry_key then e_msg V e else lget (lbl_of V e) label in
         if String.eqb x EmptyString then e else match pfloat x with Some f => set_val V e f | None => e end]
    | SDrop _ names vals => fun e => [with_lbl V fpf e (filter (fun kv => negb (drop_hit (fst kv) (snd kv) names vals)) (lbl_of V e))]
    | SByWithout _ by_ names => fun e => [with_lbl V fpf e (filter (fun kv => bw_keep by_ names (fst kv)) (lbl_of V e))]
    | SLineFormat _ id => fun e => match tmpl id (lset (lbl_of V e) entry_key (e_msg V e)) with Some s => [set_msg V e s] | None => [] end
    | _ => G_of c s
    end.

  Lemma sem_stage_flat c s r : flat_stage s = true -> sem_stage c s r = flat_map (H_of c s) r.
  Proof.
    destruct s; cbn [flat_stage simple_stage]; try discriminate; intros _; cbn [InternalEngine.sem_stage H_of G_of];
      try apply filter_flat_map; try apply map_flat_map. reflexivity.
  Qed.

  Lemma compat_stage c s : flat_stage s = true -> compat (G_of c s) (H_of c s).
  Proof.
    destruct s; cbn [flat_stage simple_stage]; try discriminate; intros _; cbn [G_of H_of].
    - (* line filter *) apply compat_filter. intros e e' He. destruct (erase_fields e e' He) as [_ [_ [Hm [_ Hr]]]].
      unfold line_keep. now rewrite Hm, Hr.
    - (* label filter *) apply compat_filter. intros e e' He. destruct (erase_fields e e' He) as [_ [Hl [_ [_ Hr]]]].
      unfold label_keep. now rewrite Hl, Hr.
    - (* json / logfmt *) apply compat_map.
      + intros e e' He [Hg1 [m Hm]]. destruct (erase_fields e e' He) as [Ht [Hl [Hs [Hv Hr]]]].
        unfold parser_g, parser_f, sem_parser. rewrite Hg1. cbn [errk_eqb negb]. rewrite <- Hs, <- Hl, Hm.
        destruct (parse id (e_msg V e)) as [kvs|].
        * split; [unfold InternalEngine.erase; cbn; now rewrite Ht, Hs, Hv, Hr|]. split; [exact Hg1|eexists; reflexivity].
        * split; [rewrite <- He; reflexivity|]. split; [exact Hg1|exists m; exact Hm].
      + intros e. unfold parser_g, parser_f. destruct (negb _); [reflexivity|]. destruct (parse id _); reflexivity.
    - (* label_format *) apply compat_map.
      + intros e e' He [Hg1 [m Hm]]. destruct (erase_fields e e' He) as [Ht [Hl [Hs [Hv Hr]]]].
        unfold label_format_g, label_format_f. rewrite Hm. unfold InternalEngine.erase, with_lbl, lbl_of. rewrite <- Hl, Hm.
        cbn. rewrite lfmt_fold_eq, Ht, Hs, Hv, Hr. split; [reflexivity|]. split; [exact Hg1|eexists; reflexivity].
      + intros e. unfold label_format_g, label_format_f. destruct (e_lbl V e); reflexivity.
    - (* line_format *) intros e e' He. destruct (erase_fields e e' He) as [Ht [Hl [Hs [Hv Hr]]]]. unfold lf_one. split.
      + intros [Hg1 [m Hm]]. rewrite Hg1. cbn [errk_eqb negb]. unfold lbl_of. rewrite <- Hl, Hm, <- Hs. destruct (tmpl id _) as [x|]; cbn [map].
        * split; [unfold InternalEngine.erase; cbn; now rewrite Ht, Hl, Hv, Hr|]. constructor; [|constructor].
          split; [exact Hg1|exists m; exact Hm].
        * split; [reflexivity|constructor].
      + intros Hn. rewrite (errk_eqb_none _ (proj1 Hn)). cbn [negb]. constructor; [exact Hn|constructor].
    - (* unwrap *) apply compat_map.
      + intros e e' He [Hg1 [m Hm]]. destruct (erase_fields e e' He) as [Ht [Hl [Hs [Hv Hr]]]].
        unfold unwrap_g, unwrap_f. rewrite Hg1. cbn [errk_eqb negb]. unfold olget, lbl_of. rewrite <- Hl, Hm, <- Hs.
        set (x := if String.eqb label entry_key then e_msg V e else lget m label).
        destruct (String.eqb x EmptyString); [split; [exact He|split; [exact Hg1|exists m; exact Hm]]|].
        destruct (pfloat x) as [f|]; [|split; [exact He|split; [exact Hg1|exists m; exact Hm]]].
        split; [unfold InternalEngine.erase; cbn; now rewrite Ht, Hl, Hs, Hr|split; [exact Hg1|exists m; exact Hm]].
      + intros e. unfold unwrap_g, unwrap_f. destruct (negb _); [reflexivity|]. destruct (String.eqb _ EmptyString); [reflexivity|].
        destruct (pfloat _); reflexivity.
    - (* drop *) apply compat_map.
      + intros e e' He [Hg1 [m Hm]]. destruct (erase_fields e e' He) as [Ht [Hl [Hs [Hv Hr]]]].
        unfold drop_g, drop_f. rewrite Hm. unfold with_lbl, lbl_of. rewrite <- Hl, Hm.
        split; [unfold InternalEngine.erase; cbn; now rewrite Ht, Hs, Hv, Hr|]. split; [exact Hg1|eexists; reflexivity].
      + intros e. unfold drop_g, drop_f. destruct (e_lbl V e); reflexivity.
    - (* by / without *) apply compat_map.
      + intros e e' He [Hg1 [m Hm]]. destruct (erase_fields e e' He) as [Ht [Hl [Hs [Hv Hr]]]].
        unfold by_without_g, by_without_f. rewrite Hm. unfold with_lbl, lbl_of. rewrite <- Hl, Hm.
        split; [unfold InternalEngine.erase; cbn; now rewrite Ht, Hs, Hv, Hr|]. split; [exact Hg1|eexists; reflexivity].
      + intros e. unfold by_without_g, by_without_f. destruct (e_lbl V e); reflexivity.
    - (* comparison *) apply compat_filter. intros e e' He. destruct (erase_fields e e' He) as [_ [_ [_ [Hv Hr]]]].
      unfold comparison_keep. now rewrite Hv, Hr.
  Qed.

  (* ---- limit ---- *)
  Lemma Forall_firstn {A} (P : A -> Prop) n (l : list A) : Forall P l -> Forall P (firstn n l).
  Proof. revert l. induction n as [|n IH]; intros [|x r] H; cbn; try constructor; inversion H; subst; auto. Qed.

  Lemma sim_limit L l r : sim l r -> sim (sem_limit V L l) (sem_limit V L r).
  Proof.
    intros [d [t [-> [Hd [Ht He]]]]]. unfold sem_limit. destruct (L =? 0); [exists d, t; auto|].
    rewrite firstn_app. exists (firstn (Z.to_nat L) d), (firstn (Z.to_nat L - List.length d) t).
    split; [reflexivity|]. split; [now apply Forall_firstn|]. split; [now apply Forall_firstn|].
    now rewrite <- !firstn_map, He.
  Qed.

  (* ---- one stage, then a chain ---- *)
  Lemma sim_no_crash bs r : sim (List.concat bs) r -> has_crash V bs = false.
  Proof.
    intros [d [t [E [Hd [Ht _]]]]]. rewrite has_crash_concat, E, existsb_app. apply orb_false_iff. split.
    - clear E. induction Hd as [|e d' [He _] _ IH]; [reflexivity|]. cbn [existsb]. unfold is_crash at 1. now rewrite He, IH.
    - clear E. induction Ht as [|e t' [_ He] _ IH]; [reflexivity|]. cbn [existsb]. unfold is_crash at 1. rewrite IH.
      destruct (e_err V e); try reflexivity. contradiction.
  Qed.

  Lemma sim_stage c s bs r : simple_stage V s = true ->
    sim (List.concat bs) r -> sim (List.concat (run_stage c s bs)) (sem_stage c s r).
  Proof.
    intros Hs Hsim. destruct (flat_stage s) eqn:F.
    - rewrite (run_stage_flat c s bs F), (sem_stage_flat c s r F). apply sim_flat_map; [now apply compat_stage|exact Hsim].
    - destruct s; cbn [flat_stage simple_stage] in *; try discriminate.
      cbn [InternalEngine.run_stage InternalEngine.sem_stage].
      pose proof (limit_agrees c bs) as E. cbn [InternalEngine.run_stage] in E. rewrite E. now apply sim_limit.
  Qed.

  Lemma sim_chain c : forall ch, forallb (simple_stage V) ch = true ->
    forall bs r, sim (List.concat bs) r ->
      sim (List.concat (run_chain c ch bs)) (fold_left (fun x s => sem_stage c s x) ch r).
  Proof.
    induction ch as [|s ch IH]; intros Hs bs r Hsim; [exact Hsim|].
    cbn [forallb] in Hs. apply andb_true_iff in Hs. destruct Hs as [H1 H2].
    unfold InternalEngine.run_chain. cbn [fold_left]. rewrite (sim_no_crash bs r Hsim).
    apply (IH H2). now apply sim_stage.
  Qed.

  Lemma data_of_sim l r : sim l r -> map erase (data_of V l) = map erase r.
  Proof.
    intros [d [t [-> [Hd [Ht He]]]]]. unfold data_of. rewrite filter_app.
    assert (E1 : filter (fun e => errk_eqb (e_err V e) ENone) d = d).
    { clear He. induction Hd as [|e d' [Hx _] _ IH]; [reflexivity|]. cbn [filter]. now rewrite Hx, IH. }
    assert (E2 : filter (fun e => errk_eqb (e_err V e) ENone) t = []).
    { induction Ht as [|e t' [Hx _] _ IH]; [reflexivity|]. cbn [filter]. now rewrite (errk_eqb_none _ Hx), IH. }
    now rewrite E1, E2, app_nil_r.
  Qed.

  Lemma sim_start rows t : Forall good rows -> Forall nondata t -> sim (rows ++ t) (data_of V (rows ++ t)).
  Proof.
    intros Hd Ht. exists rows, t. split; [reflexivity|]. split; [exact Hd|]. split; [exact Ht|].
    f_equal. symmetry.
    unfold data_of. rewrite filter_app.
    assert (E1 : filter (fun e => errk_eqb (e_err V e) ENone) rows = rows).
    { induction Hd as [|e d' [Hx _] _ IH]; [reflexivity|]. cbn [filter]. now rewrite Hx, IH. }
    assert (E2 : filter (fun e => errk_eqb (e_err V e) ENone) t = []).
    { induction Ht as [|e t' [Hx _] _ IH]; [reflexivity|]. cbn [filter]. now rewrite (errk_eqb_none _ Hx), IH. }
    now rewrite E1, E2, app_nil_r.
  Qed.

  (* ---- agreement of a whole chain of simple stages ---- *)
  Lemma chain_agrees c ch rows t bs :
    forallb (simple_stage V) ch = true ->
    Forall good rows -> Forall nondata t -> List.concat bs = rows ++ t ->
    map erase (data_of V (List.concat (run_chain c ch bs))) = map erase (sem_chain c ch (List.concat bs)).
  Proof.
    intros Hs Hd Ht E. apply data_of_sim. unfold InternalEngine.sem_chain.
    apply (sim_chain c ch Hs). rewrite E. now apply sim_start.
  Qed.

  Lemma data_of_rows rows t : Forall good rows -> Forall nondata t -> data_of V (rows ++ t) = rows.
  Proof.
    intros Hd Ht. unfold data_of. rewrite filter_app.
    assert (E1 : filter (fun e => errk_eqb (e_err V e) ENone) rows = rows).
    { induction Hd as [|e d' [Hx _] _ IH]; [reflexivity|]. cbn [filter]. now rewrite Hx, IH. }
    assert (E2 : filter (fun e => errk_eqb (e_err V e) ENone) t = []).
    { induction Ht as [|e t' [Hx _] _ IH]; [reflexivity|]. cbn [filter]. now rewrite (errk_eqb_none _ Hx), IH. }
    now rewrite E1, E2, app_nil_r.
  Qed.

  Lemma stage_agrees c s rows t bs :
    simple_stage V s = true ->
    Forall good rows -> Forall nondata t -> List.concat bs = rows ++ t ->
    map erase (data_of V (List.concat (run_stage c s bs))) = map erase (sem_stage c s rows).
  Proof.
    intros Hs Hd Ht E. apply data_of_sim. apply sim_stage; [exact Hs|].
    rewrite E. exists rows, t. auto.
  Qed.

  (* ============================================================================================ *)
  (* the bucket arrays of planner_generic_aggregator.go                                            *)
  Lemma setv_length : forall l i x, List.length (setv V l i x) = List.length l.
  Proof. induction l as [|y r IH]; intros [|i] x; cbn [setv List.length]; auto. Qed.

  Lemma getv_setv : forall l i j x, (i < List.length l)%nat ->
    getv V v0 (setv V l i x) j = if Nat.eqb i j then x else getv V v0 l j.
  Proof.
    unfold getv. induction l as [|y r IH]; intros i j x Hi; cbn [List.length] in Hi; [lia|].
    destruct i as [|i], j as [|j]; cbn [setv nth Nat.eqb]; try reflexivity. apply IH. lia.
  Qed.

  Definition cell (l : list V) (b : nat) : V * V := (getv V v0 l (2 * b), getv V v0 l (S (2 * b))).

  Definition upd2 (l : list V) (b : nat) (f : V -> V -> V * V) : list V :=
    let '(a, n) := f (getv V v0 l (2 * b)) (getv V v0 l (S (2 * b))) in setv V (setv V l (2 * b) a) (S (2 * b)) n.

  Lemma upd2_length l b f : List.length (upd2 l b f) = List.length l.
  Proof. unfold upd2. destruct (f _ _). now rewrite !setv_length. Qed.

  Lemma cell_upd2 l b f b' : (S (2 * b) < List.length l)%nat ->
    cell (upd2 l b f) b' = if Nat.eqb b b' then f (fst (cell l b)) (snd (cell l b)) else cell l b'.
  Proof.
    intros Hb. unfold cell, upd2. cbn [fst snd]. destruct (f _ _) as [a n].
    rewrite !getv_setv by (rewrite ?setv_length; lia).
    destruct (Nat.eqb_spec b b') as [->|Hne].
    - rewrite Nat.eqb_refl. replace (Nat.eqb (S (2 * b')) (2 * b')) with false by (symmetry; apply Nat.eqb_neq; lia).
      replace (Nat.eqb (2 * b') (S (2 * b'))) with false by (symmetry; apply Nat.eqb_neq; lia).
      now rewrite Nat.eqb_refl.
    - replace (Nat.eqb (S (2 * b)) (2 * b')) with false by (symmetry; apply Nat.eqb_neq; lia).
      replace (Nat.eqb (2 * b) (2 * b')) with false by (symmetry; apply Nat.eqb_neq; lia).
      replace (Nat.eqb (S (2 * b)) (S (2 * b'))) with false by (symmetry; apply Nat.eqb_neq; lia).
      replace (Nat.eqb (2 * b) (S (2 * b'))) with false by (symmetry; apply Nat.eqb_neq; lia).
      reflexivity.
  Qed.

  (* the update an entry applies to the two cells of its bucket, per aggregation function *)
  Definition upd_of (k : agg_kind) (e : entry) : V -> V -> V * V :=
    let x := e_val V e in
    match k with
    | KLra LRate | KLra LCount | KAggOp ACount => fun a _ => (vadd a v1, v1)
    | KLra LBytesRate | KLra LBytesOver => fun a _ => (vadd a (vofZ (Z.of_nat (String.length (e_msg V e)))), v1)
    | KUnwrap URate | KUnwrap USum | KAggOp ASum => fun a _ => (vadd a x, v1)
    | KUnwrap UAvg | KAggOp AAvg => fun a n => (vadd a x, vadd n v1)
    | KUnwrap UMax | KAggOp AMax => fun a n => if vltb a x || veqb n v0 then (x, v1) else (a, n)
    | KUnwrap UMin | KAggOp AMin => fun a n => if vltb x a || veqb n v0 then (x, v1) else (a, n)
    | KUnwrap UFirst => fun a n => if veqb n v0 then (x, v1) else (a, n)
    | KUnwrap ULast => fun _ _ => (x, v1)
    | KLra LAbsent => fun _ _ => (v0, v0)                      (* absent_over_time: the bucket is cleared *)
    | _ => fun a n => (a, n)
    end.
  (* the two cells of a fresh bucket: (0, 0), and (1, 1) for absent_over_time (initStream) *)
  Definition init_cell (k : agg_kind) : V * V := match k with KLra LAbsent => (v1, v1) | _ => (v0, v0) end.

  Definition in_window (c : ctx) (dur : Z) (e : entry) : Prop :=
    0 < dur /\ c_from c <= e_ts V e < c_from c + stream_len c dur * dur.

  Lemma bucket_in_window c dur e : in_window c dur e ->
    0 <= bucket_of V c dur e < stream_len c dur.
  Proof.
    intros [Hd [H1 H2]]. unfold bucket_of. rewrite Z.quot_div_nonneg by lia. split.
    - apply Z.div_pos; lia.
    - apply Z.div_lt_upper_bound; lia.
  Qed.

  Notation agg_add := (agg_add V v0 v1 vadd vltb veqb vofZ).

  Lemma agg_add_in_window k c dur e l :
    agg_covered k = true -> in_window c dur e -> Z.of_nat (List.length l) = 2 * stream_len c dur ->
    agg_add k c dur e l = Ok (upd2 l (Z.to_nat (bucket_of V c dur e)) (upd_of k e)).
  Proof.
    intros Hk Hw Hl. pose proof (bucket_in_window c dur e Hw) as Hb. unfold bucket_of in *.
    set (q := Z.quot (e_ts V e - c_from c) dur) in *.
    assert (Hr : in_range V l (q * 2) = true).
    { unfold in_range. apply andb_true_iff. split; [apply Z.leb_le; lia|apply Z.ltb_lt; lia]. }
    assert (Hn : Z.to_nat (q * 2) = (2 * Z.to_nat q)%nat) by lia.
    assert (HB : forall f, bucket_upd V v0 l (q * 2) f = Ok (upd2 l (Z.to_nat q) f)).
    { intros f. unfold bucket_upd, upd2. rewrite Hr, Hn. destruct (f _ _); reflexivity. }
    destruct k as [fn|fn|fn]; destruct fn; try discriminate Hk; cbn [InternalEngine.agg_add lra_add uagg_add aggop_add upd_of];
      fold q; try (rewrite HB; reflexivity);
      try (replace ((0 <=? q * 2) && (q * 2 <? Z.of_nat (List.length l))) with true
             by (symmetry; apply andb_true_iff; split; [apply Z.leb_le; lia|apply Z.ltb_lt; lia]); rewrite HB; reflexivity);
      unfold aggop_add; fold q; lazy zeta;
      (replace ((q <? 0) || (Z.of_nat (List.length l) <? q * 2)) with false
         by (symmetry; apply orb_false_iff; split; [apply Z.ltb_ge; lia|apply Z.ltb_ge; lia]));
      lazy beta iota zeta; rewrite HB; reflexivity.
  Qed.

  Lemma streams_find_put : forall ss f s g,
    streams_find V (streams_put V ss f s) g = if N.eqb g f then Some s else streams_find V ss g.
  Proof.
    induction ss as [|[h s'] r IH]; intros f s g; cbn [streams_put streams_find].
    - reflexivity.
    - destruct (N.compare_spec f h) as [E|L|G]; cbn [streams_find].
      + subst h. destruct (N.eqb g f); reflexivity.
      + destruct (N.eqb g f); reflexivity.
      + rewrite IH. destruct (N.eqb_spec g h) as [->|Hne]; [|reflexivity].
        destruct (N.eqb_spec h f) as [->|_]; [lia|reflexivity].
  Qed.

  Definition bkt (c : ctx) (dur : Z) (e : entry) : nat := Z.to_nat (bucket_of V c dur e).
  Definition sel (c : ctx) (dur : Z) (f : N) (b : nat) (l : list entry) : list entry :=
    filter (fun e => N.eqb (e_fp V e) f && Nat.eqb (bkt c dur e) b) l.
  Definition fold_cell (k : agg_kind) (es : list entry) : V * V :=
    fold_left (fun acc e => upd_of k e (fst acc) (snd acc)) es (init_cell k).

  (* the invariant of the aggregator state after the entries `seen` *)
  Definition cells_inv (k : agg_kind) (c : ctx) (dur : Z) (ss : streams V) (seen : list entry) : Prop :=
    forall f, match streams_find V ss f with
              | None => proj f seen = []
              | Some s =>
                (exists e0 rest, proj f seen = e0 :: rest /\ s_labels V s = e_lbl V e0) /\
                Z.of_nat (List.length (s_values V s)) = 2 * stream_len c dur /\
                forall b, Z.of_nat b < stream_len c dur -> cell (s_values V s) b = fold_cell k (sel c dur f b seen)
              end.

  Lemma sel_app c dur f b l1 l2 : sel c dur f b (l1 ++ l2) = sel c dur f b l1 ++ sel c dur f b l2.
  Proof. apply filter_app. Qed.

  Lemma nth_repeat_any (x : V) : forall n i, nth i (repeat x n) v0 = if Nat.ltb i n then x else v0.
  Proof.
    induction n as [|n IH]; intros [|i]; cbn [repeat nth]; try reflexivity.
    rewrite IH. reflexivity.
  Qed.
  Lemma cell_repeat x n b : (S (2 * b) < n)%nat -> cell (repeat x n) b = (x, x).
  Proof.
    intros H. unfold cell, getv. rewrite !nth_repeat_any.
    replace (Nat.ltb (2 * b) n) with true by (symmetry; apply Nat.ltb_lt; lia).
    replace (Nat.ltb (S (2 * b)) n) with true by (symmetry; apply Nat.ltb_lt; lia). reflexivity.
  Qed.

  Notation agg_on_entry := (agg_on_entry V v0 v1 vadd vltb veqb vofZ).

  Lemma agg_step k c dur ss seen e ss' e' :
    agg_covered k = true -> e_err V e = ENone -> in_window c dur e ->
    cells_inv k c dur ss seen -> agg_on_entry k c dur ss e = Ok (ss', e') ->
    cells_inv k c dur ss' (seen ++ [e]) /\ e' = e.
  Proof.
    intros Hk He Hw Inv Hstep. unfold InternalEngine.agg_on_entry in Hstep. rewrite He in Hstep.
    pose proof (bucket_in_window c dur e Hw) as Hb.
    assert (Hnew : new_values V v0 v1 k c dur = Ok (repeat (fst (init_cell k)) (Z.to_nat (stream_len c dur * 2))) /\
                   init_cell k = (fst (init_cell k), fst (init_cell k))).
    { unfold new_values. replace (stream_len c dur * 2 <? 0) with false by (symmetry; apply Z.ltb_ge; lia).
      replace (stream_len c dur * 2 =? 0) with false by (symmetry; apply Z.eqb_neq; lia).
      destruct k as [fn|fn|fn]; try (split; reflexivity). destruct fn; split; reflexivity. }
    destruct Hnew as [Hnew Hinit].
    set (fe := e_fp V e) in *.
    (* the stream the entry lands in, before the update *)
    assert (Hs : exists s0, (match streams_find V ss fe with Some s => Ok s | None =>
                   if 2000 <=? Z.of_nat (List.length ss) then Fail EErr
                   else match new_values V v0 v1 k c dur with Ok vs => Ok {| s_labels := e_lbl V e; s_values := vs |} | Fail x => Fail x end end) = Ok s0 /\
                 Z.of_nat (List.length (s_values V s0)) = 2 * stream_len c dur /\
                 (forall b, Z.of_nat b < stream_len c dur -> cell (s_values V s0) b = fold_cell k (sel c dur fe b seen)) /\
                 (exists e0 rest, proj fe (seen ++ [e]) = e0 :: rest /\ s_labels V s0 = e_lbl V e0)).
    { specialize (Inv fe). destruct (streams_find V ss fe) as [s|] eqn:F.
      - destruct Inv as [[e0 [rest [P L]]] [Len C]]. exists s. split; [reflexivity|]. split; [exact Len|]. split; [exact C|].
        exists e0, (rest ++ [e]). split; [|exact L]. rewrite proj_app, P. cbn [proj filter]. unfold fe. now rewrite N.eqb_refl.
      - destruct (2000 <=? Z.of_nat (List.length ss)); [discriminate|]. rewrite Hnew in *. eexists. split; [reflexivity|].
        cbn [s_values s_labels]. split; [rewrite repeat_length; lia|]. split.
        + intros b Hbb. rewrite cell_repeat by lia. unfold sel.
          replace (filter _ seen) with (@nil entry); [unfold fold_cell; cbn [fold_left]; now rewrite <- Hinit|].
          symmetry. clear - Inv. unfold proj in Inv. induction seen as [|x r IH]; [reflexivity|]. cbn [filter] in *.
          destruct (N.eqb (e_fp V x) fe); [discriminate|]. cbn [andb]. now apply IH.
        + exists e, []. split; [|reflexivity]. rewrite proj_app, Inv. cbn [proj filter app]. unfold fe. now rewrite N.eqb_refl. }
    destruct Hs as [s0 [Hs0 [Len [C L]]]]. rewrite Hs0 in Hstep.
    rewrite (agg_add_in_window k c dur e (s_values V s0) Hk Hw Len) in Hstep. inversion Hstep; subst ss' e'. split; [|reflexivity].
    intros f. rewrite streams_find_put. destruct (N.eqb_spec f fe) as [->|Hne].
    - split; [exact L|]. cbn [s_values]. rewrite upd2_length. split; [exact Len|].
      intros b Hbb. rewrite cell_upd2 by lia. rewrite sel_app. unfold fold_cell. rewrite fold_left_app.
      fold (bkt c dur e). cbn [sel filter]. fold fe. rewrite N.eqb_refl. cbn [andb].
      destruct (Nat.eqb_spec (bkt c dur e) b) as [->|Hb'].
      + cbn [fold_left]. fold (fold_cell k (sel c dur fe b seen)). rewrite <- (C b Hbb). reflexivity.
      + cbn [fold_left]. apply C. exact Hbb.
    - specialize (Inv f). assert (P : proj f (seen ++ [e]) = proj f seen).
      { rewrite proj_app. cbn [proj filter]. fold fe. replace (N.eqb fe f) with false by (symmetry; apply N.eqb_neq; congruence). apply app_nil_r. }
      assert (S : forall b, sel c dur f b (seen ++ [e]) = sel c dur f b seen).
      { intros b. rewrite sel_app. cbn [sel filter]. fold fe. replace (N.eqb fe f) with false by (symmetry; apply N.eqb_neq; congruence). apply app_nil_r. }
      destruct (streams_find V ss f) as [s|]; [|now rewrite P].
      destruct Inv as [Hl [Len' C']]. split; [now rewrite P|]. split; [exact Len'|]. intros b Hbb. rewrite S. now apply C'.
  Qed.

  Definition agg_input_ok (c : ctx) (dur : Z) (l : list entry) : Prop :=
    Forall (fun e => e_err V e = ENone /\ in_window c dur e) l.

  Lemma agg_fold k c dur : agg_covered k = true -> forall l ss seen ss' l',
    agg_input_ok c dur l -> cells_inv k c dur ss seen ->
    fold_entries V (agg_ops V v0 v1 vadd vdiv vltb veqb vofZ k c dur) ss l = Ok (ss', l') ->
    cells_inv k c dur ss' (seen ++ l) /\ l' = l.
  Proof.
    intros Hk. induction l as [|e r IH]; intros ss seen ss' l' Hin Inv Hf; cbn [fold_entries] in Hf.
    - inversion Hf; subst. now rewrite app_nil_r.
    - inversion Hin as [|? ? [He Hw] Hr]; subst. cbn [on_entry agg_ops] in Hf.
      destruct (agg_on_entry k c dur ss e) as [[s1 e1]|x] eqn:E1; [|discriminate].
      destruct (agg_step k c dur ss seen e s1 e1 Hk He Hw Inv E1) as [Inv1 ->].
      destruct (fold_entries V _ s1 r) as [[s2 r2]|x] eqn:E2; [|discriminate]. inversion Hf; subst.
      destruct (IH s1 (seen ++ [e]) ss' r2 Hr Inv1 E2) as [Inv2 ->]. split; [|reflexivity].
      now rewrite <- app_assoc in Inv2.
  Qed.

  Lemma cells_inv_nil k c dur : cells_inv k c dur [] [].
  Proof. intros f. reflexivity. Qed.

  (* ---- emission ---- *)
  Lemma pair_ind {A} (P : list A -> Prop) :
    P [] -> (forall a, P [a]) -> (forall a n r, P r -> P (a :: n :: r)) -> forall l, P l.
  Proof.
    intros H0 H1 H2. assert (H : forall l, P l /\ forall a, P (a :: l)).
    { induction l as [|x r [IH1 IH2]]; [split; auto|]. split; [apply IH2|]. intros a. now apply H2. }
    intros l. apply H.
  Qed.

  Definition mk_out (c : ctx) (dur : Z) (f : N) (lb : option lbls) (i : Z) (a : V) : entry :=
    {| e_ts := c_from c + i * dur; e_fp := f; e_lbl := lb; e_msg := EmptyString; e_val := a; e_err := ENone |}.

  Lemma cell_cons2 a n r b : cell (a :: n :: r) (S b) = cell r b.
  Proof. unfold cell, getv. replace (2 * S b)%nat with (S (S (2 * b))) by lia. reflexivity. Qed.

  Lemma flat_map_seq_shift {B} (F : nat -> list B) s m : flat_map F (seq (S s) m) = flat_map (fun b => F (S b)) (seq s m).
  Proof. rewrite <- seq_shift, !flat_map_concat_map, map_map. reflexivity. Qed.

  Lemma emit_spec c dur f lb : forall l i,
    emit V v0 vltb c dur f lb i l =
    flat_map (fun b => if vltb v0 (snd (cell l b)) then [mk_out c dur f lb (i + Z.of_nat b) (fst (cell l b))] else [])
             (seq 0 (Nat.div2 (List.length l))).
  Proof.
    induction l as [| a | a n r IH] using pair_ind; intros i; try reflexivity.
    cbn [emit List.length Nat.div2]. rewrite IH. cbn [seq flat_map]. rewrite flat_map_seq_shift.
    change (cell (a :: n :: r) 0) with (a, n). cbn [fst snd]. rewrite Z.add_0_r.
    assert (T : flat_map (fun b => if vltb v0 (snd (cell r b)) then [mk_out c dur f lb (i + 1 + Z.of_nat b) (fst (cell r b))] else [])
                         (seq 0 (Nat.div2 (List.length r))) =
                flat_map (fun b => if vltb v0 (snd (cell (a :: n :: r) (S b)))
                                   then [mk_out c dur f lb (i + Z.of_nat (S b)) (fst (cell (a :: n :: r) (S b)))] else [])
                         (seq 0 (Nat.div2 (List.length r)))).
    { apply flat_map_ext. intros b. rewrite cell_cons2. replace (i + 1 + Z.of_nat b) with (i + Z.of_nat (S b)) by lia. reflexivity. }
    rewrite T. unfold mk_out at 1. destruct (vltb v0 n); reflexivity.
  Qed.

  Definition fin_fn (k : agg_kind) (dur : Z) : V -> V -> V :=
    match k with
    | KLra LRate | KLra LBytesRate | KUnwrap URate => fun a _ => vdiv a (dur_seconds V vdiv vofZ dur)
    | KUnwrap UAvg => fun a n => if veqb n v0 then a else vdiv a n
    | KAggOp AAvg => fun a n => if vltb v0 n then vdiv a n else a
    | _ => fun a _ => a
    end.

  Lemma map_even_id : forall l, map_even V (fun a _ => a) l = l.
  Proof. induction l as [| a | a n r IH] using pair_ind; cbn [map_even]; try reflexivity. now rewrite IH. Qed.

  Lemma agg_fin_fn k dur l : agg_fin V v0 vdiv vltb veqb vofZ k dur l = map_even V (fin_fn k dur) l.
  Proof.
    destruct k as [fn|fn|fn]; destruct fn; cbn [agg_fin lra_fin uagg_fin aggop_fin fin_fn]; try reflexivity; now rewrite map_even_id.
  Qed.

  Lemma map_even_length g : forall l, List.length (map_even V g l) = List.length l.
  Proof. induction l as [| a | a n r IH] using pair_ind; cbn [map_even List.length]; try reflexivity. now rewrite IH. Qed.

  Lemma cell_map_even g : forall l b, (b < Nat.div2 (List.length l))%nat ->
    cell (map_even V g l) b = (g (fst (cell l b)) (snd (cell l b)), snd (cell l b)).
  Proof.
    induction l as [| a | a n r IH] using pair_ind; intros b Hb; cbn [List.length Nat.div2] in Hb; try lia.
    cbn [map_even]. destruct b as [|b].
    - reflexivity.
    - rewrite !cell_cons2. apply IH. lia.
  Qed.

  (* ---- keys of the stream table stay strictly ascending ---- *)
  Fixpoint skeys (lo : option N) (ss : streams V) : Prop :=
    match ss with
    | [] => True
    | (f, _) :: r => match lo with None => True | Some x => (x < f)%N end /\ skeys (Some f) r
    end.

  Lemma skeys_weaken ss : forall lo lo', skeys lo ss ->
    match lo', lo with Some y, Some x => (y <= x)%N | Some _, None => False | None, _ => True end -> skeys lo' ss.
  Proof.
    destruct ss as [|[f s] r]; intros lo lo' H Hl; [exact I|]. cbn [skeys] in *. destruct H as [H1 H2]. split; [|exact H2].
    destruct lo' as [y|]; [|exact I]. destruct lo as [x|]; [lia|contradiction].
  Qed.

  Lemma skeys_put : forall ss lo f s, skeys lo ss -> match lo with None => True | Some x => (x < f)%N end ->
    skeys lo (streams_put V ss f s).
  Proof.
    induction ss as [|[g s'] r IH]; intros lo f s H Hlo; cbn [streams_put skeys].
    - split; [exact Hlo|exact I].
    - cbn [skeys] in H. destruct H as [H1 H2]. destruct (N.compare_spec f g) as [E|L|G]; cbn [skeys].
      + subst g. split; [exact H1|exact H2].
      + split; [exact Hlo|]. split; [exact L|exact H2].
      + split; [exact H1|]. apply IH; [exact H2|exact G].
  Qed.

  Lemma skeys_lower : forall r g, skeys (Some g) r -> forall f s, In (f, s) r -> (g < f)%N.
  Proof.
    induction r as [|[h s2] r' IHr]; intros g H f s Hin; [destruct Hin|].
    cbn [skeys] in H. destruct H as [A B]. destruct Hin as [E|Hin]; [inversion E; subst; exact A|].
    apply (IHr g) with (s := s); [|exact Hin]. apply (skeys_weaken r' (Some h) (Some g) B). lia.
  Qed.

  Lemma skeys_find : forall ss lo f s, skeys lo ss -> In (f, s) ss -> streams_find V ss f = Some s.
  Proof.
    induction ss as [|[g s'] r IH]; intros lo f s H Hin; [destruct Hin|].
    cbn [skeys] in H. destruct H as [H1 H2]. cbn [streams_find]. destruct Hin as [E|Hin].
    - inversion E; subst. now rewrite N.eqb_refl.
    - destruct (N.eqb_spec f g) as [->|_]; [|now apply (IH (Some g))].
      exfalso. pose proof (skeys_lower r g H2 g s Hin). lia.
  Qed.

  Lemma agg_fold_keys k c dur : forall l ss ss' l',
    skeys None ss -> fold_entries V (agg_ops V v0 v1 vadd vdiv vltb veqb vofZ k c dur) ss l = Ok (ss', l') -> skeys None ss'.
  Proof.
    induction l as [|e r IH]; intros ss ss' l' Hk Hf; cbn [fold_entries] in Hf; [now inversion Hf; subst|].
    cbn [on_entry agg_ops] in Hf. destruct (agg_on_entry k c dur ss e) as [[s1 e1]|x] eqn:E1; [|discriminate].
    destruct (fold_entries V _ s1 r) as [[s2 r2]|x] eqn:E2; [|discriminate]. inversion Hf; subst.
    apply (IH s1 ss' r2); [|exact E2]. clear - Hk E1. unfold InternalEngine.agg_on_entry in E1.
    destruct (e_err V e); try discriminate; [|inversion E1; now subst].
    destruct (match streams_find V ss (e_fp V e) with Some s => Ok s | None => _ end) as [s|x]; [|discriminate].
    destruct (agg_add k c dur e (s_values V s)) as [vs|x]; [|discriminate]. inversion E1; subst. now apply skeys_put.
  Qed.

  (* ---- what one series sends: one entry per non-empty bucket, value = finalised fold over the bucket's entries ---- *)
  Definition series_out (k : agg_kind) (c : ctx) (dur : Z) (f : N) (lb : option lbls) (l : list entry) : list entry :=
    flat_map (fun b => let an := fold_cell k (sel c dur f b l) in
                       if vltb v0 (snd an) then [mk_out c dur f lb (Z.of_nat b) (fin_fn k dur (fst an) (snd an))] else [])
             (seq 0 (Z.to_nat (stream_len c dur))).

  Lemma flat_map_ext_in' {A B} (F G : A -> list B) (l : list A) : (forall x, In x l -> F x = G x) -> flat_map F l = flat_map G l.
  Proof. induction l as [|x r IH]; intros H; cbn; [reflexivity|]. rewrite (H x (or_introl eq_refl)), IH; [reflexivity|]. intros y Hy. apply H. now right. Qed.

  Lemma stream_emits k c dur l ss f s e0 rest :
    0 <= stream_len c dur ->
    cells_inv k c dur ss l -> streams_find V ss f = Some s -> proj f l = e0 :: rest ->
    emit V v0 vltb c dur f (s_labels V s) 0 (agg_fin V v0 vdiv vltb veqb vofZ k dur (s_values V s)) = series_out k c dur f (e_lbl V e0) l.
  Proof.
    intros HN Inv F P. specialize (Inv f). rewrite F in Inv. destruct Inv as [[e1 [r1 [P1 L]]] [Len C]].
    rewrite P in P1. inversion P1; subst e1 r1. rewrite emit_spec, agg_fin_fn, map_even_length. unfold series_out.
    assert (Hn : Nat.div2 (List.length (s_values V s)) = Z.to_nat (stream_len c dur)).
    { replace (List.length (s_values V s)) with (2 * Z.to_nat (stream_len c dur))%nat by lia. apply Nat.div2_double. }
    rewrite Hn. apply flat_map_ext_in'. intros b Hb. apply in_seq in Hb.
    rewrite cell_map_even by (rewrite Hn; lia). rewrite (C b) by lia. cbn [fst snd]. rewrite L, Z.add_0_l. reflexivity.
  Qed.

  (* every entry a series sends carries the series' fingerprint *)
  Lemma series_out_fp k c dur f lb l g : proj g (series_out k c dur f lb l) = if N.eqb f g then series_out k c dur f lb l else [].
  Proof.
    unfold series_out. induction (seq 0 (Z.to_nat (stream_len c dur))) as [|b r IH]; cbn [flat_map].
    - now destruct (N.eqb f g).
    - rewrite proj_app, IH. destruct (vltb v0 _); cbn [proj filter mk_out e_fp app]; destruct (N.eqb f g); reflexivity.
  Qed.

  Notation agg_ops' := (agg_ops V v0 v1 vadd vdiv vltb veqb vofZ).

  Lemma concat_filter_nonempty {A} (X : list (list A)) :
    List.concat (filter (fun b => negb (Nat.eqb (List.length b) 0)) X) = List.concat X.
  Proof. induction X as [|x r IH]; [reflexivity|]. cbn [filter]. destruct x; cbn; [exact IH|]. now rewrite IH. Qed.

  Definition lbl_first (l : list entry) (g : N) : option lbls := match proj g l with e0 :: _ => e_lbl V e0 | [] => None end.

  Lemma skeys_find_none r g : skeys (Some g) r -> streams_find V r g = None.
  Proof.
    intros Hsk. destruct (streams_find V r g) as [s2|] eqn:F2; [|reflexivity]. exfalso.
    assert (Hin2 : exists s3, In (g, s3) r).
    { clear - F2. induction r as [|[h s3] r' IH]; [discriminate|]. cbn [streams_find] in F2.
      destruct (N.eqb_spec g h) as [->|_]; [exists s3; now left|]. destruct (IH F2) as [s4 H4]. exists s4. now right. }
    destruct Hin2 as [s3 H3]. pose proof (skeys_lower r g Hsk g s3 H3). lia.
  Qed.

  Lemma proj_series k c dur l f : forall ss0 lo, skeys lo ss0 ->
    proj f (List.concat (map (fun fs : N * stream V => series_out k c dur (fst fs) (lbl_first l (fst fs)) l) ss0)) =
    match streams_find V ss0 f with Some _ => series_out k c dur f (lbl_first l f) l | None => [] end.
  Proof.
    induction ss0 as [|[g s] r IH]; intros lo Hsk; [reflexivity|]. cbn [skeys] in Hsk. destruct Hsk as [_ Hsk].
    cbn [map List.concat fst streams_find]. rewrite proj_app, series_out_fp, (IH (Some g) Hsk).
    destruct (N.eqb_spec f g) as [->|Hne].
    - rewrite N.eqb_refl, (skeys_find_none r g Hsk). apply app_nil_r.
    - replace (N.eqb g f) with false by (symmetry; apply N.eqb_neq; congruence). reflexivity.
  Qed.

  (* the output of an aggregation stage that did not fail, one fingerprint at a time *)
  Lemma agg_output k c dur l ss l' : agg_covered k = true -> agg_input_ok c dur l -> 0 <= stream_len c dur ->
    fold_entries V (agg_ops' k c dur) [] l = Ok (ss, l') ->
    forall f, proj f (List.concat (wrap (agg_ops' k c dur) [] [l])) =
              match proj f l with [] => [] | e0 :: _ => series_out k c dur f (e_lbl V e0) l end.
  Proof.
    intros Hk Hin HN Hf f. cbn [wrap]. rewrite Hf. cbn [on_slice on_end agg_ops app].
    destruct (agg_fold k c dur Hk l [] [] ss l' Hin (cells_inv_nil k c dur) Hf) as [Inv _]. cbn [app] in Inv.
    pose proof (agg_fold_keys k c dur l [] ss l' I Hf) as Hkeys.
    unfold agg_on_end. rewrite concat_filter_nonempty.
    assert (M : map (fun fs : N * stream V => emit V v0 vltb c dur (fst fs) (s_labels V (snd fs)) 0 (agg_fin V v0 vdiv vltb veqb vofZ k dur (s_values V (snd fs)))) ss =
                map (fun fs : N * stream V => series_out k c dur (fst fs) (lbl_first l (fst fs)) l) ss).
    { apply map_ext_in. intros [g s] Hin'. cbn [fst snd].
      pose proof (skeys_find ss None g s Hkeys Hin') as Fg.
      pose proof (Inv g) as Ig. rewrite Fg in Ig. destruct Ig as [[e0 [rest [Pg _]]] _].
      rewrite (stream_emits k c dur l ss g s e0 rest HN Inv Fg Pg). unfold lbl_first. now rewrite Pg. }
    rewrite M, (proj_series k c dur l f ss None Hkeys).
    pose proof (Inv f) as If. unfold lbl_first. destruct (streams_find V ss f) as [s|].
    - destruct If as [[e0 [rest [P _]]] _]. now rewrite P.
    - now rewrite If.
  Qed.

  (* ---- the value of a bucket, function by function, against the reference ---- *)
  Section VALUES.
    (* facts about the float operations that the comparison with the reference needs (true of IEEE binary64) *)
    Hypothesis H00 : vltb v0 v0 = false.
    Hypothesis H01 : vltb v0 v1 = true.
    Hypothesis Heq0 : veqb v0 v0 = true.
    Hypothesis Hne1 : veqb v1 v0 = false.
    Hypothesis H0p1 : vltb v0 (vadd v0 v1) = true.
    Hypothesis Hpos : forall x, vltb v0 x = true -> vltb v0 (vadd x v1) = true.
    Hypothesis Hnz : forall x, vltb v0 x = true -> veqb x v0 = false.

    Lemma fold_left_map' {A B C} (f : A -> B -> A) (h : C -> B) (l : list C) : forall a,
      fold_left f (map h l) a = fold_left (fun a x => f a (h x)) l a.
    Proof. induction l as [|x r IH]; intros a; cbn; [reflexivity|]. apply IH. Qed.

    Lemma fold_const_counter (g : V -> entry -> V) : forall es a0 n0, es <> [] ->
      fold_left (fun acc e => (g (fst acc) e, v1)) es (a0, n0) = (fold_left g es a0, v1).
    Proof.
      induction es as [|e r IH]; intros a0 n0 H; [contradiction|]. cbn [fold_left fst].
      destruct r as [|e2 r2]; [reflexivity|]. apply IH. discriminate.
    Qed.

    Lemma fold_pair (g : V -> entry -> V) (h : V -> V) : forall es a0 n0,
      fold_left (fun acc e => (g (fst acc) e, h (snd acc))) es (a0, n0) = (fold_left g es a0, fold_left (fun n _ => h n) es n0).
    Proof. induction es as [|e r IH]; intros a0 n0; cbn [fold_left fst snd]; [reflexivity|]. apply IH. Qed.

    Lemma count_pos : forall (es : list entry) n0, (n0 = v0 \/ vltb v0 n0 = true) -> es <> [] ->
      vltb v0 (fold_left (fun n (_ : entry) => vadd n v1) es n0) = true.
    Proof.
      induction es as [|e r IH]; intros n0 Hn H; [contradiction|]. cbn [fold_left].
      assert (Hp : vltb v0 (vadd n0 v1) = true) by (destruct Hn as [->|Hn]; [exact H0p1|now apply Hpos]).
      destruct r as [|e2 r2]; [exact Hp|]. apply IH; [now right|discriminate].
    Qed.

    Lemma fold_sel (pick : V -> V -> V) (cond : V -> V -> bool) :
      (forall a x, pick a x = if cond a x then x else a) ->
      forall r a, fold_left (fun acc (e : entry) => if cond (fst acc) (e_val V e) || veqb (snd acc) v0 then (e_val V e, v1) else (fst acc, snd acc)) r (a, v1) =
                  (fold_left pick (map (e_val V) r) a, v1).
    Proof.
      intros Hp. induction r as [|e r IH]; intros a; cbn [fold_left map fst snd]; [reflexivity|].
      rewrite Hne1, orb_false_r, Hp. destruct (cond a (e_val V e)); apply IH.
    Qed.

    Lemma last_default {A} : forall (l : list A) (x d d' : A), last (x :: l) d = last (x :: l) d'.
    Proof. induction l as [|y l' IH]; intros x d d'; [reflexivity|]. cbn [last]. apply (IH y). Qed.

    Lemma bucket_value k dur es : agg_specified k = true -> es <> [] ->
      vltb v0 (snd (fold_cell k es)) = true /\
      sem_bucket_value V v0 v1 vadd vdiv vltb vofZ k dur es = Some (fin_fn k dur (fst (fold_cell k es)) (snd (fold_cell k es))).
    Proof.
      intros Hk Hne. destruct es as [|e0 r]; [contradiction|]. unfold fold_cell.
      assert (NE : e0 :: r <> []) by discriminate.
      destruct k as [fn|fn|fn]; destruct fn; try discriminate Hk; cbn [upd_of sem_bucket_value fin_fn init_cell].
      - (* rate *) rewrite (fold_const_counter (fun a _ => vadd a v1)) by exact NE. cbn [fst snd]. split; [exact H01|].
        unfold vcount. now rewrite fold_left_map'.
      - (* count_over_time *) rewrite (fold_const_counter (fun a _ => vadd a v1)) by exact NE. cbn [fst snd]. split; [exact H01|].
        unfold vcount. now rewrite fold_left_map'.
      - (* bytes_rate *) rewrite (fold_const_counter (fun a e => vadd a (vofZ (Z.of_nat (String.length (e_msg V e)))))) by exact NE.
        cbn [fst snd]. split; [exact H01|]. unfold vsum. now rewrite fold_left_map'.
      - (* bytes_over_time *) rewrite (fold_const_counter (fun a e => vadd a (vofZ (Z.of_nat (String.length (e_msg V e)))))) by exact NE.
        cbn [fst snd]. split; [exact H01|]. unfold vsum. now rewrite fold_left_map'.
      - (* unwrap rate *) rewrite (fold_const_counter (fun a e => vadd a (e_val V e))) by exact NE. cbn [fst snd]. split; [exact H01|].
        unfold vsum. now rewrite fold_left_map'.
      - (* sum_over_time *) rewrite (fold_const_counter (fun a e => vadd a (e_val V e))) by exact NE. cbn [fst snd]. split; [exact H01|].
        unfold vsum. now rewrite fold_left_map'.
      - (* avg_over_time *) rewrite (fold_pair (fun a e => vadd a (e_val V e)) (fun n => vadd n v1)). cbn [fst snd].
        pose proof (count_pos (e0 :: r) v0 (or_introl eq_refl) NE) as P. split; [exact P|].
        rewrite (Hnz _ P). unfold vsum, vcount. now rewrite !fold_left_map'.
      - (* max_over_time *) cbn [fold_left fst snd]. rewrite Heq0, orb_true_r.
        rewrite (fold_sel (vmax V vltb) (fun a x => vltb a x)) by reflexivity. cbn [fst snd]. split; [exact H01|reflexivity].
      - (* min_over_time *) cbn [fold_left fst snd]. rewrite Heq0, orb_true_r.
        rewrite (fold_sel (vmin V vltb) (fun a x => vltb x a)) by reflexivity. cbn [fst snd]. split; [exact H01|reflexivity].
      - (* first_over_time *) cbn [fold_left fst snd]. rewrite Heq0.
        assert (F : forall l a, fold_left (fun acc (e : entry) => if veqb (snd acc) v0 then (e_val V e, v1) else (fst acc, snd acc)) l (a, v1) = (a, v1)).
        { induction l as [|x l' IHl]; intros a; cbn [fold_left fst snd]; [reflexivity|]. rewrite Hne1. apply IHl. }
        rewrite F. cbn [fst snd]. split; [exact H01|reflexivity].
      - (* last_over_time *)
        assert (F : forall l a n, fold_left (fun _ (e : entry) => (e_val V e, v1)) l (a, n) = (last (map (e_val V) l) a, match l with [] => n | _ => v1 end)).
        { induction l as [|x l' IHl]; intros a n; [reflexivity|]. cbn [fold_left map]. rewrite IHl. destruct l' as [|y l'']; [reflexivity|].
          cbn [map]. f_equal. cbn [last]. apply last_default. }
        rewrite F. cbn [fst snd]. split; [exact H01|]. f_equal. cbn [map]. apply last_default.
      - (* sum *) rewrite (fold_const_counter (fun a e => vadd a (e_val V e))) by exact NE. cbn [fst snd]. split; [exact H01|].
        unfold vsum. now rewrite fold_left_map'.
      - (* min *) cbn [fold_left fst snd]. rewrite Heq0, orb_true_r.
        rewrite (fold_sel (vmin V vltb) (fun a x => vltb x a)) by reflexivity. cbn [fst snd]. split; [exact H01|reflexivity].
      - (* max *) cbn [fold_left fst snd]. rewrite Heq0, orb_true_r.
        rewrite (fold_sel (vmax V vltb) (fun a x => vltb a x)) by reflexivity. cbn [fst snd]. split; [exact H01|reflexivity].
      - (* avg *) rewrite (fold_pair (fun a e => vadd a (e_val V e)) (fun n => vadd n v1)). cbn [fst snd].
        pose proof (count_pos (e0 :: r) v0 (or_introl eq_refl) NE) as P. split; [exact P|].
        rewrite P. unfold vsum, vcount. now rewrite !fold_left_map'.
      - (* count *) rewrite (fold_const_counter (fun a _ => vadd a v1)) by exact NE. cbn [fst snd]. split; [exact H01|].
        unfold vcount. now rewrite fold_left_map'.
    Qed.

    Lemma sem_buckets_step k c dur m es i n : agg_specified k = true ->
      sem_buckets V v0 v1 vadd vdiv vltb vofZ fpf k c dur m es i (S n) =
      match sem_bucket_value V v0 v1 vadd vdiv vltb vofZ k dur (filter (fun e => bucket_of V c dur e =? i) es) with
      | Some v => {| e_ts := c_from c + i * dur; e_fp := fpf m; e_lbl := Some m; e_msg := EmptyString; e_val := v; e_err := ENone |}
                  :: sem_buckets V v0 v1 vadd vdiv vltb vofZ fpf k c dur m es (i + 1) n
      | None => sem_buckets V v0 v1 vadd vdiv vltb vofZ fpf k c dur m es (i + 1) n
      end.
    Proof. intros Hk. destruct k as [fn|fn|fn]; destruct fn; try discriminate Hk; reflexivity. Qed.

    (* one series against the reference: same buckets, same values, same entries *)
    Lemma series_sem k c dur m f l : agg_specified k = true -> f = fpf m ->
      (forall e, In e l -> N.eqb (e_fp V e) f = lbls_eqb (lbl_of V e) m) ->
      (forall e, In e l -> 0 <= bucket_of V c dur e) ->
      series_out k c dur f (Some m) l =
      sem_buckets V v0 v1 vadd vdiv vltb vofZ fpf k c dur m (filter (fun e => lbls_eqb (lbl_of V e) m) l) 0 (Z.to_nat (stream_len c dur)).
    Proof.
      intros Hk Hf Hfaith Hb. unfold series_out.
      assert (Hsel : forall b, sel c dur f b l = filter (fun e => bucket_of V c dur e =? Z.of_nat b) (filter (fun e => lbls_eqb (lbl_of V e) m) l)).
      { intros b. unfold sel. clear - Hfaith Hb. induction l as [|e r IH]; [reflexivity|]. cbn [filter].
        rewrite (Hfaith e (or_introl eq_refl)). assert (Hb0 := Hb e (or_introl eq_refl)).
        assert (E : Nat.eqb (bkt c dur e) b = (bucket_of V c dur e =? Z.of_nat b)).
        { unfold bkt. destruct (Nat.eqb_spec (Z.to_nat (bucket_of V c dur e)) b) as [H|H]; destruct (Z.eqb_spec (bucket_of V c dur e) (Z.of_nat b)) as [H'|H']; try reflexivity; lia. }
        rewrite IH; [|intros x Hx; apply Hfaith; now right|intros x Hx; apply Hb; now right].
        destruct (lbls_eqb (lbl_of V e) m); cbn [andb filter]; [rewrite E; reflexivity|reflexivity]. }
      generalize (Z.to_nat (stream_len c dur)) as n. intros n.
      assert (G : forall i, flat_map (fun b => let an := fold_cell k (sel c dur f b l) in
                     if vltb v0 (snd an) then [mk_out c dur f (Some m) (Z.of_nat b) (fin_fn k dur (fst an) (snd an))] else []) (seq i n) =
                  sem_buckets V v0 v1 vadd vdiv vltb vofZ fpf k c dur m (filter (fun e => lbls_eqb (lbl_of V e) m) l) (Z.of_nat i) n);
        [|exact (G 0%nat)].
      induction n as [|n IH]; intros i; [reflexivity|]. rewrite (sem_buckets_step k c dur m _ (Z.of_nat i) n Hk). cbn [seq flat_map].
      rewrite IH. replace (Z.of_nat i + 1) with (Z.of_nat (S i)) by lia. rewrite Hsel.
      set (es := filter (fun e => bucket_of V c dur e =? Z.of_nat i) (filter (fun e => lbls_eqb (lbl_of V e) m) l)).
      destruct es as [|e0 r] eqn:Ees.
      - unfold fold_cell. cbn [fold_left].
        replace (init_cell k) with (v0, v0) by (destruct k as [fn|fn|fn]; try reflexivity; destruct fn; try reflexivity; discriminate Hk).
        cbn [snd]. rewrite H00. reflexivity.
      - assert (NE : e0 :: r <> []) by discriminate. destruct (bucket_value k dur (e0 :: r) Hk NE) as [P Q].
        rewrite P, Q. cbn [app]. unfold mk_out. now rewrite Hf.
    Qed.

    (* absent_over_time: 1 in every bucket of a seen series that holds no entry *)
    Lemma series_sem_absent c dur m f l : f = fpf m ->
      (forall e, In e l -> N.eqb (e_fp V e) f = lbls_eqb (lbl_of V e) m) ->
      (forall e, In e l -> 0 <= bucket_of V c dur e) ->
      series_out (KLra LAbsent) c dur f (Some m) l =
      sem_buckets V v0 v1 vadd vdiv vltb vofZ fpf (KLra LAbsent) c dur m (filter (fun e => lbls_eqb (lbl_of V e) m) l) 0 (Z.to_nat (stream_len c dur)).
    Proof.
      intros Hf Hfaith Hb. unfold series_out.
      assert (Hsel : forall b, sel c dur f b l = filter (fun e => bucket_of V c dur e =? Z.of_nat b) (filter (fun e => lbls_eqb (lbl_of V e) m) l)).
      { intros b. unfold sel. clear - Hfaith Hb. induction l as [|e r IH]; [reflexivity|]. cbn [filter].
        rewrite (Hfaith e (or_introl eq_refl)). assert (Hb0 := Hb e (or_introl eq_refl)).
        assert (E : Nat.eqb (bkt c dur e) b = (bucket_of V c dur e =? Z.of_nat b)).
        { unfold bkt. destruct (Nat.eqb_spec (Z.to_nat (bucket_of V c dur e)) b) as [H|H]; destruct (Z.eqb_spec (bucket_of V c dur e) (Z.of_nat b)) as [H'|H']; try reflexivity; lia. }
        rewrite IH; [|intros x Hx; apply Hfaith; now right|intros x Hx; apply Hb; now right].
        destruct (lbls_eqb (lbl_of V e) m); cbn [andb filter]; [rewrite E; reflexivity|reflexivity]. }
      generalize (Z.to_nat (stream_len c dur)) as n. intros n.
      assert (G : forall i, flat_map (fun b => let an := fold_cell (KLra LAbsent) (sel c dur f b l) in
                     if vltb v0 (snd an) then [mk_out c dur f (Some m) (Z.of_nat b) (fin_fn (KLra LAbsent) dur (fst an) (snd an))] else []) (seq i n) =
                  sem_buckets V v0 v1 vadd vdiv vltb vofZ fpf (KLra LAbsent) c dur m (filter (fun e => lbls_eqb (lbl_of V e) m) l) (Z.of_nat i) n);
        [|exact (G 0%nat)].
      induction n as [|n IH]; intros i; [reflexivity|]. cbn [seq flat_map sem_buckets].
      rewrite IH. replace (Z.of_nat i + 1) with (Z.of_nat (S i)) by lia. rewrite Hsel.
      destruct (filter (fun e => bucket_of V c dur e =? Z.of_nat i) (filter (fun e => lbls_eqb (lbl_of V e) m) l)) as [|e0 r].
      - unfold fold_cell. cbn [fold_left init_cell snd fst fin_fn]. rewrite H01. cbn [app]. unfold mk_out. now rewrite Hf.
      - assert (F : forall es a, fold_left (fun acc (e : entry) => upd_of (KLra LAbsent) e (fst acc) (snd acc)) es a = match es with [] => a | _ => (v0, v0) end).
        { induction es as [|x es' IHe]; intros a; [reflexivity|]. cbn [fold_left upd_of]. rewrite IHe. now destruct es'. }
        unfold fold_cell. rewrite F. cbn [snd]. rewrite H00. reflexivity.
    Qed.

    Lemma series_sem_covered k c dur m f l : agg_covered k = true -> f = fpf m ->
      (forall e, In e l -> N.eqb (e_fp V e) f = lbls_eqb (lbl_of V e) m) ->
      (forall e, In e l -> 0 <= bucket_of V c dur e) ->
      series_out k c dur f (Some m) l =
      sem_buckets V v0 v1 vadd vdiv vltb vofZ fpf k c dur m (filter (fun e => lbls_eqb (lbl_of V e) m) l) 0 (Z.to_nat (stream_len c dur)).
    Proof.
      intros Hk. unfold agg_covered in Hk. destruct (agg_specified k) eqn:Hs.
      - now apply series_sem.
      - destruct k as [fn|fn|fn]; try discriminate Hk. destruct fn; try discriminate Hk. apply series_sem_absent.
    Qed.

    (* the aggregation stage against the reference, one series (label set) at a time, for every batching *)
    Lemma agg_meets_definition k c dur bs ss l' m e0 rest :
      agg_covered k = true -> agg_input_ok c dur (List.concat bs) ->
      fold_entries V (agg_ops' k c dur) [] (List.concat bs) = Ok (ss, l') ->
      (forall e, In e (List.concat bs) -> N.eqb (e_fp V e) (fpf m) = lbls_eqb (lbl_of V e) m) ->
      proj (fpf m) (List.concat bs) = e0 :: rest -> e_lbl V e0 = Some m ->
      proj (fpf m) (List.concat (run_stage c (SAgg V k dur) bs)) =
      sem_buckets V v0 v1 vadd vdiv vltb vofZ fpf k c dur m (filter (fun e => lbls_eqb (lbl_of V e) m) (List.concat bs)) 0 (Z.to_nat (stream_len c dur)).
    Proof.
      intros Hk Hin Hf Hfaith P L. cbn [InternalEngine.run_stage].
      rewrite (wrap_end_only (agg_ops' k c dur) (fun s b => eq_refl) bs []).
      assert (HN : 0 <= stream_len c dur).
      { assert (He0 : In e0 (List.concat bs)).
        { assert (Hi : In e0 (proj (fpf m) (List.concat bs))) by (rewrite P; now left). unfold proj in Hi. apply filter_In in Hi. tauto. }
        unfold agg_input_ok in Hin. rewrite Forall_forall in Hin. destruct (Hin e0 He0) as [_ Hw].
        pose proof (bucket_in_window c dur e0 Hw). lia. }
      rewrite (agg_output k c dur (List.concat bs) ss l' Hk Hin HN Hf (fpf m)), P, L.
      apply series_sem_covered; [exact Hk|reflexivity|exact Hfaith|].
      intros e He. unfold agg_input_ok in Hin. rewrite Forall_forall in Hin. destruct (Hin e He) as [_ Hw].
      pose proof (bucket_in_window c dur e Hw). lia.
    Qed.
  End VALUES.
End PROOFS.

(* ============================================================================================ *)
(* hash.go *)
From Coq Require Import Permutation.
Section HASH.
  Variable ch64 : string -> N.
  Open Scope N_scope.

  Lemma w64_idem x : w64 (w64 x) = w64 x.
  Proof. unfold w64. apply N.mod_mod. unfold m64. discriminate. Qed.
  Lemma w64_add_l a b : w64 (w64 a + b) = w64 (a + b).
  Proof. unfold w64. apply N.add_mod_idemp_l. unfold m64. discriminate. Qed.
  Lemma w64_mul_l a b : w64 (w64 a * b) = w64 (a * b).
  Proof. unfold w64. apply N.mul_mod_idemp_l. unfold m64. discriminate. Qed.

  Lemma fp_step_comm d x y : fp_step ch64 (fp_step ch64 d x) y = fp_step ch64 (fp_step ch64 d y) x.
  Proof.
    destruct d as [[a b] c]. unfold fp_step.
    set (h1 := pair_hash ch64 x). set (h2 := pair_hash ch64 y).
    f_equal; [f_equal|].
    - rewrite !w64_add_l. f_equal. lia.
    - rewrite !N.lxor_assoc. f_equal. apply N.lxor_comm.
    - rewrite !w64_mul_l. f_equal. lia.
  Qed.

  Lemma fold_fp_step_perm : forall m1 m2, Permutation m1 m2 -> forall d, fold_left (fp_step ch64) m1 d = fold_left (fp_step ch64) m2 d.
  Proof.
    induction 1 as [|x l l' _ IH|x y l|l l' l'' _ IH1 _ IH2]; intros d; cbn [fold_left].
    - reflexivity.
    - apply IH.
    - now rewrite fp_step_comm.
    - now rewrite IH1, IH2.
  Qed.

  (* Go ranges over the label map in an unspecified order; the fingerprint does not depend on it *)
  Lemma fingerprint_perm m1 m2 : Permutation m1 m2 -> fingerprint ch64 m1 = fingerprint ch64 m2.
  Proof. intros H. unfold fingerprint, fp_descr. now rewrite (fold_fp_step_perm m1 m2 H). Qed.

  (* the only thing the fingerprint reads off a label is its pair hash *)
  Lemma fingerprint_pairs m1 m2 :
    map (pair_hash ch64) m1 = map (pair_hash ch64) m2 -> fingerprint ch64 m1 = fingerprint ch64 m2.
  Proof.
    intros H. unfold fingerprint, fp_descr.
    assert (G : forall d, fold_left (fp_step ch64) m1 d = fold_left (fp_step ch64) m2 d).
    { revert m2 H. induction m1 as [|x r IH]; intros [|y r2] H d; cbn [map] in H; try discriminate; [reflexivity|].
      inversion H as [[H1 H2]]. cbn [fold_left].
      replace (fp_step ch64 d x) with (fp_step ch64 d y).
      - now apply IH.
      - destruct d as [[a b] c]. unfold fp_step. now rewrite H1. }
    now rewrite G.
  Qed.
End HASH.

(* ============================================================================================ *)
(* planner.go GetBreakpoint / breakScript *)
Lemma first_break_split : forall ps i, 0 <= i ->
  (first_break ps i = -1 /\ forallb (fun p => negb (breaking p)) ps = true) \/
  (exists pre p post, ps = pre ++ p :: post /\ first_break ps i = i + Z.of_nat (List.length pre) /\
                      breaking p = true /\ forallb (fun p => negb (breaking p)) pre = true).
Proof.
  induction ps as [|p r IH]; intros i Hi; cbn [first_break forallb].
  - left. split; reflexivity.
  - destruct (breaking p) eqn:B.
    + right. exists [], p, r. cbn. repeat split; auto. lia.
    + destruct (IH (i + 1)) as [[E F]|[pre [q [post [E1 [E2 [E3 E4]]]]]]]; [lia| |].
      * left. split; [exact E|]. cbn. exact F.
      * right. exists (p :: pre), q, post. cbn [app List.length forallb]. rewrite B. cbn [negb andb].
        repeat split; auto; [now rewrite E1|]. rewrite E2. lia.
Qed.

Lemma split_sound absent ps :
  clickhouse_pipes absent ps ++ internal_pipes absent ps = ps /\
  forallb (fun p => negb (breaking p)) (clickhouse_pipes absent ps) = true /\
  match internal_pipes absent ps with [] => True | p :: _ => breaking p = true end.
Proof.
  unfold clickhouse_pipes, internal_pipes, get_breakpoint.
  destruct (first_break_split ps 0 (Z.le_refl 0)) as [[E F]|[pre [p [post [E1 [E2 [E3 E4]]]]]]].
  - rewrite E. assert (H : (if absent && (-1 <? 0) then -2 else -1) <? 0 = true) by (destruct absent; reflexivity).
    rewrite H. rewrite app_nil_r. auto.
  - rewrite E2. cbn [Z.add]. assert (H : (0 + Z.of_nat (List.length pre) <? 0) = false) by (apply Z.ltb_ge; lia).
    replace (0 + Z.of_nat (List.length pre)) with (Z.of_nat (List.length pre)) in * by lia.
    rewrite H, andb_false_r, H, Nat2Z.id, E1.
    rewrite firstn_app, Nat.sub_diag, firstn_all. cbn [firstn]. rewrite app_nil_r.
    rewrite skipn_app, Nat.sub_diag, skipn_all. cbn [skipn app]. auto.
Qed.

(* ---- hash.go: distinct label sets, distinct series ---- *)
Section HASH_DISTINCT.
  Variable ch64 : string -> N.
  Open Scope N_scope.

  (* the 24 descriptor bytes of a label set *)
  Definition descr_of (m : lbls) : string := let '(a, b, c) := fp_descr ch64 m in descr_bytes a b c.

  Lemma le_bytes_length : forall n x, String.length (le_bytes n x) = n.
  Proof. induction n as [|n IH]; intros x; cbn [le_bytes String.length]; [reflexivity|]. now rewrite IH. Qed.

  Lemma le_bytes_inj : forall n x y, le_bytes n x = le_bytes n y -> x mod 256 ^ N.of_nat n = y mod 256 ^ N.of_nat n.
  Proof.
    induction n as [|n IH]; intros x y H.
    - cbn. now rewrite !N.mod_1_r.
    - cbn [le_bytes] in H. inversion H as [[H1 H2]]. apply IH in H2.
      assert (E : x mod 256 = y mod 256).
      { rewrite <- (N_ascii_embedding (x mod 256)), <- (N_ascii_embedding (y mod 256)) by (apply N.mod_upper_bound; discriminate).
        now rewrite H1. }
      replace (N.of_nat (S n)) with (N.succ (N.of_nat n)) by lia. rewrite N.pow_succ_r'.
      rewrite !N.mod_mul_r by (try discriminate; apply N.pow_nonzero; discriminate). now rewrite E, H2.
  Qed.

  Lemma append_same_length_inj : forall s1 s2 t1 t2, String.length s1 = String.length s2 ->
    (s1 ++ t1)%string = (s2 ++ t2)%string -> s1 = s2 /\ t1 = t2.
  Proof.
    induction s1 as [|a s1 IH]; intros [|b s2] t1 t2 L H; cbn in L; try discriminate; [split; [reflexivity|exact H]|].
    cbn in H. inversion H. destruct (IH s2 t1 t2) as [E1 E2]; [lia|assumption|]. split; [now f_equal|exact E2].
  Qed.

  Lemma descr_bytes_inj a b c a' b' c' : descr_bytes a b c = descr_bytes a' b' c' ->
    w64 a = w64 a' /\ w64 b = w64 b' /\ w64 c = w64 c'.
  Proof.
    unfold descr_bytes. intros H.
    apply append_same_length_inj in H; [|now rewrite !le_bytes_length]. destruct H as [H1 H].
    apply append_same_length_inj in H; [|now rewrite !le_bytes_length]. destruct H as [H2 H3].
    apply le_bytes_inj in H1, H2, H3. change (256 ^ N.of_nat 8) with m64 in *. auto.
  Qed.

  Lemma w64_small x : x < m64 -> w64 x = x.
  Proof. intros H. unfold w64. now apply N.mod_small. Qed.
  Lemma w64_lt x : w64 x < m64.
  Proof. unfold w64. apply N.mod_upper_bound. unfold m64. discriminate. Qed.
  Lemma pair_hash_lt kv : pair_hash ch64 kv < m64.
  Proof. unfold pair_hash, h128. apply w64_lt. Qed.

  (* whenever CH64 does not collide on the two 24-byte descriptors, equal fingerprints mean equal descriptors:
     the same sum, the same xor and the same product of the pair hashes (all mod 2^64) *)
  Lemma fingerprint_to_descr m1 m2 :
    (w64 (ch64 (descr_of m1)) = w64 (ch64 (descr_of m2)) -> descr_of m1 = descr_of m2) ->
    fingerprint ch64 m1 = fingerprint ch64 m2 ->
    let '(a, b, c) := fp_descr ch64 m1 in let '(a', b', c') := fp_descr ch64 m2 in w64 a = w64 a' /\ w64 b = w64 b' /\ w64 c = w64 c'.
  Proof.
    unfold fingerprint, descr_of. destruct (fp_descr ch64 m1) as [[a b] c]. destruct (fp_descr ch64 m2) as [[a' b'] c'].
    intros Hd H. apply descr_bytes_inj. now apply Hd.
  Qed.

  (* one label: distinct (key, value) pairs are distinct series unless CH64 / the pair mix collide on them *)
  Lemma singleton_distinct k v k' v' :
    (w64 (ch64 (descr_of [(k, v)])) = w64 (ch64 (descr_of [(k', v')])) -> descr_of [(k, v)] = descr_of [(k', v')]) ->
    (pair_hash ch64 (k, v) = pair_hash ch64 (k', v') -> (k, v) = (k', v')) ->
    fingerprint ch64 [(k, v)] = fingerprint ch64 [(k', v')] -> (k, v) = (k', v').
  Proof.
    intros Hd Hp H. pose proof (fingerprint_to_descr [(k, v)] [(k', v')] Hd H) as T.
    unfold fp_descr in T. cbn [fold_left fp_step] in T. destruct T as [T _].
    rewrite !w64_idem, !N.add_0_l in T. rewrite !w64_small in T by apply pair_hash_lt. now apply Hp.
  Qed.

  (* the defect repaired: the key/value boundary is part of what is hashed. With the old k ++ v input these two sets
     had the same fingerprint for every CH64; now they differ as soon as the hashes involved do not collide *)
End HASH_DISTINCT.
