(* C12 -- proofs about the Pyroscope read handlers (model/ReadProf.v) and the loops of the flame-graph code they call
   (model/ProfTree.v, model/ProfDiff.v of property C16, imported read-only). *)
From Coq Require Import List NArith ZArith Bool Lia.
From Qryn Require Import model.Pprof model.ProfTree model.ProfDiff model.ReadProf.
Import ListNotations.
Open Scope Z_scope.

(* ------------------------------------------------------------------ every request is answered *)
Lemma run_stmt_recovered : forall ep s c, run_stmt true ep s = Some c -> c = Pf5xx.
Proof.
  intros ep s c H. unfold run_stmt in H. destruct (sd_query_err s); [congruence|].
  destruct (row_loop ep (pf_served s)); congruence.
Qed.

Lemma stmt_then : forall ep s n (k : pfclass * Z),
  pf_orderly (fst k) = true ->
  pf_orderly (fst (match run_stmt true ep s with Some c => (c, n) | None => k end)) = true.
Proof.
  intros ep s n k Hk. destruct (run_stmt true ep s) as [c|] eqn:E; [|exact Hk].
  apply run_stmt_recovered in E. subst c. reflexivity.
Qed.

(* for EVERY request and EVERY result set (NULL cells, short type ids, undecodable payloads, any tree rows) the handler
   ends in a 2xx, 4xx or 5xx response *)
Lemma prof_answered : forall q, pf_orderly (fst (prof_outcome q)) = true.
Proof.
  intro q. unfold prof_outcome, prof_outcome_gen.
  destruct (pf_ep q) eqn:Ep;
    try (destruct (negb (pf_body_ok q)); [reflexivity|];
         destruct (_ && negb (sel_ok (sd_sel (pf_left q)))); [reflexivity|];
         destruct (_ && negb (pf_type_ok q)); [reflexivity|];
         try reflexivity; apply stmt_then; reflexivity).
  - apply stmt_then. reflexivity.
  - reflexivity.
  - destruct (negb (pf_body_ok q)); [reflexivity|].
    destruct (negb (pf_types_equal q)); [reflexivity|].
    destruct (_ || _); [reflexivity|].
    destruct (negb (pf_type_ok q)); [reflexivity|].
    destruct (negb (sel_ok (sd_sel (pf_left q)))); [reflexivity|].
    apply stmt_then.
    destruct (negb (sel_ok (sd_sel (pf_right q)))); [reflexivity|].
    apply stmt_then.
    destruct (_ && _); reflexivity.
Qed.

(* without the deferred tamePanic (the code before 5950165) a stored type id with fewer than three parts leaves the
   client of ProfileTypes without a response *)
Definition short_type_request : pfreq :=
  mkPf EpProfileTypes true true true (mkSide PsOk [PrOk; PrShortType] (-1) false) (mkSide PsOk [] (-1) false) 0 0 0.
Lemma prof_recover_needed :
  fst (prof_outcome_gen false short_type_request) = PfAbort /\ fst (prof_outcome short_type_request) = Pf5xx.
Proof. split; reflexivity. Qed.

(* at most one statement per request, two for render-diff *)
Lemma stmt_count : forall ep s n (k : pfclass * Z) lo hi, lo <= n <= hi -> lo <= snd k <= hi ->
  lo <= snd (match run_stmt true ep s with Some c => (c, n) | None => k end) <= hi.
Proof. intros. destruct (run_stmt true ep s); assumption. Qed.

Lemma prof_statements_bounded : forall q,
  0 <= snd (prof_outcome q) <= (match pf_ep q with EpRenderDiff => 2 | _ => 1 end).
Proof.
  intro q. unfold prof_outcome, prof_outcome_gen.
  destruct (pf_ep q) eqn:Ep;
    try (destruct (negb (pf_body_ok q)); [cbn; lia|];
         destruct (_ && negb (sel_ok (sd_sel (pf_left q)))); [cbn; lia|];
         destruct (_ && negb (pf_type_ok q)); [cbn; lia|];
         try (cbn; lia); apply stmt_count; cbn; lia).
  - apply stmt_count; cbn; lia.
  - cbn; lia.
  - destruct (negb (pf_body_ok q)); [cbn; lia|].
    destruct (negb (pf_types_equal q)); [cbn; lia|].
    destruct (_ || _); [cbn; lia|].
    destruct (negb (pf_type_ok q)); [cbn; lia|].
    destruct (negb (sel_ok (sd_sel (pf_left q)))); [cbn; lia|].
    apply stmt_count; [lia|].
    destruct (negb (sel_ok (sd_sel (pf_right q)))); [cbn; lia|].
    apply stmt_count; [lia|].
    destruct (_ && _); cbn; lia.
Qed.

(* the window and int64(req.Step) -- ANY int64 when the double is NaN, infinite or beyond 2^63 -- only reach
   time.UnixMilli and the statement text: the outcome does not depend on them *)
Lemma prof_outcome_independent_of_step : forall q s, prof_outcome (with_step q s) = prof_outcome q.
Proof. intros q s. destruct q. reflexivity. Qed.
Lemma prof_outcome_independent_of_window : forall q a b, prof_outcome (with_window q a b) = prof_outcome q.
Proof. intros q a b. destruct q. reflexivity. Qed.

(* ------------------------------------------------------------------ Tree.BFS ends on every Nodes map
   for len(currentLevelNodes) > 0 { ... }: every level consists of ids met for the first time (the `reviewed` map) and
   every id is the id of a stored node, so there are at most count_nodes + 1 non-empty levels -- cycles, self loops and
   ids shared between parents included.  Stated as: the fuel bfs gives to bfs_loop is never used up. *)
Definition all_ids (ns : list (N * list tnode)) : list N := flat_map (fun e => map t_id (snd e)) ns.

Lemma all_ids_length : forall ns, length (all_ids ns) = count_list_nodes ns.
Proof.
  induction ns as [|[k cs] r IH]; [reflexivity|].
  unfold all_ids, count_list_nodes in *. cbn [flat_map fold_right snd]. rewrite app_length, map_length, IH. reflexivity.
Qed.

Lemma children_ids : forall ns p c, In c (children ns p) -> In (t_id c) (all_ids ns).
Proof.
  induction ns as [|[k cs] r IH]; intros p c H; [contradiction|].
  cbn [children] in H. unfold all_ids. cbn [flat_map snd]. apply in_or_app.
  destruct (N.eqb k p).
  - left. apply in_map. exact H.
  - right. exact (IH p c H).
Qed.

Lemma memN_false : forall x l, memN x l = false -> ~ In x l.
Proof.
  intros x l H Hin. unfold memN in H.
  assert (existsb (N.eqb x) l = true) as E by (apply existsb_exists; exists x; split; [exact Hin|apply N.eqb_refl]).
  congruence.
Qed.

(* the part of the state the termination argument looks at *)
Definition rev_ok (ids rv : list N) : Prop := NoDup rv /\ incl rv ids.

Lemma visit_children_inv : forall ids nm parent cs st st',
  (forall c, In c cs -> In (t_id c) ids) ->
  visit_children nm parent st cs = Some st' ->
  rev_ok ids (s_reviewed st) ->
  rev_ok ids (s_reviewed st') /\
  (length (s_reviewed st') + length (s_next st) = length (s_reviewed st) + length (s_next st'))%nat.
Proof.
  intros ids nm parent cs. induction cs as [|c cs IH]; intros st st' Hin H Hok.
  - cbn in H. injection H as <-. split; [exact Hok|reflexivity].
  - cbn [visit_children] in H. destruct (memN (t_id c) (s_reviewed st)) eqn:Em; [discriminate|].
    apply memN_false in Em.
    apply IH in H.
    + cbn [s_reviewed s_next] in H. destruct H as [H1 H2]. split; [exact H1|].
      rewrite app_length in H2. cbn [length] in H2. lia.
    + intros d Hd. apply Hin. right. exact Hd.
    + cbn [s_reviewed]. destruct Hok as [Hnd Hinc]. split.
      * constructor; assumption.
      * intros x [<-|Hx]; [apply Hin; left; reflexivity|apply Hinc; exact Hx].
Qed.

Lemma visit_parents_inv : forall t ps st st',
  visit_parents t st ps = Some st' ->
  rev_ok (all_ids (m_nodes t)) (s_reviewed st) ->
  rev_ok (all_ids (m_nodes t)) (s_reviewed st') /\
  (length (s_reviewed st') + length (s_next st) = length (s_reviewed st) + length (s_next st'))%nat.
Proof.
  intros t ps. induction ps as [|p ps IH]; intros st st' H Hok.
  - cbn in H. injection H as <-. split; [exact Hok|reflexivity].
  - cbn [visit_parents] in H. cbv zeta in H.
    destruct (children (m_nodes t) (t_id p)) as [|c cs] eqn:Ec.
    + apply IH in H; [|exact Hok]. exact H.
    + destruct (visit_children (m_namesmap t) (t_id p) _ (c :: cs)) as [st2|] eqn:Ev; [|discriminate].
      apply (visit_children_inv (all_ids (m_nodes t))) in Ev.
      * cbn [with_prepend s_reviewed s_next] in Ev. destruct Ev as [Ev1 Ev2].
        apply IH in H; [|exact Ev1]. cbn [with_prepend s_reviewed s_next] in H. destruct H as [H1 H2].
        split; [exact H1|lia].
      * intros d Hd. rewrite <- Ec in Hd. exact (children_ids _ _ _ Hd).
      * exact Hok.
Qed.

Lemma bfs_loop_fuel : forall t fuel k res current pm reviewed,
  rev_ok (all_ids (m_nodes t)) reviewed ->
  (current = [] \/ (count_nodes t + 1 <= fuel + length reviewed /\ 1 <= fuel))%nat ->
  bfs_loop (fuel + k) t res current pm reviewed = bfs_loop fuel t res current pm reviewed.
Proof.
  intros t fuel. induction fuel as [|f IH]; intros k res current pm reviewed Hok Hc.
  - destruct Hc as [->|[_ Hc]]; [|lia]. destruct k; reflexivity.
  - cbn [Nat.add bfs_loop]. destruct current as [|c0 cur]; [reflexivity|].
    destruct Hc as [Hc|[Hf _]]; [discriminate|].
    destruct (visit_parents t _ (c0 :: cur)) as [st|] eqn:Ev; [|reflexivity].
    apply visit_parents_inv in Ev; [|exact Hok]. cbn [s_reviewed s_next] in Ev. destruct Ev as [Ev1 Ev2].
    apply IH; [exact Ev1|].
    destruct (s_next st) as [|n0 nx] eqn:En; [left; reflexivity|right].
    cbn [length] in Ev2.
    assert (length (s_reviewed st) <= count_nodes t)%nat as Hb.
    { destruct Ev1 as [Hnd Hinc]. pose proof (NoDup_incl_length Hnd Hinc) as Hl.
      rewrite all_ids_length in Hl. exact Hl. }
    lia.
Qed.

(* Tree.BFS: more fuel changes nothing, whatever rows the tree was merged from *)
Lemma bfs_ends : forall t k,
  let total := total_of t in
  let root := {| t_fn := 0%N; t_id := 0%N; t_self := 0; t_total := total |} in
  bfs_loop (count_nodes t + 2 + k) t
           [[ {| b_off := 0; b_total := total; b_self := 0; b_name := 0; b_id := 0%N; b_parent := 0%N |} ]]
           [root] [] [] = bfs t.
Proof.
  intros t k total root. unfold bfs. fold total. fold root.
  apply bfs_loop_fuel.
  - split; [constructor|intros x Hx; contradiction].
  - right. cbn [length]. lia.
Qed.

(* ------------------------------------------------------------------ the walk of computeFlameGraphDiff *)
(* the loop of diff_bars IS the budgeted loop: its fuel is the budget of fix 3463224 *)
Lemma diff_walk_is_budgeted : forall t1 t2,
  diff_bars t1 t2 =
  let '(n1, n2) := merge_nodes (m_nodes t1) (m_nodes t2) in
  diff_loop (diff_budget n1) n1 n2 (diff_name t1 t2)
    [ {| q_l := {| t_fn := 0%N; t_id := 0%N; t_self := 0; t_total := total_of t1 |};
         q_r := {| t_fn := 0%N; t_id := 0%N; t_self := 0; t_total := total_of t2 |};
         q_xl := 0; q_xr := 0; q_level := O; q_parent := 0%N |} ]
    {| ds_names := []; ds_levels := []; ds_maxself := 0 |}.
Proof. intros t1 t2. reflexivity. Qed.

(* one stored row whose node is its own parent: (parent 0, function 1, id 0) *)
Definition selfloop_nodes : list (N * list tnode) := [(0%N, [ {| t_fn := 1%N; t_id := 0%N; t_self := 1; t_total := 5 |} ])].

Lemma selfloop_is_what_the_rows_give :
  m_nodes (merge_trie the_limit new_tree [trow 0 1 0 1 5] []) = selfloop_nodes /\
  merge_nodes selfloop_nodes selfloop_nodes = (selfloop_nodes, selfloop_nodes).
Proof. split; reflexivity. Qed.

(* without the budget the queue never empties: after any number of iterations one item is waiting *)
Lemma selfloop_walk_never_ends : forall fuel it,
  t_id (q_l it) = 0%N -> t_id (q_r it) = 0%N ->
  exists it', walk_queue fuel selfloop_nodes selfloop_nodes [it] = [it'] /\ t_id (q_l it') = 0%N /\ t_id (q_r it') = 0%N.
Proof.
  induction fuel as [|f IH]; intros it Hl Hr.
  - exists it. cbn. auto.
  - cbn [walk_queue]. rewrite Hl, Hr. cbn [selfloop_nodes children N.eqb app pair_up hd tl rev enqueue].
    apply IH; reflexivity.
Qed.

(* with it, the walk over ANY two Nodes maps makes at most diff_budget iterations (fuel of a structural recursion) and
   the answer is what diff_bars computes; on the self loop it stops after 4 bars *)
Lemma selfloop_walk_budgeted :
  let t := merge_trie the_limit new_tree [trow 0 1 0 1 5] [] in
  diff_budget selfloop_nodes = 4%nat /\ length (ds_levels (diff_bars t t)) = 4%nat.
Proof. split; reflexivity. Qed.
