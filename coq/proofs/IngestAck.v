(* C01: every event trace of the global ingest model is accepted by the acknowledgement monitor.
   Simulation invariant GA between the system state and the monitor state, one preservation lemma per kind of
   step, induction over the action list. *)
From Coq Require Import List NArith ZArith Bool Lia Arith.
From Qryn Require Import model.Ingest model.PushHandler model.IngestSpec proofs.IngestBase.
Import ListNotations.

(* ---------------------------------------------------------------- handlers only ever grow *)
Definition sub_has (H : list handler) (h i : nat) (k : kind) (r : req) : Prop :=
  exists hd sp, nth_error H h = Some hd /\ nth_error (h_subs hd) i = Some sp /\ sp_kind sp = k /\ sp_req sp = r.
Definition pid_ok (H : list handler) (p : pid) (k : kind) (r : req) : Prop :=
  match p with PEnv _ => True | PSub h i _ => sub_has H h i k r end.
Definition subs_ext (l l' : list subpush) : Prop :=
  forall i sp, nth_error l i = Some sp ->
    exists sp', nth_error l' i = Some sp' /\ sp_kind sp' = sp_kind sp /\ sp_req sp' = sp_req sp.
Definition hs_ext (H H' : list handler) : Prop :=
  forall h i k r, sub_has H h i k r -> sub_has H' h i k r.

Lemma pid_ok_ext H H' p k r : hs_ext H H' -> pid_ok H p k r -> pid_ok H' p k r.
Proof. intros E. destruct p; cbn; auto. Qed.

Lemma subs_ext_refl l : subs_ext l l.
Proof. intros i sp H. eauto. Qed.
Lemma subs_ext_app l l2 : subs_ext l (l ++ l2).
Proof.
  intros i sp H. exists sp. split; [|auto]. rewrite nth_error_app1; [assumption|].
  eapply nth_error_some_lt; eauto.
Qed.
Lemma subs_ext_upd l i sp sp' :
  nth_error l i = Some sp -> sp_kind sp' = sp_kind sp -> sp_req sp' = sp_req sp -> subs_ext l (upd i sp' l).
Proof.
  intros Hi Hk Hr j x Hj. destruct (Nat.eq_dec i j) as [->|Hne].
  - exists sp'. rewrite nth_error_upd_same by (eapply nth_error_some_lt; eauto).
    rewrite Hi in Hj. inversion Hj; subst. auto.
  - exists x. rewrite nth_error_upd_other by assumption. auto.
Qed.

Lemma hs_ext_upd H h hd hd' :
  nth_error H h = Some hd -> subs_ext (h_subs hd) (h_subs hd') -> hs_ext H (upd h hd' H).
Proof.
  intros Hh E h0 i k r (hd0 & sp & H1 & H2 & H3 & H4). destruct (Nat.eq_dec h h0) as [->|Hne].
  - rewrite Hh in H1. inversion H1; subst hd0. destruct (E _ _ H2) as (sp' & Hs & Hk & Hr).
    exists hd', sp'. rewrite nth_error_upd_same by (eapply nth_error_some_lt; eauto).
    repeat split; auto; congruence.
  - exists hd0, sp. rewrite nth_error_upd_other by assumption. auto.
Qed.
Lemma hs_ext_app H l : hs_ext H (H ++ l).
Proof.
  intros h i k r (hd & sp & H1 & H2). exists hd, sp. split; [|assumption].
  rewrite nth_error_app1; [assumption|]. eapply nth_error_some_lt; eauto.
Qed.
Lemma hs_ext_refl H : hs_ext H H.
Proof. intros h i k r X; exact X. Qed.

Section ACK.
Variable strict : bool.

Notation cov := (covered strict).
Notation mstep := (amon_step strict).

(* ---------------------------------------------------------------- local invariant of one worker *)
Definition res_ok (k : kind) (c : block) (l : list (pid * req)) : Prop :=
  forall p r, In (p, r) l -> exists r', eff k r = Some r' /\ cells_subb r' c = true.

Definition AR (sv : svc) (ib : option block) : Prop :=
  length (cols sv) = ncols (kd sv) /\
  res_ok (kd sv) (cols sv) (results sv) /\
  match inflight sv with
  | None => True
  | Some po => (p_sent po = true -> ib = Some (p_cols po)) /\ res_ok (kd sv) (p_cols po) (p_res po)
  end.

Definition svc_pids_ok (H : list handler) (sv : svc) : Prop :=
  (forall p r, In (p, r) (results sv) -> pid_ok H p (kd sv) r) /\
  (forall po, inflight sv = Some po -> forall p r, In (p, r) (p_res po) -> pid_ok H p (kd sv) r).

Record GA (g : gstate) (m : amon) : Prop := {
  ga_svcs : Forall2 AR (svcs g) (a_infl m);
  ga_store : forall p k r, In (p, (k, r, true)) (store g) -> cov (a_acked m) k r = true;
  ga_pids_store : forall p k r ok, In (p, (k, r, ok)) (store g) -> pid_ok (hs g) p k r;
  ga_pids_svcs : Forall (svc_pids_ok (hs g)) (svcs g);
  ga_subs_true : forall h hd i sp, nth_error (hs g) h = Some hd -> nth_error (h_subs hd) i = Some sp ->
                   sp_result sp = Some true -> cov (a_acked m) (sp_kind sp) (sp_req sp) = true;
  ga_subs_ok : forall h hd i sp, nth_error (hs g) h = Some hd -> nth_error (h_subs hd) i = Some sp ->
                   ok_req strict (sp_kind sp) (sp_req sp) = true;
  ga_items_ok : forall h hd, nth_error (hs g) h = Some hd -> Forall (fun it => item_ok strict it = true) (h_items hd)
}.

Lemma cov_mono acked b k r : cov acked k r = true -> cov (b :: acked) k r = true.
Proof.
  rewrite !covered_unfold. destruct (eff k r) as [r'|]; [|auto]. intros H.
  apply orb_true_iff in H as [H|H]; apply orb_true_iff; [left; assumption|right].
  cbn. rewrite H. apply orb_true_r.
Qed.
Lemma cov_mono_if acked b (ok : bool) k r :
  cov acked k r = true -> cov (if ok then b :: acked else acked) k r = true.
Proof. destruct ok; auto using cov_mono. Qed.

Lemma res_ok_zip k c l e : res_ok k c l -> res_ok k (zip_app c e) l.
Proof.
  intros H p r Hin. destruct (H p r Hin) as (r' & E & S). exists r'. split; [assumption|].
  now apply cells_subb_zip_mono.
Qed.

(* a burst of Promise.Done calls with one outcome: the monitor accepts every resulting EResolve when, for a
   successful outcome, each request is covered; the store only gains entries of that burst *)
Lemma apply_dones s k (ok : bool) m l :
  (ok = true -> forall p r, In (p, r) l -> cov (a_acked m) k r = true) ->
  forall st, exists st' es,
    apply_sevs s k st (map (fun pr => VDone (fst pr) (snd pr) ok) l) = (st', es) /\
    run_mon mstep m es = Some m /\
    (forall p k' r' ok', In (p, (k', r', ok')) st' ->
       In (p, (k', r', ok')) st \/ (k' = k /\ ok' = ok /\ In (p, r') l)).
Proof.
  intros Hcov. induction l as [|[p r] l IH]; intros st.
  - exists st, []. cbn. auto.
  - assert (Hcov' : ok = true -> forall p r, In (p, r) l -> cov (a_acked m) k r = true).
    { intros E q x Hin. apply (Hcov E q x). right; assumption. }
    specialize (IH Hcov'). cbn [map apply_sevs fst snd].
    destruct (in_store p st).
    + destruct (IH st) as (st' & es & E & R & I). exists st', es. split; [assumption|]. split; [assumption|].
      intros q k' r' ok' Hin. destruct (I _ _ _ _ Hin) as [X|(X1 & X2 & X3)]; [left; assumption|].
      right. repeat split; auto. right; assumption.
    + destruct (IH ((p, (k, r, ok)) :: st)) as (st' & es & E & R & I). rewrite E.
      exists st', (EResolve p k r ok :: es). split; [reflexivity|]. split.
      * cbn [run_mon]. assert (S : mstep m (EResolve p k r ok) = Some m).
        { destruct ok; cbn; [|reflexivity]. rewrite (Hcov eq_refl p r (or_introl eq_refl)). reflexivity. }
        rewrite S. exact R.
      * intros q k' r' ok' Hin. destruct (I _ _ _ _ Hin) as [X|(X1 & X2 & X3)].
        -- destruct X as [X|X]; [|left; assumption]. inversion X; subst. right. repeat split; auto. left; reflexivity.
        -- right. repeat split; auto. right; assumption.
Qed.

Lemma AR_flags sv sv' ib :
  kd sv' = kd sv -> cols sv' = cols sv -> results sv' = results sv -> inflight sv' = inflight sv ->
  AR sv ib -> AR sv' ib.
Proof. unfold AR. intros -> -> -> ->. auto. Qed.
Lemma pids_flags H sv sv' :
  kd sv' = kd sv -> results sv' = results sv -> inflight sv' = inflight sv ->
  svc_pids_ok H sv -> svc_pids_ok H sv'.
Proof. unfold svc_pids_ok. intros -> -> ->. auto. Qed.

Lemma run_mon_app {M} (step : M -> event -> option M) m es1 es2 :
  run_mon step m (es1 ++ es2) = match run_mon step m es1 with None => None | Some m' => run_mon step m' es2 end.
Proof. revert m; induction es1 as [|e es1 IH]; intros m; cbn; [reflexivity|]. destruct (step m e); auto. Qed.

(* the state after a step that only changed worker s (to sv') and the store *)
Definition with_svc (g : gstate) (s : nat) (sv' : svc) (st' : list (pid * (kind * req * bool))) : gstate :=
  set_svcs g (upd s sv' (svcs g)) st'.

(* flag-only steps of a worker *)
Lemma GA_flag_step g m s sv sv' :
  GA g m -> nth_error (svcs g) s = Some sv ->
  kd sv' = kd sv -> cols sv' = cols sv -> results sv' = results sv -> inflight sv' = inflight sv ->
  GA (with_svc g s sv' (store g)) m.
Proof.
  intros G Hs Hk Hc Hr Hi. destruct G as [G1 G2 G3 G4 G5 G6 G7].
  destruct (Forall2_nth_error_l _ _ _ _ _ G1 Hs) as (ib & Hib & Har).
  constructor; cbn; auto.
  - eapply Forall2_upd_l; eauto. eapply AR_flags; eauto.
  - apply Forall_upd; [assumption|]. eapply pids_flags; eauto. eapply Forall_nth_error; eauto.
Qed.

(* ---------------------------------------------------------------- one worker step inside the system *)
Lemma svc_act_GA g m s a g' es :
  GA g m -> svc_act g s a = Some (g', es) ->
  (forall p r sz sv, a = SRequest p r sz -> nth_error (svcs g) s = Some sv ->
      ok_req strict (kd sv) r = true /\ pid_ok (hs g) p (kd sv) r) ->
  exists m', run_mon mstep m es = Some m' /\ GA g' m' /\ hs g' = hs g /\ attempts g' = attempts g.
Proof.
  intros G Hact Hside. unfold svc_act in Hact.
  destruct (nth_error (svcs g) s) as [sv|] eqn:Hs; [|discriminate].
  destruct (sstep sv a) as [[sv' vs]|] eqn:Hstep; [|discriminate].
  destruct (apply_sevs s (kd sv) (store g) vs) as [st' es0] eqn:Hap.
  inversion Hact; subst g' es; clear Hact.
  pose proof G as [G1 G2 G3 G4 G5 G6 G7].
  destruct (Forall2_nth_error_l _ _ _ _ _ G1 Hs) as (ib & Hib & Har).
  pose proof (Forall_nth_error _ _ _ _ G4 Hs) as Hpids.
  destruct a as [p r sz| |ok| | |ok| |]; cbn in Hstep.
  - (* SRequest *)
    destruct (Hside p r sz sv eq_refl eq_refl) as [Hok Hpid].
    destruct (running sv) eqn:Hrun; cbn in Hstep.
    + destruct (eff (kd sv) r) as [r'|] eqn:Heff; [|discriminate].
      pose proof (length_eff _ _ _ Heff) as Hlen.
      destruct Har as (A0 & A1 & A2).
      destruct (Nat.eqb (length (nth (keycol (kd sv)) r' [])) 0) eqn:Hkey.
      * (* nothing inserted: immediate success *)
        inversion Hstep; subst sv' vs; clear Hstep. cbn in Hap.
        assert (Hcov : cov (a_acked m) (kd sv) r = true).
        { rewrite covered_unfold. rewrite Heff. unfold ok_req in Hok. rewrite Heff in Hok.
          assert (Hke : key_empty (kd sv) r' = true).
          { unfold key_empty. apply Nat.eqb_eq in Hkey. destruct (nth (keycol (kd sv)) r' []); [reflexivity|discriminate]. }
          rewrite Hke in Hok. cbn in Hok. rewrite Hok. reflexivity. }
        assert (HAR : AR (set_cols sv (zip_app (cols sv) r')) ib).
        { unfold AR; cbn [cols kd results inflight set_cols p_cols p_res]. split; [rewrite length_zip_block; assumption|]. split; [apply res_ok_zip; assumption|].
          exact A2. }
        assert (HP : svc_pids_ok (hs g) (set_cols sv (zip_app (cols sv) r'))).
        { eapply pids_flags; eauto. }
        destruct (in_store p (store g)) eqn:Hin; inversion Hap; subst st' es0; clear Hap.
        -- exists m. split; [reflexivity|]. split; [|auto]. constructor; cbn; auto.
           ++ eapply Forall2_upd_l; eauto.
           ++ apply Forall_upd; assumption.
        -- exists m. split; [cbn; rewrite Hcov; reflexivity|]. split; [|auto]. constructor; cbn; auto.
           ++ eapply Forall2_upd_l; eauto.
           ++ intros q k0 r0 [X|X]; [inversion X; subst; assumption|eauto].
           ++ intros q k0 r0 ok0 [X|X]; [inversion X; subst; assumption|eauto].
           ++ apply Forall_upd; assumption.
      * (* accepted into the open batch *)
        inversion Hstep; subst sv' vs; clear Hstep. cbn in Hap. inversion Hap; subst st' es0; clear Hap.
        exists m. split; [reflexivity|]. split; [|auto]. constructor; cbn; auto.
        -- eapply Forall2_upd_l; eauto. unfold AR; cbn [cols kd results inflight set_cols p_cols p_res].
           split; [rewrite length_zip_block; assumption|]. split; [|exact A2].
           intros q x Hin. apply in_app_iff in Hin as [Hin|[Hin|[]]].
           ++ apply res_ok_zip with (e := r') in A1. exact (A1 q x Hin).
           ++ inversion Hin; subst q x. exists r'. split; [assumption|]. apply cells_subb_zip_self. unfold req, block, col in *. lia.
        -- apply Forall_upd; [assumption|]. destruct Hpids as [P1 P2]. split; cbn; [|exact P2].
           intros q x Hin. apply in_app_iff in Hin as [Hin|[Hin|[]]]; [eauto|]. inversion Hin; subst; assumption.
    + (* service stopped *)
      inversion Hstep; subst sv' vs; clear Hstep. cbn in Hap.
      destruct (in_store p (store g)) eqn:Hin; inversion Hap; subst st' es0; clear Hap.
      * exists m. split; [reflexivity|]. split; [|auto]. unfold set_svcs. rewrite (upd_same_id _ _ _ Hs).
        constructor; cbn; auto.
      * exists m. split; [reflexivity|]. split; [|auto]. unfold set_svcs. rewrite (upd_same_id _ _ _ Hs).
        constructor; cbn; auto.
        -- intros q k0 r0 [X|X]; [inversion X|eauto].
        -- intros q k0 r0 ok0 [X|X]; [inversion X; subst; assumption|eauto].
  - (* SPlan *)
    inversion Hstep; subst sv' vs; clear Hstep. cbn in Hap. inversion Hap; subst st' es0; clear Hap.
    exists m. split; [reflexivity|]. split; [|auto]. eapply GA_flag_step; eauto.
  - (* SDial *)
    destruct (loop_ready sv && negb (client sv)); [|discriminate].
    inversion Hstep; subst sv' vs; clear Hstep. cbn in Hap. inversion Hap; subst st' es0; clear Hap.
    exists m. split; [reflexivity|]. split; [|auto]. eapply GA_flag_step; eauto.
  - (* SSwap *)
    destruct (loop_ready sv && client sv) eqn:Hready; [|discriminate].
    destruct (is_nil (results sv)).
    + inversion Hstep; subst sv' vs; clear Hstep. cbn in Hap. inversion Hap; subst st' es0; clear Hap.
      exists m. split; [reflexivity|]. split; [|auto]. eapply GA_flag_step; eauto.
    + inversion Hstep; subst sv' vs; clear Hstep. cbn in Hap. inversion Hap; subst st' es0; clear Hap.
      exists m. split; [reflexivity|]. split; [|auto].
      destruct Har as (A0 & A1 & A2). destruct Hpids as [P1 P2].
      constructor; cbn; auto.
      * eapply Forall2_upd_l; eauto. unfold AR; cbn [cols kd results inflight set_cols p_cols p_res p_sent].
        split; [apply length_empty_cols|]. split; [intros ? ? []|]. split; [discriminate|assumption].
      * apply Forall_upd; [assumption|]. split; cbn; [intros ? ? []|].
        intros po Hpo. inversion Hpo; subst po. cbn. exact P1.
  - (* SSend *)
    destruct (inflight sv) as [po|] eqn:Hinf; [|discriminate].
    destruct (p_sent po) eqn:Hsent; [discriminate|].
    inversion Hstep; subst sv' vs; clear Hstep. cbn in Hap. inversion Hap; subst st' es0; clear Hap.
    cbn [app run_mon amon_step]. rewrite Hib.
    eexists. split; [reflexivity|]. split; [|auto].
    destruct Har as (A0 & A1 & A2). rewrite Hinf in A2. destruct A2 as [_ A2]. destruct Hpids as [P1 P2].
    constructor; cbn; auto.
    + apply Forall2_upd; [assumption|]. unfold AR; cbn [cols kd results inflight set_cols p_cols p_res p_sent].
      split; [assumption|]. split; [assumption|]. split; [reflexivity|assumption].
    + apply Forall_upd; [assumption|]. split; cbn; [assumption|].
      intros po' Hpo. inversion Hpo; subst po'. cbn. eapply P2; eauto.
  - (* SDoReturn *)
    destruct (inflight sv) as [po|] eqn:Hinf; [|discriminate].
    destruct (p_sent po) eqn:Hsent; [|discriminate]. cbn [negb] in Hstep.
    inversion Hstep; subst sv' vs; clear Hstep.
    destruct Har as (A0 & A1 & A2). rewrite Hinf in A2. destruct A2 as [Eib A2]. specialize (Eib Hsent). subst ib.
    cbn [apply_sevs] in Hap.
    set (m1 := {| a_infl := upd s None (a_infl m);
                  a_acked := if ok then p_cols po :: a_acked m else a_acked m |}).
    assert (Hcovl : ok = true -> forall p r, In (p, r) (p_res po) -> cov (a_acked m1) (kd sv) r = true).
    { intros -> p r Hin. destruct (A2 p r Hin) as (r' & E & S). rewrite covered_unfold. rewrite E. cbn.
      rewrite S. cbn. apply orb_true_r. }
    destruct (apply_dones s (kd sv) ok m1 (p_res po) Hcovl (store g)) as (st1 & es1 & E1 & R1 & I1).
    rewrite E1 in Hap. inversion Hap; subst st' es0; clear Hap.
    exists m1. split.
    { cbn [app run_mon amon_step]. rewrite Hib. exact R1. }
    split; [|auto]. destruct Hpids as [P1 P2].
    constructor; cbn; auto.
    + apply Forall2_upd; [assumption|]. unfold AR; cbn [cols kd results inflight set_cols p_cols p_res]. auto.
    + intros q k0 r0 Hin. destruct (I1 _ _ _ _ Hin) as [X|(X1 & X2 & X3)].
      * apply cov_mono_if. eauto.
      * subst k0. apply (Hcovl (eq_sym X2) q r0 X3).
    + intros q k0 r0 ok0 Hin. destruct (I1 _ _ _ _ Hin) as [X|(X1 & X2 & X3)]; [eauto|]. subst k0. eapply P2; eauto.
    + apply Forall_upd; [assumption|]. split; cbn; [assumption|discriminate].
    + intros h hd i sp H1 H2 H3. apply cov_mono_if. eauto.
  - (* SPingFail *)
    destruct (is_none (inflight sv)); [|discriminate].
    inversion Hstep; subst sv' vs; clear Hstep. cbn in Hap. inversion Hap; subst st' es0; clear Hap.
    exists m. split; [reflexivity|]. split; [|auto]. eapply GA_flag_step; eauto.
  - (* SStop *)
    inversion Hstep; subst sv' vs; clear Hstep. cbn in Hap. inversion Hap; subst st' es0; clear Hap.
    exists m. split; [reflexivity|]. split; [|auto]. eapply GA_flag_step; eauto.
Qed.

(* ---------------------------------------------------------------- handler bookkeeping *)
Lemma lookup_store_in p st v : lookup_store p st = Some v -> In (p, v) st.
Proof.
  induction st as [|[q w] st IH]; cbn; [discriminate|].
  destruct (pid_eqb p q) eqn:E.
  - apply pid_eqb_eq in E. subst q. intros H; inversion H; subst. left; reflexivity.
  - intros H. right. auto.
Qed.

Lemma verdict_true l : verdict l = Some true -> forall sp, In sp l -> sp_result sp = Some true.
Proof.
  induction l as [|x l IH]; cbn; [intros _ ? []|].
  destruct (sp_result x) as [[|]|] eqn:E; try discriminate.
  intros H sp [<-|Hin]; auto.
Qed.

(* replacing handler h by hd' whose sub-pushes extend the old ones *)
Lemma GA_set_handler g m h hd hd' :
  GA g m -> nth_error (hs g) h = Some hd ->
  subs_ext (h_subs hd) (h_subs hd') ->
  (forall i sp, nth_error (h_subs hd') i = Some sp ->
      ok_req strict (sp_kind sp) (sp_req sp) = true /\
      (sp_result sp = Some true -> cov (a_acked m) (sp_kind sp) (sp_req sp) = true)) ->
  Forall (fun it => item_ok strict it = true) (h_items hd') ->
  GA (set_hs g (upd h hd' (hs g))) m.
Proof.
  intros [G1 G2 G3 G4 G5 G6 G7] Hh Hext Hsubs Hitems.
  pose proof (hs_ext_upd _ _ _ hd' Hh Hext) as E.
  assert (Hlt : (h < length (hs g))%nat) by (eapply nth_error_some_lt; eauto).
  constructor; cbn; auto.
  - intros p k r ok Hin. eapply pid_ok_ext; eauto.
  - eapply Forall_impl; [|exact G4]. intros sv [P1 P2]. split.
    + intros p r Hin. eapply pid_ok_ext; eauto.
    + intros po Hpo p r Hin. eapply pid_ok_ext; eauto.
  - intros h0 hd0 i sp H1 H2 H3. destruct (Nat.eq_dec h h0) as [->|Hne].
    + rewrite nth_error_upd_same in H1 by assumption. inversion H1; subst hd0.
      destruct (Hsubs _ _ H2) as [_ X]. auto.
    + rewrite nth_error_upd_other in H1 by assumption. eauto.
  - intros h0 hd0 i sp H1 H2. destruct (Nat.eq_dec h h0) as [->|Hne].
    + rewrite nth_error_upd_same in H1 by assumption. inversion H1; subst hd0.
      destruct (Hsubs _ _ H2) as [X _]. auto.
    + rewrite nth_error_upd_other in H1 by assumption. eauto.
  - intros h0 hd0 H1. destruct (Nat.eq_dec h h0) as [->|Hne].
    + rewrite nth_error_upd_same in H1 by assumption. inversion H1; subst hd0. assumption.
    + rewrite nth_error_upd_other in H1 by assumption. eauto.
Qed.

Lemma nth_error_upd_cases {A} (l : list A) i j x y :
  nth_error (upd i x l) j = Some y -> (i = j /\ y = x) \/ (i <> j /\ nth_error l j = Some y).
Proof.
  intros H. destruct (Nat.eq_dec i j) as [->|Hne].
  - left. split; [reflexivity|].
    destruct (nth_error l j) eqn:E.
    + rewrite nth_error_upd_same in H by (eapply nth_error_some_lt; eauto). congruence.
    + assert (L : (length l <= j)%nat) by (apply nth_error_None; assumption).
      assert (N : nth_error (upd j x l) j = None) by (apply nth_error_None; rewrite length_upd; assumption).
      congruence.
  - right. rewrite nth_error_upd_other in H by assumption. auto.
Qed.

(* ---------------------------------------------------------------- every step of the system *)
Lemma gstep_GA g m a g' es :
  GA g m -> act_ok strict a = true -> gstep g a = Some (g', es) ->
  exists m', run_mon mstep m es = Some m' /\ GA g' m'.
Proof.
  intros G Hok Hstep. destruct a as [s a|s k n r sz|items|h|h i s|h i|h]; cbn in Hstep.
  - (* GSvc *)
    destruct (is_request a) eqn:Hreq; [discriminate|].
    destruct (svc_act_GA g m s a g' es G Hstep) as (m' & R & G' & _).
    + intros p r sz sv E. subst a. discriminate.
    + eauto.
  - (* GEnvReq *)
    destruct (nth_error (svcs g) s) as [sv|] eqn:Hs; [|discriminate].
    destruct (kind_eqb (kd sv) k && rr_pick_ok g s) eqn:Hk; [|discriminate]. apply andb_true_iff in Hk as [Hk _]. apply kind_eqb_eq in Hk. subst k.
    destruct (svc_act_GA g m s _ g' es G Hstep) as (m' & R & G' & _).
    + intros p r0 sz0 sv0 E Hs0. inversion E; subst. rewrite Hs in Hs0. inversion Hs0; subst sv0.
      split; [exact Hok|exact I].
    + eauto.
  - (* GNewHandler *)
    inversion Hstep; subst g' es; clear Hstep. exists m. split; [reflexivity|].
    destruct G as [G1 G2 G3 G4 G5 G6 G7].
    pose proof (hs_ext_app (hs g) [{| h_items := items; h_subs := []; h_answer := None |}]) as E.
    assert (Hnew : forall h hd, nth_error (hs g ++ [{| h_items := items; h_subs := []; h_answer := None |}]) h = Some hd ->
                     nth_error (hs g) h = Some hd \/ hd = {| h_items := items; h_subs := []; h_answer := None |}).
    { intros h hd H. destruct (Nat.lt_ge_cases h (length (hs g))) as [L|L].
      - rewrite nth_error_app1 in H by assumption. auto.
      - rewrite nth_error_app2 in H by assumption. right.
        destruct (h - length (hs g))%nat as [|[|?]]; cbn in H; congruence. }
    constructor; cbn; auto.
    + intros p k r ok Hin. eapply pid_ok_ext; eauto.
    + eapply Forall_impl; [|exact G4]. intros sv [P1 P2]. split.
      * intros p r Hin. eapply pid_ok_ext; eauto.
      * intros po Hpo p r Hin. eapply pid_ok_ext; eauto.
    + intros h hd i sp H1 H2 H3. destruct (Hnew _ _ H1) as [X|X]; [eauto|]. subst hd. destruct i; discriminate.
    + intros h hd i sp H1 H2. destruct (Hnew _ _ H1) as [X|X]; [eauto|]. subst hd. destruct i; discriminate.
    + intros h hd H1. destruct (Hnew _ _ H1) as [X|X]; [eauto|]. subst hd. cbn.
      cbn in Hok. rewrite forallb_forall in Hok. apply Forall_forall. auto.
  - (* GItem *)
    destruct (nth_error (hs g) h) as [hd|] eqn:Hh; [|discriminate].
    pose proof (ga_items_ok _ _ G _ _ Hh) as Hit.
    destruct (h_items hd) as [|[c|] rest] eqn:Hitems; [discriminate| |].
    + (* a chunk: its sub-pushes are launched *)
      inversion Hstep; subst g' es; clear Hstep. exists m. split; [reflexivity|].
      inversion Hit as [|? ? Hc Hrest]; subst.
      apply GA_set_handler with (hd := hd); cbn [h_subs h_items h_answer]; [assumption|assumption| | |assumption].
      * apply subs_ext_app.
      * intros i sp Hi. destruct (Nat.lt_ge_cases i (length (h_subs hd))) as [L|L].
        -- rewrite nth_error_app1 in Hi by assumption. split.
           ++ eapply ga_subs_ok; eauto.
           ++ eapply ga_subs_true; eauto.
        -- rewrite nth_error_app2 in Hi by assumption. apply nth_error_In in Hi.
           apply in_map_iff in Hi as ([[[s0 k0] r0] sz0] & Hmk & Hin). subst sp. cbn.
           cbn in Hc. rewrite forallb_forall in Hc. specialize (Hc _ Hin). cbn in Hc.
           split; [assumption|]. destruct (N.eqb (attempts g) 0); discriminate.
    + (* a parser error *)
      inversion Hit as [|? ? _ Hrest]; subst.
      destruct (h_answer hd) eqn:Hans; inversion Hstep; subst g' es; clear Hstep.
      * exists m. split; [reflexivity|].
        apply GA_set_handler with (hd := hd); cbn [h_subs h_items h_answer]; [assumption|assumption| | |constructor].
        -- apply subs_ext_refl.
        -- intros i sp Hi. split; [eapply ga_subs_ok; eauto|eapply ga_subs_true; eauto].
      * exists m. split; [reflexivity|].
        apply GA_set_handler with (hd := hd); cbn [h_subs h_items h_answer]; [assumption|assumption| | |constructor].
        -- apply subs_ext_refl.
        -- intros i sp Hi. split; [eapply ga_subs_ok; eauto|eapply ga_subs_true; eauto].
  - (* GSubReq *)
    destruct (nth_error (hs g) h) as [hd|] eqn:Hh; [|discriminate].
    destruct (nth_error (h_subs hd) i) as [sp|] eqn:Hi; [|discriminate].
    destruct (is_none (sp_result sp) && is_none (sp_cur sp) && N.ltb (sp_used sp) (attempts g) && may_take g s sp) eqn:Hg;
      [|discriminate].
    apply andb_true_iff in Hg as [Hg Htake].
    destruct (svc_act g s (SRequest (PSub h i (sp_used sp)) (sp_req sp) (sp_sz sp))) as [[g1 es1]|] eqn:Hact; [|discriminate].
    inversion Hstep; subst g' es; clear Hstep.
    destruct (svc_act_GA g m s _ g1 es1 G Hact) as (m' & R & G1 & Hhs & _).
    + intros p r sz sv E Hs. inversion E; subst p r sz. pose proof (may_take_kind _ _ _ _ Htake Hs) as Hk. rewrite Hk.
      split; [eapply ga_subs_ok; eauto|]. cbn. exists hd, sp. auto.
    + exists m'. split; [assumption|]. rewrite Hhs.
      assert (Hh1 : nth_error (hs g1) h = Some hd) by (rewrite Hhs; assumption).
      rewrite <- Hhs. apply GA_set_handler with (hd := hd); cbn [h_subs h_items h_answer]; [assumption|assumption| | |].
      * eapply subs_ext_upd; eauto.
      * intros j x Hj. apply nth_error_upd_cases in Hj as [[-> ->]|[Hne Hj]]; cbn.
        -- split; [eapply (ga_subs_ok _ _ G); eauto|discriminate].
        -- split; [eapply (ga_subs_ok _ _ G1); eauto|eapply (ga_subs_true _ _ G1); eauto].
      * eapply (ga_items_ok _ _ G1); eauto.
  - (* GSubGet *)
    destruct (nth_error (hs g) h) as [hd|] eqn:Hh; [|discriminate].
    destruct (nth_error (h_subs hd) i) as [sp|] eqn:Hi; [|discriminate].
    destruct (sp_cur sp) as [k|] eqn:Hcur; [|discriminate].
    destruct (lookup_store (PSub h i k) (store g)) as [[[k0 r0] ok]|] eqn:Hl; [|discriminate].
    inversion Hstep; subst g' es; clear Hstep. exists m. split; [reflexivity|].
    apply lookup_store_in in Hl.
    pose proof (ga_pids_store _ _ G _ _ _ _ Hl) as Hp. cbn in Hp.
    destruct Hp as (hd1 & sp1 & Hh1 & Hi1 & Hk1 & Hr1).
    rewrite Hh in Hh1. inversion Hh1; subst hd1. rewrite Hi in Hi1. inversion Hi1; subst sp1.
    apply GA_set_handler with (hd := hd); cbn [h_subs h_items h_answer]; [assumption|assumption| | |].
    + eapply subs_ext_upd; eauto.
    + intros j x Hj. apply nth_error_upd_cases in Hj as [[-> ->]|[Hne Hj]]; cbn.
      * split; [eapply ga_subs_ok; eauto|]. intros Hres. destruct ok.
        -- rewrite Hk1, Hr1. eapply ga_store; eauto.
        -- destruct (N.ltb (sp_used sp) (attempts g)); discriminate.
      * split; [eapply ga_subs_ok; eauto|eapply ga_subs_true; eauto].
    + eapply ga_items_ok; eauto.
  - (* GAnswer *)
    destruct (nth_error (hs g) h) as [hd|] eqn:Hh; [|discriminate].
    destruct (h_items hd) eqn:Hitems; [|discriminate].
    destruct (h_answer hd) eqn:Hans; [discriminate|].
    destruct (verdict (h_subs hd)) as [ok|] eqn:Hv; [|discriminate].
    inversion Hstep; subst g' es; clear Hstep.
    assert (Hmon : mstep m (EAnswer h (reqs_of (h_subs hd)) ok) = Some m).
    { destruct ok; [|reflexivity]. cbn.
      assert (F : forallb (fun kr => cov (a_acked m) (fst kr) (snd kr)) (reqs_of (h_subs hd)) = true).
      { apply forallb_forall. intros [k r] Hin. unfold reqs_of in Hin. apply in_map_iff in Hin as (sp & E & Hin).
        inversion E; subst k r. cbn. apply In_nth_error in Hin as (i & Hi).
        eapply ga_subs_true; eauto. eapply verdict_true; eauto. eapply nth_error_In; eauto. }
      rewrite F. reflexivity. }
    exists m. split; [cbn [run_mon]; rewrite Hmon; reflexivity|].
    apply GA_set_handler with (hd := hd); cbn [h_subs h_items h_answer]; [assumption|assumption| | |constructor].
    + apply subs_ext_refl.
    + intros i sp Hi. split; [eapply ga_subs_ok; eauto|eapply ga_subs_true; eauto].
Qed.

Lemma grun_GA tr : forall g m g' es,
  GA g m -> forallb (act_ok strict) tr = true -> grun g tr = Some (g', es) ->
  exists m', run_mon mstep m es = Some m' /\ GA g' m'.
Proof.
  induction tr as [|a tr IH]; intros g m g' es G Hok Hrun; cbn in Hrun.
  - inversion Hrun; subst. exists m. split; [reflexivity|assumption].
  - cbn in Hok. apply andb_true_iff in Hok as [Ha Htr].
    destruct (gstep g a) as [[g1 e1]|] eqn:Es; [|discriminate].
    destruct (grun g1 tr) as [[g2 e2]|] eqn:Er; [|discriminate]. inversion Hrun; subst g' es.
    destruct (gstep_GA _ _ _ _ _ G Ha Es) as (m1 & R1 & G1).
    destruct (IH _ _ _ _ G1 Htr Er) as (m2 & R2 & G2).
    exists m2. split; [|assumption]. rewrite run_mon_app, R1. exact R2.
Qed.

Lemma GA_init cfg n : GA (ginit cfg n) (amon_init (length cfg)).
Proof.
  constructor; cbn; try (intros; contradiction).
  - induction cfg as [|c cfg IH]; cbn; constructor; [|exact IH].
    unfold AR; cbn. split; [apply length_empty_cols|]. split; [intros ? ? []|exact I].
  - apply Forall_forall. intros sv Hin. apply in_map_iff in Hin as (c & <- & _).
    split; cbn; [intros ? ? []|discriminate].
  - intros h hd i sp H. destruct h; discriminate.
  - intros h hd i sp H. destruct h; discriminate.
  - intros h hd H. destruct h; discriminate.
Qed.

Theorem ack_sound_gen cfg n tr g es :
  forallb (act_ok strict) tr = true -> grun (ginit cfg n) tr = Some (g, es) ->
  run_mon mstep (amon_init (length cfg)) es <> None.
Proof.
  intros Hok Hrun. destruct (grun_GA tr _ _ _ _ (GA_init cfg n) Hok Hrun) as (m' & R & _). congruence.
Qed.

End ACK.

(* the lenient monitor needs no hypothesis on the requests *)
Lemma act_ok_weak a : act_ok false a = true.
Proof.
  assert (R : forall k r, ok_req false k r = true).
  { intros k r. unfold ok_req. destruct (eff k r); [|reflexivity]. cbn. destruct (key_empty k r0); reflexivity. }
  assert (I : forall it, item_ok false it = true).
  { intros [c|]; cbn; [|reflexivity]. apply forallb_forall. intros x _. apply R. }
  destruct a; cbn; auto. apply forallb_forall. intros it _. apply I.
Qed.

(* ---------------------------------------------------------------- well-formed requests *)
Lemma length_table_of n rids : length (table_of n rids) = n.
Proof. unfold table_of. now rewrite map_length, seq_length. Qed.
Lemma fit_table n rids : fit n (table_of n rids) = table_of n rids.
Proof.
  unfold fit. rewrite firstn_app, length_table_of, Nat.sub_diag. cbn [firstn].
  rewrite app_nil_r. apply firstn_all2. rewrite length_table_of. apply Nat.le_refl.
Qed.
Lemma eff_table k rids : eff k (table_of (ncols k) rids) = Some (table_of (ncols k) rids).
Proof.
  unfold eff. rewrite fit_table. destruct k; try reflexivity.
  unfold eff_series, table_of. cbn [ncols seq map nth]. rewrite !map_length, Nat.ltb_irrefl.
  rewrite firstn_all2 by (rewrite map_length; apply Nat.le_refl). reflexivity.
Qed.
Lemma keycol_lt k : (keycol k < ncols k)%nat.
Proof. destruct k; cbn; lia. Qed.
Lemma key_of_table k rids : nth (keycol k) (table_of (ncols k) rids) [] = map (fun rid => (rid, keycol k)) rids.
Proof. destruct k; reflexivity. Qed.
Lemma no_cells_table_nil n : no_cells (table_of n []) = true.
Proof. unfold no_cells, table_of. apply forallb_forall. intros c Hc. apply in_map_iff in Hc as (j & <- & _). reflexivity. Qed.

Lemma wf_ok_req k r : wf_reqb k r = true -> ok_req true k r = true.
Proof.
  unfold wf_reqb. intros H. apply block_eqb_eq in H. rewrite H. unfold ok_req. rewrite eff_table.
  unfold key_empty. rewrite key_of_table. destruct (rids_of r) as [|x l]; [|reflexivity].
  cbn. apply no_cells_table_nil.
Qed.
Lemma act_wf_ok a : act_wf a = true -> act_ok true a = true.
Proof.
  assert (I : forall it, item_wf it = true -> item_ok true it = true).
  { intros [c|]; cbn; [|reflexivity]. rewrite !forallb_forall. intros H x Hx. apply wf_ok_req. auto. }
  destruct a; cbn; auto using wf_ok_req. rewrite !forallb_forall. auto.
Qed.
Lemma trace_wf_ok tr : forallb act_wf tr = true -> forallb (act_ok true) tr = true.
Proof. rewrite !forallb_forall. auto using act_wf_ok. Qed.
Lemma trace_weak_ok tr : forallb (act_ok false) tr = true.
Proof. apply forallb_forall. intros a _. apply act_ok_weak. Qed.
