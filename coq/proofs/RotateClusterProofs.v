(* Round 8 (seeded C19-h): several DATABASE_DATA objects on ONE ClickHouse cluster.  ON CLUSTER makes a retention ALTER
   reach every NODE of the cluster; it does not reach another DATABASE.  So "one pass per cluster name" is only sound
   when the objects sharing a cluster name also share the database; property C19. *)
From Coq Require Import List ZArith Bool String Ascii Lia.
From Qryn Require Import model.Rotate model.RotateCfg proofs.RotateProofs proofs.RotateCfgProofs proofs.RotateManyProofs.
Import ListNotations.
Open Scope string_scope.
Open Scope Z_scope.

Section Cluster.
Variable parse : string -> option Z.

(* the variant: RotateAll remembering the cluster names it has rotated in this pass and skipping an object whose
   non-empty cluster_name is among them (whatever database the object names) *)
Fixpoint rotate_all_skip (os : list (nat * dbobj)) (seen : list string) (f : fault) (ds : nat -> db)
  : list ocall * bool * (nat -> db) :=
  match os with
  | [] => ([], true, ds)
  | (i, o) :: r =>
    if negb (String.eqb (o_cluster o) "") && existsb (String.eqb (o_cluster o)) seen then rotate_all_skip r seen f ds else
    match config_of parse o with
    | None => ([], false, ds)
    | Some cfg =>
      let '(w, ok) := run cfg f (ds i) in
      let l := map (render cfg) (rev (w_log w)) in
      let ds' := upd ds i (w_db w) in
      if ok then let '(l', ok', ds'') := rotate_all_skip r (o_cluster o :: seen) (w_fault w) ds' in ((l ++ l')%list, ok', ds'')
      else (l, false, ds')
    end
  end.

(* RotateAll as it is: two objects naming DIFFERENT databases - on the same cluster or not - leave BOTH databases at
   their own object's configuration *)
Lemma two_databases_both_converge : forall i j o1 o2 c1 c2 ds,
  i <> j -> (forall k, consistent (ds k)) -> config_of parse o1 = Some c1 -> config_of parse o2 = Some c2 ->
  let '(l, ok, ds') := rotate_all_m parse [(i, o1); (j, o2)] None ds in
  ok = true /\ converged c1 (ds' i) /\ converged c2 (ds' j).
Proof.
  intros i j o1 o2 c1 c2 ds Hij Hd H1 H2.
  pose proof (rotate_all_m_converges parse [(i, o1); (j, o2)] ds Hd) as H.
  destruct (rotate_all_m parse [(i, o1); (j, o2)] None ds) as [[l ok] ds'].
  destruct H as [Hok Hc].
  { repeat constructor; cbn; congruence. }
  split; [exact Hok|]. split.
  - specialize (Hc i). cbn [last_cfg] in Hc. rewrite Nat.eqb_refl in Hc.
    assert (E : Nat.eqb i j = false) by now apply Nat.eqb_neq. rewrite E, H1 in Hc. exact Hc.
  - specialize (Hc j). cbn [last_cfg] in Hc. rewrite Nat.eqb_refl, H2 in Hc. exact Hc.
Qed.
End Cluster.

(* the witness: databases 1 and 2 on cluster "c1" *)
Definition cl_os : list (nat * dbobj) :=
  [(1%nat, {| o_cluster := "c1"; o_ttl_policy := []; o_ttl_days := 30; o_storage_policy := "tiered" |});
   (2%nat, {| o_cluster := "c1"; o_ttl_policy := []; o_ttl_days := 7; o_storage_policy := "" |})].
Definition cl_parse (s : string) : option Z := None.

(* "one pass per cluster name" is refuted: under the hypotheses of every_database_converges_to_its_own_configuration
   the variant reports success, issues not one statement for database 2 and leaves it unconverged *)
Lemma once_per_cluster_name_refuted :
  (forall i : nat, consistent ((fun _ : nat => fresh) i)) /\ Forall (fun x => config_of cl_parse (snd x) <> None) cl_os /\
  let '(l, ok, ds') := rotate_all_skip cl_parse cl_os [] None (fun _ : nat => fresh) in
  ok = true /\ l = fst (fst (rotate_all_m cl_parse [hd (0%nat, {| o_cluster := ""; o_ttl_policy := []; o_ttl_days := 0; o_storage_policy := "" |}) cl_os] None (fun _ : nat => fresh))) /\
  d_ttl (ds' 2%nat) SamplesV3 = "<initial>" /\
  exists cfg, last_cfg cl_parse cl_os 2%nat = Some cfg /\ ~ converged cfg (ds' 2%nat).
Proof.
  split; [intro; apply fresh_is_consistent|]. split; [repeat constructor; cbn; discriminate|].
  destruct (rotate_all_skip cl_parse cl_os [] None (fun _ : nat => fresh)) as [[l ok] ds'] eqn:E.
  vm_compute in E. injection E as El Eok Eds. subst ok ds'. split; [reflexivity|]. split; [subst l; vm_compute; reflexivity|].
  split; [reflexivity|].
  eexists. split; [vm_compute; reflexivity|].
  intro H. destruct (H TtlSamples eq_refl) as [H1 _]. vm_compute in H1. discriminate.
Qed.

(* the same two objects through RotateAll as it is: both converge *)
Example ex_two_databases_one_cluster :
  let '(l, ok, ds') := rotate_all_m cl_parse cl_os None (fun _ : nat => fresh) in
  ok = true /\ List.length l = 64%nat /\
  d_ttl (ds' 1%nat) SamplesV3 = "toDateTime(timestamp_ns / 1000000000) + toIntervalDay(30)" /\
  d_ttl (ds' 2%nat) SamplesV3 = "toDateTime(timestamp_ns / 1000000000) + toIntervalDay(7)" /\
  d_policy (ds' 1%nat) SamplesV3 = "tiered" /\ d_policy (ds' 2%nat) SamplesV3 = "<initial>".
Proof. vm_compute. repeat split. Qed.
