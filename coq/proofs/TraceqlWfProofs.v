(* Property C11, part 4 of the proofs: every statement the planners build is well formed in the sense
   of wfc_sel: no empty and/or/IN/tuple/bit-set/select list (defect 6 was `... and ()`), every comparison
   binary, every identifier and WITH reference named.  For every script, mode, context and call. *)
From Coq Require Import List ZArith String Ascii Bool Lia.
From Qryn Require Import model.TqSql model.Traceql model.TraceqlPlan.
Import ListNotations.
Open Scope string_scope.
Open Scope list_scope.

(* table names come from the configuration *)
Definition ctx_ok (c : ctx) : bool :=
  negb (String.eqb (attrs_table c) "") && negb (String.eqb (attrs_dist_table c) "") && negb (String.eqb (traces_table c) "")
  && negb (String.eqb (traces_dist_table c) "") && negb (String.eqb (kv_dist_table c) "").

(* ---------- strings ---------- *)
Lemma eqb_app_empty a b : String.eqb b "" = false -> String.eqb (a ++ b)%string "" = false.
Proof. destruct a; cbn; auto. Qed.

Lemma pos_dec_ne fuel : forall n acc, acc <> "" -> pos_dec fuel n acc <> "".
Proof.
  induction fuel as [|f IH]; intros n acc H; cbn [pos_dec]; [assumption|].
  destruct (N.eqb (n / 10) 0); [discriminate|]. apply IH. discriminate.
Qed.
Lemma string_of_N_ne n : string_of_N n <> "".
Proof.
  unfold string_of_N. cbn [pos_dec]. destruct (N.eqb (n / 10) 0); [discriminate|]. apply pos_dec_ne. discriminate.
Qed.
Lemma string_of_Z_ne z : String.eqb (string_of_Z z) "" = false.
Proof.
  apply String.eqb_neq. destruct z; cbn [string_of_Z]; [discriminate|apply string_of_N_ne|discriminate].
Qed.

(* ---------- wfc, unfolded one level ---------- *)
Definition ws_ok (ws : list (string * select)) : bool :=
  forallb (fun w => negb (String.eqb (fst w) "") && wfc_sel (snd w)) ws.
Definition joins_ok (js : list (jkind * expr * option expr)) : bool :=
  forallb (fun j => wfc_expr (snd (fst j)) && match snd j with Some on => wfc_expr on | None => true end) js.
Definition opt_ok (o : option expr) : bool := match o with Some e => wfc_expr e | None => true end.

Lemma wfc_Sel ws d cols from joins pw wh hv gb ob lim :
  wfc_sel (Sel ws d cols from joins pw wh hv gb ob lim) =
  (true && ws_ok ws && negb (match cols with [] => true | _ => false end) && forallb wfc_expr cols
   && match from with Some f => wfc_expr f | None => match joins with [] => true | _ => false end end
   && joins_ok joins && opt_ok pw && opt_ok wh && opt_ok hv && forallb wfc_expr gb && forallb wfc_expr ob && opt_ok lim).
Proof. reflexivity. Qed.

Lemma wfc_LOp_and cl : wfc_expr (LOp OAnd cl) = negb (match cl with [] => true | _ => false end) && forallb wfc_expr cl.
Proof. reflexivity. Qed.
Lemma wfc_LOp_or cl : wfc_expr (LOp OOr cl) = negb (match cl with [] => true | _ => false end) && forallb wfc_expr cl.
Proof. reflexivity. Qed.

Lemma wfc_sel_parts s : wfc_sel s = true ->
  ws_ok (s_withs s) = true /\ forallb wfc_expr (s_cols s) = true.
Proof.
  destruct s as [ws d cols from joins pw wh hv gb ob lim]. rewrite wfc_Sel. cbn [s_withs s_cols]. intros H.
  repeat (apply andb_true_iff in H; destruct H as [H ?]). split; assumption.
Qed.

Ltac split_and := repeat (apply andb_true_intro; split).

(* ---------- the builder methods ---------- *)
Lemma and_into_cases e cl :
  (exists old, e = LOp OAnd old /\ and_into (Some e) cl = Some (LOp OAnd (old ++ cl)))
  \/ and_into (Some e) cl = Some (LOp OAnd (e :: cl)).
Proof.
  destruct e; try (right; reflexivity).
  match goal with |- context [LOp ?f ?l] => destruct f; try (right; reflexivity); left; exists l; split; reflexivity end.
Qed.

Lemma wfc_and_into o cl : opt_ok o = true -> cl <> [] -> forallb wfc_expr cl = true -> opt_ok (and_into o cl) = true.
Proof.
  intros Ho Hne Hcl. destruct o as [e|].
  - destruct (and_into_cases e cl) as [[old [-> ->]] | ->]; cbn [opt_ok] in *; rewrite wfc_LOp_and in *.
    + apply andb_true_iff in Ho. destruct Ho as [_ Hold].
      rewrite forallb_app, Hold, Hcl. destruct old; [destruct cl; [congruence|reflexivity]|reflexivity].
    + cbn [forallb]. now rewrite Ho, Hcl.
  - cbn [and_into opt_ok]. rewrite wfc_LOp_and, Hcl. destruct cl; [congruence|reflexivity].
Qed.

Lemma wfc_and_where cl s : wfc_sel s = true -> cl <> [] -> forallb wfc_expr cl = true -> wfc_sel (and_where cl s) = true.
Proof.
  destruct s as [ws d cols from joins pw wh hv gb ob lim]. cbn [and_where]. rewrite !wfc_Sel. intros H Hne Hcl.
  repeat (apply andb_true_iff in H; destruct H as [H ?]).
  split_and; try assumption. now apply wfc_and_into.
Qed.
Lemma wfc_and_having cl s : wfc_sel s = true -> cl <> [] -> forallb wfc_expr cl = true -> wfc_sel (and_having cl s) = true.
Proof.
  destruct s as [ws d cols from joins pw wh hv gb ob lim]. cbn [and_having]. rewrite !wfc_Sel. intros H Hne Hcl.
  repeat (apply andb_true_iff in H; destruct H as [H ?]).
  split_and; try assumption. now apply wfc_and_into.
Qed.
Lemma wfc_set_cols cols' s : wfc_sel s = true -> cols' <> [] -> forallb wfc_expr cols' = true -> wfc_sel (set_cols cols' s) = true.
Proof.
  destruct s as [ws d cols from joins pw wh hv gb ob lim]. cbn [set_cols]. rewrite !wfc_Sel. intros H Hne Hcl.
  repeat (apply andb_true_iff in H; destruct H as [H ?]).
  split_and; try assumption. destruct cols'; [congruence|reflexivity].
Qed.
Lemma wfc_set_limit l s : wfc_sel s = true -> wfc_expr l = true -> wfc_sel (set_limit l s) = true.
Proof.
  destruct s as [ws d cols from joins pw wh hv gb ob lim]. cbn [set_limit]. rewrite !wfc_Sel. intros H Hl.
  repeat (apply andb_true_iff in H; destruct H as [H ?]). split_and; assumption.
Qed.
Lemma wfc_set_order o s : wfc_sel s = true -> forallb wfc_expr o = true -> wfc_sel (set_order o s) = true.
Proof.
  destruct s as [ws d cols from joins pw wh hv gb ob lim]. cbn [set_order]. rewrite !wfc_Sel. intros H Hl.
  repeat (apply andb_true_iff in H; destruct H as [H ?]). split_and; assumption.
Qed.

(* AddWith only ever moves entries around: every entry of the result is an entry of the arguments or a
   WITH entry nested in one of them *)
Lemma add_with_ok fuel : forall cur w,
  ws_ok cur = true -> String.eqb (fst w) "" = false -> wfc_sel (snd w) = true -> ws_ok (add_with fuel cur w) = true.
Proof.
  induction fuel as [|f IH]; intros cur w Hc Ha Hw; cbn [add_with];
    destruct (existsb (fun x => String.eqb (fst x) (fst w)) cur); try assumption.
  - unfold ws_ok. rewrite forallb_app. cbn [forallb]. unfold ws_ok in Hc. now rewrite Hc, Ha, Hw.
  - unfold ws_ok. rewrite forallb_app. cbn [forallb]. rewrite Ha, Hw. cbn [negb andb]. rewrite andb_true_r.
    destruct (wfc_sel_parts _ Hw) as [Hn _]. revert cur Hc. generalize (s_withs (snd w)) Hn. clear -IH.
    intros l. induction l as [|x l IHl]; intros Hl cur Hc; cbn [fold_left]; [exact Hc|].
    unfold ws_ok in Hl. cbn [forallb] in Hl. apply andb_true_iff in Hl. destruct Hl as [Hx Hl].
    apply andb_true_iff in Hx. destruct Hx as [Hxa Hxs]. apply negb_true_iff in Hxa.
    apply IHl; [exact Hl|]. now apply IH.
Qed.
Lemma fold_add_with_ok fuel ws : forall cur,
  ws_ok cur = true -> ws_ok ws = true -> ws_ok (fold_left (add_with fuel) ws cur) = true.
Proof.
  induction ws as [|x l IHl]; intros cur Hc Hl; cbn [fold_left]; [exact Hc|].
  unfold ws_ok in Hl. cbn [forallb] in Hl. apply andb_true_iff in Hl. destruct Hl as [Hx Hl].
  apply andb_true_iff in Hx. destruct Hx as [Hxa Hxs]. apply negb_true_iff in Hxa.
  apply IHl; [|exact Hl]. now apply add_with_ok.
Qed.
Lemma wfc_set_with ws s : wfc_sel s = true -> ws_ok ws = true -> wfc_sel (set_with ws s) = true.
Proof.
  destruct s as [w0 d cols from joins pw wh hv gb ob lim]. cbn [set_with]. rewrite !wfc_Sel. intros H Hws.
  repeat (apply andb_true_iff in H; destruct H as [H ?]). split_and; try assumption.
  now apply fold_add_with_ok.
Qed.

(* ---------- terms, condition ---------- *)
Lemma get_term_str_wfc t k e : get_term_str t k = Ok e -> wfc_expr e = true.
Proof.
  unfold get_term_str. intros H.
  destruct (a_op t); try discriminate; (destruct (unquoted (a_val t)); [|discriminate]); injection H as <-; reflexivity.
Qed.
Lemma get_term_num_wfc t k e : get_term_num t k = Ok e -> wfc_expr e = true.
Proof.
  unfold get_term_num. intros H.
  destruct (a_op t); cbn [bind] in H; try discriminate; (destruct (num_text (a_val t)); [|discriminate]); injection H as <-; reflexivity.
Qed.
Lemma get_term_duration_wfc t e : get_term_duration t = Ok e -> wfc_expr e = true.
Proof.
  unfold get_term_duration. intros H. destruct (String.eqb (v_time (a_val t)) ""); [discriminate|].
  destruct (dur_ns (a_val t)); [|discriminate].
  destruct (a_op t); cbn [comparison_fn bind] in H; try discriminate; injection H as <-; reflexivity.
Qed.
Lemma get_term_wfc t e : get_term t = Ok e -> wfc_expr e = true.
Proof.
  unfold get_term. intros H.
  destruct (strip_scope (a_label t)).
  - destruct (v_str (a_val t)); [now apply get_term_str_wfc in H|].
    destruct (negb (String.eqb (v_f (a_val t)) "")); [now apply get_term_num_wfc in H|discriminate].
  - destruct (String.eqb (a_label t) "duration"); [now apply get_term_duration_wfc in H|].
    destruct (String.eqb (a_label t) "name"); [|discriminate].
    destruct (v_str (a_val t)); [now apply get_term_str_wfc in H|].
    destruct (negb (String.eqb (v_f (a_val t)) "")); [now apply get_term_num_wfc in H|discriminate].
Qed.

Lemma map_res_wfc terms : forall conds, map_res get_term terms = Ok conds ->
  forallb wfc_expr conds = true /\ List.length conds = List.length terms.
Proof.
  induction terms as [|t l IH]; cbn [map_res]; intros conds H.
  - injection H as <-. split; reflexivity.
  - destruct (get_term t) as [e| |] eqn:Et; cbn [bind] in H; try discriminate.
    destruct (map_res get_term l) as [es| |]; cbn [bind] in H; try discriminate.
    injection H as <-. destruct (IH es eq_refl) as [Hf Hl]. cbn [forallb List.length]. rewrite (get_term_wfc _ _ Et), Hf, Hl.
    split; reflexivity.
Qed.

Lemma get_cond_wfc conds : conds <> [] -> forallb wfc_expr conds = true ->
  forall c a, wfc_expr (fst (get_cond conds c a)) = true.
Proof.
  intros Hne Hc. induction c as [i|op l IHl r IHr]; intros a; cbn [get_cond fst].
  - destruct a.
    + reflexivity.
    + unfold wfc_expr in *. cbn [wfg_expr forallb Nat.eqb List.length andb].
      destruct conds as [|c0 cs]; [congruence|]. cbn [negb andb]. rewrite !andb_true_r. exact Hc.
  - destruct (get_cond conds l a) as [el a1] eqn:El. destruct (get_cond conds r a1) as [er a2] eqn:Er. cbn [fst].
    specialize (IHl a). rewrite El in IHl. cbn [fst] in IHl. specialize (IHr a1). rewrite Er in IHr. cbn [fst] in IHr.
    destruct op; (rewrite ?wfc_LOp_and, ?wfc_LOp_or; cbn [forallb]; rewrite IHl, IHr; reflexivity).
Qed.

(* analyzeCond registers at least one term *)
Definition map_inv (st : an_state) : Prop := forall k i, find_key k (snd st) = Some i -> (i < List.length (fst st))%nat.

Fixpoint analyze_cond_grows (e : attr_exp) {struct e} : forall st c st',
  map_inv st -> analyze_cond e st = (c, st') ->
  map_inv st' /\ (List.length (fst st) <= List.length (fst st'))%nat /\ (0 < List.length (fst st'))%nat.
Proof.
  destruct e as [h ao tl]. intros st c st' Hinv Han. cbn [analyze_cond] in Han.
  assert (Hhead : forall res st1,
             match h with
             | HParen e' => analyze_cond e' st
             | HTerm t =>
                 match find_key (attr_sel_string t) (snd st) with
                 | Some i => (CTerm i, st)
                 | None => (CTerm (List.length (fst st)), (fst st ++ [t], (attr_sel_string t, List.length (fst st)) :: snd st))
                 end
             end = (res, st1) ->
             map_inv st1 /\ (List.length (fst st) <= List.length (fst st1))%nat /\ (0 < List.length (fst st1))%nat).
  { intros res st1 E. destruct h as [t|e'].
    - destruct (find_key (attr_sel_string t) (snd st)) as [i|] eqn:Ek.
      + injection E as <- <-. split; [assumption|]. split; [lia|]. specialize (Hinv _ _ Ek). lia.
      + injection E as <- <-. cbn [fst snd]. rewrite app_length. cbn [List.length]. split; [|lia].
        intros k i Hf. cbn [find_key fst snd] in Hf |- *. rewrite app_length. cbn [List.length].
        destruct (String.eqb k (attr_sel_string t)); [injection Hf as <-; lia|]. specialize (Hinv _ _ Hf). lia.
    - now apply (analyze_cond_grows e' st res st1). }
  destruct (match h with
            | HParen e' => analyze_cond e' st
            | HTerm t =>
                match find_key (attr_sel_string t) (snd st) with
                | Some i => (CTerm i, st)
                | None => (CTerm (List.length (fst st)), (fst st ++ [t], (attr_sel_string t, List.length (fst st)) :: snd st))
                end
            end) as [res st1] eqn:Eh.
  destruct (Hhead res st1 eq_refl) as [Hi1 [Hle1 Hpos1]].
  destruct tl as [t'|].
  - destruct (analyze_cond t' st1) as [r2 st2] eqn:Et. injection Han as <- <-.
    destruct (analyze_cond_grows t' st1 r2 st2 Hi1 Et) as [Hi2 [Hle2 Hpos2]]. split; [assumption|]. split; lia.
  - injection Han as <- <-. split; [assumption|]. split; assumption.
Qed.

Lemma analyze_terms_nonempty h cd terms : analyze h = (Some cd, terms) -> terms <> [].
Proof.
  unfold analyze. destruct (sel_attr h) as [e|]; [|discriminate].
  destruct (analyze_cond e ([], [])) as [c st] eqn:E. intros H. injection H as <- <-.
  destruct (analyze_cond_grows e ([], []) c st) as [_ [_ Hpos]]; [intros k i Hf; discriminate|assumption|].
  intros Hn. rewrite Hn in Hpos. cbn in Hpos. lia.
Qed.

(* ---------- the planners ---------- *)
Lemma forallb_where_terms (terms : list attr_sel) : forall conds,
  forallb wfc_expr conds = true ->
  forallb wfc_expr (map snd (filter (fun p => is_indexed_label (a_label (fst p))) (combine terms conds))) = true.
Proof.
  induction terms as [|t l IH]; intros conds H; [reflexivity|].
  destruct conds as [|e es]; [reflexivity|]. cbn [forallb] in H. apply andb_true_iff in H. destruct H as [He Hes].
  cbn [combine filter fst]. destruct (is_indexed_label (a_label t)); cbn [map snd forallb]; [rewrite He|]; now apply IH.
Qed.

Section PLAN.
  Variable c : ctx.
  Hypothesis Hctx : ctx_ok c = true.

  Lemma tables_named :
    negb (String.eqb (attrs_table c) "") = true /\ negb (String.eqb (attrs_dist_table c) "") = true
    /\ negb (String.eqb (traces_table c) "") = true /\ negb (String.eqb (traces_dist_table c) "") = true
    /\ negb (String.eqb (kv_dist_table c) "") = true.
  Proof.
    pose proof Hctx as H. unfold ctx_ok in H. repeat (apply andb_true_iff in H; destruct H as [H ?]). repeat split; assumption.
  Qed.

  Lemma init_index_wfc : wfc_sel (init_index c) = true.
  Proof.
    destruct tables_named as [Ha _]. unfold init_index. rewrite wfc_Sel. split_and; try reflexivity. exact Ha.
  Qed.

  Lemma random_filter_wfc : forallb wfc_expr (random_filter c) = true.
  Proof.
    unfold random_filter. destruct (Z.eqb (rf_max c) 0); [reflexivity|].
    assert (Hh : wfc_expr (LOp OEq [Bin BMod (Fn FCityHash64 [Id "trace_id"]) (NumLit (string_of_Z (rf_max c))); IntV (rf_i c)]) = true).
    { unfold wfc_expr. cbn [wfg_expr forallb Nat.eqb List.length andb String.eqb negb]. now rewrite string_of_Z_ne. }
    destruct (cached c) as [|t ts]; cbn [forallb]; [now rewrite Hh|].
    rewrite wfc_LOp_or. cbn [forallb]. rewrite Hh. cbn [negb andb].
    unfold wfc_expr. cbn [wfg_expr map forallb String.eqb negb andb].
    induction ts as [|x xs IH]; [reflexivity|]. cbn [map forallb]. cbn [wfg_expr forallb andb] in *. exact IH.
  Qed.

  Lemma agg_step_wfc attr :
    forallb wfc_expr (fst (agg_step attr)) = true /\ match snd (agg_step attr) with Some col => wfc_expr col = true | None => True end.
  Proof.
    unfold agg_step. destruct (String.eqb attr ""); [split; [reflexivity|exact I]|].
    destruct (String.eqb attr "duration"); split; reflexivity.
  Qed.

  Lemma attr_condition_wfc terms cd attr n s :
    terms <> [] -> attr_condition c terms (Some cd) attr n = Ok s -> wfc_sel s = true.
  Proof.
    intros Hne H. unfold attr_condition in H.
    destruct (map_res get_term terms) as [conds| |] eqn:Em; cbn [bind] in H; try discriminate.
    destruct (map_res_wfc _ _ Em) as [Hconds Hlen].
    assert (Hcne : conds <> []) by (intros E; apply Hne; destruct terms; [reflexivity|rewrite E in Hlen; discriminate]).
    destruct (get_cond conds cd false) as [having a'] eqn:Eg.
    assert (Hhav : wfc_expr having = true) by (pose proof (get_cond_wfc conds Hcne Hconds cd false) as G; now rewrite Eg in G).
    destruct (agg_step attr) as [extra aggcol] eqn:Ea.
    pose proof (agg_step_wfc attr) as [Hextra Hcol]. rewrite Ea in Hextra, Hcol. cbn [fst snd] in Hextra, Hcol.
    set (main1 := match aggcol with Some col => set_cols (s_cols (init_index c) ++ [col]) (init_index c) | None => init_index c end) in H.
    assert (Hm1 : wfc_sel main1 = true).
    { subst main1. destruct aggcol as [col|]; [|apply init_index_wfc].
      apply wfc_set_cols; [apply init_index_wfc|discriminate|]. now rewrite forallb_app; cbn [forallb]; rewrite Hcol. }
    assert (Hh1 : wfc_sel (and_having [having] main1) = true).
    { apply wfc_and_having; [assumption|discriminate|cbn [forallb]; now rewrite Hhav]. }
    set (wh := (map snd (filter (fun p => is_indexed_label (a_label (fst p))) (combine terms conds)) ++ extra)) in H.
    assert (Hwh : forallb wfc_expr wh = true) by (subst wh; rewrite forallb_app, Hextra, forallb_where_terms by assumption; reflexivity).
    set (main2 := match wh with
                  | [] => and_having [having] main1
                  | _ => if holds_without_indexed terms cd then and_having [having] main1
                         else and_where [LOp OOr wh] (and_having [having] main1)
                  end) in H.
    assert (Hm2 : wfc_sel main2 = true).
    { subst main2. destruct wh as [|w0 wr] eqn:Ew; [assumption|].
      destruct (holds_without_indexed terms cd); [assumption|].
      apply wfc_and_where; [assumption|discriminate|]. cbn [forallb]. rewrite wfc_LOp_or, Hwh. reflexivity. }
    injection H as <-. pose proof random_filter_wfc as Hrf.
    destruct (random_filter c) as [|f0 fr]; [assumption|]. apply wfc_and_where; [assumption|discriminate|assumption].
  Qed.

  Lemma attrless_wfc : wfc_sel (attrless c) = true.
  Proof.
    destruct tables_named as [_ [_ [Ht _]]]. unfold attrless.
    apply wfc_set_with.
    - rewrite wfc_Sel. split_and; try reflexivity. exact Ht.
    - unfold ws_ok. cbn [forallb fst snd String.eqb negb andb]. rewrite !wfc_Sel. split_and; try reflexivity; exact Ht.
  Qed.

  Lemma index_groupby_wfc prefix main : wfc_sel main = true -> wfc_sel (index_groupby prefix main) = true.
  Proof.
    intros Hm. unfold index_groupby. apply wfc_set_with.
    - rewrite wfc_Sel. unfold wfc_expr. cbn [wfg_expr forallb andb]. rewrite !eqb_app_empty by reflexivity. reflexivity.
    - unfold ws_ok. cbn [forallb fst snd]. rewrite eqb_app_empty by reflexivity. now rewrite Hm.
  Qed.

  Lemma aggregator_planner_wfc g prefix main s :
    wfc_sel main = true -> aggregator_planner g prefix main = Ok s -> wfc_sel s = true.
  Proof.
    intros Hm H. unfold aggregator_planner in H.
    destruct (comparison_fn (g_cmp g)) as [fn| |] eqn:Ef; cbn [bind] in H; try discriminate.
    destruct (agg_cmp_text g) as [txt| |]; cbn [bind] in H; try discriminate. injection H as <-.
    apply wfc_and_having; [assumption|discriminate|]. cbn [forallb]. rewrite andb_true_r.
    assert (Hagg : wfc_expr (agg_expr (g_fn g) prefix) = true).
    { destruct (g_fn g); try reflexivity. unfold wfc_expr. cbn [agg_expr wfg_expr forallb andb]. now rewrite eqb_app_empty by reflexivity. }
    unfold wfc_expr in *. destruct (g_cmp g); cbn [comparison_fn] in Ef; try discriminate; injection Ef as <-;
      cbn [wfg_expr forallb Nat.eqb List.length andb]; now rewrite Hagg.
  Qed.

  Lemma simple_planner_wfc s prefix n sel : simple_planner c s prefix n = Ok sel -> wfc_sel sel = true.
  Proof.
    unfold simple_planner. intros H.
    destruct (check s); cbn [bind] in H; try discriminate.
    destruct (analyze (sc_head s)) as [cond terms] eqn:Ean.
    assert (Hmain : forall main, match sel_attr (sc_head s) with
                                 | Some _ => attr_condition c terms cond (agg_attr_of (sc_head s)) n
                                 | None => Ok (attrless c) end = Ok main -> wfc_sel main = true).
    { intros main E. destruct (sel_attr (sc_head s)) as [e|] eqn:Es.
      - destruct cond as [cd|].
        + eapply attr_condition_wfc; [|eassumption]. eapply analyze_terms_nonempty; eassumption.
        + unfold attr_condition in E. destruct (map_res get_term terms); cbn [bind] in E; discriminate.
      - injection E as <-. apply attrless_wfc. }
    destruct (match sel_attr (sc_head s) with
              | Some _ => attr_condition c terms cond (agg_attr_of (sc_head s)) n
              | None => Ok (attrless c) end) as [main| |]; cbn [bind] in H; try discriminate.
    specialize (Hmain main eq_refl).
    destruct (sel_agg (sc_head s)) as [ag|].
    - eapply aggregator_planner_wfc; [|eassumption]. now apply index_groupby_wfc.
    - injection H as <-. now apply index_groupby_wfc.
  Qed.

  (* && / || *)
  Lemma wrap_operand_wfc tagged i o : wfc_sel (snd o) = true -> wfc_sel (wrap_operand tagged i o) = true.
  Proof.
    intros Hs. unfold wrap_operand. apply wfc_set_with.
    - rewrite wfc_Sel. unfold wfc_expr, pre_alias. cbn [wfg_expr forallb andb fst snd app String.append String.eqb Ascii.eqb Bool.eqb negb].
      destruct tagged; unfold ws_ok, joins_ok, opt_ok, wfc_expr; cbn [forallb wfg_expr andb fst snd String.eqb negb];
        rewrite ?string_of_Z_ne; reflexivity.
    - unfold ws_ok, pre_alias. cbn [forallb fst snd String.append String.eqb Ascii.eqb Bool.eqb negb andb]. rewrite andb_true_r.
      destruct (wfc_sel_parts _ Hs) as [_ Hcols].
      apply wfc_set_cols; [assumption|destruct (s_cols (snd o)); discriminate|].
      rewrite forallb_app, Hcols. cbn [forallb]. rewrite andb_true_r. unfold max_ts_col.
      destruct (fst o); [|reflexivity]. unfold wfc_expr. cbn [wfg_expr forallb andb]. now rewrite eqb_app_empty by reflexivity.
  Qed.

  Lemma wrap_operands_wfc tagged : forall l i, forallb (fun o => wfc_sel (snd o)) l = true ->
    forallb wfc_sel (wrap_operands tagged i l) = true.
  Proof.
    induction l as [|o l IH]; intros i H; [reflexivity|]. cbn [forallb] in H. apply andb_true_iff in H. destruct H as [Ho Hl].
    cbn [wrap_operands forallb]. now rewrite wrap_operand_wfc, IH.
  Qed.

  Lemma complex_select_wfc fn prefix sels :
    sels <> [] -> forallb (fun o => wfc_sel (snd o)) sels = true -> wfc_sel (complex_select fn prefix sels) = true.
  Proof.
    intros Hne Hs. unfold complex_select. rewrite wfc_Sel.
    set (tagged := match fn with AOAnd => true | _ => false end).
    assert (Hsubs : wfc_expr (Union (wrap_operands tagged 0 sels)) = true).
    { unfold wfc_expr. cbn [wfg_expr]. change (forallb (wfg_sel false)) with (forallb wfc_sel).
      rewrite wrap_operands_wfc by assumption. destruct sels; [congruence|reflexivity]. }
    assert (Hfrom : wfc_expr (Col (Union (wrap_operands tagged 0 sels)) (prefix ++ "a")) = true) by exact Hsubs.
    rewrite Hfrom.
    assert (Hord : forallb wfc_expr [Ord (Fn FMax [Id (prefix ++ "a.max_timestamp_ns")]) true] = true).
    { unfold wfc_expr. cbn [forallb wfg_expr andb]. now rewrite eqb_app_empty by reflexivity. }
    rewrite Hord. destruct tagged; reflexivity.
  Qed.

  (* the planner tree: every && / || node has operands *)
  Fixpoint ep_ok (t : ep) : bool :=
    match t with
    | EPSimple _ _ => true
    | EPComplex _ fn ops => negb (match ops with [] => true | _ => false end)
                            && negb (match fn with AONone => true | _ => false end) && forallb ep_ok ops
    end.

  Fixpoint ep_depth (t : ep) : nat :=
    match t with
    | EPSimple _ _ => O
    | EPComplex _ _ ops => S (fold_right (fun x acc => Nat.max (ep_depth x) acc) O ops)
    end.
  Lemma ep_depth_in x ops : In x ops -> (ep_depth x <= fold_right (fun x acc => Nat.max (ep_depth x) acc) O ops)%nat.
  Proof.
    induction ops as [|y l IH]; intros H; [destruct H|]. cbn [fold_right]. destruct H as [->|H]; [lia|].
    specialize (IH H). lia.
  Qed.

  Lemma ep_process_wfc_d (n : nat) : forall d t s, (ep_depth t <= d)%nat -> ep_ok t = true -> ep_process c n t = Ok s -> wfc_sel s = true.
  Proof.
    induction d as [|d IH]; intros t s Hd Hok H; destruct t as [sc prefix|prefix fn ops]; cbn [ep_process] in H;
      try (eapply simple_planner_wfc; eassumption).
    - cbn [ep_depth] in Hd. lia.
    - cbn [ep_ok] in Hok. apply andb_true_iff in Hok. destruct Hok as [Hok Hops]. apply andb_true_iff in Hok. destruct Hok as [Hne Hfn].
      cbn [ep_depth] in Hd.
      assert (Hdx : forall x, In x ops -> (ep_depth x <= d)%nat) by (intros x Hx; pose proof (ep_depth_in x ops Hx); lia).
      set (go := fix go (l : list ep) : result (list (option string * select)) :=
             match l with
             | [] => Ok []
             | x :: r => do y <- ep_process c n x; do ys <- go r; Ok ((nested_prefix x, y) :: ys)
             end) in H.
      assert (Hgo : forall l sels, (forall x, In x l -> (ep_depth x <= d)%nat) -> forallb ep_ok l = true -> go l = Ok sels ->
                                   forallb (fun o => wfc_sel (snd o)) sels = true /\ List.length sels = List.length l).
      { induction l as [|x l IHl]; intros sels Hdl Hl E; cbn in E.
        - injection E as <-. split; reflexivity.
        - cbn [forallb] in Hl. apply andb_true_iff in Hl. destruct Hl as [Hx Hl].
          destruct (ep_process c n x) as [y| |] eqn:Ey; cbn [bind] in E; try discriminate.
          destruct (go l) as [ys| |] eqn:Eys; cbn [bind] in E; try discriminate. injection E as <-.
          destruct (IHl ys (fun z Hz => Hdl z (or_intror Hz)) Hl eq_refl) as [Hys Hlen]. cbn [forallb snd List.length].
          rewrite (IH x y (Hdl x (or_introl eq_refl)) Hx Ey), Hys, Hlen. split; reflexivity. }
      destruct (go ops) as [sels| |] eqn:Eg; cbn [bind] in H; try discriminate.
      destruct (Hgo ops sels Hdx Hops Eg) as [Hsels Hlen].
      assert (Hsne : sels <> []) by (intros E; rewrite E in Hlen; destruct ops; [discriminate Hne|discriminate Hlen]).
      destruct fn; try discriminate; injection H as <-; now apply complex_select_wfc.
  Qed.
  Lemma ep_process_wfc n t s : ep_ok t = true -> ep_process c n t = Ok s -> wfc_sel s = true.
  Proof. apply (ep_process_wfc_d n (ep_depth t)). lia. Qed.

  Lemma upd_nth_ok (f : ep -> ep) : (forall x, ep_ok x = true -> ep_ok (f x) = true) ->
    forall l k, forallb ep_ok l = true ->
                forallb ep_ok (upd_nth f k l) = true /\ (l <> [] -> upd_nth f k l <> []).
  Proof.
    intros Hf. induction l as [|x xs IH]; intros k Hl; destruct k as [|k]; cbn [upd_nth]; try (split; [reflexivity|congruence]);
      cbn [forallb] in Hl; apply andb_true_iff in Hl; destruct Hl as [Hx Hxs]; cbn [forallb].
    - rewrite (Hf x Hx), Hxs. split; [reflexivity|discriminate].
    - destruct (IH k Hxs) as [H1 _]. rewrite Hx, H1. split; [reflexivity|discriminate].
  Qed.

  Lemma add_op_at_ok node : ep_ok node = true -> forall path t, ep_ok t = true -> ep_ok (add_op_at path node t) = true.
  Proof.
    intros Hn. induction path as [|i r IH]; intros t Ht; destruct t as [sc p|p fn ops]; cbn [add_op_at]; try assumption.
    - cbn [ep_ok] in *. apply andb_true_iff in Ht. destruct Ht as [Ht Hops]. apply andb_true_iff in Ht. destruct Ht as [_ Hfn].
      rewrite forallb_app, Hops. cbn [forallb]. rewrite Hn, Hfn. destruct ops; reflexivity.
    - cbn [ep_ok] in *. apply andb_true_iff in Ht. destruct Ht as [Ht Hops]. apply andb_true_iff in Ht. destruct Ht as [Hne Hfn].
      destruct (upd_nth_ok (add_op_at r node) IH ops i Hops) as [H1 H2]. rewrite Hfn, H1.
      destruct ops as [|x xs]; [discriminate|]. specialize (H2 ltac:(discriminate)).
      destruct (upd_nth (add_op_at r node) i (x :: xs)); [congruence|reflexivity].
  Qed.

  Fixpoint plan_complex_ok (sc : script) {struct sc} : forall root cnt cur t cnt',
    match root with Some r => ep_ok r = true | None => True end ->
    plan_complex root cnt cur sc = Some (Some t, cnt') -> ep_ok t = true.
  Proof.
    destruct sc as [h ao tl]. intros root cnt cur t cnt' Hroot H. cbn [plan_complex] in H.
    destruct tl as [s'|].
    - destruct ao.
      + (* no operator but a following script: planted as the last selector *)
        injection H as H _. destruct cur as [p|].
        * destruct root as [r|]; [|discriminate]. injection H as <-. now apply add_op_at_ok.
        * injection H as <-. reflexivity.
      + destruct cur as [p|].
        * destruct root as [r|]; [|discriminate].
          match type of H with context [add_op_at p ?node r] =>
            assert (Hr : ep_ok (add_op_at p node r) = true) by (apply add_op_at_ok; [reflexivity|exact Hroot]);
            destruct (node_at p (add_op_at p node r)) as [[? ?|? ? [|? ?]]|]; try discriminate end.
          eapply (plan_complex_ok s'); [|exact H]. exact Hr.
        * eapply (plan_complex_ok s'); [|exact H]. reflexivity.
      + destruct cur as [p|].
        * destruct root as [r|]; [|discriminate].
          eapply (plan_complex_ok s'); [|exact H]. cbn [ep_ok forallb negb andb]. rewrite andb_true_r.
          apply add_op_at_ok; [reflexivity|exact Hroot].
        * eapply (plan_complex_ok s'); [|exact H]. reflexivity.
    - injection H as H _. destruct cur as [p|].
      + destruct root as [r|]; [|discriminate]. injection H as <-. now apply add_op_at_ok.
      + injection H as <-. reflexivity.
  Qed.

  Lemma index_limit_wfc s : wfc_sel s = true -> wfc_sel (index_limit c s) = true.
  Proof. intros H. unfold index_limit. destruct (Z.eqb (limit c) 0); [assumption|]. now apply wfc_set_limit. Qed.

  Lemma traces_data_wfc main : wfc_sel main = true -> wfc_sel (traces_data c main) = true.
  Proof.
    intros Hm. destruct tables_named as [_ [_ [Ht [Htd _]]]]. unfold traces_data. apply wfc_set_with.
    - rewrite wfc_Sel. split_and; try reflexivity. destruct (is_cluster c); assumption.
    - unfold ws_ok. cbn [forallb fst snd String.eqb Ascii.eqb Bool.eqb negb andb]. rewrite Hm, !wfc_Sel. cbn [andb].
      split_and; try reflexivity. exact Ht.
  Qed.

  Lemma plan_index_wfc q n s : plan_index q c n = Ok s -> wfc_sel s = true.
  Proof.
    unfold plan_index. intros H. destruct (sc_tail q).
    - destruct (plan_complex None 0 None q) as [[[t|] cnt]|] eqn:Ep; try discriminate.
      destruct (ep_check t); cbn [bind] in H; try discriminate.
      destruct (ep_process c n t) as [sx| |] eqn:Es; cbn [bind] in H; try discriminate. injection H as <-.
      apply index_limit_wfc. eapply ep_process_wfc; [|eassumption]. eapply plan_complex_ok; [|eassumption]. exact I.
    - destruct (simple_planner c q "" n) as [sx| |] eqn:Es; cbn [bind] in H; try discriminate. injection H as <-.
      apply index_limit_wfc. eapply simple_planner_wfc; eassumption.
  Qed.

  Lemma select_tags_wfc main : wfc_sel main = true -> wfc_sel (select_tags c main) = true.
  Proof.
    intros Hm. destruct tables_named as [_ [Had _]]. unfold select_tags.
    assert (Hres : wfc_sel (set_with [("select_spans", main); ("pre_select_tags", Sel [] false [Id "span_id"] (Some (WRef "select_spans")) [] None None None [] [] None)]
                              (Sel [] false [Col (Id "key") "key"] (Some (Col (Id (attrs_dist_table c)) "traces_idx")) [] None
                                   (Some (LOp OAnd [LOp OAnd (window c ++ [InE (Id "span_id") [WRef "pre_select_tags"]])])) None
                                   [Id "trace_id"; Id "span_id"] [] None)) = true).
    { apply wfc_set_with.
      - rewrite wfc_Sel. split_and; try reflexivity. exact Had.
      - unfold ws_ok. cbn [forallb fst snd String.eqb Ascii.eqb Bool.eqb negb andb]. now rewrite Hm. }
    destruct (Z.ltb 0 (limit c)); [|exact Hres]. apply wfc_set_limit; [|reflexivity]. apply wfc_set_order; [exact Hres|reflexivity].
  Qed.

  (* every statement built by Plan / PlanTagsV2 / PlanValuesV2 + Process *)
  Theorem plan_wfc q m n s : plan q m c n = Ok s -> wfc_sel s = true.
  Proof.
    destruct m as [| |key]; cbn [plan]; intros H.
    - unfold plan_search in H. destruct (plan_index q c n) as [sx| |] eqn:Ei; cbn [bind] in H; try discriminate.
      injection H as <-. apply index_limit_wfc, traces_data_wfc. eapply plan_index_wfc; eassumption.
    - destruct (sc_tail q); [discriminate|]. destruct (check q); cbn [bind] in H; try discriminate.
      destruct (analyze (sc_head q)) as [cond terms] eqn:Ean.
      destruct (attr_condition c terms cond (agg_attr_of (sc_head q)) n) as [main| |] eqn:Ea; cbn [bind] in H; try discriminate.
      injection H as <-. apply select_tags_wfc. destruct cond as [cd|].
      + eapply attr_condition_wfc; [|eassumption]. eapply analyze_terms_nonempty; eassumption.
      + unfold attr_condition in Ea. destruct (map_res get_term terms); cbn [bind] in Ea; discriminate.
    - destruct (sc_tail q); [discriminate|]. destruct (check q); cbn [bind] in H; try discriminate.
      destruct (analyze (sc_head q)) as [cond terms] eqn:Ean. destruct cond as [cd|].
      + destruct (attr_condition c terms (Some cd) (agg_attr_of (sc_head q)) n) as [main| |] eqn:Ea; cbn [bind] in H; try discriminate.
        injection H as <-. unfold select_values.
        assert (Hm : wfc_sel main = true) by (eapply attr_condition_wfc; [|eassumption]; eapply analyze_terms_nonempty; eassumption).
        assert (Hv : wfc_sel (and_where [LOp OEq [Id "key"; StrV key]] (set_cols [Col (Id "val") "val"] (select_tags c main))) = true).
        { apply wfc_and_where; [|discriminate|reflexivity]. apply wfc_set_cols; [now apply select_tags_wfc|discriminate|reflexivity]. }
        destruct (Z.ltb 0 (limit c)); [|exact Hv]. apply wfc_set_limit; [|reflexivity]. apply wfc_set_order; [exact Hv|reflexivity].
      + injection H as <-. destruct tables_named as [_ [_ [_ [_ Hkv]]]]. unfold all_values. rewrite wfc_Sel. split_and; try reflexivity. exact Hkv.
  Qed.
End PLAN.
