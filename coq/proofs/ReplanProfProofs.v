(* C14, profile planners (model/ReplanProf.v): executions of one planner object are independent of each other, and every
   plan transpiler.go builds can be executed: the WITH `fp` that SelectSeriesPlanner / ProfileSizePlanner look up in the
   select of their sub-planner is always there (no nil *With reaches NewWithRef). *)
From Coq Require Import List ZArith NArith String Bool.
From Qryn Require Import lib.Strs model.Sql model.SqlRender model.Logql model.LogqlPlan model.PromSel model.ProfSel model.ReplanProf.
Import ListNotations.
Open Scope string_scope.

(* the k-th execution of one object = the first execution of a fresh object for that window *)
Lemma prof_exec_nth p c ws1 w ws2 :
  nth (List.length ws1) (prof_exec p c (ws1 ++ w :: ws2)) None = hd None (prof_exec p c [w]).
Proof.
  unfold prof_exec. rewrite map_app. cbn [map hd].
  rewrite app_nth2; rewrite map_length; [|apply Nat.le_refl]. rewrite Nat.sub_diag. reflexivity.
Qed.
Lemma prof_exec_app p c ws1 ws2 : prof_exec p c (ws1 ++ ws2) = (prof_exec p c ws1 ++ prof_exec p c ws2)%list.
Proof. unfold prof_exec. apply map_app. Qed.

Lemma prof_selector_no_withs t f to sels : s_withs (prof_selector t f to sels) = [].
Proof. unfold prof_selector. destruct (get_matchers sels) as [g kv]. destruct g; destruct kv; reflexivity. Qed.

(* Process (prof_selector_abs) only appends exclusions to the WHERE of processIndexed: no WITH either *)
Lemma prof_selector_abs_no_withs re_full t f to sels : s_withs (prof_selector_abs re_full t f to sels) = [].
Proof.
  unfold prof_selector_abs.
  assert (H : forall neg q, s_withs (fold_left (fun q s => and_where [prof_not_rejected t f to s] q) neg q) = s_withs q).
  { induction neg as [|s neg IH]; intro q; cbn [fold_left]; [reflexivity|]. rewrite IH. reflexivity. }
  rewrite H. apply prof_selector_no_withs.
Qed.

Lemma add_with_fresh q a : s_withs q = [] -> add_with q a [] = [(a, q)].
Proof. destruct q; cbn. intro E. subst. reflexivity. Qed.
Lemma with_one a q : s_withs q = [] -> s_withs (with_ [(a, q)] empty_select) = [(a, q)].
Proof. intro E. unfold with_, add_withs. cbn [fold_left fst snd s_withs set_withs empty_select]. rewrite (add_with_fresh q a E). reflexivity. Qed.

Lemma withs_and_where cl q : s_withs (and_where cl q) = s_withs q.
Proof. reflexivity. Qed.
Lemma withs_and_where_if cl q : s_withs (and_where_if cl q) = s_withs q.
Proof. destruct cl; reflexivity. Qed.
Lemma withs_limit_desc c q : s_withs (limit_desc c q) = s_withs q.
Proof. unfold limit_desc. destruct (Z.eqb (pr_limit c) 0); reflexivity. Qed.

Lemma find_fp q : find_with "fp" (with_ [("fp", q)] empty_select) = find_with "fp" (with_ [("fp", q)] empty_select).
Proof. reflexivity. Qed.

(* GetLabelsPlanner over a selector: its select carries the WITH fp *)
Lemma get_labels_has_fp sels gb sels' c :
  exists r, pprocess (PPGetLabels (PPSelector sels) gb sels') c = Some r /\ ps_rest r = None /\
            find_with "fp" (ps_sel r) = Some ("fp", prof_selector_abs (tbl_lookup (pr_empty c)) (pt_series_gin c) (pr_from_ns c) (pr_to_ns c) sels).
Proof.
  eexists. split; [reflexivity|]. split; [reflexivity|].
  unfold find_with. cbn [ps_sel mk]. rewrite withs_and_where_if, withs_and_where.
  cbn [s_withs set_from set_cols set_distinct].
  rewrite (with_one "fp" _ (prof_selector_abs_no_withs _ _ _ _ _)). reflexivity.
Qed.
Lemma merge_profiles_has_fp sels sels' c :
  exists r, pprocess (PPMergeProfiles (PPSelector sels) sels') c = Some r /\ ps_rest r = None /\
            find_with "fp" (ps_sel r) = Some ("fp", prof_selector_abs (tbl_lookup (pr_empty c)) (pt_series_gin c) (pr_from_ns c) (pr_to_ns c) sels).
Proof.
  eexists. split; [reflexivity|]. split; [reflexivity|].
  unfold find_with. cbn [ps_sel mk]. rewrite withs_limit_desc, withs_and_where_if, withs_and_where.
  cbn [s_withs set_from set_cols].
  rewrite (with_one "fp" _ (prof_selector_abs_no_withs _ _ _ _ _)). reflexivity.
Qed.

Lemma select_series_executes sels t gb avg step c : pprocess (plan_select_series sels t gb avg step) c <> None.
Proof.
  unfold plan_select_series.
  destruct (get_labels_has_fp sels gb (populate sels t) c) as [r [E [_ F]]].
  cbn [pprocess]. cbn [pprocess] in E. rewrite E. cbn [bindr]. rewrite F. cbn [bindr]. discriminate.
Qed.
Lemma analyze_executes sels c : pprocess (plan_analyze sels) c <> None.
Proof.
  unfold plan_analyze.
  destruct (merge_profiles_has_fp sels sels c) as [r [E [_ F]]].
  cbn [pprocess]. cbn [pprocess] in E. rewrite E. cbn [bindr]. rewrite F. cbn [bindr]. discriminate.
Qed.

Lemma some_nn {A} (x : A) : Some x <> None.
Proof. intro H. inversion H. Qed.
Theorem plan_mode_executes : forall m sels c, pprocess (plan_mode m sels) c <> None.
Proof.
  intros m sels c. destruct m; cbn [plan_mode];
    try apply select_series_executes; try apply analyze_executes;
    try (unfold plan_series; destruct sels; cbn; apply some_nn).
Qed.
