(* C05, round 7: proofs about model/IngestHanded.v *)
From Coq Require Import List String Ascii ZArith Bool Lia.
From Qryn Require Import model.IngestRobust model.IngestPipe model.IngestFraming model.IngestHanded.
From Qryn Require Import proofs.IngestFramingProofs.
Import ListNotations.
Local Open Scope list_scope.
Local Open Scope Z_scope.

Lemma copy_script_ok : forall limit, calls_ok (copy_script limit).
Proof.
  intros limit. unfold calls_ok, copy_script. apply Forall_forall. intros c Hin.
  apply repeat_spec in Hin. subst c. unfold copy_buf. cbn [fst]. lia.
Qed.

(* whatever the body decodes to, the route reads at most min(decoded, limit) bytes from r.Body *)
Lemma handed_model_bounded : forall limit decoded, 0 <= limit -> 0 <= decoded ->
  handed_model limit decoded <= Z.min decoded limit.
Proof.
  intros limit decoded Hl Hd. unfold handed_model.
  pose proof (read_all_result limit decoded (copy_script limit) (copy_script_ok limit) Hl Hd) as R.
  destruct (read_all (lim_init limit decoded) (copy_script limit) 0) as [n | e n | n]; cbn [all_res_bytes].
  - destruct R as [R1 R2]. lia.
  - destruct e; try contradiction; lia.
  - exact R.
Qed.

(* a case the model agrees with satisfies the oracle: the oracle can only fire together with a mismatch *)
Lemma hand_agreement_implies_spec : forall c, 0 <= hc_limit c -> 0 <= hc_decoded c ->
  hand_mismatch c = false -> hand_spec_ok c = true.
Proof.
  intros c Hl Hd Hm. unfold hand_mismatch in Hm. apply negb_false_iff in Hm. apply Z.eqb_eq in Hm.
  unfold hand_spec_ok. apply Z.leb_le. rewrite Hm. unfold hand_expected.
  destruct (hc_accepted c) eqn:Ha.
  - pose proof (handed_model_bounded (hc_limit c) (hc_decoded c) Hl Hd). lia.
  - exact Hl.
Qed.

(* non-trivial values: a payload one byte over a 1 MiB limit, a bomb, a payload within the limit *)
Example handed_just_over : handed_model 1048576 1048577 = 1048576.
Proof. vm_compute. reflexivity. Qed.
Example handed_bomb : handed_model 1048576 1073741824 = 1048576.
Proof. vm_compute. reflexivity. Qed.
Example handed_within : handed_model 1048576 1044480 = 1044480.
Proof. vm_compute. reflexivity. Qed.
Example hand_unaccepted_encoding_refused :
  hand_mismatches [ {| hc_id := 1; hc_ce := "deflate"; hc_accepted := false; hc_limit := 1048576; hc_decoded := 1048577; hc_handed := 0 |} ] = [].
Proof. vm_compute. reflexivity. Qed.
Example hand_seeded_observation_rejected :
  hand_spec_violations [ {| hc_id := 1; hc_ce := "deflate"; hc_accepted := true; hc_limit := 1048576; hc_decoded := 1048577; hc_handed := 1048577 |};
                         {| hc_id := 2; hc_ce := "gzip"; hc_accepted := true; hc_limit := 1048576; hc_decoded := 1048577; hc_handed := 1048576 |} ] = [1].
Proof. vm_compute. reflexivity. Qed.
