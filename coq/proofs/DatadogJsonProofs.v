(* Proofs about model/DatadogJson.v: tags written k1:v1,k2:v2,... are found by the scan as exactly that list. *)
From Coq Require Import List ZArith NArith Bool Ascii String Lia.
From Qryn Require Import gen.DecodeConsts model.Decode model.LokiLabels model.LokiTime model.LokiJson model.DatadogJson proofs.LokiLabelsProofs proofs.LokiJsonProofs.
Import ListNotations.
Open Scope N_scope.

Lemma letter_lt128 : forall b, is_letter_ascii b = true -> b <? 128 = true.
Proof. intros b H. unfold is_letter_ascii, inr in H. rewrite !orb_true_iff, !andb_true_iff, !N.leb_le in H. apply N.ltb_lt. lia. Qed.
Lemma key_extra_lt128 : forall b, key_extra b = true -> b <? 128 = true.
Proof. intros b H. unfold key_extra, is_digit, inr in H. rewrite !orb_true_iff, !andb_true_iff, !N.leb_le, !N.eqb_eq in H. apply N.ltb_lt. lia. Qed.
Lemma val_extra_lt128 : forall b, val_extra b = true -> b <? 128 = true.
Proof. intros b H. unfold val_extra in H. apply orb_prop in H. destruct H as [H|H]; [apply key_extra_lt128; exact H|]. apply N.eqb_eq in H. subst b. reflexivity. Qed.

Section T.
  Variable uletter : string -> bool.
  Variable extra : N -> bool.
  Hypothesis extra_ascii : forall b, extra b = true -> b <? 128 = true.

  Lemma class_len_all : forall s, all_bytes (fun b => is_letter_ascii b || extra b) s = true ->
    class_len uletter extra 0 s = String.length s.
  Proof.
    induction s as [|a s IH]; intro H; [reflexivity|].
    cbn [all_bytes] in H. apply andb_prop in H. destruct H as [Ha Hs].
    cbn [class_len String.length].
    assert (L : byte a <? 128 = true) by (apply orb_prop in Ha; destruct Ha as [Ha|Ha]; [apply letter_lt128 | apply extra_ascii]; exact Ha).
    rewrite L, Ha, (IH Hs). reflexivity.
  Qed.

  Lemma class_len_stop : forall s c t, all_bytes (fun b => is_letter_ascii b || extra b) s = true ->
    byte c <? 128 = true -> is_letter_ascii (byte c) || extra (byte c) = false ->
    class_len uletter extra 0 (s ++ String c t) = String.length s.
  Proof.
    induction s as [|a s IH]; intros c t H Hc1 Hc2.
    - cbn [append class_len String.length]. rewrite Hc1, Hc2. reflexivity.
    - cbn [all_bytes] in H. apply andb_prop in H. destruct H as [Ha Hs].
      cbn [append class_len String.length].
      assert (L : byte a <? 128 = true) by (apply orb_prop in Ha; destruct Ha as [Ha|Ha]; [apply letter_lt128 | apply extra_ascii]; exact Ha).
      rewrite L, Ha, (IH c t Hs Hc1 Hc2). reflexivity.
  Qed.
End T.

Lemma append_nil_r : forall s : string, (s ++ EmptyString)%string = s.
Proof. induction s as [|a s IH]; cbn; [reflexivity | rewrite IH; reflexivity]. Qed.

Definition COLON : ascii := ":"%char.
Definition COMMA' : ascii := ","%char.

Section TAGS.
  Variable uletter : string -> bool.

  Lemma substring_all : forall s, substring 0 (String.length s) s = s.
  Proof. induction s as [|a s IH]; cbn; [reflexivity | rewrite IH; reflexivity]. Qed.
  Lemma sdrop_all : forall s, sdrop (String.length s) s = EmptyString.
  Proof. induction s as [|a s IH]; cbn; [reflexivity | exact IH]. Qed.

  (* one written tag, followed by the end of the text or by a comma *)
  Lemma tag_at_written : forall k v (tail : option string), tag_ok (k, v) = true ->
    tag_at uletter (k ++ String COLON (v ++ match tail with Some r => String COMMA' r | None => EmptyString end))
    = Some (k, v, match tail with Some r => r | None => EmptyString end).
  Proof.
    intros k v tail H. unfold tag_ok in H. cbn [fst snd] in H. apply andb_prop in H. destruct H as [Hk Hv].
    destruct k as [|a k']; [discriminate Hk|]. cbn [tag_key_ok] in Hk. apply andb_prop in Hk. destruct Hk as [Ha Hk'].
    assert (Hkall : all_bytes (fun b => is_letter_ascii b || key_extra b) (String a k') = true).
    { cbn [all_bytes]. rewrite Ha, Hk'. reflexivity. }
    destruct v as [|b v']; [discriminate Hv|]. cbn [tag_val_ok] in Hv.
    unfold tag_at.
    assert (SL : starts_with_letter uletter ((String a k') ++ String COLON ((String b v') ++ match tail with Some r => String COMMA' r | None => EmptyString end)) = true).
    { cbn [append starts_with_letter]. rewrite (letter_lt128 _ Ha). exact Ha. }
    rewrite SL.
    rewrite (class_len_stop uletter key_extra key_extra_lt128 (String a k') COLON _ Hkall eq_refl eq_refl).
    rewrite sdrop_app. change (byte COLON =? 58) with true. cbv iota.
    destruct tail as [r|].
    - rewrite (class_len_stop uletter val_extra val_extra_lt128 (String b v') COMMA' r Hv eq_refl eq_refl).
      cbn [String.length]. cbv iota.
      change (S (String.length k')) with (String.length (String a k')). change (S (String.length v')) with (String.length (String b v')).
      rewrite substring_app, substring_app, sdrop_app. change (byte COMMA' =? 44) with true. reflexivity.
    - rewrite (append_nil_r (String b v')).
      rewrite (class_len_all uletter val_extra val_extra_lt128 (String b v') Hv).
      cbn [String.length]. cbv iota.
      change (S (String.length k')) with (String.length (String a k')). change (S (String.length v')) with (String.length (String b v')).
      rewrite substring_app, substring_all, sdrop_all. reflexivity.
  Qed.
End TAGS.

Section FIND.
  Variable uletter : string -> bool.

  Lemma find_tags_written : forall ts f, forallb tag_ok ts = true -> (List.length ts <= f)%nat ->
    find_tags uletter f (print_tags ts) = ts.
  Proof.
    induction ts as [|[k v] r IH]; intros f H Hf.
    - destruct f; reflexivity.
    - cbn [forallb] in H. apply andb_prop in H. destruct H as [Ht Hr].
      destruct f as [|f]; [cbn in Hf; lia|].
      assert (NE : exists c x, k = String c x).
      { unfold tag_ok in Ht. cbn [fst] in Ht. apply andb_prop in Ht. destruct Ht as [Hk _]. destruct k as [|c x]; [discriminate Hk|]. eauto. }
      destruct NE as [c [x Ek]].
      destruct r as [|t2 r2].
      + cbn [print_tags fst snd].
        pose proof (tag_at_written uletter k v None Ht) as T. cbn iota in T. rewrite append_nil_r in T. unfold COLON in T.
        cbn [find_tags]. rewrite Ek in *. cbn [append] in *. rewrite T. destruct f; reflexivity.
      + change (print_tags ((k, v) :: t2 :: r2)) with (k ++ String COLON (v ++ String COMMA' (print_tags (t2 :: r2))))%string.
        pose proof (tag_at_written uletter k v (Some (print_tags (t2 :: r2))) Ht) as T. cbn iota in T.
        cbn [find_tags]. rewrite Ek in *. cbn [append] in *. rewrite T.
        rewrite (IH f Hr); [reflexivity|]. cbn [List.length] in *. lia.
  Qed.

  Lemma print_tags_length : forall ts, (List.length ts <= String.length (print_tags ts))%nat.
  Proof.
    induction ts as [|[k v] r IH]; [cbn; lia|]. destruct r as [|t2 r2].
    - cbn [print_tags fst snd List.length]. rewrite length_append. cbn [String.length]. lia.
    - change (print_tags ((k, v) :: t2 :: r2)) with (k ++ String COLON (v ++ String COMMA' (print_tags (t2 :: r2))))%string.
      rewrite length_append. cbn [String.length]. rewrite length_append. cbn [String.length List.length] in *. lia.
  Qed.

  Lemma dd_tags_written_l : forall ts, forallb tag_ok ts = true -> dd_tags uletter (print_tags ts) = ts.
  Proof.
    intros ts H. unfold dd_tags. apply find_tags_written; [exact H|]. pose proof (print_tags_length ts). lia.
  Qed.
End FIND.

Open Scope Z_scope.
(* a log object as a client writes it *)
Record wlog := WL { wl_tags : labels; wl_source : option string; wl_service : option string; wl_host : option string;
                    wl_stype : option string; wl_msg : string; wl_ts : Z; wl_bits : N }.
Definition omember (k : string) (o : option string) : list (string * jv) :=
  match o with Some s => [(k, JStr s)] | None => [] end.
Definition wlog_doc (w : wlog) : jv :=
  JObj ([("ddtags"%string, JStr (print_tags (wl_tags w)))] ++ omember "ddsource" (wl_source w) ++ omember "service" (wl_service w)
        ++ omember "hostname" (wl_host w) ++ omember "source_type" (wl_stype w)
        ++ [("message"%string, JStr (wl_msg w)); ("status"%string, JStr "info"); ("timestamp"%string, JNum (wl_bits w) (Some (wl_ts w)))]).
Definition onorm (o : option string) : option string := some_if_nonempty (opt_str o).
Definition wlog_ddlog (w : wlog) : ddlog :=
  DL (wl_tags w) (onorm (wl_source w)) (onorm (wl_service w)) (onorm (wl_host w)) (onorm (wl_stype w)) (wl_msg w) (wl_ts w).

Lemma dd_entry_written : forall uletter w, forallb tag_ok (wl_tags w) = true ->
  dd_entry uletter dd_int_of (wlog_doc w) = Some (wlog_ddlog w).
Proof.
  intros uletter [tags src svc host st msg ts bits] H. cbn [wl_tags] in H.
  unfold dd_entry, wlog_doc, wlog_ddlog, onorm. cbn [wl_tags wl_source wl_service wl_host wl_stype wl_msg wl_ts wl_bits].
  destruct src as [s1|], svc as [s2|], host as [s3|], st as [s4|]; cbn -[dd_tags print_tags]; rewrite (dd_tags_written_l uletter tags H); reflexivity.
Qed.

Lemma dd_document_written_l : forall uletter ws, Forall (fun w => forallb tag_ok (wl_tags w) = true) ws ->
  dd_document uletter dd_int_of (JArr (map wlog_doc ws)) = Some (map wlog_ddlog ws).
Proof.
  intros uletter ws H. unfold dd_document.
  apply (all_some_map _ _ _ (dd_entry uletter dd_int_of) wlog_doc wlog_ddlog).
  intros w Hw. apply dd_entry_written. rewrite Forall_forall in H. exact (H w Hw).
Qed.

(* a series object as a client writes it: tb / iv = the float bits of the timestamp text and whether the value text is an integer *)
Record wseries := WS { ws_metric : option string; ws_resources : list labels; ws_points : list (Z * N); ws_tb : Z -> N; ws_iv : N -> option Z }.
Definition wpoint_doc (tb : Z -> N) (iv : N -> option Z) (p : Z * N) : jv :=
  JObj [("timestamp"%string, JNum (tb (fst p)) (Some (fst p))); ("value"%string, JNum (snd p) (iv (snd p)))].
Definition wresource_doc (r : labels) : jv := JObj (map (fun kv => (fst kv, JStr (snd kv))) r).
Definition wseries_doc (s : wseries) : jv :=
  JObj (omember "metric" (ws_metric s)
        ++ [("resources"%string, JArr (map wresource_doc (ws_resources s)));
            ("points"%string, JArr (map (wpoint_doc (ws_tb s) (ws_iv s)) (ws_points s)));
            ("type"%string, JNum 0%N (Some 0))]).
Definition wseries_series (s : wseries) : ddseries := DS (ws_metric s) (ws_resources s) (ws_points s) [].

Lemma points_array_written : forall tb iv ps st acc stamped,
  exists st', points_array (map (wpoint_doc tb iv) ps) st acc stamped = WOk (acc ++ ps, stamped, st')%list.
Proof.
  intros tb iv. induction ps as [|[z b] ps IH]; intros st acc stamped.
  - exists st. cbn. rewrite app_nil_r. reflexivity.
  - cbn [map points_array wpoint_doc fst snd point_members]. cbn.
    destruct (IH (Some z, b) (acc ++ [(z, b)])%list stamped) as [st' E]. exists st'. rewrite E. rewrite <- app_assoc. reflexivity.
Qed.

Lemma resource_object_written : forall r, resource_object (wresource_doc r) = Some r.
Proof.
  intro r. unfold resource_object, wresource_doc.
  rewrite (all_some_map _ _ _ _ (fun kv : string * string => (fst kv, JStr (snd kv))) (fun kv => kv)).
  - rewrite map_id. reflexivity.
  - intros [k v] _. reflexivity.
Qed.

Lemma series_object_written : forall s, series_object (wseries_doc s) = WOk (wseries_series s).
Proof.
  intros [m rs ps tb iv]. unfold series_object, wseries_doc, wseries_series. cbn [ws_metric ws_resources ws_points ws_tb ws_iv].
  assert (R : all_some resource_object (map wresource_doc rs) = Some rs).
  { rewrite (all_some_map _ _ _ resource_object wresource_doc (fun r => r)); [rewrite map_id; reflexivity|].
    intros r _. apply resource_object_written. }
  destruct (points_array_written tb iv ps (None, 0%N) [] []) as [st' P]. cbn [app] in P.
  destruct m as [n|]; cbn -[points_array all_some]; rewrite R, P; reflexivity.
Qed.

Lemma series_array_written : forall ws, series_array (map wseries_doc ws) = WOk (map wseries_series ws).
Proof.
  induction ws as [|s ws IH]; [reflexivity|]. cbn [map series_array]. rewrite series_object_written, IH. reflexivity.
Qed.

Lemma ddmet_document_written_l : forall ws,
  ddmet_document (JObj [("series"%string, JArr (map wseries_doc ws))]) = WOk (map wseries_series ws).
Proof.
  intro ws. unfold ddmet_document. cbn [ddmet_top]. change (String.eqb "series" "series") with true. cbv iota.
  rewrite series_array_written. rewrite app_nil_r. reflexivity.
Qed.
