(* C10 — the statement-level lexer (model/ChLex.v, byte-at-a-time machine) and quoted values *)
From Coq Require Import List String Ascii Bool NArith Lia.
From Qryn Require Import model.Quote model.ChLex proofs.QuoteProofs.
Import ListNotations.
Open Scope string_scope.

(* ---- the machine is compositional *)
Lemma run_app : forall a q b, run q (a ++ b) = (outs q a ++ run (after q a) b)%list.
Proof.
  induction a as [|c a IH]; intros q b; [reflexivity|].
  cbn [append run after outs]. destruct (step q c) as [q' out]. cbn [fst snd].
  rewrite IH, app_assoc. reflexivity.
Qed.

Lemma after_app : forall a q b, after q (a ++ b) = after (after q a) b.
Proof. induction a as [|c a IH]; intros q b; [reflexivity|]. cbn [append after]. apply IH. Qed.

Lemma outs_app : forall a q b, outs q (a ++ b) = (outs q a ++ outs (after q a) b)%list.
Proof.
  induction a as [|c a IH]; intros q b; [reflexivity|].
  cbn [append after outs]. rewrite IH, app_assoc. reflexivity.
Qed.

(* ---- the body produced by esc keeps the machine inside the literal and decodes to the value *)
Lemma step_str_plain acc c : c <> "'"%char -> c <> "\"%char -> step (QStr acc) c = (QStr (app1 acc c), []).
Proof.
  intros H1 H2. cbn [step].
  rewrite (proj2 (Ascii.eqb_neq _ _) H1), (proj2 (Ascii.eqb_neq _ _) H2). reflexivity.
Qed.

Lemma esc_char_in_literal c acc :
  after (QStr acc) (esc_char c) = QStr (app1 acc c) /\ outs (QStr acc) (esc_char c) = [].
Proof.
  unfold esc_char.
  repeat match goal with
  | |- context [Ascii.eqb c ?k] => destruct (Ascii.eqb_spec c k) as [->|?]
  end; try (split; reflexivity).
  cbn [after outs]. rewrite step_str_plain by assumption. split; reflexivity.
Qed.

Lemma esc_in_literal : forall s acc,
  after (QStr acc) (esc s) = QStr (acc ++ s) /\ outs (QStr acc) (esc s) = [].
Proof.
  induction s as [|c s IH]; intro acc.
  - cbn. rewrite sapp_nil_r. split; reflexivity.
  - cbn [esc]. rewrite after_app, outs_app.
    destruct (esc_char_in_literal c acc) as [Ha Ho]. rewrite Ha, Ho.
    destruct (IH (app1 acc c)) as [Ha' Ho']. rewrite Ha', Ho', app1_assoc. split; reflexivity.
Qed.

(* state and output after a whole quoted value read in a state where a quote opens a literal *)
Lemma quote_after q s : opens_literal q = true ->
  after q (quote s) = QStrQ s /\ outs q (quote s) = snd (step q "'").
Proof.
  unfold opens_literal, quote. intro H.
  change ("'" ++ esc s ++ "'") with (String "'" (esc s ++ "'")).
  cbn [after outs]. destruct (step q "'") as [q1 o1]. cbn [fst snd] in *.
  destruct q1 as [| | | | | | | |acc| | | | | | | | | | |]; try discriminate.
  destruct acc; [|discriminate].
  rewrite after_app, outs_app. destruct (esc_in_literal s "") as [Ha Ho]. rewrite Ha, Ho.
  cbn. rewrite app_nil_r. split; reflexivity.
Qed.

(* what follows a closed literal: unless it is another quote, the literal token is emitted as is *)
Lemma run_after_literal s post : safe_rest post -> run (QStrQ s) post = TStr s :: run QN post.
Proof.
  destruct post as [|c r]; intro H; [reflexivity|].
  cbn in H. cbn [run step]. rewrite (proj2 (Ascii.eqb_neq _ _) H).
  unfold emit_then. destruct (step_normal c) as [q out]. reflexivity.
Qed.

(* complete description of the token list of a statement around a quoted value *)
Lemma lex_around_quote pre s post :
  opens_literal (after QN pre) = true -> safe_rest post ->
  lex (pre ++ quote s ++ post) =
  (outs QN pre ++ snd (step (after QN pre) "'") ++ TStr s :: lex post)%list.
Proof.
  intros Hctx Hsafe. unfold lex.
  rewrite run_app, run_app.
  destruct (quote_after (after QN pre) s Hctx) as [Ha Ho]. rewrite Ha, Ho.
  rewrite run_after_literal by assumption. reflexivity.
Qed.

Lemma skeleton_app a b : skeleton (a ++ b)%list = (skeleton a ++ skeleton b)%list.
Proof. apply map_app. Qed.

Lemma token_skeleton_invariant_l pre post s1 s2 :
  opens_literal (after QN pre) = true -> safe_rest post ->
  skeleton (lex (pre ++ quote s1 ++ post)) = skeleton (lex (pre ++ quote s2 ++ post)).
Proof.
  intros Hctx Hsafe. rewrite !lex_around_quote by assumption.
  rewrite !skeleton_app. reflexivity.
Qed.

Lemma lits_app a b : lits (a ++ b)%list = (lits a ++ lits b)%list.
Proof. unfold lits. apply flat_map_app. Qed.

(* the literals of the statement: those of the context, and exactly the value at the hole *)
Lemma literals_around_quote pre s post :
  opens_literal (after QN pre) = true -> safe_rest post ->
  lits (lex (pre ++ quote s ++ post)) =
  (lits (outs QN pre ++ snd (step (after QN pre) "'")) ++ s :: lits (lex post))%list.
Proof.
  intros Hctx Hsafe. rewrite lex_around_quote by assumption.
  rewrite app_assoc, lits_app. reflexivity.
Qed.

(* no error is introduced by the value *)
Lemma has_err_app a b : has_err (a ++ b)%list = has_err a || has_err b.
Proof. unfold has_err. apply existsb_app. Qed.

Lemma err_around_quote pre s1 s2 post :
  opens_literal (after QN pre) = true -> safe_rest post ->
  has_err (lex (pre ++ quote s1 ++ post)) = has_err (lex (pre ++ quote s2 ++ post)).
Proof.
  intros Hctx Hsafe. rewrite !lex_around_quote by assumption.
  rewrite !has_err_app. cbn. reflexivity.
Qed.

(* ---- lexing a statement given as prefix ++ middle ++ suffix, with the work on prefix and suffix shared
   (used by the correspondence evaluation, model/SqlCase.v) *)
Lemma st_eqb_eq a b : st_eqb a b = true -> a = b.
Proof.
  destruct a, b; cbn; try discriminate; try reflexivity; intro H;
  try (apply andb_true_iff in H; destruct H as [H1 H2]; apply String.eqb_eq in H1; apply Ascii.eqb_eq in H2; now subst);
  try (apply String.eqb_eq in H; now subst);
  try (apply Ascii.eqb_eq in H; now subst).
Qed.

Lemma lex_three pre mid suf :
  lex (pre ++ mid ++ suf) =
  (outs QN pre ++ outs (after QN pre) mid ++ run (after (after QN pre) mid) suf)%list.
Proof. unfold lex. rewrite run_app, run_app. reflexivity. Qed.

Lemma trace_spec : forall s q, trace q s = (after q s, outs q s).
Proof.
  induction s as [|c s IH]; intro q; [reflexivity|].
  cbn [trace after outs]. destruct (step q c) as [q' o]. cbn [fst snd]. rewrite IH. reflexivity.
Qed.
