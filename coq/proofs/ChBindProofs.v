(* C10 (round 6) -- facts about the driver's client-side bind (model/ChBind.v) *)
From Coq Require Import List String Ascii Bool NArith Lia.
From Qryn Require Import model.Quote model.ChLex model.ChBind proofs.QuoteProofs.
Import ListNotations.
Open Scope string_scope.

(* ---- no argument: the statement leaves the driver as it was handed over (every session call of the reader) *)
Lemma bind_no_args : forall q, bind_go q [] = Some q.
Proof. reflexivity. Qed.

(* ---- a text without `$`, `?`, `{` is no placeholder syntax: it survives any arguments *)
Lemma ph_free_cons : forall c r, ph_free (String c r) = true ->
  is_dollar c = false /\ is_qm c = false /\ Ascii.eqb c "{" = false /\ ph_free r = true.
Proof.
  intros c r H. cbn [ph_free] in H.
  apply andb_prop in H. destruct H as [H Hr].
  apply andb_prop in H. destruct H as [H Hb].
  apply andb_prop in H. destruct H as [Hd Hq].
  repeat split; try assumption; now apply negb_true_iff.
Qed.

Lemma ph_free_numeric : forall s, ph_free s = true -> has_numeric s = false.
Proof.
  induction s as [|c r IH]; intros H; [reflexivity|].
  apply ph_free_cons in H. destruct H as (Hd & _ & _ & Hr).
  cbn [has_numeric]. rewrite Hd. cbn. now apply IH.
Qed.

Lemma ph_free_positional : forall s, ph_free s = true -> has_positional s = false.
Proof.
  induction s as [|c r IH]; intros H; [reflexivity|].
  apply ph_free_cons in H. destruct H as (_ & _ & _ & Hr).
  cbn [has_positional]. rewrite (IH Hr). rewrite orb_false_r.
  destruct r as [|d r']; [now rewrite andb_false_r|].
  apply ph_free_cons in Hr. destruct Hr as (_ & Hq & _ & _). rewrite Hq. now rewrite andb_false_r.
Qed.

Lemma ph_free_qp : forall s, ph_free s = true -> qp_run s 0%N = false.
Proof.
  induction s as [|c r IH]; intros H; [reflexivity|].
  apply ph_free_cons in H. destruct H as (_ & _ & Hb & Hr).
  cbn [qp_run]. rewrite Hb. destruct (is_nl c); now apply IH.
Qed.

Lemma bp_run_ph_free : forall s pb args, ph_free s = true ->
  bp_run s pb args = Some ((if pb then "\" else "") ++ s).
Proof.
  induction s as [|c r IH]; intros pb args H.
  - cbn. destruct pb; reflexivity.
  - apply ph_free_cons in H. destruct H as (_ & Hq & _ & Hr).
    cbn [bp_run]. rewrite Hq. rewrite (IH (is_bsl c) args Hr).
    destruct (is_bsl c) eqn:Hb.
    + unfold is_bsl in Hb. apply Ascii.eqb_eq in Hb. subst c. destruct pb; reflexivity.
    + destruct pb; reflexivity.
Qed.

Lemma bind_ph_free : forall q args, ph_free q = true -> bind_go q args = Some q.
Proof.
  intros q args H. destruct args as [|a rest]; [reflexivity|].
  unfold bind_go, has_query_params.
  rewrite (ph_free_qp q H), (ph_free_numeric q H), (ph_free_positional q H). cbn [andb].
  now rewrite bp_run_ph_free.
Qed.

(* ---- the driver's own quoting of a string argument is one literal decoding to the argument *)
Lemma lex_body_drv_esc : forall s rest acc, safe_rest rest ->
  lex_body (drv_esc s ++ String "'" rest) acc = Some (acc ++ s, rest).
Proof.
  induction s as [|c s IH]; intros rest acc Hsafe.
  - cbn. destruct rest as [|c2 r2]; cbn.
    + now rewrite sapp_nil_r.
    + cbn in Hsafe. destruct (Ascii.eqb_spec c2 "'"); [contradiction|]. now rewrite sapp_nil_r.
  - cbn [drv_esc]. unfold drv_esc_char, is_bsl.
    destruct (Ascii.eqb_spec c "\") as [->|Hb].
    + cbn [append lex_body Ascii.eqb Bool.eqb andb orb unescape].
      rewrite IH by assumption. rewrite sapp_assoc. reflexivity.
    + destruct (Ascii.eqb_spec c "'") as [->|Hq].
      * cbn [append lex_body Ascii.eqb Bool.eqb andb orb unescape].
        rewrite IH by assumption. rewrite sapp_assoc. reflexivity.
      * cbn [append lex_body b2s].
        rewrite (proj2 (Ascii.eqb_neq _ _)) by assumption.
        rewrite (proj2 (Ascii.eqb_neq _ _)) by assumption.
        rewrite IH by assumption. rewrite app1_assoc. reflexivity.
Qed.

Lemma drv_quote_is_one_literal : forall s rest, safe_rest rest ->
  lex_string (drv_quote s ++ rest) = Some (s, rest).
Proof.
  intros s rest Hsafe. unfold drv_quote, lex_string. cbn.
  rewrite sapp_assoc. cbn. now rewrite lex_body_drv_esc.
Qed.


(* ---- a CONSTANT statement with one numeric placeholder: the argument arrives as the driver-quoted literal, whatever its bytes *)
Lemma no_byte_app : forall k a b, no_byte k (a ++ b) = no_byte k a && no_byte k b.
Proof. induction a as [|c a IH]; intros b; cbn; [reflexivity|]. rewrite IH. now rewrite andb_assoc. Qed.

Lemma ph_free_no_byte : forall s, ph_free s = true ->
  no_byte "$" s = true /\ no_byte "?" s = true /\ no_byte "{" s = true.
Proof.
  induction s as [|c r IH]; intros H; [repeat split|].
  apply ph_free_cons in H. destruct H as (Hd & Hq & Hb & Hr).
  destruct (IH Hr) as (I1 & I2 & I3). unfold is_dollar in Hd. unfold is_qm in Hq.
  cbn [no_byte]. rewrite Hd, Hq, Hb, I1, I2, I3. repeat split.
Qed.

Lemma no_qm_positional : forall s, no_byte "?" s = true -> has_positional s = false.
Proof.
  induction s as [|c r IH]; intros H; [reflexivity|].
  cbn [no_byte] in H. apply andb_prop in H. destruct H as [_ Hr].
  cbn [has_positional]. rewrite (IH Hr), orb_false_r.
  destruct r as [|d r']; [now rewrite andb_false_r|].
  cbn [no_byte] in Hr. apply andb_prop in Hr. destruct Hr as [Hd _]. apply negb_true_iff in Hd.
  unfold is_qm. rewrite Hd. now rewrite andb_false_r.
Qed.

Lemma no_brace_qp : forall s, no_byte "{" s = true -> qp_run s 0%N = false.
Proof.
  induction s as [|c r IH]; intros H; [reflexivity|].
  cbn [no_byte] in H. apply andb_prop in H. destruct H as [Hc Hr]. apply negb_true_iff in Hc.
  cbn [qp_run]. rewrite Hc. destruct (is_nl c); now apply IH.
Qed.

Lemma has_numeric_app_r : forall a b, has_numeric b = true -> has_numeric (a ++ b) = true.
Proof.
  induction a as [|c a IH]; intros b H; [exact H|].
  cbn [append has_numeric]. rewrite (IH b H). now rewrite orb_true_r.
Qed.

Lemma bn_run_prefix : forall pre r args, no_byte "$" pre = true ->
  bn_run (pre ++ r) None args = option_map (append pre) (bn_run r None args).
Proof.
  induction pre as [|c pre IH]; intros r args H.
  - cbn. now destruct (bn_run r None args).
  - cbn [no_byte] in H. apply andb_prop in H. destruct H as [Hc Hp]. apply negb_true_iff in Hc.
    cbn [append bn_run]. unfold is_dollar. rewrite Hc. rewrite (IH r args Hp).
    now destruct (bn_run r None args).
Qed.

Lemma bn_run_plain : forall s args, no_byte "$" s = true -> bn_run s None args = Some s.
Proof.
  intros s args H. rewrite <- (sapp_nil_r s) at 1. rewrite bn_run_prefix by assumption. cbn. now rewrite sapp_nil_r.
Qed.

Lemma bind_constant_statement : forall pre post s,
  ph_free pre = true -> ph_free post = true -> starts_with_digit post = false ->
  bind_go (pre ++ "$1" ++ post) [s] = Some (pre ++ drv_quote s ++ post).
Proof.
  intros pre post s Hpre Hpost Hdig.
  destruct (ph_free_no_byte pre Hpre) as (Pd & Pq & Pb).
  destruct (ph_free_no_byte post Hpost) as (Qd & Qq & Qb).
  unfold bind_go, has_query_params.
  rewrite no_brace_qp by (rewrite no_byte_app, Pb; cbn; exact Qb).
  rewrite has_numeric_app_r by reflexivity.
  rewrite no_qm_positional by (rewrite no_byte_app, Pq; cbn; exact Qq).
  cbn [andb].
  rewrite bn_run_prefix by assumption.
  assert (E : bn_run ("$1" ++ post) None [s] = Some (drv_quote s ++ post)).
  { destruct post as [|c r].
    - vm_compute bn_run at 1. cbn. now rewrite !sapp_nil_r.
    - cbn [starts_with_digit] in Hdig.
      change ("$1" ++ String c r) with (String "$" (String "1" (String c r))).
      cbn [bn_run]. change (is_dollar "$") with true. change (is_dig "1") with true. cbn iota.
      rewrite Hdig.
      cbn [no_byte] in Qd. apply andb_prop in Qd. destruct Qd as [Qc Qr]. apply negb_true_iff in Qc.
      unfold is_dollar. rewrite Qc. rewrite (bn_run_plain r [s] Qr). reflexivity. }
  rewrite E. reflexivity.
Qed.

(* ... and that literal is ONE string token decoding to the argument (with drv_quote_is_one_literal): a parameterised constant
   statement keeps its structure for every argument *)
Example bind_constant_statement_example :
  bind_go ("SELECT val FROM t WHERE key == $1" ++ "") ["it's \ $1 ? {a:b}"]
  = Some ("SELECT val FROM t WHERE key == " ++ drv_quote "it's \ $1 ? {a:b}").
Proof. vm_compute. reflexivity. Qed.

(* ---- seeded change C10-f in the model: the label name bound as $1 beside a rendered matcher value *)
Definition values_stmt_bound (matcher_value : string) : string :=
  "SELECT val FROM t WHERE ((val) == (" ++ quote_seq matcher_value ++ ")) and ((key) == ($1))".
Definition values_stmt_text (matcher_value label : string) : string :=
  "SELECT val FROM t WHERE ((val) == (" ++ quote_seq matcher_value ++ ")) and ((key) == (" ++ quote_seq label ++ "))".

Lemma bound_label_witness :
  bind_go (values_stmt_bound "x$1y") [" or 1 or "]
  = Some "SELECT val FROM t WHERE ((val) == ('x' or 1 or 'y')) and ((key) == (' or 1 or '))".
Proof. vm_compute. reflexivity. Qed.

(* bound, the statement for the matcher value x$1y has another token structure than the statement for a harmless value, and the
   label name's bytes are tokens; written as text (the code as it stands, no argument) both have the same structure *)
Lemma bound_argument_beside_rendered_values_refuted :
  exists v label out out0,
    bind_go (values_stmt_bound v) [label] = Some out /\
    bind_go (values_stmt_bound "zqxmark") [label] = Some out0 /\
    has_err (lex out) = false /\
    skeleton (lex out) <> skeleton (lex out0) /\
    bind_go (values_stmt_text v label) [] = Some (values_stmt_text v label) /\
    skeleton (lex (values_stmt_text v label)) = skeleton (lex (values_stmt_text "zqxmark" label)).
Proof.
  exists "x$1y", " or 1 or ". eexists. eexists.
  split; [exact bound_label_witness|].
  split; [vm_compute; reflexivity|].
  split; [vm_compute; reflexivity|].
  split; [vm_compute; discriminate|].
  split; [reflexivity|vm_compute; reflexivity].
Qed.

(* a placeholder the call has no argument for makes the driver refuse the statement: a matcher value can also DENY the request *)
Lemma bound_argument_lets_a_value_refuse_the_statement :
  bind_go (values_stmt_bound "$2") ["job"] = None /\ bind_go (values_stmt_bound "a?b") ["job"] = None.
Proof. split; vm_compute; reflexivity. Qed.

Example bind_ph_free_example :
  ph_free (values_stmt_text "it's" "job") = true /\
  bind_go (values_stmt_text "it's" "job") ["unused"] = Some (values_stmt_text "it's" "job").
Proof. split; vm_compute; reflexivity. Qed.

Example drv_quote_example : lex_string (drv_quote "a'b\c" ++ ")") = Some ("a'b\c", ")").
Proof. vm_compute. reflexivity. Qed.
