(* Property C11: traceql_correct_single.  For a search with ONE selector (any boolean expression, no aggregate filter):
   the statement Plan + Process build, run by the evaluator up to its CTE index_grouped over any consistent attribute
   index, returns -- in the sense of result_ok, the judgement the check applies to the implementation's statements at run
   time -- exactly what the script means: every returned trace matches, with exactly its matched spans, no trace twice,
   all matching traces or the `limit` most recent of them.
   Layers: index_search_bridge + index_search_rows (selector -> spans), grouped_bridge (group per trace, HAVING, ORDER BY ..
   LIMIT as the evaluator runs them), answer_ok (top-`limit` selection, span sets). *)
From Coq Require Import List ZArith NArith QArith String Ascii Bool Lia Permutation.
From Qryn Require Import model.TqSql model.Traceql model.TraceqlPlan model.TraceqlSem model.TraceqlCase
     proofs.TraceqlBitsetProofs proofs.TraceqlAnalyzeProofs proofs.TraceqlEvalProofs proofs.TraceqlSelectorProofs
     proofs.TraceqlBridgeLib proofs.TraceqlIndexSearchProofs proofs.TraceqlIndexCorrectProofs proofs.TraceqlGroupedProofs
     proofs.TraceqlTopkProofs.
Import ListNotations.
Open Scope string_scope.
Open Scope list_scope.
Open Scope nat_scope.

Lemma eval_sel_S re pf h tables f cte top s :
  eval_sel re pf h tables (S f) cte top s = eval_body re pf h tables (eval_sel re pf h tables f) cte top s.
Proof. reflexivity. Qed.

Lemma all_some_VStr l : all_some (map (fun v => match v with VStr x => Some x | _ => None end) (map VStr l)) = Some l.
Proof. induction l as [|x l IH]; [reflexivity|]. cbn [map all_some]. now rewrite IH. Qed.

(* the database is consistent: the partition date of a row inside the window lies inside the date bounds the statement
   derives from the window (date = UTC day of timestamp_ns), and the rows of one span carry the span's timestamp and duration *)
Definition db_consistent (c : ctx) (d : db) : Prop :=
  (forall r, In r d -> in_window c r = true -> date_ok c r = true)
  /\ (forall a b, In a d -> In b d -> same_span a b = true -> r_ts a = r_ts b /\ r_dur a = r_dur b).

(* groupArray(100): the span list of a trace is cut after 100 spans; the theorem is about traces with at most 100 spans in the window *)
Definition spans_capped (c : ctx) (d : db) : Prop :=
  forall t, List.length (filter (fun sp => String.eqb (sp_trace sp) t) (spans_of c d)) <= 100.

(* layer 1, both halves in one statement: the statement of AttrConditionPlanner evaluates to typed rows whose members are
   exactly the matching spans of the reference meaning *)
Theorem index_search_layer re_match parse_float hash64 c d e attr conds :
  db_consistent c d ->
  keys_ok e = true -> map_res get_term (fst (snd (analyze_cond e ([], [])))) = Ok conds ->
  forallb term_lit_ok (fst (snd (analyze_cond e ([], [])))) = true ->
  List.length (fst (snd (analyze_cond e ([], [])))) <= 64 -> cond_depth (fst (analyze_cond e ([], []))) <= 28 ->
  exists T : list mspan,
    (forall rec cte, eval_body re_match parse_float hash64 [(attrs_table c, map row_of_irow d)] rec cte false (stmt1 c e attr conds)
                     = Some (map mspan_row T))
    /\ forall m, In m T <-> exists sp, In sp (spans_of c d) /\ exp_sem re_match parse_float true e (sp_rows sp) = true
                                       /\ m = mspan_of parse_float attr sp.
Proof.
  intros [Hdates Hunif] Hkeys Hc Hlits Hlen Hdepth. exists (sql_spans re_match parse_float c d e attr conds). split.
  - intros rec cte. now apply index_search_bridge.
  - now apply index_search_rows.
Qed.

(* ---------- the rows of index_search and the matched spans of the reference meaning, as lists ---------- *)
Definition mkey (m : mspan) : string * string := (m_trace m, m_span m).
Definition matched_of re_match parse_float (c : ctx) (d : db) (e : attr_exp) : list span :=
  filter (fun sp => exp_sem re_match parse_float true e (sp_rows sp)) (spans_of c d).

Section SPANS.
  Variable re_match : string -> string -> bool.
  Variable parse_float : string -> option Q.
  Variable c : ctx.
  Variable d : db.
  Hypothesis Hcons : db_consistent c d.
  Hypothesis Hcap : spans_capped c d.
  Variable e : attr_exp.
  Notation terms := (fst (snd (analyze_cond e ([], [])))).
  Hypothesis Hkeys : keys_ok e = true.
  Hypothesis Hlits : forallb term_lit_ok terms = true.
  Hypothesis Hlen : List.length terms <= 64.
  Variable attr : string.
  Variable conds : list expr.
  Hypothesis Hc : map_res get_term terms = Ok conds.
  Notation T := (sql_spans re_match parse_float c d e attr conds).
  Notation matched := (matched_of re_match parse_float c d e).
  Notation f := (mspan_of parse_float attr).

  Lemma mem_spans : forall m, In m T <-> exists sp, In sp matched /\ m = f sp.
  Proof.
    intros m. destruct Hcons as [Hdates Hunif].
    rewrite (index_search_rows re_match parse_float c d Hdates Hunif e attr conds Hkeys Hc Hlits Hlen m). unfold matched_of.
    split; intros [sp H]; exists sp.
    - destruct H as [H1 [H2 H3]]. split; [apply filter_In; now split|assumption].
    - destruct H as [H1 H3]. apply filter_In in H1. tauto.
  Qed.

  (* the (trace, span) pairs of index_search are pairwise distinct *)
  Lemma sql_spans_NoDup : NoDup (map mkey T).
  Proof.
    unfold sql_spans. rewrite map_map.
    set (F := filter (where_sem re_match parse_float c e attr conds) d).
    destruct (group_rows_spec same_span same_span_refl same_span_sym same_span_trans F) as [Hcls [_ [Hdis Hnd]]].
    apply NoDup_map_on; [now apply NoDup_filter|].
    intros g1 g2 H1 H2 E. apply filter_In in H1, H2. destruct H1 as [H1 _], H2 as [H2 _].
    destruct (Hcls g1 H1) as [r1 [t1 [E1 _]]]. destruct (Hcls g2 H2) as [r2 [t2 [E2 _]]].
    apply (Hdis g1 g2 r1 r2 t1 t2 H1 H2 E1 E2). subst g1 g2. unfold mkey, mk_mspan in E. cbn [m_trace m_span] in E.
    injection E as Et Es. unfold same_span. now rewrite Et, Es, !String.eqb_refl.
  Qed.

  Lemma spans_of_keys_NoDup : NoDup (map (fun sp => (sp_trace sp, sp_span sp)) (spans_of c d)).
  Proof.
    unfold spans_of. rewrite map_map. cbn [sp_trace sp_span].
    set (W := filter (in_window c) d). generalize (@nil irow) as seen.
    induction W as [|x W IH]; intros seen; cbn [nodup_by]; [constructor|].
    destruct (existsb (same_span x) seen); [apply IH|]. cbn [map]. constructor; [|apply IH].
    intros Hin. apply in_map_iff in Hin. destruct Hin as [y [E Hy]].
    destruct (nodup_by_spec same_span same_span_refl same_span_sym W (x :: seen)) as [N1 _].
    destruct (N1 y Hy) as [_ Hex]. cbn [existsb] in Hex. apply orb_false_iff in Hex. destruct Hex as [Hex _].
    injection E as Et Es. unfold same_span in Hex. now rewrite Et, Es, !String.eqb_refl in Hex.
  Qed.

  Lemma cap_spans : forall g, In g (group_rows same_tr T) -> List.length g <= 100.
  Proof.
    intros g Hg.
    destruct (group_rows_spec same_tr same_tr_refl same_tr_sym same_tr_trans T) as [Hcls _].
    destruct (Hcls g Hg) as [r0 [g' [E Ef]]].
    set (t := m_trace r0).
    set (ref := filter (fun sp => String.eqb (sp_trace sp) t) (spans_of c d)).
    apply Nat.le_trans with (List.length (map (fun sp => (sp_trace sp, sp_span sp)) ref)); [|rewrite map_length; apply Hcap].
    rewrite <- (map_length mkey g). apply NoDup_incl_length.
    - rewrite Ef. apply NoDup_map_filter. apply sql_spans_NoDup.
    - intros k Hk. apply in_map_iff in Hk. destruct Hk as [m [<- Hm]]. rewrite Ef in Hm. apply filter_In in Hm. destruct Hm as [HmT Et].
      apply mem_spans in HmT. destruct HmT as [sp [Hsp ->]]. unfold matched_of in Hsp. apply filter_In in Hsp. destruct Hsp as [Hsp _].
      apply in_map_iff. exists sp. split; [reflexivity|]. unfold ref. apply filter_In. split; [assumption|].
      unfold same_tr in Et. cbn [mspan_of m_trace] in Et. now rewrite String.eqb_sym.
  Qed.

  (* as multisets: index_search holds each matching span exactly once *)
  Lemma perm_spans : Permutation T (map f matched).
  Proof.
    apply NoDup_Permutation.
    - exact (NoDup_map_inv mkey T sql_spans_NoDup).
    - apply (NoDup_map_inv mkey). rewrite map_map. cbn [mkey mspan_of m_trace m_span].
      unfold matched_of. apply NoDup_map_filter. exact spans_of_keys_NoDup.
    - intros m. rewrite mem_spans, in_map_iff. split; intros [sp [H1 H2]]; exists sp; split; auto.
  Qed.

  (* without the cap: the span ids of a group are pairwise distinct, and so are the matched spans of a trace *)
  Lemma group_spans_NoDup' g : In g (group_rows same_tr T) -> NoDup (map m_span g).
  Proof.
    intros Hg. destruct (group_rows_spec same_tr same_tr_refl same_tr_sym same_tr_trans T) as [Hcls _].
    destruct (Hcls _ Hg) as [r0 [g' [E Ef]]].
    assert (Hk : NoDup (map mkey g)) by (rewrite Ef; apply NoDup_map_filter; exact sql_spans_NoDup).
    apply (NoDup_map_inv (fun s => (m_trace r0, s))). rewrite map_map.
    rewrite (map_ext_in _ mkey); [exact Hk|].
    intros m Hm. rewrite Ef in Hm. apply filter_In in Hm. destruct Hm as [_ Et]. unfold same_tr in Et. apply String.eqb_eq in Et.
    unfold mkey. now rewrite Et.
  Qed.
  Lemma ref_spans_NoDup t : NoDup (map sp_span (ms matched t)).
  Proof.
    assert (Hk : NoDup (map (fun sp => (sp_trace sp, sp_span sp)) (ms matched t))).
    { unfold ms, matched_of. apply NoDup_map_filter. apply NoDup_map_filter. exact spans_of_keys_NoDup. }
    apply (NoDup_map_inv (fun s => (t, s))). rewrite map_map.
    rewrite (map_ext_in _ (fun sp => (sp_trace sp, sp_span sp))); [exact Hk|].
    intros sp Hsp. unfold ms in Hsp. apply filter_In in Hsp. destruct Hsp as [_ Et]. apply String.eqb_eq in Et. now rewrite Et.
  Qed.
End SPANS.

Section SINGLE.
  Variable re_match : string -> string -> bool.
  Variable parse_float : string -> option Q.
  Variable hash64 : string -> Z.
  Variable c : ctx.
  Variable d : db.
  Hypothesis Hrf : rf_max c = 0%Z.
  Hypothesis Hcons : db_consistent c d.
  Hypothesis Hcap : spans_capped c d.

  Variable e : attr_exp.
  Notation cd := (fst (analyze_cond e ([], []))).
  Notation terms := (fst (snd (analyze_cond e ([], [])))).
  Hypothesis Hkeys : keys_ok e = true.
  Hypothesis Hlits : forallb term_lit_ok terms = true.
  Hypothesis Hlen : List.length terms <= 64.
  Hypothesis Hdepth : cond_depth cd <= 28.
  Hypothesis Hexact : lits_exact e = true.

  Variable ao : andor.
  Definition q1 : script := Script {| sel_attr := Some e; sel_agg := None |} ao None.

  Definition grouped1 (conds : list expr) : select := grouped_stmt "" false [("index_search", stmt1 c e "" conds)] None (lim_of c).

  Lemma index_limit_grouped conds : index_limit c (index_groupby "" (stmt1 c e "" conds)) = grouped1 conds.
  Proof. unfold index_limit, grouped1, lim_of. destruct (Z.eqb (limit c) 0); reflexivity. Qed.

  Lemma plan_single conds n : map_res get_term terms = Ok conds ->
    plan q1 MSearch c n = Ok (index_limit c (traces_data c (grouped1 conds))).
  Proof.
    intros Hc. unfold plan, plan_search, plan_index, q1. cbn [sc_tail]. unfold simple_planner. cbn [check sel_attr sel_agg bind agg_lacks_attr tails_have_attr sc_head].
    unfold analyze. cbn [sel_attr]. destruct (analyze_cond e ([], [])) as [cd0 [ts0 mp0]] eqn:Ea. cbn [fst snd] in *.
    pose proof (attr_condition_is_stmt1 c Hrf e "" conds) as Hs. rewrite Ea in Hs. cbn [fst snd] in Hs.
    unfold agg_attr_of. cbn [sel_agg]. rewrite (Hs Hc n). cbn [bind sel_agg]. now rewrite index_limit_grouped.
  Qed.

  Lemma plan_ok_conds n s : plan q1 MSearch c n = Ok s -> exists conds, map_res get_term terms = Ok conds.
  Proof.
    destruct (map_res get_term terms) as [conds|er|] eqn:Hc; [intros _; now exists conds| |];
      intros H; exfalso; revert H;
      unfold plan, plan_search, plan_index, q1; cbn [sc_tail]; unfold simple_planner;
      cbn [check sel_attr sel_agg bind agg_lacks_attr tails_have_attr sc_head];
      unfold analyze; cbn [sel_attr]; destruct (analyze_cond e ([], [])) as [cd0 [ts0 mp0]]; cbn [fst snd] in *;
      unfold attr_condition; rewrite Hc; cbn [bind]; discriminate.
  Qed.

  Lemma withs_single conds : exists rest,
    s_withs (index_limit c (traces_data c (grouped1 conds))) = ("index_search", stmt1 c e "" conds) :: ("index_grouped", grouped1 conds) :: rest.
  Proof.
    unfold index_limit. destruct (Z.eqb (limit c) 0); unfold traces_data, grouped1, grouped_stmt, stmt1;
      cbn [set_with set_limit s_withs fold_left add_with existsb fst snd app]; eexists; reflexivity.
  Qed.

  Notation T conds := (sql_spans re_match parse_float c d e "" conds).
  Definition matched1 : list span := matched_of re_match parse_float c d e.
  Lemma mem1 conds : map_res get_term terms = Ok conds ->
    forall m, In m (T conds) <-> exists sp, In sp matched1 /\ m = mspan_of parse_float "" sp.
  Proof. intros Hc. exact (mem_spans re_match parse_float c d Hcons e Hkeys Hlits Hlen "" conds Hc). Qed.
  Lemma cap1 conds : map_res get_term terms = Ok conds ->
    forall g, In g (group_rows same_tr (T conds)) -> List.length g <= 100.
  Proof. intros Hc. exact (cap_spans re_match parse_float c d Hcons Hcap e Hkeys Hlits Hlen "" conds Hc). Qed.

  (* the reference meaning of the script, literals as printed / exact literals *)
  Lemma sem_single_round : traceql_sem re_match parse_float false c d q1 = all_ref matched1 (fun _ => true).
  Proof.
    unfold traceql_sem, q1. cbn [script_len script_sem_fuel and_run]. unfold sel_sem. cbn [sel_attr sel_agg].
    unfold all_ref, traces_ref, mkt, ms, matched1.
    assert (Ef : filter (fun sp => exp_sem re_match parse_float false e (sp_rows sp)) (spans_of c d)
                 = filter (fun sp => exp_sem re_match parse_float true e (sp_rows sp)) (spans_of c d)).
    { apply filter_ext. intros sp. symmetry. now apply exp_sem_round. }
    rewrite Ef. destruct ao; reflexivity.
  Qed.

  Theorem traceql_correct_single n s :
    plan q1 MSearch c n = Ok s ->
    exists res, index_rows_g re_match parse_float hash64 c d s = Some res
                /\ result_ok c (traceql_sem re_match parse_float false c d q1) res = true.
  Proof.
    intros Hplan. destruct (plan_ok_conds n s Hplan) as [conds Hc].
    rewrite (plan_single conds n Hc) in Hplan. injection Hplan as <-.
    destruct (withs_single conds) as [rest Hw].
    (* the typed answer exists: the sort of the evaluator does not fail on integer keys *)
    assert (Hans : exists SEL, grouped_answer (T conds) (fun _ => true) (lim_of c) = Some SEL).
    { unfold grouped_answer, lim_of. destruct (Z.eqb (limit c) 0); [eexists; reflexivity|].
      change (map (fun g => ([VInt (g_key g)], g)) (tgroups (T conds) (fun _ => true)))
        with (map (fun g => enc (g_key g, g)) (tgroups (T conds) (fun _ => true))).
      rewrite <- (map_map (fun g => (g_key g, g)) enc), sort_by_enc. eexists; reflexivity. }
    destruct Hans as [SEL Hans].
    exists (map (fun g => (g_trace g, g_spans g)) SEL). split.
    - unfold index_rows_g. rewrite Hw. cbn [eval_until_g].
      change 12 with (S 11). rewrite eval_sel_S.
      rewrite (index_search_bridge re_match parse_float hash64 c d e "" conds Hkeys Hc Hlits Hlen Hdepth).
      change (String.eqb "index_search" "index_grouped") with false. cbv iota.
      rewrite eval_sel_S. unfold grouped1.
      rewrite (grouped_bridge re_match parse_float hash64 [(attrs_table c, map row_of_irow d)] "" false
                 (eval_sel re_match parse_float hash64 [(attrs_table c, map row_of_irow d)] 11)
                 [("index_search", map mspan_row (T conds))] (T conds) eq_refl None (fun _ => true) eq_refl
                 (fun h m0 rest' Hn => ltac:(discriminate Hn)) (fun _ _ => eq_refl)).
      rewrite Hans. cbn [option_map]. rewrite String.eqb_refl. rewrite map_map.
      apply all_some_map_ext. intros g _. unfold g_row. cbn [app lookup String.eqb Ascii.eqb Bool.eqb].
      now rewrite all_some_VStr.
    - rewrite sem_single_round.
      exact (answer_ok (T conds) matched1 (mspan_of parse_float "") (fun _ => eq_refl) (fun _ => eq_refl) (fun _ => eq_refl)
               (mem1 conds Hc) (fun _ => true) (fun _ => true) (fun _ _ => eq_refl) (cap1 conds Hc) c SEL Hans).
  Qed.

  (* the same WITHOUT the guard spans_capped, judged by result_ok_cap: the traces are exactly right (all, or the `limit` most recent), and
     every span list holds distinct matched spans of its trace -- all of them when there are at most 100, otherwise 100 of them *)
  Theorem traceql_correct_single_any_spans n s :
    plan q1 MSearch c n = Ok s ->
    exists res, index_rows_g re_match parse_float hash64 c d s = Some res
                /\ result_ok_cap 100 c (traceql_sem re_match parse_float false c d q1) res = true.
  Proof.
    intros Hplan. destruct (plan_ok_conds n s Hplan) as [conds Hc].
    rewrite (plan_single conds n Hc) in Hplan. injection Hplan as <-.
    destruct (withs_single conds) as [rest Hw].
    assert (Hans : exists SEL, grouped_answer (T conds) (fun _ => true) (lim_of c) = Some SEL).
    { unfold grouped_answer, lim_of. destruct (Z.eqb (limit c) 0); [eexists; reflexivity|].
      change (map (fun g => ([VInt (g_key g)], g)) (tgroups (T conds) (fun _ => true)))
        with (map (fun g => enc (g_key g, g)) (tgroups (T conds) (fun _ => true))).
      rewrite <- (map_map (fun g => (g_key g, g)) enc), sort_by_enc. eexists; reflexivity. }
    destruct Hans as [SEL Hans].
    exists (map (fun g => (g_trace g, g_spans g)) SEL). split.
    - unfold index_rows_g. rewrite Hw. cbn [eval_until_g].
      change 12 with (S 11). rewrite eval_sel_S.
      rewrite (index_search_bridge re_match parse_float hash64 c d e "" conds Hkeys Hc Hlits Hlen Hdepth).
      change (String.eqb "index_search" "index_grouped") with false. cbv iota.
      rewrite eval_sel_S. unfold grouped1.
      rewrite (grouped_bridge re_match parse_float hash64 [(attrs_table c, map row_of_irow d)] "" false
                 (eval_sel re_match parse_float hash64 [(attrs_table c, map row_of_irow d)] 11)
                 [("index_search", map mspan_row (T conds))] (T conds) eq_refl None (fun _ => true) eq_refl
                 (fun h m0 rest' Hn => ltac:(discriminate Hn)) (fun _ _ => eq_refl)).
      rewrite Hans. cbn [option_map]. rewrite String.eqb_refl. rewrite map_map.
      apply all_some_map_ext. intros g _. unfold g_row. cbn [app lookup String.eqb Ascii.eqb Bool.eqb].
      now rewrite all_some_VStr.
    - rewrite sem_single_round. unfold result_ok_cap.
      apply (answer_ok_j (T conds) matched1 (mspan_of parse_float "") (fun _ => eq_refl) (fun _ => eq_refl)
               (mem1 conds Hc) (fun _ => true) (fun _ => true) (fun _ _ => eq_refl) c (cap_set 100) SEL); [|exact Hans].
      intros g Hg.
      apply (grp_spans_cap (T conds) matched1 (mspan_of parse_float "") (fun _ => eq_refl) (fun _ => eq_refl) (mem1 conds Hc) g Hg).
      + exact (group_spans_NoDup' re_match parse_float c d e "" conds g Hg).
      + exact (ref_spans_NoDup re_match parse_float c d e (g_trace g)).
  Qed.
End SINGLE.

(* ================================================================ one portion of a complex request (rf_max > 0)
   ComplexRequestProcessor sends the search once per portion with  cityHash64(trace_id) % Max == I [OR trace_id IN (cached ids)]  added to
   the WHERE of index_search.  The statement of a portion, over the whole index, returns what the script means over the rows of the traces
   VISIBLE to that portion -- the `V i S from` of theorem 8 (model/TraceqlPortions.v), here with spans and selectors. *)
Lemma db_consistent_visible hash64 c d : db_consistent c d -> db_consistent c (visible hash64 c d).
Proof.
  intros [H1 H2]. split.
  - intros r Hr. apply filter_In in Hr. now apply H1.
  - intros a b Ha Hb. apply filter_In in Ha, Hb. apply H2; tauto.
Qed.

Section SINGLEP.
  Variable re_match : string -> string -> bool.
  Variable parse_float : string -> option Q.
  Variable hash64 : string -> Z.
  Variable c : ctx.
  Variable d : db.
  Hypothesis Hok : rf_ok c = true.
  Notation V := (visible hash64 c d).
  Hypothesis Hcons : db_consistent c V.
  Hypothesis Hcap : spans_capped c V.

  Variable e : attr_exp.
  Notation cd := (fst (analyze_cond e ([], []))).
  Notation terms := (fst (snd (analyze_cond e ([], [])))).
  Hypothesis Hkeys : keys_ok e = true.
  Hypothesis Hlits : forallb term_lit_ok terms = true.
  Hypothesis Hlen : List.length terms <= 64.
  Hypothesis Hdepth : cond_depth cd <= 28.
  Hypothesis Hexact : lits_exact e = true.
  Variable ao : andor.

  Theorem traceql_correct_single_portion n s :
    plan (q1 e ao) MSearch c n = Ok s ->
    exists res, index_rows_g re_match parse_float hash64 c d s = Some res
                /\ result_ok c (traceql_sem re_match parse_float false c V (q1 e ao)) res = true.
  Proof.
    intros Hplan. destruct (rf_single c Hok) as [x Hx].
    (* the shape of the plan *)
    unfold plan, plan_search, plan_index, q1 in Hplan. cbn [sc_tail] in Hplan. unfold simple_planner in Hplan.
    cbn [check sel_attr sel_agg bind agg_lacks_attr tails_have_attr sc_head] in Hplan.
    unfold analyze in Hplan. cbn [sel_attr] in Hplan. destruct (analyze_cond e ([], [])) as [cd0 [ts0 mp0]] eqn:Ea. cbn [fst snd] in *.
    destruct (map_res get_term ts0) as [conds|er|] eqn:Hc; [|unfold attr_condition in Hplan; rewrite Hc in Hplan; discriminate..].
    pose proof (attr_condition_gen c e "" conds) as Hs. rewrite Ea in Hs. cbn [fst snd] in Hs.
    unfold agg_attr_of in Hplan. cbn [sel_agg] in Hplan. rewrite (Hs Hc n), Hx in Hplan. cbn [bind sel_agg] in Hplan.
    assert (Hc' : map_res get_term (fst (snd (analyze_cond e ([], [])))) = Ok conds) by now rewrite Ea.
    assert (Hlits' : forallb term_lit_ok (fst (snd (analyze_cond e ([], [])))) = true) by now rewrite Ea.
    assert (Hlen' : List.length (fst (snd (analyze_cond e ([], [])))) <= 64) by now rewrite Ea.
    assert (Hdepth' : cond_depth (fst (analyze_cond e ([], []))) <= 28) by now rewrite Ea.
    set (S1 := and_where [x] (stmt1 c e "" conds)) in *.
    set (T := sql_spans re_match parse_float c V e "" conds).
    assert (Eg : index_limit c (index_groupby "" S1) = grouped_stmt "" false [("index_search", S1)] None (lim_of c)).
    { unfold index_limit, lim_of. destruct (Z.eqb (limit c) 0); reflexivity. }
    rewrite Eg in Hplan. injection Hplan as <-.
    assert (Hw : exists rest, s_withs (index_limit c (traces_data c (grouped_stmt "" false [("index_search", S1)] None (lim_of c))))
                              = ("index_search", S1) :: ("index_grouped", grouped_stmt "" false [("index_search", S1)] None (lim_of c)) :: rest).
    { unfold index_limit. destruct (Z.eqb (limit c) 0); unfold traces_data, grouped_stmt, S1, stmt1;
        cbn [and_where and_into set_with set_limit s_withs fold_left add_with existsb fst snd app]; eexists; reflexivity. }
    destruct Hw as [rest Hw].
    assert (Hans : exists SEL, grouped_answer T (fun _ => true) (lim_of c) = Some SEL).
    { unfold grouped_answer, lim_of. destruct (Z.eqb (limit c) 0); [eexists; reflexivity|].
      change (map (fun g => ([VInt (g_key g)], g)) (tgroups T (fun _ => true))) with (map (fun g => enc (g_key g, g)) (tgroups T (fun _ => true))).
      rewrite <- (map_map (fun g => (g_key g, g)) enc), sort_by_enc. eexists; reflexivity. }
    destruct Hans as [SEL Hans].
    exists (map (fun g => (g_trace g, g_spans g)) SEL). split.
    - unfold index_rows_g. rewrite Hw. cbn [eval_until_g].
      change 12 with (S 11). rewrite eval_sel_S. unfold S1.
      rewrite (index_search_bridge_portion re_match parse_float hash64 c d e "" conds Hkeys Hc' Hlits' Hlen' Hdepth' Hok x Hx). fold T.
      change (String.eqb "index_search" "index_grouped") with false. cbv iota.
      rewrite eval_sel_S.
      rewrite (grouped_bridge re_match parse_float hash64 [(attrs_table c, map row_of_irow d)] "" false
                 (eval_sel re_match parse_float hash64 [(attrs_table c, map row_of_irow d)] 11)
                 [("index_search", map mspan_row T)] T eq_refl None (fun _ => true) eq_refl
                 (fun h m0 rest' Hn => ltac:(discriminate Hn)) (fun _ _ => eq_refl)).
      rewrite Hans. cbn [option_map]. rewrite String.eqb_refl. rewrite map_map.
      apply all_some_map_ext. intros g _. unfold g_row. cbn [app lookup String.eqb Ascii.eqb Bool.eqb].
      now rewrite all_some_VStr.
    - rewrite (sem_single_round re_match parse_float c V e Hexact ao).
      exact (answer_ok T (matched1 re_match parse_float c V e) (mspan_of parse_float "") (fun _ => eq_refl) (fun _ => eq_refl) (fun _ => eq_refl)
               (mem_spans re_match parse_float c V Hcons e Hkeys Hlits' Hlen' "" conds Hc') (fun _ => true) (fun _ => true) (fun _ _ => eq_refl)
               (cap_spans re_match parse_float c V Hcons Hcap e Hkeys Hlits' Hlen' "" conds Hc') c SEL Hans).
  Qed.
End SINGLEP.

