(* C13 for the LogQL planner model (model/LogqlPlan.v): every base-table read of the statement built
   by process (plan_log q) is window- and type-bounded, for every query and every planner context.
   Structure: (1) equations for scans of a composed select, (2) the builder operations of Sql.v
   preserve "every scan is fine", (3) induction over the planner objects that plan_log builds. *)
From Coq Require Import List ZArith NArith String Ascii Bool Lia.
From Qryn Require Import lib.Strs lib.CivilDate model.Sql model.SqlRender model.Logql model.LogqlPlan model.Scans
  proofs.ScansProofs.
Import ListNotations.
Open Scope list_scope.

(* ------------------------------------------------------------------ scans, unfolded *)
Definition wscans (ws : list (string * select)) : list scan := flat_map (fun w => scans (snd w)) ws.
Definition uscans (us : list select) : list scan := flat_map scans us.
Definition exprs_scans (s : select) : list scan :=
  flat_map escans (s_cols s) ++ oesc escans (s_from s) ++ flat_map (jesc escans) (s_joins s)
  ++ oesc escans (s_prewhere s) ++ oesc escans (s_where s) ++ flat_map escans (s_groupby s) ++ oesc escans (s_having s)
  ++ flat_map escans (s_orderby s) ++ oesc escans (s_limit s) ++ oesc escans (s_offset s).

Lemma ws_fix_eq (ws : list (string * select)) :
  (fix ws (l : list (string * select)) : list scan :=
     match l with [] => [] | (_, q) :: r => sscans escans q ++ ws r end) ws = wscans ws.
Proof. induction ws as [|[a q] r IH]; [reflexivity|]. cbn [wscans flat_map snd]. rewrite IH. reflexivity. Qed.
Lemma us_fix_eq (us : list select) :
  (fix us (l : list select) : list scan :=
     match l with [] => [] | q :: r => sscans escans q ++ us r end) us = uscans us.
Proof. induction us as [|q r IH]; [reflexivity|]. cbn [uscans flat_map]. rewrite IH. reflexivity. Qed.

Lemma scans_eq s :
  scans s = wscans (s_withs s) ++ own_scan s ++ flat_map join_scan (s_joins s) ++ exprs_scans s ++ uscans (s_unions s).
Proof.
  unfold scans at 1. destruct s as [d cols from wh pw hv gb ob lim off ws js st us].
  cbn [sscans s_withs s_unions s_joins s_cols s_from s_where s_prewhere s_having s_groupby s_orderby s_limit s_offset].
  rewrite ws_fix_eq, us_fix_eq. reflexivity.
Qed.

Section GOOD.
  Variable Q : scan -> Prop.
  Definition good (s : select) : Prop := Forall Q (scans s).
  Definition goodw (w : string * select) : Prop := good (snd w).
  Definition egood (e : expr) : Prop := Forall Q (escans e).
  Definition ogood (o : option expr) : Prop := match o with Some e => egood e | None => True end.

  Lemma Forall_flat_map {A B} (P : B -> Prop) (f : A -> list B) (l : list A) :
    Forall P (flat_map f l) <-> Forall (fun a => Forall P (f a)) l.
  Proof.
    induction l as [|a r IH]; cbn [flat_map]; [split; constructor|].
    rewrite Forall_app, IH. split.
    - intros [H1 H2]. constructor; assumption.
    - intros H. inversion H; subst. split; assumption.
  Qed.

  Record parts (s : select) : Prop := {
    p_withs : Forall goodw (s_withs s);
    p_own : Forall Q (own_scan s);
    p_joins : Forall (fun j => Forall Q (join_scan j)) (s_joins s);
    p_exprs : Forall Q (exprs_scans s);
    p_unions : Forall good (s_unions s)
  }.
  Lemma good_parts s : good s <-> parts s.
  Proof.
    unfold good. rewrite scans_eq. rewrite !Forall_app. unfold wscans, uscans. rewrite !Forall_flat_map.
    split.
    - intros [A [B [C [D E]]]]. constructor; assumption.
    - intros [A B C D E]. repeat split; assumption.
  Qed.

  Lemma oesc_good o : Forall Q (oesc escans o) <-> ogood o.
  Proof. destruct o; cbn; [reflexivity | split; constructor]. Qed.

  Record eparts (s : select) : Prop := {
    e_cols : Forall egood (s_cols s);
    e_from : ogood (s_from s);
    e_joins : Forall (fun j => egood (snd (fst j)) /\ ogood (snd j)) (s_joins s);
    e_prewhere : ogood (s_prewhere s);
    e_where : ogood (s_where s);
    e_groupby : Forall egood (s_groupby s);
    e_having : ogood (s_having s);
    e_orderby : Forall egood (s_orderby s);
    e_limit : ogood (s_limit s);
    e_offset : ogood (s_offset s)
  }.
  Lemma exprs_parts s : Forall Q (exprs_scans s) <-> eparts s.
  Proof.
    unfold exprs_scans. rewrite !Forall_app, !Forall_flat_map, !oesc_good.
    assert (Hj : Forall (fun a => Forall Q (jesc escans a)) (s_joins s)
                 <-> Forall (fun j => egood (snd (fst j)) /\ ogood (snd j)) (s_joins s)).
    { induction (s_joins s) as [|j r IH]; [split; constructor|].
      split; intros H; inversion H; subst; constructor; try (apply IH; assumption);
        unfold jesc in *; [rewrite Forall_app, oesc_good in *; assumption | rewrite Forall_app, oesc_good; assumption]. }
    rewrite Hj. split.
    - intros [A [B [C [D [E [F [G [H [I J]]]]]]]]]. constructor; assumption.
    - intros [A B C D E F G H I J]. repeat split; assumption.
  Qed.
End GOOD.

(* ------------------------------------------------------------------ conjuncts that say nothing about the window *)
Definition same_key (a b : scan) : Prop := sc_table a = sc_table b /\ sc_alias a = sc_alias b.
(* the reading of the conjunct does not depend on the SELECT aliases of the enclosing select *)
Definition tsn_free (e : expr) : Prop := forall a b, same_key a b -> classify a e = classify b e.
Definition neutral (e : expr) : Prop := forall sc, classify sc e = [].
Lemma neutral_tsn_free e : neutral e -> tsn_free e.
Proof. intros H a b _. rewrite (H a), (H b). reflexivity. Qed.

Definition neutral_b (e : expr) : bool :=
  match e with LOp _ [Id _; _] => false | In (Id _) _ => false | _ => true end.
Lemma neutral_b_sound e : neutral_b e = true -> neutral e.
Proof.
  intros H sc. destruct e; try reflexivity.
  - destruct cl as [|a r]; [reflexivity|]. destruct a; try reflexivity.
    destruct r as [|b [|c r']]; try reflexivity. cbn in H. discriminate.
  - destruct e; try reflexivity. cbn in H. discriminate.
Qed.

Lemma neutral_in_fp1 r : neutral (In (Id "samples.fingerprint") r).
Proof. intros sc. unfold classify, col_is. cbn. reflexivity. Qed.
Lemma neutral_in_fp2 r : neutral (In (Id "time_series.fingerprint") r).
Proof. intros sc. unfold classify, col_is. cbn. reflexivity. Qed.
Lemma neutral_in_fp3 r : neutral (In (Id "fingerprint") r).
Proof. intros sc. unfold classify, col_is. cbn. reflexivity. Qed.

(* ------------------------------------------------------------------ what is demanded of each scan *)
Definition fp_restricted (sc : scan) : Prop :=
  exists a q, List.In (In (Id "fingerprint") [WRef a q]) (sc_conj sc).

Section INV.
  Variable info : string -> tinfo.
  Variable w : window.
  Variable allow : bool.     (* accept an index read that is restricted to the fingerprints of another select *)

  Definition Q (sc : scan) : Prop :=
    Forall tsn_free (sc_conj sc) /\ (scan_bounded info w sc \/ (allow = true /\ fp_restricted sc)).

  (* sc' has the conjuncts of sc plus neutral ones, in any order, under any SELECT aliases *)
  Definition extends (sc sc' : scan) : Prop :=
    same_key sc sc' /\ exists extra, Forall neutral extra /\
      forall e, List.In e (sc_conj sc') <-> List.In e (sc_conj sc) \/ List.In e extra.

  Lemma extends_has_bnd sc sc' : Forall tsn_free (sc_conj sc) -> extends sc sc' -> forall b, has_bnd sc' b <-> has_bnd sc b.
  Proof.
    intros Hfree [Hkey [extra [Hneu Hin]]] b. rewrite Forall_forall in Hfree, Hneu. unfold has_bnd. split.
    - intros [e [He Hb]]. apply Hin in He. destruct He as [He|He].
      + exists e. split; [exact He|]. rewrite (Hfree e He sc sc' Hkey). exact Hb.
      + rewrite (Hneu e He sc') in Hb. destruct Hb.
    - intros [e [He Hb]]. exists e. split; [apply Hin; left; exact He|].
      rewrite <- (Hfree e He sc sc' Hkey). exact Hb.
  Qed.

  Lemma scan_bounded_ext sc sc' :
    sc_table sc = sc_table sc' -> (forall b, has_bnd sc' b <-> has_bnd sc b) -> scan_bounded info w sc -> scan_bounded info w sc'.
  Proof.
    intros Ht Hb [Hc Hty]. unfold scan_bounded. rewrite <- Ht. split.
    - destruct (ti_class (info (sc_table sc))) as [| | |k]; [| |exact Hc|].
      + destruct Hc as [[lo [A1 A2]] B [hi [C1 C2]] D]. constructor.
        * exists lo. split; [apply Hb, A1 | exact A2].
        * intros x Hx. apply B, Hb, Hx.
        * exists hi. split; [apply Hb, C1 | exact C2].
        * intros x Hx. apply D, Hb, Hx.
      + destruct Hc as [[d A] B C D E]. constructor.
        * exists d. apply Hb, A.
        * intros x Hx. apply B, Hb, Hx.
        * intros x Hx. apply C, Hb, Hx.
        * intros x Hx. apply D, Hb, Hx.
        * intros x Hx. apply E, Hb, Hx.
      + destruct Hc as [[lo [A1 A2]] B [hi [C1 C2]] D]. constructor.
        * exists lo. split; [apply Hb, A1 | exact A2].
        * intros x Hx. apply B, Hb, Hx.
        * exists hi. split; [apply Hb, C1 | exact C2].
        * intros x Hx. apply D, Hb, Hx.
    - intros H1 H2. destruct (Hty H1 H2) as [[l A] B C]. constructor.
      + exists l. apply Hb, A.
      + intros Hx. apply B, Hb, Hx.
      + intros x Hx. apply C, Hb, Hx.
  Qed.

  Lemma Q_extends sc sc' : Q sc -> extends sc sc' -> Q sc'.
  Proof.
    intros [Hfree Hr] Hext. pose proof (extends_has_bnd sc sc' Hfree Hext) as Hb.
    destruct Hext as [[Ht Ha] [extra [Hneu Hin]]]. split.
    - rewrite Forall_forall in *. intros e He. apply Hin in He. destruct He as [He|He]; [apply Hfree, He | apply neutral_tsn_free, Hneu, He].
    - destruct Hr as [Hr|[Hal [a [q Hfp]]]].
      + left. apply (scan_bounded_ext sc sc' Ht Hb Hr).
      + right. split; [exact Hal|]. exists a, q. apply Hin. left. exact Hfp.
  Qed.

  (* ---------------- conjunct lists of the builder methods *)
  Lemma conjs_other e : (forall l, e <> LOp OAnd l) -> conjs e = [e].
  Proof. intros H. destruct e; try reflexivity. destruct fn; try reflexivity. exfalso. apply (H cl). reflexivity. Qed.

  Lemma conjs_and l : conjs (LOp OAnd l) = flat_map conjs l.
  Proof. reflexivity. Qed.
  Lemma oconjs_and_into_in o cl e :
    List.In e (oconjs (and_into o cl)) <-> List.In e (oconjs o) \/ List.In e (flat_map conjs cl).
  Proof.
    destruct o as [x|]; unfold and_into, oconjs, And.
    - assert (Hgen : List.In e (conjs (LOp OAnd (x :: cl))) <-> List.In e (conjs x) \/ List.In e (flat_map conjs cl)).
      { rewrite conjs_and. cbn [flat_map]. rewrite in_app_iff. reflexivity. }
      destruct x; try exact Hgen. destruct fn; try exact Hgen.
      rewrite !conjs_and, flat_map_app, in_app_iff. reflexivity.
    - rewrite conjs_and. split; [intros H; right; exact H | intros [[]|H]; exact H].
  Qed.

  Definition cl_neutral (cl : list expr) : Prop := Forall neutral (flat_map conjs cl).

  Lemma own_and_where cl s : cl_neutral cl -> Forall Q (own_scan s) -> Forall Q (own_scan (and_where cl s)).
  Proof.
    intros Hn H. unfold own_scan in *. unfold and_where. cbn [s_from s_cols s_prewhere s_where set_where].
    destruct (s_from s) as [f|]; [|constructor]. destruct (base_table f) as [[t a]|]; [|constructor].
    inversion H as [|sc l HQ _]; subst. constructor; [|constructor].
    apply (Q_extends _ _ HQ). split; [split; reflexivity|].
    exists (flat_map conjs cl). split; [exact Hn|].
    intros e. cbn [sc_conj]. rewrite !in_app_iff, oconjs_and_into_in. tauto.
  Qed.

  Lemma own_and_prewhere cl s : cl_neutral cl -> Forall Q (own_scan s) -> Forall Q (own_scan (and_prewhere cl s)).
  Proof.
    intros Hn H. unfold and_prewhere.
    destruct (s_prewhere s) as [x|] eqn:E.
    - destruct x; try exact H. destruct fn; try exact H.
      unfold own_scan in *. cbn [s_from s_cols s_prewhere s_where set_prewhere]. rewrite E in H.
      destruct (s_from s) as [f|]; [|constructor]. destruct (base_table f) as [[t a]|]; [|constructor].
      inversion H as [|sc l HQ _]; subst. constructor; [|constructor].
      apply (Q_extends _ _ HQ). split; [split; reflexivity|].
      exists (flat_map conjs cl). split; [exact Hn|].
      intros e. cbn [sc_conj oconjs]. unfold And. rewrite !conjs_and, flat_map_app, !in_app_iff. tauto.
    - unfold own_scan in *. cbn [s_from s_cols s_prewhere s_where set_prewhere]. rewrite E in H.
      destruct (s_from s) as [f|]; [|constructor]. destruct (base_table f) as [[t a]|]; [|constructor].
      inversion H as [|sc l HQ _]; subst. constructor; [|constructor].
      apply (Q_extends _ _ HQ). split; [split; reflexivity|].
      exists (flat_map conjs cl). split; [exact Hn|].
      intros e. cbn [sc_conj oconjs]. unfold And. rewrite conjs_and, !in_app_iff. cbn [List.In app]. tauto.
  Qed.

  (* changing anything but FROM / WHERE / PREWHERE leaves the own scan the same up to the SELECT aliases *)
  Lemma own_same_key s s' :
    s_from s' = s_from s -> s_where s' = s_where s -> s_prewhere s' = s_prewhere s ->
    Forall Q (own_scan s) -> Forall Q (own_scan s').
  Proof.
    intros Hf Hw Hp H. unfold own_scan in *. rewrite Hf, Hw, Hp.
    destruct (s_from s) as [f|]; [|constructor]. destruct (base_table f) as [[t a]|]; [|constructor].
    inversion H as [|sc l HQ _]; subst. constructor; [|constructor].
    apply (Q_extends _ _ HQ). split; [split; reflexivity|].
    exists []. split; [constructor|]. intros e. cbn [sc_conj List.In]. tauto.
  Qed.
End INV.

(* ------------------------------------------------------------------ AddWith / With *)
Definition hoist (ws cur : list (string * select)) : list (string * select) :=
  fold_left (fun cur w => add_with (snd w) (fst w) cur) ws cur.
Lemma add_with_eq q a cur :
  add_with q a cur = if existsb (fun x => String.eqb (fst x) a) cur then cur else hoist (s_withs q) cur ++ [(a, q)].
Proof.
  destruct q as [d cols from wh pw hv gb ob lim off ws js st us]. cbn [add_with s_withs].
  destruct (existsb _ cur); [reflexivity|]. f_equal.
  generalize cur. induction ws as [|[a' q'] r IH]; intros cur'; [reflexivity|]. cbn [hoist fold_left fst snd]. apply IH.
Qed.

Fixpoint wsize (s : select) : nat :=
  S ((fix go (l : list (string * select)) : nat := match l with [] => O | (_, q) :: r => (wsize q + go r)%nat end) (s_withs s)).
Definition wsizes (ws : list (string * select)) : nat := fold_right (fun w n => (wsize (snd w) + n)%nat) O ws.
Lemma wsize_eq s : wsize s = S (wsizes (s_withs s)).
Proof.
  destruct s as [d cols from wh pw hv gb ob lim off ws js st us]. cbn [wsize s_withs]. f_equal.
  induction ws as [|[a q] r IH]; [reflexivity|]. cbn [wsizes fold_right snd]. rewrite IH. reflexivity.
Qed.

Section WITHS.
  Variable Q : scan -> Prop.
  Lemma good_withs s : good Q s -> Forall (goodw Q) (s_withs s).
  Proof. intros H. apply good_parts in H. apply H. Qed.

  Lemma add_with_good n : forall q a cur, (wsize q <= n)%nat -> good Q q -> Forall (goodw Q) cur -> Forall (goodw Q) (add_with q a cur).
  Proof.
    induction n as [|n IHn]; intros q a cur Hsz Hq Hcur; [rewrite wsize_eq in Hsz; lia|].
    rewrite add_with_eq. destruct (existsb _ cur); [exact Hcur|].
    apply Forall_app. split; [|constructor; [exact Hq | constructor]].
    rewrite wsize_eq in Hsz. apply good_withs in Hq.
    assert (Hs : (wsizes (s_withs q) <= n)%nat) by lia. clear Hsz.
    revert cur Hcur Hs Hq. generalize (s_withs q). intros ws.
    induction ws as [|[a' q'] r IH]; intros cur Hcur Hs Hq; [exact Hcur|].
    cbn [hoist fold_left fst snd]. unfold wsizes in *. cbn [fold_right snd] in Hs. inversion Hq; subst.
    apply IH; [|lia | assumption].
    apply IHn; [lia | assumption | assumption].
  Qed.

  Lemma hoist_good ws cur : Forall (goodw Q) ws -> Forall (goodw Q) cur -> Forall (goodw Q) (hoist ws cur).
  Proof.
    revert cur. induction ws as [|[a q] r IH]; intros cur Hws Hcur; [exact Hcur|].
    cbn [hoist fold_left fst snd]. inversion Hws; subst. apply IH; [assumption|].
    apply (add_with_good (wsize q)); [lia | assumption | assumption].
  Qed.
End WITHS.

(* ------------------------------------------------------------------ builder methods preserve "every scan is fine" *)
Section BUILD.
  Variable info : string -> tinfo.
  Variable w : window.
  Variable allow : bool.
  Notation Q := (Q info w allow).
  Notation good := (good Q).
  Notation egood := (egood Q).
  Notation ogood := (ogood Q).

  Ltac fields := cbn [s_distinct s_cols s_from s_where s_prewhere s_having s_groupby s_orderby s_limit s_offset s_withs
                      s_joins s_settings s_unions set_distinct set_cols set_from set_where set_prewhere set_having
                      set_groupby set_orderby set_limit set_offset set_withs set_joins set_unions].

  Lemma egood_and l : Forall egood l -> egood (LOp OAnd l).
  Proof. intros H. unfold ScansPlanProofs.egood. cbn [escans]. apply Forall_flat_map. exact H. Qed.
  Lemma egood_lop op l : Forall egood l <-> egood (LOp op l).
  Proof. unfold ScansPlanProofs.egood. cbn [escans]. rewrite Forall_flat_map. reflexivity. Qed.

  Lemma ogood_and_into o cl : ogood o -> Forall egood cl -> ogood (and_into o cl).
  Proof.
    intros Ho Hcl. destruct o as [x|]; cbn [and_into ScansPlanProofs.ogood] in *.
    - assert (Hgen : egood (And (x :: cl))) by (apply egood_and; constructor; assumption).
      destruct x; try exact Hgen. destruct fn; try exact Hgen.
      apply egood_and. apply Forall_app. split; [apply (egood_lop OAnd), Ho | exact Hcl].
    - apply egood_and, Hcl.
  Qed.

  Lemma good_and_where cl s : good s -> cl_neutral cl -> Forall egood cl -> good (and_where cl s).
  Proof.
    intros H Hn Hcl. apply good_parts in H. destruct H as [A B C D E]. apply good_parts. constructor.
    - exact A.
    - apply own_and_where; assumption.
    - exact C.
    - apply exprs_parts in D. destruct D. apply exprs_parts. unfold and_where. constructor; fields; try assumption.
      apply ogood_and_into; assumption.
    - exact E.
  Qed.

  Lemma good_and_prewhere cl s : good s -> cl_neutral cl -> Forall egood cl -> good (and_prewhere cl s).
  Proof.
    intros H Hn Hcl. pose proof H as H0. apply good_parts in H. destruct H as [A B C D E]. apply good_parts. constructor.
    - unfold and_prewhere. destruct (s_prewhere s) as [x|]; [destruct x; try exact A; destruct fn; exact A | exact A].
    - apply own_and_prewhere; assumption.
    - unfold and_prewhere. destruct (s_prewhere s) as [x|]; [destruct x; try exact C; destruct fn; exact C | exact C].
    - apply exprs_parts in D. destruct D as [D1 D2 D3 D4 D5 D6 D7 D8 D9 D10]. apply exprs_parts. unfold and_prewhere.
      destruct (s_prewhere s) as [x|] eqn:Ex.
      + destruct x; try (constructor; try rewrite Ex; assumption).
        destruct fn; try (constructor; try rewrite Ex; assumption).
        constructor; fields; try assumption.
        apply egood_and. apply Forall_app. split; [apply (egood_lop OAnd), D4 | exact Hcl].
      + constructor; fields; try assumption. apply egood_and, Hcl.
    - unfold and_prewhere. destruct (s_prewhere s) as [x|]; [destruct x; try exact E; destruct fn; exact E | exact E].
  Qed.

  Ltac other_parts s B :=
    constructor; fields; try assumption;
    try (apply (own_same_key info w allow s); [reflexivity | reflexivity | reflexivity | exact B]).

  Lemma good_and_having cl s : good s -> Forall egood cl -> good (and_having cl s).
  Proof.
    intros H Hcl. apply good_parts in H. destruct H as [A B C D E]. apply good_parts. unfold and_having. other_parts s B.
    apply exprs_parts in D. destruct D. apply exprs_parts. constructor; fields; try assumption.
    apply ogood_and_into; assumption.
  Qed.

  Lemma good_with ws s : good s -> Forall (goodw Q) ws -> good (with_ ws s).
  Proof.
    intros H Hws. apply good_parts in H. destruct H as [A B C D E]. apply good_parts.
    unfold with_, add_withs. other_parts s B.
    apply hoist_good; [exact Hws | constructor].
  Qed.

  Lemma good_set_cols cols s : good s -> Forall egood cols -> good (set_cols cols s).
  Proof.
    intros H Hc. apply good_parts in H. destruct H as [A B C D E]. apply good_parts. other_parts s B.
    apply exprs_parts in D. destruct D. apply exprs_parts. constructor; fields; assumption.
  Qed.
  Lemma good_set_orderby ob s : good s -> Forall egood ob -> good (set_orderby ob s).
  Proof.
    intros H Hc. apply good_parts in H. destruct H as [A B C D E]. apply good_parts. other_parts s B.
    apply exprs_parts in D. destruct D. apply exprs_parts. constructor; fields; assumption.
  Qed.
  Lemma good_set_limit l s : good s -> ogood l -> good (set_limit l s).
  Proof.
    intros H Hc. apply good_parts in H. destruct H as [A B C D E]. apply good_parts. other_parts s B.
    apply exprs_parts in D. destruct D. apply exprs_parts. constructor; fields; assumption.
  Qed.
  Lemma good_cols s : good s -> Forall egood (s_cols s).
  Proof. intros H. apply good_parts in H. destruct H as [_ _ _ D _]. apply exprs_parts in D. apply D. Qed.

  Lemma good_empty : good empty_select.
  Proof. unfold ScansPlanProofs.good. cbn. constructor. Qed.

  (* a select reading another select: FROM a WithRef (possibly aliased), no base table of its own *)
  Lemma good_from_ref f cols ws :
    base_table f = None -> egood f -> Forall egood cols -> Forall (goodw Q) ws ->
    good (set_from f (set_cols cols (with_ ws empty_select))).
  Proof.
    intros Hb Hf Hc Hws. apply good_parts. constructor; fields.
    - unfold with_, add_withs. fields. apply hoist_good; [exact Hws | constructor].
    - unfold own_scan. fields. rewrite Hb. constructor.
    - unfold with_, add_withs. fields. constructor.
    - apply exprs_parts. unfold with_, add_withs. constructor; fields; try constructor; assumption.
    - unfold with_, add_withs. fields. constructor.
  Qed.

  Lemma patch_col_egood cols name patch :
    Forall egood cols -> (forall x, egood x -> egood (patch x)) -> Forall egood (patch_col cols name patch).
  Proof.
    intros H Hp. unfold patch_col. induction H as [|c r Hc Hr IH]; cbn [map]; constructor; [|exact IH].
    destruct c; cbn [alias_of]; try exact Hc. destruct (String.eqb alias name); [|exact Hc].
    unfold ScansPlanProofs.egood in *. cbn [escans] in *. apply Hp. exact Hc.
  Qed.
End BUILD.

(* ------------------------------------------------------------------ the objects the LogQL planners put into conditions *)
(* nice: a condition that says nothing about the window and contains no select *)
Definition nice (e : expr) : Prop := (exists op l, e = LOp op l) /\ Forall neutral (conjs e) /\ escans e = [].

Lemma nice_cmp op a b : neutral_b (LOp op [a; b]) = true -> op <> OAnd -> escans a = [] -> escans b = [] -> nice (LOp op [a; b]).
Proof.
  intros Hn Hop Ha Hb. split; [exists op, [a; b]; reflexivity|]. split.
  - rewrite conjs_other; [constructor; [apply neutral_b_sound, Hn | constructor]|].
    intros l H. injection H as H _. contradiction.
  - cbn [escans flat_map]. rewrite Ha, Hb. reflexivity.
Qed.

Lemma nice_and l r : nice l -> nice r -> nice (And [l; r]).
Proof.
  intros [_ [Hl1 Hl2]] [_ [Hr1 Hr2]]. split; [exists OAnd, [l; r]; reflexivity|]. split.
  - unfold And. rewrite conjs_and. cbn [flat_map]. rewrite app_nil_r. apply Forall_app. split; assumption.
  - unfold And. cbn [escans flat_map]. rewrite Hl2, Hr2. reflexivity.
Qed.
Lemma nice_or l r : nice l -> nice r -> nice (Or [l; r]).
Proof.
  intros [[op [x ->]] [Hl1 Hl2]] [_ [Hr1 Hr2]]. split; [exists OOr, [LOp op x; r]; reflexivity|]. split.
  - unfold Or. rewrite conjs_other; [|intros l H; discriminate].
    constructor; [|constructor]. apply neutral_b_sound. reflexivity.
  - unfold Or. cbn [escans flat_map] in *. rewrite Hl2, Hr2. reflexivity.
Qed.

Section LF.
  Variable getter : option (string -> expr).
  Let label (s : string) : expr := match getter with Some g => g s | None => Idx (Id "labels") (QRaw s) end.
  Hypothesis label_noselect : forall s, escans (label s) = [].
  Hypothesis label_noid : forall s op b, neutral_b (LOp op [label s; b]) = true.

  Lemma simple_cond_nice s e : simple_cond getter s = Some e -> nice e.
  Proof.
    unfold simple_cond. fold (label (slf_label s)). set (lb := label (slf_label s)).
    destruct (lblop_numeric s).
    - destruct (slf_num s) as [[txt f]|]; [|discriminate]. destruct (String.eqb txt ""); [discriminate|].
      assert (Hn : forall mk op, op <> OAnd -> mk = (fun a b => LOp op [a; b]) ->
                  nice (And [NotNull (Fn "toFloat64OrNull" [lb]); mk (Fn "toFloat64OrNull" [lb]) (FloatV f)])).
      { intros mk op Hop ->. split; [exists OAnd; eexists; reflexivity|]. split.
        - unfold And. rewrite conjs_and. cbn [flat_map]. rewrite conjs_other by (intros l H; discriminate).
          rewrite conjs_other by (intros l H; injection H as H _; contradiction).
          cbn [app]. constructor; [apply neutral_b_sound; reflexivity|]. constructor; [apply neutral_b_sound; reflexivity | constructor].
        - unfold And. cbn [escans flat_map]. unfold lb. rewrite label_noselect. reflexivity. }
      destruct (slf_fn s); intros [= <-]; try discriminate;
        (eapply Hn; [|reflexivity]; discriminate).
    - destruct (slf_str s) as [v|]; [|discriminate].
      destruct (slf_fn s); intros [= <-]; try discriminate.
      + apply nice_cmp; [apply label_noid | discriminate | apply label_noselect | reflexivity].
      + apply nice_cmp; [apply label_noid | discriminate | apply label_noselect | reflexivity].
      + apply nice_cmp; [reflexivity | discriminate | | reflexivity].
        unfold sql_match. cbn [escans flat_map]. unfold lb. rewrite label_noselect. reflexivity.
      + apply nice_cmp; [reflexivity | discriminate | | reflexivity].
        unfold sql_match. cbn [escans flat_map]. unfold lb. rewrite label_noselect. reflexivity.
  Qed.

  (* label_filter is nested through lf_head and option: structural recursion written directly *)
  Lemma lf_cond_nice : forall f e, lf_cond getter f = Some e -> nice e.
  Proof.
    fix IH 1. intros f e. destruct f as [head op tail]. cbn [lf_cond].
    assert (Hhead : forall l, match head with HSimple s => simple_cond getter s | HComplex f' => lf_cond getter f' end = Some l -> nice l).
    { destruct head as [s|f']; intros l Hl; [apply (simple_cond_nice s), Hl | apply (IH f'), Hl]. }
    destruct (match head with HSimple s => simple_cond getter s | HComplex f' => lf_cond getter f' end) as [l|]; [|discriminate].
    specialize (Hhead l eq_refl).
    destruct tail as [t|]; [|intros [= <-]; exact Hhead].
    pose proof (IH t) as Ht.
    destruct (lf_cond getter t) as [r|]; [|discriminate].
    specialize (Ht r eq_refl).
    destruct op as [[|]|]; intros [= <-]; [apply nice_and | apply nice_or]; assumption.
  Qed.
End LF.

Lemma line_filter_nice op val re_lit : nice (line_filter_clause op val re_lit).
Proof.
  destruct op, re_lit as [[lit insens]|]; cbn [line_filter_clause]; unfold do_like, sql_match, Eq;
    (apply nice_cmp; [reflexivity | discriminate | reflexivity | reflexivity]).
Qed.

Lemma getter_none_noselect s : escans (Idx (Id "labels") (QRaw s)) = [].
Proof. reflexivity. Qed.
Lemma getter_json_noselect s : escans (Fn "JSONExtractString" [Id "labels"; QRaw s]) = [].
Proof. reflexivity. Qed.

Lemma sel_clauses_noselect ms : flat_map escans (map sel_clause ms) = [].
Proof.
  induction ms as [|m r IH]; [reflexivity|]. cbn [map flat_map]. rewrite IH.
  unfold sel_clause, val_clause, sql_match. destruct (m_op m); reflexivity.
Qed.
Lemma sel_clauses_neutral op ms : neutral (LOp op (map sel_clause ms)).
Proof. apply neutral_b_sound. destruct ms as [|m r]; reflexivity. Qed.

Lemma json_paths_noselect paths : flat_map escans (map json_path_sql paths) = [].
Proof.
  induction paths as [|p r IH]; [reflexivity|]. cbn [map flat_map]. rewrite IH.
  unfold json_path_sql. cbn [escans flat_map app].
  assert (H : flat_map escans (map json_part p) = []).
  { induction p as [|x y IHp]; [reflexivity|]. cbn [map flat_map]. rewrite IHp.
    unfold json_part. destruct x as [|c d]; [reflexivity|]. destruct (Ascii.eqb c "000"%char); [|reflexivity].
    destruct d as [|c2 d2]; [reflexivity|]. destruct (Ascii.eqb c2 "000"%char); reflexivity. }
  rewrite H. reflexivity.
Qed.
Lemma strvs_noselect l : flat_map escans (map StrV l) = [].
Proof. induction l as [|x y IH]; [reflexivity | cbn [map flat_map escans]; exact IH]. Qed.
(* LineFormatPlanner: format('..', labels['a'], ...) reads no table *)
Lemma tpl_sql_noselect ns : escans (LogqlTemplate.tpl_sql ns) = [].
Proof.
  unfold LogqlTemplate.tpl_sql. destruct (LogqlTemplate.tpl_fmt (LogqlTemplate.pieces ns) 0) as [f a].
  destruct a as [|a0 ar]; [reflexivity|]. cbn [escans flat_map app]. rewrite app_nil_r.
  generalize (a0 :: ar) as a. intros a. induction a as [|x r IH]; [reflexivity | cbn [map flat_map escans LogqlTemplate.label_arg app]; exact IH].
Qed.
Lemma json_parser_noselect labels paths : escans (sql_json_parser labels paths) = [].
Proof.
  unfold sql_json_parser. cbn [escans flat_map app]. rewrite strvs_noselect, json_paths_noselect. reflexivity.
Qed.
Lemma drop_clauses_noselect params : flat_map escans (map drop_clause params) = [].
Proof.
  induction params as [|p r IH]; [reflexivity|]. cbn [map flat_map]. rewrite IH.
  unfold drop_clause. destruct (snd p) as [v|]; [destruct (String.eqb v "")|]; reflexivity.
Qed.
Lemma orderby_noselect asc cols : flat_map escans (map (fun x => Ord (Id x) asc) cols) = [].
Proof. induction cols as [|x r IH]; [reflexivity | cbn [map flat_map escans]; exact IH]. Qed.

(* ------------------------------------------------------------------ the window of a planner context *)
Definition api_type (c : pctx) : Z := if Z.eqb (c_type c) 0 then 1%Z else c_type c.
(* the window of the context itself: what a log query is judged against *)
Definition win (c : pctx) : window :=
  {| w_from := c_from_ns c; w_to := c_to_ns c; w_lo_min := c_from_ns c; w_hi_max := c_to_ns c; w_type := api_type c |}.
(* for plans that may read the 15-second roll-up table: bounds may be widened to 15 s storage boundaries
   below, and the last started 15 s slot need not be read *)
Definition fl15 (x : Z) : Z := (Z.quot x 15000000000 * 15000000000)%Z.
Definition slot15 : Z := 15000000000.
(* the window of a plan that may take the shortcut: nothing below From may be read from a raw table; the roll-up read,
   a slot table, is judged at slot granularity (Scans.slot_win floors the lowest allowed bound to the slot start) and
   ends with the last whole slot at or before To *)
Definition win15 (c : pctx) : window :=
  {| w_from := c_from_ns c; w_to := fl15 (c_to_ns c); w_lo_min := c_from_ns c; w_hi_max := c_to_ns c;
     w_type := api_type c |}.
Lemma api_type_nz c : api_type c <> 0%Z.
Proof. unfold api_type. destruct (Z.eqb_spec (c_type c) 0); [discriminate | assumption]. Qed.

(* what the proofs need of the window a context is judged against *)
Record win_ok (m15 : bool) (c : pctx) (w : window) : Prop := {
  wk_type : w_type w = api_type c;
  wk_lo : (w_lo_min w <= c_from_ns c <= w_from w)%Z;
  wk_hi : (w_to w <= c_to_ns c <= w_hi_max w + 1)%Z;
  wk_m15 : m15 = true -> (fl_slot slot15 (w_lo_min w) <= fl15 (c_from_ns c) <= w_from w /\
                          w_to w <= fl15 (c_to_ns c) <= cl_slot slot15 (w_hi_max w + 1))%Z
}.
Lemma win_ok_win c : win_ok false c (win c).
Proof. constructor; cbn [win w_type w_from w_to w_lo_min w_hi_max]; try reflexivity; try lia; try discriminate. Qed.
Lemma fl15_le x : (0 <= x -> 0 <= fl15 x <= x)%Z.
Proof.
  intros H. unfold fl15. pose proof (Z.quot_rem' x 15000000000) as E.
  pose proof (Z.rem_nonneg x 15000000000 ltac:(lia) H) as R.
  pose proof (Z.quot_pos x 15000000000 H ltac:(lia)) as Qp. lia.
Qed.
Lemma fl15_slot x : (0 <= x)%Z -> fl15 x = fl_slot slot15 x.
Proof. intros H. unfold fl15, fl_slot, slot15. rewrite Z.quot_div_nonneg by lia. reflexivity. Qed.
Lemma fl15_aligned x : (fl15 x mod slot15 = 0)%Z.
Proof. unfold fl15, slot15. apply Z_mod_mult. Qed.
Lemma slot15_pos : (0 < slot15)%Z.
Proof. reflexivity. Qed.
Lemma win_ok_win15 c : (0 <= c_from_ns c)%Z -> (0 <= c_to_ns c)%Z -> win_ok true c (win15 c).
Proof.
  intros Hf Ht. pose proof (fl15_le _ Hf). pose proof (fl15_le _ Ht).
  constructor; cbn [win15 w_type w_from w_to w_lo_min w_hi_max]; try reflexivity; try lia.
  intros _. rewrite <- (fl15_slot _ Hf).
  destruct (cl_slot_spec slot15 (c_to_ns c + 1) slot15_pos) as [[C1 _] _]. lia.
Qed.

Definition data_typed : tinfo := {| ti_class := CData; ti_typed := true |}.
Definition index_typed : tinfo := {| ti_class := CIndex; ti_typed := true |}.
(* the roll-up table: rows stamped with the start of their 15-second slot *)
Definition slot15_typed : tinfo := {| ti_class := CSlot slot15; ti_typed := true |}.
Record ctx_tables (info : string -> tinfo) (c : pctx) : Prop := {
  ct_samples : info (t_samples c) = data_typed;
  ct_gin : info (t_gin c) = index_typed;
  ct_ts : info (t_ts c) = index_typed;
  ct_ts_dist : info (t_ts_dist c) = index_typed;
  ct_m15 : info (t_m15 c) = slot15_typed
}.

(* verdicts on explicit bound lists *)
Lemma types_ok t : t <> 0%Z -> type_list_failures t (Some [t; 0%Z]) = [].
Proof.
  intros Ht. unfold type_list_failures. cbn [existsb forallb]. rewrite !Z.eqb_refl. cbn [orb andb].
  rewrite orb_true_r. reflexivity.
Qed.

Lemma bounded_data info c w sc lo hi :
  w_type w = api_type c -> (w_lo_min w <= lo <= w_from w)%Z -> (w_to w <= hi <= w_hi_max w + 1)%Z ->
  info (sc_table sc) = data_typed ->
  bounds sc = [TsLo lo; TsHi hi; Ty [api_type c; 0%Z]] ->
  scan_bounded info w sc.
Proof.
  intros Hty Hlo Hhi Hi Hb. apply scan_bounded_b_iff. unfold scan_bounded_b, scan_failures. rewrite Hi, Hb.
  cbn [ti_class ti_typed data_typed]. unfold ts_lower_failures, ts_upper_failures, type_failures.
  cbn [ts_los ts_his tys flat_map app zmax_list zmin_list fold_left andb]. rewrite Hty.
  pose proof (api_type_nz c) as Hnz. apply Z.eqb_neq in Hnz. rewrite Hnz.
  rewrite (types_ok (api_type c) (api_type_nz c)).
  replace (lo >? w_from w)%Z with false by (symmetry; rewrite Z.gtb_ltb; apply Z.ltb_ge; lia).
  replace (lo <? w_lo_min w)%Z with false by (symmetry; apply Z.ltb_ge; lia).
  replace (hi <? w_to w)%Z with false by (symmetry; apply Z.ltb_ge; lia).
  replace (hi >? w_hi_max w + 1)%Z with false by (symmetry; rewrite Z.gtb_ltb; apply Z.ltb_ge; lia).
  reflexivity.
Qed.

(* a read of the roll-up table: the bounds are judged after rounding up to the slot boundary (cl_slot) *)
Lemma bounded_slot info c w sc lo hi :
  w_type w = api_type c ->
  (fl_slot slot15 (w_lo_min w) <= cl_slot slot15 lo <= w_from w)%Z ->
  (w_to w <= cl_slot slot15 hi <= cl_slot slot15 (w_hi_max w + 1))%Z ->
  info (sc_table sc) = slot15_typed ->
  bounds sc = [TsLo lo; TsHi hi; Ty [api_type c; 0%Z]] ->
  scan_bounded info w sc.
Proof.
  intros Hty Hlo Hhi Hi Hb. apply scan_bounded_b_iff. unfold scan_bounded_b, scan_failures. rewrite Hi, Hb.
  cbn [ti_class ti_typed slot15_typed slot_bnds map]. unfold ts_lower_failures, ts_upper_failures, type_failures.
  cbn [ts_los ts_his tys flat_map app zmax_list zmin_list fold_left andb slot_win w_from w_to w_lo_min w_hi_max]. rewrite Hty.
  pose proof (api_type_nz c) as Hnz. apply Z.eqb_neq in Hnz. rewrite Hnz.
  rewrite (types_ok (api_type c) (api_type_nz c)).
  replace (cl_slot slot15 lo >? w_from w)%Z with false by (symmetry; rewrite Z.gtb_ltb; apply Z.ltb_ge; lia).
  replace (cl_slot slot15 lo <? fl_slot slot15 (w_lo_min w))%Z with false by (symmetry; apply Z.ltb_ge; lia).
  replace (cl_slot slot15 hi <? w_to w)%Z with false by (symmetry; apply Z.ltb_ge; lia).
  replace (cl_slot slot15 hi >? cl_slot slot15 (w_hi_max w + 1) - 1 + 1)%Z with false by (symmetry; rewrite Z.gtb_ltb; apply Z.ltb_ge; lia).
  reflexivity.
Qed.
(* ... in particular with both bounds on slot boundaries *)
Lemma bounded_slot_aligned info c w sc lo hi :
  w_type w = api_type c ->
  (lo mod slot15 = 0)%Z -> (hi mod slot15 = 0)%Z ->
  (fl_slot slot15 (w_lo_min w) <= lo <= w_from w)%Z -> (w_to w <= hi <= cl_slot slot15 (w_hi_max w + 1))%Z ->
  info (sc_table sc) = slot15_typed ->
  bounds sc = [TsLo lo; TsHi hi; Ty [api_type c; 0%Z]] ->
  scan_bounded info w sc.
Proof.
  intros Hty Al Ah Hlo Hhi Hi Hb. apply (bounded_slot info c w sc lo hi); try assumption;
    rewrite (cl_slot_aligned slot15 _ slot15_pos Al) || rewrite (cl_slot_aligned slot15 _ slot15_pos Ah); exact Hlo || exact Hhi.
Qed.

Lemma bounded_index info c w sc :
  w_type w = api_type c -> (c_from_ns c <= w_from w)%Z ->
  info (sc_table sc) = index_typed ->
  bounds sc = [DLo (from_day (c_from_ns c)); Ty [api_type c; 0%Z]] ->
  scan_bounded info w sc.
Proof.
  intros Hty Hlo Hi Hb. apply scan_bounded_b_iff. unfold scan_bounded_b, scan_failures. rewrite Hi, Hb.
  cbn [ti_class ti_typed index_typed]. unfold date_failures, ts_lower_failures, ts_upper_failures, type_failures.
  cbn [d_los d_his ts_los ts_his tys flat_map app zmax_list zmin_list fold_left andb]. rewrite Hty.
  pose proof (api_type_nz c) as Hnz. apply Z.eqb_neq in Hnz. rewrite Hnz.
  rewrite (types_ok (api_type c) (api_type_nz c)).
  replace (from_day (c_from_ns c) >? day_of_ns (w_from w))%Z with false; [reflexivity|].
  symmetry. rewrite Z.gtb_ltb. apply Z.ltb_ge.
  transitivity (day_of_ns (c_from_ns c)); [apply from_day_close|].
  unfold day_of_ns, ns_per_day. apply Z.div_le_mono; lia.
Qed.


(* ------------------------------------------------------------------ the three base-table skeletons *)
Ltac fields_all := cbn [s_distinct s_cols s_from s_where s_prewhere s_having s_groupby s_orderby s_limit s_offset s_withs
                      s_joins s_settings s_unions set_distinct set_cols set_from set_where set_prewhere set_having
                      set_groupby set_orderby set_limit set_offset set_withs set_joins set_unions empty_select
                      own_scan base_table oconjs and_into].
Section SKEL.
  Variable info : string -> tinfo.
  Variable c : pctx.
  Variable allow : bool.
  Variable m15 : bool.
  Variable W : window.
  Hypothesis Htab : ctx_tables info c.
  Hypothesis Hwin : win_ok m15 c W.
  Notation Q := (Q info W allow).
  Notation good := (good Q).

  Lemma good_base s : s_withs s = [] -> s_joins s = [] -> s_unions s = [] ->
    Forall Q (own_scan s) -> Forall Q (exprs_scans s) -> good s.
  Proof.
    intros Hw Hj Hu Ho He. apply good_parts. constructor; try assumption; [rewrite Hw | rewrite Hj | rewrite Hu]; constructor.
  Qed.

  Lemma tsn_free_closed e : (forall a b, classify a e = classify b e) -> tsn_free e.
  Proof. intros H a b _. apply H. Qed.
  Lemma types_conj_free : tsn_free (get_types c).
  Proof. apply tsn_free_closed. intros a b. reflexivity. Qed.
  Lemma types_bounds sc : classify sc (get_types c) = [Ty [api_type c; 0%Z]].
  Proof. reflexivity. Qed.

  Lemma main_init_good : good (main_init c).
  Proof.
    unfold main_init, and_prewhere, SimpleCol. fields_all.
    apply good_base; try reflexivity.
    - fields_all. unfold And. rewrite conjs_and.
      set (d1 := Ge (Id "samples.timestamp_ns") (IntV (c_from_ns c))).
      set (d2 := Lt (Id "samples.timestamp_ns") (IntV (c_to_ns c))).
      cbn [flat_map]. rewrite !conjs_other by (subst d1 d2; unfold get_types, Ge, Lt; intros l H; discriminate).
      cbn [app]. constructor; [|constructor]. split.
      + constructor; [|constructor; [|constructor; [apply types_conj_free | constructor]]].
        * intros a b [Ht Ha]. subst d1. unfold Ge, classify, col_is, qualifier_ok. cbn. rewrite Ha, Ht. reflexivity.
        * intros a b [Ht Ha]. subst d2. unfold Lt, classify, col_is, qualifier_ok. cbn. rewrite Ha, Ht. reflexivity.
      + left. apply (bounded_data info c W _ (c_from_ns c) (c_to_ns c)); [apply Hwin | apply Hwin | apply Hwin | apply Htab|].
        unfold bounds. cbn [sc_conj flat_map]. rewrite types_bounds. subst d1 d2. reflexivity.
    - apply exprs_parts. constructor; fields_all; cbn [ogood]; repeat constructor.
  Qed.

  Lemma ts_init_good : good (ts_init c).
  Proof.
    unfold ts_init, and_prewhere, SimpleCol, format_from_date. fields_all.
    apply good_base; try reflexivity.
    - fields_all. unfold And. rewrite conjs_and.
      cbn [flat_map]. rewrite !conjs_other by (unfold get_types, Ge; intros l H; discriminate).
      cbn [app]. constructor; [|constructor]. split.
      + constructor; [|constructor; [apply types_conj_free | constructor]].
        intros a b [Ht Ha]. unfold Ge, classify, col_is, qualifier_ok. cbn. rewrite Ha, Ht. reflexivity.
      + left. apply (bounded_index info c W); [apply Hwin | apply Hwin | apply Htab|].
        unfold bounds. cbn [sc_conj flat_map]. rewrite types_bounds. reflexivity.
    - apply exprs_parts. constructor; fields_all; cbn [ogood]; repeat constructor.
  Qed.

  Lemma stream_select_good ms : good (stream_select c ms).
  Proof.
    unfold stream_select, and_having, and_where, format_from_date. fields_all.
    apply good_base; try reflexivity.
    - fields_all. unfold And. rewrite conjs_and.
      cbn [flat_map]. rewrite !conjs_other by (unfold get_types, Ge, Or; intros l H; discriminate).
      cbn [app]. constructor; [|constructor]. split.
      + constructor; [|constructor; [apply types_conj_free | constructor; [|constructor]]].
        * apply tsn_free_closed. intros a b. reflexivity.
        * apply neutral_tsn_free. apply sel_clauses_neutral.
      + left. apply (bounded_index info c W); [apply Hwin | apply Hwin | apply Htab|].
        unfold bounds. cbn [sc_conj flat_map]. rewrite types_bounds.
        rewrite (sel_clauses_neutral OOr ms). reflexivity.
    - apply exprs_parts. constructor; fields_all; cbn [ogood]; repeat constructor.
      + unfold egood, And, Or, Ge, get_types. cbn [escans flat_map app]. rewrite sel_clauses_noselect. constructor.
      + unfold egood, And, Eq. cbn [escans flat_map app]. rewrite sel_clauses_noselect. constructor.
  Qed.
End SKEL.

(* ------------------------------------------------------------------ the planner objects of a log query *)
(* allow: SimpleLabelFilterPlanner may occur; m15: the 15-second roll-up shortcut may occur *)
Inductive logp (allow m15 : bool) : planner -> Prop :=
 | lp_sel ms : logp allow m15 (PStreamSelect ms)
 | lp_slf f fp : logp allow m15 fp -> logp allow m15 (PSimpleLabelFilter f fp)   (* `allow` is not consulted any more: since the
     repair of label-filter-series-scan-unbounded the read of SimpleLabelFilterPlanner is bounded like every other *)
 | lp_fpf fp main : logp allow m15 fp -> logp allow m15 main -> logp allow m15 (PFingerprintFilter fp main)
 | lp_main : logp allow m15 PMainInit
 | lp_ts : logp allow m15 PTimeSeriesInit
 | lp_lf op v rl main : logp allow m15 main -> logp allow m15 (PLineFilterP op v rl main)
 | lp_lbl f main : logp allow m15 main -> logp allow m15 (PLabelFilterP f main)
 | lp_parser fn ps main : logp allow m15 main -> logp allow m15 (PParserP fn ps main)
 | lp_drop ps main : logp allow m15 main -> logp allow m15 (PDropP ps main)
 | lp_unwrap l main : logp allow m15 main -> logp allow m15 (PUnwrapP l main)
 | lp_join main fp ts lc : logp allow m15 main -> logp allow m15 fp -> logp allow m15 ts -> logp allow m15 (PLabelsJoin main fp ts lc)
 | lp_renew main ul : logp allow m15 main -> logp allow m15 (PMainRenew main ul)
 | lp_ob cols main : logp allow m15 main -> logp allow m15 (PMainOrderBy cols main)
 | lp_limit main : logp allow m15 main -> logp allow m15 (PMainLimit main)
 | lp_fin main m f : logp allow m15 main -> logp allow m15 (PMainFinalizer main m f)
 (* metric side *)
 | lp_lra f dur wl main : logp allow m15 main -> logp allow m15 (PLraP f dur wl main)
 | lp_uwfn f dur main : logp allow m15 main -> logp allow m15 (PUnwrapFnP f dur main)
 | lp_bw labels by_ use_ts main : logp allow m15 main -> logp allow m15 (PByWithoutP labels by_ use_ts main)
 | lp_agg f wl main : logp allow m15 main -> logp allow m15 (PAggOpP f wl main)
 | lp_cmp fn v main : logp allow m15 main -> logp allow m15 (PComparisonP fn v main)
 | lp_topk len top main : logp allow m15 main -> logp allow m15 (PTopKP len top main)
 | lp_quant param dur main : logp allow m15 main -> logp allow m15 (PQuantileP param dur main)
 | lp_stepfix dur main : logp allow m15 main -> logp allow m15 (PStepFixP dur main)
 | lp_m15 f dur : m15 = true -> logp allow m15 (PMetrics15 f dur)
 | lp_lfmt t main : logp allow m15 main -> logp allow m15 (PLineFormatP t main).

Section PROC.
  Variable info : string -> tinfo.
  Variable c : pctx.
  Variable allow : bool.
  Variable m15 : bool.
  Variable W : window.
  Hypothesis Htab : ctx_tables info c.
  Hypothesis Hwin : win_ok m15 c W.
  Notation Q := (Q info W allow).
  Notation good := (good Q).
  Notation egood := (egood Q).

  Definition inv (st : pst) : Prop :=
    (forall x, fp_cache st = Some x -> good (snd x)) /\ (forall x, labels_cache st = Some x -> good (snd x)).
  Definition proc_ok (p : planner) : Prop :=
    forall st q st' p', inv st -> process p c st = Some (q, st', p') -> good q /\ inv st'.

  Lemma egood_wref a q : good q -> egood (WRef a q).
  Proof. intros H. exact H. Qed.
  Lemma egood_in_wref x a q : good q -> egood (In (Id x) [WRef a q]).
  Proof. intros H. unfold ScansPlanProofs.egood. cbn [escans flat_map app]. rewrite app_nil_r. exact H. Qed.
  Lemma egood_nil e : escans e = [] -> egood e.
  Proof. intros H. unfold ScansPlanProofs.egood. rewrite H. constructor. Qed.

  Lemma with_connector_ok mainp withp st fn r st' m' w' :
    proc_ok mainp -> proc_ok withp -> inv st ->
    with_connector process mainp withp c st fn = Some (r, st', m', w') ->
    exists main w, good main /\ good (snd w) /\ r = fn (with_ [w] main) w /\ inv st'.
  Proof.
    intros Hm Hw Hinv. unfold with_connector.
    destruct (process mainp c st) as [[[main st1] mp]|] eqn:E1; cbn [bind]; [|discriminate].
    destruct (Hm _ _ _ _ Hinv E1) as [Gm I1].
    destruct (fp_cache st1) as [w|] eqn:Ec.
    - intros [= <- <- <- <-]. exists main, w. repeat split; try assumption; [apply (proj1 I1), Ec | apply I1 | apply I1].
    - destruct (process withp c st1) as [[[wreq st2] wp]|] eqn:E2; cbn [bind]; [|discriminate].
      destruct (Hw _ _ _ _ I1 E2) as [Gw I2].
      intros [= <- <- <- <-]. exists main, ("fp_sel", wreq). split; [exact Gm|]. split; [exact Gw|]. split; [reflexivity|].
      split.
      + intros w0 H0. cbn [set_fp_cache fp_cache] in H0. injection H0 as <-. exact Gw.
      + intros w0 H0. cbn [set_fp_cache labels_cache] in H0. apply (proj2 I2), H0.
  Qed.

  Lemma in_fp_cl_neutral x r : neutral (In (Id x) r) -> cl_neutral [In (Id x) r].
  Proof. intros H. unfold cl_neutral. cbn [flat_map conjs app]. constructor; [exact H | constructor]. Qed.

  Lemma nice_cl e : nice e -> cl_neutral [e] /\ Forall egood [e].
  Proof.
    intros [_ [H1 H2]]. split.
    - unfold cl_neutral. cbn [flat_map]. rewrite app_nil_r. exact H1.
    - constructor; [apply egood_nil, H2 | constructor].
  Qed.

  Lemma simplecols_egood l : Forall egood (map (fun p => SimpleCol (fst p) (snd p)) l).
  Proof. induction l as [|x r IH]; cbn [map]; constructor; [apply egood_nil; reflexivity | exact IH]. Qed.

  Lemma regex_map_noselect names re : escans (regex_map names re) = [].
  Proof. unfold regex_map. cbn [escans flat_map app]. rewrite strvs_noselect. reflexivity. Qed.
  Lemma get_col_egood cols n x : Forall egood cols -> get_col cols n = Some x -> egood x.
  Proof.
    intros H. induction H as [|c0 r Hc Hr IH]; cbn [get_col]; [discriminate|].
    destruct c0; cbn [alias_of]; try exact IH.
    destruct (String.eqb alias n); [|exact IH]. intros [= <-]. exact Hc.
  Qed.
  Lemma inv_clear st : inv (clear_caches st).
  Proof. split; intros w0 H0; discriminate H0. Qed.
  Lemma forall_egood_nil l : flat_map escans l = [] -> Forall egood l.
  Proof.
    induction l as [|x r IH]; cbn [flat_map]; intros H; constructor.
    - apply egood_nil. destruct (escans x); [reflexivity | discriminate H].
    - apply IH. destruct (escans x); [exact H | discriminate H].
  Qed.
  Lemma bw_filter_escans col labels by_ : escans (bw_filter col labels by_) = escans col.
  Proof.
    unfold bw_filter. destruct (by_ && match labels with [] => true | _ => false end).
    - cbn [escans flat_map app]. rewrite app_nil_r. reflexivity.
    - cbn [escans flat_map app]. rewrite strvs_noselect. cbn [app]. rewrite app_nil_r. reflexivity.
  Qed.
  Lemma rename_string_egood cols : Forall egood cols -> Forall egood (rename_string cols).
  Proof.
    intros H. unfold rename_string. induction H as [|x r Hx Hr IH]; cbn [map]; constructor; [|exact IH].
    destruct x; cbn [alias_of]; try exact Hx. destruct (String.eqb alias "string"); exact Hx.
  Qed.
  Lemma good_set_groupby gb s : good s -> Forall egood gb -> good (set_groupby gb s).
  Proof.
    intros H Hc. apply good_parts in H. destruct H as [A B C D E]. apply good_parts.
    constructor; fields_all; try assumption;
      try (apply (own_same_key info W allow s); [reflexivity | reflexivity | reflexivity | exact B]).
    apply exprs_parts in D. destruct D. apply exprs_parts. constructor; fields_all; assumption.
  Qed.

  Theorem process_good p : logp allow m15 p -> proc_ok p.
  Proof.
    induction 1 as [ms | f fp Hfp IHfp | fp main Hfp IHfp Hmain IHmain | | | op v rl main Hmain IHmain
                   | f main Hmain IHmain | fn ps main Hmain IHmain | ps main Hmain IHmain | lbl main Hmain IHmain
                   | main fp ts lc Hmain IHmain Hfp IHfp Hts IHts | main ul Hmain IHmain | cols main Hmain IHmain
                   | main Hmain IHmain | main m fin Hmain IHmain
                   | f dur wl main Hmain IHmain | f dur main Hmain IHmain | labels by_ use_ts main Hmain IHmain
                   | f wl main Hmain IHmain | fn v main Hmain IHmain | len top main Hmain IHmain
                   | param dur main Hmain IHmain | dur main Hmain IHmain | f dur Hm15 | t main Hmain IHmain];
      intros st q st' p' Hinv; cbn [process].
    - (* PStreamSelect *)
      intros [= <- <- <-]. split; [apply (stream_select_good info c allow m15 W Htab Hwin) | exact Hinv].
    - (* PSimpleLabelFilter *)
      destruct (process fp c st) as [[[main st1] fp']|] eqn:E1; cbn [bind]; [|discriminate].
      destruct (IHfp _ _ _ _ Hinv E1) as [Gm I1].
      destruct (next_id st1) as [i st2] eqn:En.
      destruct (lf_cond (Some (fun s => Fn "JSONExtractString" [Id "labels"; QRaw s])) f) as [cond|] eqn:Ec; cbn [bind]; [|discriminate].
      intros [= <- <- <-]. split.
      + apply lf_cond_nice in Ec; [|intros s; reflexivity | intros s op b; reflexivity].
        destruct (nice_cl _ Ec) as [Hn Hg].
        set (id := ("subsel_" ++ string_of_N i)%string).
        apply good_and_where; [|exact Hn | exact Hg].
        (* the time_series read restricted to the fingerprints of the stream selector *)
        apply good_parts. unfold and_where, with_, add_withs. constructor; fields_all.
        * apply hoist_good; [constructor; [exact Gm | constructor] | constructor].
        * constructor; [|constructor]. split.
          -- unfold And. rewrite conjs_and. cbn [flat_map app]. rewrite !conjs_other by (unfold get_types, Ge; intros l H; discriminate).
             cbn [app]. constructor; [apply neutral_tsn_free, neutral_in_fp3 |].
             constructor; [apply tsn_free_closed; intros a b; reflexivity|].
             constructor; [apply types_conj_free | constructor].
          -- (* since the repair of label-filter-series-scan-unbounded: date and type bounds like every other time_series read *)
             left. apply (bounded_index info c W); [apply Hwin | apply Hwin | apply Htab|].
             unfold bounds, And. cbn [sc_conj]. rewrite conjs_and. cbn [flat_map app].
             rewrite !conjs_other by (unfold get_types, Ge; intros l H; discriminate). cbn [flat_map app].
             rewrite (neutral_in_fp3). reflexivity.
        * constructor.
        * apply exprs_parts. constructor; fields_all; cbn [ogood]; repeat constructor.
          unfold ScansPlanProofs.egood, And. cbn [escans flat_map app]. rewrite !app_nil_r. exact Gm.
        * constructor.
      + unfold next_id in En. injection En as _ <-. exact I1.
    - (* PFingerprintFilter *)
      destruct (with_connector process main fp c st _) as [[[[r st1] main'] fp']|] eqn:E; cbn [bind]; [|discriminate].
      destruct (with_connector_ok _ _ _ _ _ _ _ _ IHmain IHfp Hinv E) as [mq [w [Gm [Gw [-> I1]]]]].
      intros [= <- <- <-]. split; [|exact I1].
      apply good_and_where; [| apply in_fp_cl_neutral, neutral_in_fp1 | constructor; [apply egood_in_wref, Gw | constructor]].
      apply good_with; [exact Gm | constructor; [exact Gw | constructor]].
    - (* PMainInit *)
      intros [= <- <- <-]. split; [apply (main_init_good info c allow m15 W Htab Hwin) | exact Hinv].
    - (* PTimeSeriesInit *)
      intros [= <- <- <-]. split; [apply (ts_init_good info c allow m15 W Htab Hwin) | exact Hinv].
    - (* PLineFilterP *)
      destruct (process main c st) as [[[req st1] main']|] eqn:E1; cbn [bind]; [|discriminate].
      destruct (IHmain _ _ _ _ Hinv E1) as [Gm I1].
      intros [= <- <- <-]. split; [|exact I1].
      destruct (nice_cl _ (line_filter_nice op v rl)) as [Hn Hg]. apply good_and_where; assumption.
    - (* PLabelFilterP *)
      destruct (process main c st) as [[[req st1] main']|] eqn:E1; cbn [bind]; [|discriminate].
      destruct (IHmain _ _ _ _ Hinv E1) as [Gm I1].
      destruct (lf_cond None f) as [cond|] eqn:Ec; cbn [bind]; [|discriminate].
      intros [= <- <- <-]. split; [|exact I1].
      apply lf_cond_nice in Ec; [|intros s; reflexivity | intros s op b; reflexivity].
      destruct (nice_cl _ Ec) as [Hn Hg]. apply good_and_where; assumption.
    - (* PParserP *)
      assert (Hpatch : forall req extra, good req -> escans extra = [] ->
                good (set_cols (patch_col (s_cols (set_cols (patch_col (s_cols req) "labels" (fun object => Fn "mapUpdate" [object; extra])) req))
                                  "fingerprint" (fun _ => fp_of_labels))
                        (set_cols (patch_col (s_cols req) "labels" (fun object => Fn "mapUpdate" [object; extra])) req))).
      { intros req extra Gm He.
        assert (Hl : Forall egood (patch_col (s_cols req) "labels" (fun object => Fn "mapUpdate" [object; extra]))).
        { apply patch_col_egood; [apply good_cols, Gm|].
          intros x Hx. unfold ScansPlanProofs.egood in *. cbn [escans flat_map]. rewrite He, !app_nil_r. exact Hx. }
        apply good_set_cols; [apply good_set_cols; [exact Gm | exact Hl]|].
        apply patch_col_egood; [cbn [s_cols set_cols]; exact Hl|].
        intros x _. apply egood_nil. reflexivity. }
      destruct fn; try (intros Hx; discriminate Hx).
      + destruct (process main c st) as [[[req st1] main']|] eqn:E1; cbn [bind]; [|discriminate].
        destruct (IHmain _ _ _ _ Hinv E1) as [Gm I1].
        destruct (all_paths ps) as [paths|] eqn:Ep; cbn [bind]; [|discriminate].
        intros [= <- <- <-]. split; [|exact I1]. apply Hpatch; [exact Gm | apply json_parser_noselect].
      + destruct (process main c st) as [[[req st1] main']|] eqn:E1; cbn [bind]; [|discriminate].
        destruct (IHmain _ _ _ _ Hinv E1) as [Gm I1].
        destruct ps as [|p0 ps']; [discriminate|]. destruct (LogqlRegexp.re_plan (pp_val p0)) as [[re names]|]; try discriminate.
        intros [= <- <- <-]. split; [|exact I1]. apply Hpatch; [exact Gm | apply regex_map_noselect].
    - (* PDropP *)
      destruct (process main c st) as [[[req st1] main']|] eqn:E1; cbn [bind]; [|discriminate].
      destruct (IHmain _ _ _ _ Hinv E1) as [Gm I1].
      intros [= <- <- <-]. split; [|exact I1].
      assert (Hl : Forall egood (patch_col (s_cols req) "labels" (fun l => map_drop_filter l ps))).
      { apply patch_col_egood; [apply good_cols, Gm|].
        intros x Hx. unfold ScansPlanProofs.egood, map_drop_filter in *. cbn [escans flat_map]. rewrite drop_clauses_noselect.
        cbn [app]. rewrite app_nil_r. exact Hx. }
      (* the line is re-fingerprinted like a parsed line *)
      apply good_set_cols; [apply good_set_cols; [exact Gm | exact Hl]|].
      apply patch_col_egood; [cbn [s_cols set_cols]; exact Hl|].
      intros x _. apply egood_nil. reflexivity.
    - (* PUnwrapP *)
      destruct (process main c st) as [[[m st1] main']|] eqn:E1; cbn [bind]; [|discriminate].
      destruct (IHmain _ _ _ _ Hinv E1) as [Gm I1].
      destruct (get_col (s_cols m) "labels") as [labels|] eqn:El; cbn [bind]; [|discriminate].
      match goal with |- (bind ?X _ = _ -> _) => destruct X as [src|] eqn:Es end; cbn [bind]; [|discriminate].
      assert (Hsrc : egood src).
      { destruct (String.eqb lbl "_entry"); [apply (get_col_egood _ _ _ (good_cols _ _ _ _ Gm) Es)|].
        injection Es as <-. pose proof (get_col_egood _ _ _ (good_cols _ _ _ _ Gm) El) as Hl.
        unfold ScansPlanProofs.egood in *. cbn [escans]. rewrite app_nil_r. exact Hl. }
      intros [= <- <- <-]. split; [|exact I1].
      apply good_set_cols; [exact Gm|]. apply patch_col_egood; [apply good_cols, Gm|].
      intros x _. unfold ScansPlanProofs.egood in *. cbn [escans flat_map]. rewrite app_nil_r. exact Hsrc.
    - (* PLabelsJoin *)
      destruct (with_connector process ts fp c st _) as [[[[tsreq st1] ts'] fp']|] eqn:E; cbn [bind]; [|discriminate].
      destruct (with_connector_ok _ _ _ _ _ _ _ _ IHts IHfp Hinv E) as [tq [w [Gt [Gw [-> I1]]]]].
      destruct (process main c st1) as [[[mainreq st2] main']|] eqn:E2; cbn [bind]; [|discriminate].
      destruct (IHmain _ _ _ _ I1 E2) as [Gm I2].
      intros [= <- <- <-].
      assert (Gts : good (and_prewhere [In (Id "time_series.fingerprint") [WRef (fst w) (snd w)]] (with_ [w] tq))).
      { apply good_and_prewhere; [| apply in_fp_cl_neutral, neutral_in_fp2 | constructor; [apply egood_in_wref, Gw | constructor]].
        apply good_with; [exact Gt | constructor; [exact Gw | constructor]]. }
      split; [|destruct lc; [split; [apply I2 | intros w0 H0; cbn [set_labels_cache labels_cache] in H0; injection H0 as <-; exact Gts] | exact I2]].
      set (tsr := and_prewhere _ _) in *.
      apply good_parts. unfold with_, add_withs. constructor; fields_all.
      + apply hoist_good; [constructor; [exact Gm | constructor; [exact Gts | constructor]] | constructor].
      + constructor.
      + constructor; [|constructor]. unfold join_scan, join_type. destruct (c_cluster c); cbn; constructor.
      + apply exprs_parts. constructor; fields_all; cbn [ogood]; repeat constructor; try (apply egood_nil; reflexivity).
        * exact Gm.
        * exact Gts.
      + constructor.
    - (* PMainRenew *)
      destruct (process main c st) as [[[m st1] main']|] eqn:E1; cbn [bind]; [|discriminate].
      destruct (IHmain _ _ _ _ Hinv E1) as [Gm I1].
      destruct (next_id st1) as [i st2] eqn:En.
      intros [= <- <- <-]. split; [|unfold next_id in En; injection En as _ <-; exact I1].
      apply good_from_ref; [reflexivity | exact Gm | | constructor; [exact Gm | constructor]].
      destruct ul; repeat constructor; apply egood_nil; reflexivity.
    - (* PMainOrderBy *)
      destruct (process main c st) as [[[req st1] main']|] eqn:E1; cbn [bind]; [|discriminate].
      destruct (IHmain _ _ _ _ Hinv E1) as [Gm I1].
      intros [= <- <- <-]. split; [|exact I1].
      apply good_set_orderby; [exact Gm|].
      induction cols as [|x r IH]; cbn [map]; constructor; [apply egood_nil; reflexivity | exact IH].
    - (* PMainLimit *)
      destruct (process main c st) as [[[req st1] main']|] eqn:E1; cbn [bind]; [|discriminate].
      destruct (IHmain _ _ _ _ Hinv E1) as [Gm I1].
      intros [= <- <- <-]. split; [|exact I1].
      destruct (Z.eqb (c_limit c) 0); [exact Gm|]. apply good_set_limit; [exact Gm | apply egood_nil; reflexivity].
    - (* PMainFinalizer *)
      destruct (process main c (clear_caches st)) as [[[req st1] main']|] eqn:E1; cbn [bind]; [|discriminate].
      destruct (IHmain _ _ _ _ (inv_clear st) E1) as [Gm I1].
      destruct (negb (c_finalize c)); [intros [= <- <- <-]; split; assumption|].
      assert (Hb : forall cols ob, Forall egood cols -> Forall egood ob ->
                good (set_orderby ob (set_from (WRef "prefinal" req) (set_cols cols (with_ [("prefinal", req)] empty_select))))).
      { intros cols ob Hc Ho. apply good_set_orderby; [|exact Ho].
        apply good_from_ref; [reflexivity | exact Gm | exact Hc | constructor; [exact Gm | constructor]]. }
      destruct m; [|destruct fin]; intros [= <- <- <-]; (split; [|exact I1]); apply Hb;
        repeat constructor; apply egood_nil; reflexivity.
    - (* PLraP *)
      destruct (process main c st) as [[[m st1] main']|] eqn:E1; cbn [bind]; [|discriminate].
      destruct (IHmain _ _ _ _ Hinv E1) as [Gm I1].
      destruct (lra_val_of f dur) as [v|]; cbn [bind]; [|discriminate].
      intros [= <- <- <-]. split; [|exact I1].
      assert (Gm1 : good (set_cols (rename_string (s_cols m)) m)).
      { apply good_set_cols; [exact Gm | apply rename_string_egood, good_cols, Gm]. }
      apply good_set_groupby; [|apply forall_egood_nil; reflexivity].
      apply good_from_ref; [reflexivity | exact Gm1 | | constructor; [exact Gm1 | constructor]].
      apply forall_egood_nil. destruct wl, v; reflexivity.
    - (* PUnwrapFnP *)
      destruct (process main c st) as [[[m st1] main']|] eqn:E1; cbn [bind]; [|discriminate].
      destruct (IHmain _ _ _ _ Hinv E1) as [Gm I1].
      destruct (uw_val_of f dur) as [v|]; cbn [bind]; [|discriminate].
      intros [= <- <- <-]. split; [|exact I1].
      apply good_set_groupby; [|apply forall_egood_nil; reflexivity].
      apply good_from_ref; [reflexivity | exact Gm | | constructor; [exact Gm | constructor]].
      apply forall_egood_nil. destruct v; reflexivity.
    - (* PByWithoutP *)
      destruct (process main c st) as [[[m st1] main']|] eqn:E1; cbn [bind]; [|discriminate].
      destruct (IHmain _ _ _ _ Hinv E1) as [Gm I1].
      destruct (negb use_ts).
      + destruct (next_id st1) as [i st2] eqn:En.
        intros [= <- <- <-]. split; [|unfold next_id in En; injection En as _ <-; exact I1].
        apply good_from_ref; [reflexivity | exact Gm | | constructor; [exact Gm | constructor]].
        apply forall_egood_nil. cbn [flat_map escans SimpleCol]. rewrite bw_filter_escans. reflexivity.
      + match goal with |- (bind ?X _ = _ -> _) => destruct X as [lsel|] eqn:El end; cbn [bind]; [|discriminate].
        assert (Gl : good lsel).
        { destruct (labels_cache st1) as [lw|] eqn:Elc.
          - injection El as <-.
            apply (good_from_ref info W allow (Col (WRef (fst lw) (snd lw)) "a") _ []); [reflexivity | apply (proj2 I1), Elc | | constructor].
            apply forall_egood_nil. cbn [flat_map escans SimpleCol]. rewrite bw_filter_escans. reflexivity.
          - destruct (fp_cache st1) as [fpw|] eqn:Efp; [|discriminate El]. injection El as <-.
            assert (Gfrom : good (labels_from_scratch c fpw)).
            { unfold labels_from_scratch. apply good_and_prewhere; [apply (ts_init_good info c allow m15 W Htab Hwin)
                | apply in_fp_cl_neutral, neutral_in_fp2 | constructor; [apply egood_in_wref, (proj1 I1), Efp | constructor]]. }
            apply good_set_cols; [exact Gfrom|].
            apply forall_egood_nil. cbn [flat_map escans SimpleCol app]. rewrite bw_filter_escans. reflexivity. }
        destruct (next_id st1) as [i1 st2] eqn:En1.
        destruct (next_id (set_labels_cache (("labels_" ++ string_of_N i1)%string, lsel) st2)) as [i2 st4] eqn:En2.
        intros [= <- <- <-]. split.
        * set (la := ("labels_" ++ string_of_N i1)%string). set (ma := ("pre_without_" ++ string_of_N i2)%string).
          apply good_parts. unfold with_, add_withs. constructor; fields_all.
          -- apply hoist_good; [constructor; [exact Gm | constructor; [exact Gl | constructor]] | constructor].
          -- constructor.
          -- constructor; [|constructor]. unfold join_scan, join_type. destruct (c_cluster c); cbn; constructor.
          -- apply exprs_parts. constructor; fields_all; cbn [ogood]; repeat constructor; try (apply egood_nil; reflexivity).
             ++ exact Gm.
             ++ exact Gl.
          -- constructor.
        * unfold next_id in En1, En2. injection En1 as _ <-. injection En2 as _ <-.
          split; [apply I1|]. intros x Hx. cbn [set_labels_cache labels_cache] in Hx. injection Hx as <-. exact Gl.
    - (* PAggOpP *)
      destruct (process main c st) as [[[m st1] main']|] eqn:E1; cbn [bind]; [|discriminate].
      destruct (IHmain _ _ _ _ Hinv E1) as [Gm I1].
      intros [= <- <- <-]. split; [|exact I1].
      apply good_set_groupby; [|apply forall_egood_nil; reflexivity].
      apply good_from_ref; [reflexivity | exact Gm | | constructor; [exact Gm | constructor]].
      apply forall_egood_nil. destruct wl, f; reflexivity.
    - (* PComparisonP *)
      destruct (process main c st) as [[[m st1] main']|] eqn:E1; cbn [bind]; [|discriminate].
      destruct (IHmain _ _ _ _ Hinv E1) as [Gm I1].
      intros [= <- <- <-]. split; [|exact I1].
      assert (Hn : cl_neutral [cmp_mk fn (Id "value") (FloatV v)]).
      { unfold cl_neutral. cbn [flat_map]. rewrite app_nil_r.
        rewrite conjs_other by (destruct fn; intros l H; discriminate).
        constructor; [|constructor]. intros sc. destruct fn; unfold classify, col_is, Eq, Neq, Gt, Ge, Lt, Le; cbn;
          destruct (existsb _ (sc_tsn sc)); reflexivity. }
      assert (He : Forall egood [cmp_mk fn (Id "value") (FloatV v)]) by (apply forall_egood_nil; destruct fn; reflexivity).
      destruct (s_groupby m); [apply good_and_where | apply good_and_having]; assumption.
    - (* PTopKP *)
      destruct (process main c st) as [[[m st1] main']|] eqn:E1; cbn [bind]; [|discriminate].
      destruct (IHmain _ _ _ _ Hinv E1) as [Gm I1].
      intros [= <- <- <-]. split; [|exact I1].
      set (hl := has_column (s_cols m) "labels").
      assert (G1 : good (set_groupby [Id "timestamp_ns"]
               (set_from (WRef "par_a" m)
                (set_cols [SimpleCol "par_a.timestamp_ns" "timestamp_ns"; Col (topk_slice len top hl) "slice"]
                 (with_ [("par_a"%string, m)] empty_select))))).
      { apply good_set_groupby; [|apply forall_egood_nil; reflexivity].
        apply good_from_ref; [reflexivity | exact Gm | | constructor; [exact Gm | constructor]].
        apply forall_egood_nil. destruct top, hl; reflexivity. }
      set (q1 := set_groupby _ _) in *.
      apply good_parts. unfold with_, add_withs. constructor; fields_all.
      + apply hoist_good; [constructor; [exact G1 | constructor] | constructor].
      + constructor.
      + constructor; [|constructor]. cbn. constructor.
      + apply exprs_parts. constructor; fields_all; cbn [ogood].
        * apply forall_egood_nil. destruct hl; reflexivity.
        * exact G1.
        * constructor; [|constructor]. split; [apply egood_nil; reflexivity | exact I].
        * exact I.
        * exact I.
        * constructor.
        * exact I.
        * constructor.
        * exact I.
        * exact I.
      + constructor.
    - (* PQuantileP *)
      destruct (process main c st) as [[[m st1] main']|] eqn:E1; cbn [bind]; [|discriminate].
      destruct (IHmain _ _ _ _ Hinv E1) as [Gm I1].
      intros [= <- <- <-]. split; [|exact I1].
      apply good_set_groupby; [|apply forall_egood_nil; reflexivity].
      apply good_from_ref; [reflexivity | exact Gm | | constructor; [exact Gm | constructor]].
      apply forall_egood_nil. destruct (has_column (s_cols m) "labels"); reflexivity.
    - (* PStepFixP *)
      destruct (process main c st) as [[[m st1] main']|] eqn:E1; cbn [bind]; [|discriminate].
      destruct (IHmain _ _ _ _ Hinv E1) as [Gm I1].
      destruct (Z.leb (c_step_ns c) dur); intros [= <- <- <-]; (split; [|exact I1]); [exact Gm|].
      apply good_set_groupby; [|apply forall_egood_nil; reflexivity].
      apply good_from_ref; [reflexivity | exact Gm | | constructor; [exact Gm | constructor]].
      apply forall_egood_nil. destruct (has_column (s_cols m) "labels"); reflexivity.
    - (* PMetrics15: the 15-second roll-up table, bounds floored to 15 s *)
      destruct (m15_val_of f dur) as [v|]; cbn [bind]; [|discriminate].
      intros [= <- <- <-]. split; [|exact Hinv].
      apply good_set_groupby; [|apply forall_egood_nil; reflexivity].
      unfold and_where, SimpleCol. fields_all.
      apply good_base; try reflexivity.
      + fields_all. unfold And. rewrite conjs_and.
        set (d1 := Ge (Id "samples.timestamp_ns") (IntV _)).
        set (d2 := Lt (Id "samples.timestamp_ns") (IntV _)).
        cbn [flat_map]. rewrite !conjs_other by (subst d1 d2; unfold get_types, Ge, Lt; intros l H; discriminate).
        cbn [app]. constructor; [|constructor]. split.
        * constructor; [|constructor; [|constructor; [apply types_conj_free | constructor]]].
          -- intros a b [Ht Ha]. subst d1. unfold Ge, classify, col_is, qualifier_ok. cbn. rewrite Ha, Ht. reflexivity.
          -- intros a b [Ht Ha]. subst d2. unfold Lt, classify, col_is, qualifier_ok. cbn. rewrite Ha, Ht. reflexivity.
        * left. destruct (wk_m15 _ _ _ Hwin Hm15) as [Hlo Hhi].
          apply (bounded_slot_aligned info c W _ (fl15 (c_from_ns c)) (fl15 (c_to_ns c)));
            [apply Hwin | apply fl15_aligned | apply fl15_aligned | exact Hlo | exact Hhi | apply Htab|].
          unfold bounds. cbn [sc_conj flat_map]. rewrite (types_bounds c). subst d1 d2. reflexivity.
      + apply exprs_parts. constructor; fields_all; cbn [ogood]; try exact I;
          try (apply forall_egood_nil; destruct v; reflexivity); try (apply egood_nil; reflexivity); constructor.
    - (* PLineFormatP: only the `string` column is rewritten, by an expression that reads no table *)
      destruct (process main c st) as [[[req st1] main']|] eqn:E1; cbn [bind]; [|discriminate].
      destruct (IHmain _ _ _ _ Hinv E1) as [Gm I1].
      destruct (next_id st1) as [i st2] eqn:En.
      assert (I2 : inv st2).
      { unfold next_id in En. injection En as _ <-. exact I1. }
      destruct (LogqlTemplate.tpl_parse t) as [nodes| |]; try discriminate.
      intros [= <- <- <-]. split; [|exact I2].
      apply good_set_cols; [exact Gm|]. apply patch_col_egood; [apply good_cols, Gm|].
      intros x _. apply egood_nil. apply tpl_sql_noselect.
  Qed.
End PROC.

(* ------------------------------------------------------------------ planner.plan() builds such objects *)
Definition slf_pair (sb : stage * bool) : bool := is_label_filter (fst sb) && snd sb.
(* no label filter in front of the first parser (those are planned as SimpleLabelFilterPlanner) *)
Definition no_slf (sel : strsel) : bool :=
  forallb (fun sb => negb (slf_pair sb)) (combine (sel_pipeline sel) (simple_ops (sel_pipeline sel))).

Section PLAN.
  Variable allow : bool.
  Variable m15 : bool.

  Lemma plan_ts_logp ms ppl simple :
    allow = true \/ forallb (fun sb => negb (slf_pair sb)) (combine ppl simple) = true ->
    logp allow m15 (plan_ts ms ppl simple).
  Proof.
    unfold plan_ts. generalize (combine ppl simple) as l. intros l.
    assert (H : forall acc, logp allow m15 acc ->
              allow = true \/ forallb (fun sb => negb (slf_pair sb)) l = true ->
              logp allow m15 (fold_left (fun fp sb => match fst sb, snd sb with
                                                 | PLabelFilter f, true => PSimpleLabelFilter f fp
                                                 | _, _ => fp end) l acc)).
    { induction l as [|[s b] r IH]; intros acc Hacc Hg; [exact Hacc|].
      cbn [fold_left fst snd]. apply IH.
      - destruct s; try exact Hacc. destruct b; [|exact Hacc].
        apply lp_slf. exact Hacc.
      - destruct Hg as [Hg|Hg]; [left; exact Hg | right].
        cbn [forallb] in Hg. apply andb_true_iff in Hg. apply Hg. }
    intros Hg. apply H; [constructor | exact Hg].
  Qed.

  Lemma plan_stage_logp s b cur p : logp allow m15 cur -> plan_stage s b cur = Some p -> logp allow m15 p.
  Proof.
    intros Hc. destruct s; cbn [plan_stage]; try discriminate; intros [= <-];
      try (destruct b); try assumption; constructor; assumption.
  Qed.

  Lemma plan_spl_logp ppl : forall simple renew i lji fp cur p,
    logp allow m15 fp -> logp allow m15 cur -> plan_spl ppl simple renew i lji fp cur = Some p -> logp allow m15 p.
  Proof.
    induction ppl as [|s r IH]; intros simple renew i lji fp cur p Hfp Hcur; cbn [plan_spl]; [intros [= <-]; exact Hcur|].
    destruct simple as [|b bs]; [intros [= <-]; exact Hcur|].
    destruct renew as [|rn rns]; [intros [= <-]; exact Hcur|].
    set (cur1 := if match lji with Some j => Nat.eqb i j | None => false end
                 then PLabelsJoin (PMainOrderBy ["timestamp_ns"%string] cur) fp PTimeSeriesInit true else cur).
    assert (H1 : logp allow m15 cur1).
    { subst cur1. destruct (match lji with Some j => Nat.eqb i j | None => false end); [|exact Hcur].
      constructor; [constructor; exact Hcur | exact Hfp | constructor]. }
    destruct (plan_stage s b cur1) as [cur2|] eqn:E; [|discriminate].
    pose proof (plan_stage_logp _ _ _ _ H1 E) as H2.
    apply IH; [exact Hfp|]. destruct rn; [constructor; exact H2 | exact H2].
  Qed.

  Lemma plan_log_logp sel fin p :
    allow = true \/ no_slf sel = true -> plan_log sel fin = Some p -> logp allow m15 p.
  Proof.
    intros Hg. unfold plan_log.
    set (ppl := sel_pipeline sel). set (simple := simple_ops ppl).
    pose proof (plan_ts_logp (sel_matchers sel) ppl simple Hg) as Hfp.
    set (fp := plan_ts (sel_matchers sel) ppl simple) in *.
    destruct (plan_spl ppl simple (renew_after ppl (labels_join_idx ppl simple 0) 0) 0 (labels_join_idx ppl simple 0) fp (PFingerprintFilter fp PMainInit)) as [spl|] eqn:E;
      [|discriminate].
    assert (Hspl : logp allow m15 spl).
    { apply (plan_spl_logp _ _ _ _ _ _ _ _ Hfp) in E; [exact E|]. constructor; [exact Hfp | constructor]. }
    intros [= <-]. constructor.
    assert (H2 : logp allow m15 (if fin then PMainLimit (PMainOrderBy ["timestamp_ns"%string] spl) else PMainOrderBy ["timestamp_ns"%string] spl)).
    { destruct fin; repeat constructor; exact Hspl. }
    destruct (labels_join_idx ppl simple 0); [exact H2|].
    constructor; [exact H2 | exact Hfp | constructor].
  Qed.

  (* ---- planner.plan() for metric scripts *)
  Lemma plan_bw_logp pre suf use_ts cur : logp allow m15 cur -> logp allow m15 (plan_bw pre suf use_ts cur).
  Proof. intros H. unfold plan_bw. destruct suf as [b|]; [|destruct pre as [b|]]; try exact H; constructor; exact H. Qed.
  Lemma plan_cmp_logp cmp cur : logp allow m15 cur -> logp allow m15 (plan_cmp cmp cur).
  Proof. intros H. unfold plan_cmp. destruct cmp; [constructor|]; exact H. Qed.
  Lemma plan_topk_logp t cur p : logp allow m15 cur -> plan_topk t cur = Some p -> logp allow m15 p.
  Proof. intros H. unfold plan_topk. destruct (Z.ltb (tk_len t) 0); [discriminate|]. intros [= <-]. constructor. exact H. Qed.
  Lemma apply_mfn_logp a b f cur p : logp allow m15 cur -> apply_mfn a b f cur = Some p -> logp allow m15 p.
  Proof.
    intros H. destruct f; cbn [apply_mfn]; try (intros [= <-]; constructor; try apply plan_bw_logp; exact H).
    apply plan_topk_logp, H.
  Qed.
  Lemma apply_mfns_logp a b fs : forall cur p, logp allow m15 cur -> apply_mfns a b fs cur = Some p -> logp allow m15 p.
  Proof.
    induction fs as [|f r IH]; intros cur p H; cbn [apply_mfns]; [intros [= <-]; exact H|].
    destruct (apply_mfn a b f cur) as [c1|] eqn:E; [|discriminate]. apply IH. apply (apply_mfn_logp _ _ _ _ _ H E).
  Qed.
  Lemma m15_lra_logp fp l : m15 = true -> logp allow m15 fp -> logp allow m15 (m15_lra fp l).
  Proof. intros Hm H. unfold m15_lra. apply plan_cmp_logp. constructor; [exact H | constructor; exact Hm]. Qed.
  Lemma m15_agg_logp fp a : m15 = true -> logp allow m15 fp -> logp allow m15 (fst (m15_agg fp a)).
  Proof.
    intros Hm H. unfold m15_agg. cbn [fst]. apply plan_cmp_logp. constructor. apply plan_bw_logp. apply m15_lra_logp; assumption.
  Qed.
  Lemma plan_m15_logp fp s p wl : m15 = true -> logp allow m15 fp -> plan_m15 fp s = Some (p, wl) -> logp allow m15 p.
  Proof.
    intros Hm H. destruct s; cbn [plan_m15]; try discriminate.
    - intros [= <- _]. apply m15_lra_logp; assumption.
    - intros E. apply (f_equal (option_map fst)) in E. cbn [option_map fst] in E. injection E as <-.
      apply m15_agg_logp; assumption.
    - destruct (tk_arg t) as [l|a|q] eqn:Et; try discriminate.
      + destruct (plan_topk t (m15_lra fp l)) as [p0|] eqn:Ep; [|discriminate]. intros [= <- _].
        apply plan_cmp_logp. apply (plan_topk_logp _ _ _ (m15_lra_logp fp l Hm H) Ep).
      + destruct (m15_agg fp a) as [inner wl0] eqn:Ea.
        destruct (plan_topk t inner) as [p0|] eqn:Ep; [|discriminate]. intros [= <- _].
        apply plan_cmp_logp. apply (fun Hi => plan_topk_logp _ _ _ Hi Ep).
        pose proof (m15_agg_logp fp a Hm H) as Ha. rewrite Ea in Ha. exact Ha.
  Qed.

  Lemma plan_metric_logp s fin p :
    (analyze_m15 s = true -> m15 = true) ->
    allow = true \/ no_slf (stream_selector s) = true -> plan_metric s fin = Some p -> logp allow m15 p.
  Proof.
    intros Hm Hg. unfold plan_metric.
    set (sel := stream_selector s). set (ppl := sel_pipeline sel). set (simple := simple_ops ppl).
    pose proof (plan_ts_logp (sel_matchers sel) ppl simple Hg) as Hfp.
    set (fp := plan_ts (sel_matchers sel) ppl simple) in *.
    assert (Hcur : forall cur a b fp0, fp0 = fp -> logp allow m15 cur ->
              logp allow m15 (PMainFinalizer (if negb a && negb b then PLabelsJoin (PStepFixP (get_duration s) cur) fp0 PTimeSeriesInit false
                                               else PStepFixP (get_duration s) cur) true fin)).
    { intros cur a b fp0 -> Hc. constructor. destruct (negb a && negb b); repeat constructor; assumption. }
    destruct (analyze_m15 s) eqn:Ea.
    - destruct (plan_m15 fp s) as [[p0 wl]|] eqn:Ep; cbn [bind]; [|discriminate].
      intros [= <-]. apply (Hcur p0 false wl fp eq_refl). apply (plan_m15_logp fp s p0 wl (Hm eq_refl) Hfp Ep).
    - destruct (plan_spl ppl simple (renew_after ppl (labels_join_idx ppl simple 0) 0) 0 (labels_join_idx ppl simple 0) fp (PFingerprintFilter fp PMainInit)) as [spl|] eqn:E;
        cbn [bind]; [|discriminate].
      assert (Hspl : logp allow m15 spl).
      { apply (plan_spl_logp _ _ _ _ _ _ _ _ Hfp) in E; [exact E|]. constructor; [exact Hfp | constructor]. }
      destruct (function_order s) as [order lidx].
      destruct (apply_mfns (is_some (labels_join_idx ppl simple 0)) (is_some lidx) order spl) as [p0|] eqn:Em; cbn [bind]; [|discriminate].
      intros [= <-]. apply (Hcur p0 (is_some (labels_join_idx ppl simple 0)) (is_some lidx) fp eq_refl). apply (apply_mfns_logp _ _ _ _ _ Hspl Em).
  Qed.
End PLAN.

(* ------------------------------------------------------------------ the theorems *)
Lemma inv0 info allow W : inv info allow W pst0.
Proof. split; intros w0 H0; discriminate H0. Qed.

Lemma from_good info W allow q (b : bool) :
  good (Q info W allow) q ->
  Forall (fun sc => scan_bounded info W sc \/ (allow = true /\ fp_restricted sc)) (scans q).
Proof. intros G. unfold good in G. eapply Forall_impl; [|exact G]. intros sc [_ H]. exact H. Qed.

Theorem log_scans_confined info sel fin c p q st' p' :
  ctx_tables info c -> plan_log sel fin = Some p -> process p c pst0 = Some (q, st', p') ->
  Forall (fun sc => scan_bounded info (win c) sc \/ fp_restricted sc) (scans q).
Proof.
  intros Ht Hp Hq. pose proof (plan_log_logp true false sel fin p (or_introl eq_refl) Hp) as Hl.
  destruct (process_good info c true false (win c) Ht (win_ok_win c) p Hl pst0 q st' p' (inv0 _ _ _) Hq) as [G _].
  apply (from_good _ _ _ _ true) in G. eapply Forall_impl; [|exact G].
  intros sc [H|[_ H]]; [left | right]; exact H.
Qed.

Theorem log_scans_bounded info sel fin c p q st' p' :
  ctx_tables info c -> no_slf sel = true -> plan_log sel fin = Some p -> process p c pst0 = Some (q, st', p') ->
  Forall (scan_bounded info (win c)) (scans q).
Proof.
  intros Ht Hg Hp Hq. pose proof (plan_log_logp false false sel fin p (or_intror Hg) Hp) as Hl.
  destruct (process_good info c false false (win c) Ht (win_ok_win c) p Hl pst0 q st' p' (inv0 _ _ _) Hq) as [G _].
  apply (from_good _ _ _ _ true) in G. eapply Forall_impl; [|exact G].
  intros sc [H|[H _]]; [exact H | discriminate H].
Qed.

(* metric scripts: judged against the context window widened below to the 15 s storage boundary (win15);
   a plan without the roll-up shortcut is judged against the context window itself *)
Theorem metric_scans_confined info s fin c p q st' p' :
  ctx_tables info c -> (0 <= c_from_ns c)%Z -> (0 <= c_to_ns c)%Z ->
  plan_metric s fin = Some p -> process p c pst0 = Some (q, st', p') ->
  Forall (fun sc => scan_bounded info (win15 c) sc \/ fp_restricted sc) (scans q).
Proof.
  intros Ht Hf Hto Hp Hq. pose proof (plan_metric_logp true true s fin p (fun _ => eq_refl) (or_introl eq_refl) Hp) as Hl.
  destruct (process_good info c true true (win15 c) Ht (win_ok_win15 c Hf Hto) p Hl pst0 q st' p' (inv0 _ _ _) Hq) as [G _].
  apply (from_good _ _ _ _ true) in G. eapply Forall_impl; [|exact G].
  intros sc [H|[_ H]]; [left | right]; exact H.
Qed.

Theorem metric_scans_bounded info s fin c p q st' p' :
  ctx_tables info c -> (0 <= c_from_ns c)%Z -> (0 <= c_to_ns c)%Z -> no_slf (stream_selector s) = true ->
  plan_metric s fin = Some p -> process p c pst0 = Some (q, st', p') ->
  Forall (scan_bounded info (win15 c)) (scans q).
Proof.
  intros Ht Hf Hto Hg Hp Hq. pose proof (plan_metric_logp false true s fin p (fun _ => eq_refl) (or_intror Hg) Hp) as Hl.
  destruct (process_good info c false true (win15 c) Ht (win_ok_win15 c Hf Hto) p Hl pst0 q st' p' (inv0 _ _ _) Hq) as [G _].
  apply (from_good _ _ _ _ true) in G. eapply Forall_impl; [|exact G].
  intros sc [H|[H _]]; [exact H | discriminate H].
Qed.

Theorem metric_scans_bounded_raw info s fin c p q st' p' :
  ctx_tables info c -> analyze_m15 s = false -> no_slf (stream_selector s) = true ->
  plan_metric s fin = Some p -> process p c pst0 = Some (q, st', p') ->
  Forall (scan_bounded info (win c)) (scans q).
Proof.
  intros Ht Ha Hg Hp Hq.
  pose proof (plan_metric_logp false false s fin p (fun H => eq_trans (eq_sym Ha) H) (or_intror Hg) Hp) as Hl.
  destruct (process_good info c false false (win c) Ht (win_ok_win c) p Hl pst0 q st' p' (inv0 _ _ _) Hq) as [G _].
  apply (from_good _ _ _ _ true) in G. eapply Forall_impl; [|exact G].
  intros sc [H|[H _]]; [exact H | discriminate H].
Qed.

(* `allow` (the licence for a fingerprint-restricted read without bounds) is not consulted by logp any more *)
Lemma logp_allow a a' m15 p : logp a m15 p -> logp a' m15 p.
Proof. induction 1; econstructor; eassumption. Qed.

(* EVERY log query, no guard (since the repair of label-filter-series-scan-unbounded in /repo) *)
Theorem log_scans_bounded_all info sel fin c p q st' p' :
  ctx_tables info c -> plan_log sel fin = Some p -> process p c pst0 = Some (q, st', p') ->
  Forall (scan_bounded info (win c)) (scans q).
Proof.
  intros Ht Hp Hq. pose proof (logp_allow true false _ _ (plan_log_logp true false sel fin p (or_introl eq_refl) Hp)) as Hl.
  destruct (process_good info c false false (win c) Ht (win_ok_win c) p Hl pst0 q st' p' (inv0 _ _ _) Hq) as [G _].
  apply (from_good _ _ _ _ true) in G. eapply Forall_impl; [|exact G].
  intros sc [H|[H _]]; [exact H | discriminate H].
Qed.
Theorem metric_scans_bounded_all info s fin c p q st' p' :
  ctx_tables info c -> (0 <= c_from_ns c)%Z -> (0 <= c_to_ns c)%Z ->
  plan_metric s fin = Some p -> process p c pst0 = Some (q, st', p') ->
  Forall (scan_bounded info (win15 c)) (scans q).
Proof.
  intros Ht Hf Hto Hp Hq.
  pose proof (logp_allow true false _ _ (plan_metric_logp true true s fin p (fun _ => eq_refl) (or_introl eq_refl) Hp)) as Hl.
  destruct (process_good info c false true (win15 c) Ht (win_ok_win15 c Hf Hto) p Hl pst0 q st' p' (inv0 _ _ _) Hq) as [G _].
  apply (from_good _ _ _ _ true) in G. eapply Forall_impl; [|exact G].
  intros sc [H|[H _]]; [exact H | discriminate H].
Qed.
(* never miss data inside the window on the roll-up shortcut: for every instant t of [From, 15-second floor of To) the row
   of the roll-up table holding t passes every timestamp conjunct of every slot-table read of the plan (the shortcut's
   bounds are floored to slot boundaries: an unfloored lower bound would skip the slot that holds From) *)
Theorem metric_rollup_reads_every_slot info s fin c p q st' p' t :
  ctx_tables info c -> (0 <= c_from_ns c)%Z -> (0 <= c_to_ns c)%Z ->
  plan_metric s fin = Some p -> process p c pst0 = Some (q, st', p') ->
  (c_from_ns c <= t < fl15 (c_to_ns c))%Z ->
  Forall (fun sc => forall k, ti_class (info (sc_table sc)) = CSlot k -> (0 < k)%Z ->
            (forall lo, has_bnd sc (TsLo lo) -> lo <= fl_slot k t)%Z /\ (forall hi, has_bnd sc (TsHi hi) -> fl_slot k t < hi)%Z)
         (scans q).
Proof.
  intros Ht Hf Hto Hp Hq Hin. eapply Forall_impl; [|exact (metric_scans_bounded_all info s fin c p q st' p' Ht Hf Hto Hp Hq)].
  intros sc Hb k Hk Hpos. exact (scan_bounded_slot_complete info (win15 c) sc k t Hb Hk Hpos Hin).
Qed.
Theorem metric_scans_bounded_raw_all info s fin c p q st' p' :
  ctx_tables info c -> analyze_m15 s = false ->
  plan_metric s fin = Some p -> process p c pst0 = Some (q, st', p') ->
  Forall (scan_bounded info (win c)) (scans q).
Proof.
  intros Ht Ha Hp Hq.
  pose proof (logp_allow true false _ _ (plan_metric_logp true false s fin p (fun H => eq_trans (eq_sym Ha) H) (or_introl eq_refl) Hp)) as Hl.
  destruct (process_good info c false false (win c) Ht (win_ok_win c) p Hl pst0 q st' p' (inv0 _ _ _) Hq) as [G _].
  apply (from_good _ _ _ _ true) in G. eapply Forall_impl; [|exact G].
  intros sc [H|[H _]]; [exact H | discriminate H].
Qed.

(* ------------------------------------------------------------------ witnesses *)
Open Scope string_scope.
Definition std_ctx : pctx :=
  {| c_from_ns := 1704888000000000000; c_to_ns := 1704891600000000000; c_limit := 100; c_asc := false; c_cluster := false;
     c_type := 0; c_finalize := true; c_step_ns := 1000000000;
     t_gin := "time_series_gin"; t_samples := "samples_v3"; t_ts := "time_series"; t_ts_dist := "time_series";
     t_m15 := "metrics_15s" |}.
Definition cluster_ctx : pctx :=
  {| c_from_ns := 1704888000000000000; c_to_ns := 1704891600000000000; c_limit := 100; c_asc := false; c_cluster := true;
     c_type := 0; c_finalize := true; c_step_ns := 1000000000;
     t_gin := "`qryn`.time_series_gin"; t_samples := "`qryn`.samples_v3_dist"; t_ts := "`qryn`.time_series";
     t_ts_dist := "`qryn`.time_series_dist"; t_m15 := "`qryn`.metrics_15s_dist" |}.
Lemma std_ctx_tables : ctx_tables table_info std_ctx.
Proof. constructor; reflexivity. Qed.
Lemma cluster_ctx_tables : ctx_tables table_info cluster_ctx.
Proof. constructor; reflexivity. Qed.

Definition m_ab : matcher := {| m_name := "a"; m_op := MEq; m_val := "b" |}.
(* {a="b"} | c="d" : a label filter in front of any parser is planned as SimpleLabelFilterPlanner *)
Definition slf_query : strsel :=
  {| sel_matchers := [m_ab];
     sel_pipeline := [PLabelFilter (LF (HSimple {| slf_label := "c"; slf_fn := LEq; slf_str := Some "d"; slf_num := None |}) None None)] |}.
(* {a="b"} |= "x" | json y="z" | y="1" *)
Definition plain_query : strsel :=
  {| sel_matchers := [m_ab; {| m_name := "c"; m_op := MRe; m_val := "d.*" |}];
     sel_pipeline := [PLineFilter LFContains "x" None;
                      PParser PJson [{| pp_label := "y"; pp_val := "z"; pp_path := Some ["z"] |}];
                      PLabelFilter (LF (HSimple {| slf_label := "y"; slf_fn := LEq; slf_str := Some "1"; slf_num := None |}) None None)] |}.

Definition slf_plan : planner := Eval vm_compute in match plan_log slf_query true with Some p => p | None => PMainInit end.
Definition slf_result := Eval vm_compute in process slf_plan std_ctx pst0.
Definition slf_select : select := match slf_result with Some (q, _, _) => q | None => empty_select end.

(* the former counterexample of every_scan_bounded ({a="b"} | c="d": the time_series read of SimpleLabelFilterPlanner had neither a
   date bound nor a type conjunct) meets the hypotheses of the full theorem; its statement has 4 base-table reads, all bounded *)
Lemma slf_witness :
  plan_log slf_query true = Some slf_plan /\
  (exists st' p', process slf_plan std_ctx pst0 = Some (slf_select, st', p')) /\
  every_scan_bounded_b table_info (win std_ctx) slf_select = true /\ Nat.leb 4 (List.length (scans slf_select)) = true.
Proof.
  split; [vm_compute; reflexivity|]. split.
  - unfold slf_select. destruct slf_result as [[[q st'] p']|] eqn:E; [|discriminate E].
    exists st', p'. unfold slf_result in E. rewrite <- E. vm_compute. reflexivity.
  - split; vm_compute; reflexivity.
Qed.

Definition plain_plan : planner := Eval vm_compute in match plan_log plain_query true with Some p => p | None => PMainInit end.
Definition plain_result := Eval vm_compute in process plain_plan cluster_ctx pst0.
(* the guard of the partial theorem is met by a query with two matchers, a line filter, a json parser and a
   label filter after it, in the cluster layout: its statement has 3 base-table reads *)
Lemma plain_query_guard :
  no_slf plain_query = true /\ plan_log plain_query true = Some plain_plan /\
  process plain_plan cluster_ctx pst0 = plain_result /\
  match plain_result with Some (q, _, _) => Nat.leb 3 (List.length (scans q)) | None => false end = true.
Proof. repeat split; vm_compute; reflexivity. Qed.

(* sum by (a) (rate({a="b"}[5m])) : planned on the 15-second roll-up table *)
Definition lra_rate (ppl : list stage) : lra :=
  {| lra_f := FRate; lra_prefix := None; lra_sel := {| sel_matchers := [m_ab]; sel_pipeline := ppl |};
     lra_dur_ns := 300000000000; lra_suffix := None; lra_cmp := None |}.
Definition m15_query : script :=
  SAgg {| agg_f := ASum; agg_prefix := Some {| bw_by := true; bw_labels := ["a"] |}; agg_lra := lra_rate [];
          agg_suffix := None; agg_cmp := None |}.
(* rate({a="b"} |= "x" [5m]) : planned on samples *)
Definition raw_query : script := SLra (lra_rate [PLineFilter LFContains "x" None]).
Definition m15_plan : planner := Eval vm_compute in match plan_metric m15_query true with Some p => p | None => PMainInit end.
Definition m15_result := Eval vm_compute in process m15_plan cluster_ctx pst0.
Definition raw_plan : planner := Eval vm_compute in match plan_metric raw_query true with Some p => p | None => PMainInit end.
Definition raw_result := Eval vm_compute in process raw_plan std_ctx pst0.
Lemma metric_guards :
  (analyze_m15 m15_query = true /\ no_slf (stream_selector m15_query) = true /\ plan_metric m15_query true = Some m15_plan /\
   process m15_plan cluster_ctx pst0 = m15_result /\
   match m15_result with Some (q, _, _) => Nat.leb 3 (List.length (scans q)) | None => false end = true) /\
  (analyze_m15 raw_query = false /\ no_slf (stream_selector raw_query) = true /\ plan_metric raw_query true = Some raw_plan /\
   process raw_plan std_ctx pst0 = raw_result /\
   match raw_result with Some (q, _, _) => Nat.leb 3 (List.length (scans q)) | None => false end = true).
Proof. repeat split; vm_compute; reflexivity. Qed.
