(* Property C11, bridge lemma 1: the statement of AttrConditionPlanner (the CTE index_search), run by the
   evaluator over the attribute index, returns one row per (trace, span) whose rows -- inside the window and
   past the key/val pre-filter -- satisfy the analysed condition:  index_search_bridge.
   Then index_search_correct: those are exactly the spans of the reference meaning that satisfy the
   selector's expression (membership; the order of the rows may differ). *)
From Coq Require Import List ZArith NArith QArith String Ascii Bool Lia Permutation.
From Qryn Require Import model.TqSql model.Traceql model.TraceqlPlan model.TraceqlSem
     proofs.TraceqlBitsetProofs proofs.TraceqlAnalyzeProofs proofs.TraceqlEvalProofs proofs.TraceqlSelectorProofs
     proofs.TraceqlBridgeLib.
Import ListNotations.
Open Scope string_scope.
Open Scope list_scope.
Open Scope nat_scope.

(* ---------- a row of index_search, typed ---------- *)
Record mspan := { m_trace : string; m_span : string; m_dur : Z; m_ts : Z; m_agg : option value }.
Definition mspan_row (m : mspan) : row :=
  [("trace_id", VStr (m_trace m)); ("span_id", VStr (m_span m)); ("duration", VInt (m_dur m)); ("timestamp_ns", VInt (m_ts m))]
  ++ match m_agg m with Some v => [("agg_val", v)] | None => [] end.

Lemma lookup_alias_app x a b :
  lookup_alias x (a ++ b) = match lookup_alias x a with Some d => Some d | None => lookup_alias x b end.
Proof.
  induction a as [|[k d] a IH]; [reflexivity|]. cbn [app lookup_alias]. destruct (String.eqb x k); [reflexivity|exact IH].
Qed.

Lemma and3_4 a b c d : of3 (and3 [Some a; Some b; Some c; Some d]) = vbool (a && b && c && d).
Proof. destruct a, b, c, d; reflexivity. Qed.
Lemma and3_1 a : of3 (and3 [Some a]) = vbool a.
Proof. destruct a; reflexivity. Qed.

Section IDX.
  Variable re_match : string -> string -> bool.
  Variable parse_float : string -> option Q.
  Variable hash64 : string -> Z.
  Notation tsem := (term_sem re_match parse_float true).
  Notation csem := (cond_sem re_match parse_float true).
  Notation esem := (exp_sem re_match parse_float true).

  Variable c : ctx.
  Variable d : db.
  Hypothesis Hrf : rf_max c = 0%Z.                  (* one statement for the whole request (portions: theorem 8) *)
  Let tables : list (string * table) := [(attrs_table c, map row_of_irow d)].

  (* the WHERE window, as the statement writes it: the date bounds of the partition key and the time bounds *)
  Definition date_ok (r : irow) : bool := str_leb (from_date c) (r_date r) && str_leb (r_date r) (to_date c).
  Definition window_sql (r : irow) : bool := date_ok r && in_window c r.

  (* ---------- more unfolding equations of ev ---------- *)
  Section EQS.
    Variable cte : env.
    Variable al : list (string * expr).
    Variable keys : list string.
    Notation EV := (ev re_match parse_float hash64 cte al keys).

    Lemma ev_Col f agg self g r x a : EV (S f) agg self g r (Col x a) = EV f agg self g r x.
    Proof. reflexivity. Qed.
    Lemma ev_FAny f self g r x :
      EV (S f) true self g r (Fn FAny [x]) =
      match all_some (map (fun r' => EV f false self [] r' x) g) with
      | Some vs => match non_null vs with v :: _ => Some v | [] => Some VNull end
      | None => None end.
    Proof. reflexivity. Qed.
    Lemma ev_ToFloat64 f agg self g r x :
      EV (S f) agg self g r (Fn FToFloat64 [x]) = match EV f agg self g r x with Some v => to_float v | None => None end.
    Proof. reflexivity. Qed.
    Lemma ev_AttrValue f self g r attr :
      EV (S f) true self g r (AttrValue attr) =
      match all_some (map (fun r' => match lookup "key" r', lookup "val" r' with
                                     | Some (VStr k), Some (VStr v) =>
                                         Some (if String.eqb k attr then match parse_float v with Some q => VNum q | None => VNull end else VNull)
                                     | _, _ => None end) g) with
      | Some vs => match non_null vs with v :: _ => Some v | [] => Some VNull end
      | None => None
      end.
    Proof. reflexivity. Qed.

    Lemma vcmp_str_ge a b : vcmp OGe (VStr a) (VStr b) = Some (vbool (str_leb b a)).
    Proof. reflexivity. Qed.
    Lemma vcmp_str_le a b : vcmp OLe (VStr a) (VStr b) = Some (vbool (str_leb a b)).
    Proof. reflexivity. Qed.

    Hypothesis al_date : lookup_alias "date" al = None.
    Hypothesis al_ts : lookup_alias "traces_idx.timestamp_ns" al = None.

    Lemma no_alias' x self : lookup_alias x al = None -> (if String.eqb x self then None else lookup_alias x al) = None.
    Proof. intros ->. now destruct (String.eqb x self). Qed.

    Lemma ev_window f self g r :
      EV (3 + f) false self g (irow_row r) (LOp OAnd (window c)) = Some (vbool (window_sql r)).
    Proof.
      change (3 + f)%nat with (S (S (S f))). unfold window. rewrite ev_LOp. cbn [map].
      assert (Hcmp : forall cm a b, ordered cm = true ->
                 EV (S (S f)) false self g (irow_row r) (LOp (lop_of cm) [a; b]) =
                 match EV (S f) false self g (irow_row r) a, EV (S f) false self g (irow_row r) b with
                 | Some x, Some y => vcmp (lop_of cm) x y | _, _ => None end).
      { intros cm a b Ho. exact (ev_LOp_cmp re_match parse_float hash64 cte al keys (S f) false self g (irow_row r) cm a b Ho). }
      assert (Hd : EV (S f) false self g (irow_row r) (Id "date") = Some (VStr (r_date r))).
      { rewrite ev_Id_row, (no_alias' _ _ al_date). reflexivity. }
      assert (Ht : EV (S f) false self g (irow_row r) (Id "traces_idx.timestamp_ns") = Some (VInt (r_ts r))).
      { rewrite ev_Id_row, (no_alias' _ _ al_ts). reflexivity. }
      rewrite !(Hcmp CGe _ _ eq_refl), (Hcmp CLe _ _ eq_refl), (Hcmp CLt _ _ eq_refl).
      rewrite Hd, Ht, !ev_StrV, !ev_IntV.
      cbn [lop_of]. rewrite vcmp_str_ge, vcmp_str_le.
      change OGe with (lop_of CGe). change OLt with (lop_of CLt).
      rewrite (vcmp_int CGe _ _ eq_refl), (vcmp_int CLt _ _ eq_refl). cbn [all_some map]. rewrite !truth_vbool. cbn [all_some].
      rewrite and3_4. unfold window_sql, date_ok, in_window. cbn [cmp_Z]. now rewrite !andb_assoc.
    Qed.
  End EQS.

  (* ---------- the selector ---------- *)
  Variable e : attr_exp.
  Variable attr : string.
  Let cd : condition := fst (analyze_cond e ([], [])).
  Let terms : list attr_sel := fst (snd (analyze_cond e ([], []))).
  Variable conds : list expr.
  Hypothesis Hkeys : keys_ok e = true.
  Hypothesis Hconds : map_res get_term terms = Ok conds.
  Hypothesis Hlits : forallb term_lit_ok terms = true.
  Hypothesis Hlen : (List.length terms <= 64)%nat.
  Hypothesis Hdepth : (cond_depth cd <= 28)%nat.    (* the evaluator's expression fuel is 40 *)

  Definition wh_list : list expr := where_terms terms conds ++ fst (agg_step attr).
  Definition with_where : bool := match wh_list with [] => false | _ => negb (holds_without_indexed terms cd) end.
  Definition agg_cols : list expr := match snd (agg_step attr) with Some col => [col] | None => [] end.
  Definition cols1 : list expr :=
    [Col (Id "trace_id") "trace_id"; Col (Id "span_id") "span_id";
     Col (Fn FAny [Id "duration"]) "duration"; Col (Fn FAny [Id "timestamp_ns"]) "timestamp_ns"] ++ agg_cols.
  Definition having1 : expr := LOp OAnd [fst (get_cond conds cd false)].
  Definition where1 : expr := LOp OAnd ([LOp OAnd (window c)] ++ (if with_where then [LOp OOr wh_list] else [])).
  (* the statement, spelled out *)
  Definition stmt1 : select :=
    Sel [] false cols1 (Some (Col (Id (attrs_table c)) "traces_idx")) [] None (Some where1) (Some having1)
        [Id "trace_id"; Id "span_id"] [Ord (Id "timestamp_ns") true] None.

  Lemma attr_condition_is_stmt1 n : attr_condition c terms (Some cd) attr n = Ok stmt1.
  Proof.
    unfold attr_condition. rewrite Hconds. cbn [bind].
    unfold stmt1, where1, having1, cols1, with_where, wh_list, agg_cols, where_terms.
    destruct (get_cond conds cd false) as [having a'] eqn:Eg. cbn [fst].
    destruct (agg_step attr) as [extra aggcol] eqn:Ea. cbn [fst snd].
    assert (Erf : random_filter c = []) by (unfold random_filter; now rewrite Hrf).
    rewrite Erf.
    set (wh := map snd (filter (fun p => is_indexed_label (a_label (fst p))) (combine terms conds)) ++ extra).
    unfold init_index.
    destruct aggcol as [col|]; destruct wh as [|w0 wr]; try reflexivity;
      destruct (holds_without_indexed terms cd); reflexivity.
  Qed.

  (* what a group of index rows (one span, its surviving rows) becomes *)
  Definition agg_of (grp : list irow) : option value :=
    if String.eqb attr "" then None
    else if String.eqb attr "duration" then Some (VNum (inject_Z (match grp with r0 :: _ => r_dur r0 | [] => 0%Z end)))
    else Some (match non_null (map (fun r => if String.eqb (r_key r) (strip_agg attr)
                                             then match parse_float (r_val r) with Some q => VNum q | None => VNull end
                                             else VNull) grp) with
               | v :: _ => v | [] => VNull end).
  Definition mk_mspan (grp : list irow) : mspan :=
    match grp with
    | r0 :: _ => {| m_trace := r_trace r0; m_span := r_span r0; m_dur := r_dur r0; m_ts := r_ts r0; m_agg := agg_of grp |}
    | [] => {| m_trace := ""; m_span := ""; m_dur := 0%Z; m_ts := 0%Z; m_agg := None |}
    end.

  Definition where_sem (r : irow) : bool :=
    window_sql r && (if with_where then prefilter re_match parse_float true terms (extra_sem attr) r else true).
  (* the rows of index_search *)
  Definition sql_spans : list mspan :=
    map mk_mspan (filter (fun g => csem terms g cd) (group_rows same_span (filter where_sem d))).

  (* ---------- aliases of the statement ---------- *)
  Definition al_where : list (string * expr) := col_aliases cols1.
  Definition G : expr := GroupBitOr (BitSet conds) "".

  Lemma col_aliases_cols1 :
    al_where = [("trace_id", Id "trace_id"); ("span_id", Id "span_id"); ("duration", Fn FAny [Id "duration"]);
                ("timestamp_ns", Fn FAny [Id "timestamp_ns"])]
               ++ match snd (agg_step attr) with Some (Col x a) => [(a, x)] | _ => [] end.
  Proof.
    unfold al_where, cols1, agg_cols, col_aliases. rewrite flat_map_app. cbn [flat_map String.eqb app].
    unfold agg_step. destruct (String.eqb attr ""); [reflexivity|]. destruct (String.eqb attr "duration"); reflexivity.
  Qed.

  Lemma al_where_none x :
    String.eqb x "trace_id" = false -> String.eqb x "span_id" = false -> String.eqb x "duration" = false ->
    String.eqb x "timestamp_ns" = false -> String.eqb x "agg_val" = false -> lookup_alias x al_where = None.
  Proof.
    intros H1 H2 H3 H4 H5. rewrite col_aliases_cols1. cbn [app lookup_alias]. rewrite H1, H2, H3, H4.
    unfold agg_step. destruct (String.eqb attr ""); [reflexivity|].
    destruct (String.eqb attr "duration"); cbn [snd lookup_alias]; now rewrite H5.
  Qed.

  (* having_aliases of the tree built by getCond: exactly the alias of the first leaf *)
  Lemma having_aliases_leaf f (aliased : bool) idx :
    having_aliases (3 + f) (LOp ONeq [BitAnd (if aliased then Id "bsCond" else GroupBitOr (BitSet conds) "bsCond") (IntV (shl64 idx)); IntV 0]) =
    if aliased then [] else [("bsCond", G)].
  Proof. destruct aliased; reflexivity. Qed.

  Lemma having_aliases_get_cond : forall cnd a f,
    having_aliases (cond_depth cnd + 3 + f) (fst (get_cond conds cnd a)) = (if a then [] else [("bsCond", G)])
    /\ snd (get_cond conds cnd a) = true.
  Proof.
    induction cnd as [idx|op l IHl r IHr]; intros a f; cbn [get_cond fst snd cond_depth].
    - split; [|reflexivity]. change (0 + 3 + f)%nat with (3 + f)%nat. apply having_aliases_leaf.
    - destruct (get_cond conds l a) as [el a1] eqn:El. destruct (get_cond conds r a1) as [er a2] eqn:Er. cbn [fst snd].
      destruct (IHl a (f + (Nat.max (cond_depth l) (cond_depth r) - cond_depth l))%nat) as [Hl Hl2].
      rewrite El in Hl, Hl2. cbn [fst snd] in Hl, Hl2. subst a1.
      destruct (IHr true (f + (Nat.max (cond_depth l) (cond_depth r) - cond_depth r))%nat) as [Hr Hr2].
      rewrite Er in Hr, Hr2. cbn [fst snd] in Hr, Hr2. split; [|assumption].
      change (S (Nat.max (cond_depth l) (cond_depth r)) + 3 + f)%nat with (S (Nat.max (cond_depth l) (cond_depth r) + 3 + f)).
      cbn [having_aliases flat_map].
      replace (Nat.max (cond_depth l) (cond_depth r) + 3 + f)%nat
        with (cond_depth l + 3 + (f + (Nat.max (cond_depth l) (cond_depth r) - cond_depth l)))%nat at 1 by lia.
      rewrite Hl.
      replace (Nat.max (cond_depth l) (cond_depth r) + 3 + f)%nat
        with (cond_depth r + 3 + (f + (Nat.max (cond_depth l) (cond_depth r) - cond_depth r)))%nat by lia.
      rewrite Hr. now rewrite !app_nil_r.
  Qed.

  Definition al_group : list (string * expr) := stmt_aliases cols1 (Some having1).

  Lemma ha_LOp f fn cl : having_aliases (S f) (LOp fn cl) = flat_map (having_aliases f) cl.
  Proof. reflexivity. Qed.

  Lemma al_group_eq : al_group = al_where ++ [("bsCond", G)].
  Proof.
    unfold al_group, stmt_aliases. fold al_where. f_equal. unfold having1, ev_fuel.
    rewrite (ha_LOp 39). unfold flat_map. rewrite app_nil_r.
    replace 39%nat with (cond_depth cd + 3 + (36 - cond_depth cd))%nat by (pose proof Hdepth; lia).
    exact (proj1 (having_aliases_get_cond cd false _)).
  Qed.

  Lemma al_group_none x :
    String.eqb x "trace_id" = false -> String.eqb x "span_id" = false -> String.eqb x "duration" = false ->
    String.eqb x "timestamp_ns" = false -> String.eqb x "agg_val" = false -> String.eqb x "bsCond" = false ->
    lookup_alias x al_group = None.
  Proof.
    intros H1 H2 H3 H4 H5 H6. rewrite al_group_eq, lookup_alias_app, (al_where_none x H1 H2 H3 H4 H5).
    cbn [lookup_alias]. now rewrite H6.
  Qed.
  Lemma al_group_bs : lookup_alias "bsCond" al_group = Some G.
  Proof. rewrite al_group_eq, lookup_alias_app, (al_where_none "bsCond"); reflexivity. Qed.

  (* ---------- the bridge ---------- *)
  Notation EVW := (ev re_match parse_float hash64).

  Lemma al_where_facts :
    lookup_alias "key" al_where = None /\ lookup_alias "val" al_where = None
    /\ lookup_alias "traces_idx.duration" al_where = None /\ lookup_alias "date" al_where = None
    /\ lookup_alias "traces_idx.timestamp_ns" al_where = None.
  Proof. repeat split; apply al_where_none; reflexivity. Qed.
  Lemma al_group_facts :
    lookup_alias "key" al_group = None /\ lookup_alias "val" al_group = None
    /\ lookup_alias "traces_idx.duration" al_group = None.
  Proof. repeat split; apply al_group_none; reflexivity. Qed.

  Lemma where1_eval cte r :
    EVW cte al_where [] ev_fuel false "" [] (irow_row r) where1 = Some (vbool (where_sem r)).
  Proof.
    destruct al_where_facts as [Ak [Av [Ad [Adt Ats]]]].
    unfold where1, where_sem, ev_fuel, wh_list. change 40%nat with (S 39).
    rewrite ev_LOp. destruct with_where; cbn [app map].
    - change 39%nat with (3 + 36)%nat at 1. rewrite (ev_window cte al_where [] Adt Ats).
      change 39%nat with (6 + 33)%nat.
      rewrite (ev_where re_match parse_float hash64 cte al_where [] Ak Av Ad 33 "" [] r terms conds attr (map_res_Forall2 _ _ _ Hconds) Hlits).
      cbn [all_some map]. rewrite !truth_vbool. cbn [all_some]. now rewrite and3_2.
    - change 39%nat with (3 + 36)%nat. rewrite (ev_window cte al_where [] Adt Ats).
      cbn [all_some map]. rewrite !truth_vbool. cbn [all_some]. now rewrite and3_1, andb_true_r.
  Qed.

  Lemma eq_keys_span a b : eq_keys ["trace_id"; "span_id"] (irow_row a) (irow_row b) = same_span a b.
  Proof.
    unfold eq_keys, same_span. cbn [forallb].
    change (lookup "trace_id" (irow_row a)) with (Some (VStr (r_trace a))).
    change (lookup "trace_id" (irow_row b)) with (Some (VStr (r_trace b))).
    change (lookup "span_id" (irow_row a)) with (Some (VStr (r_span a))).
    change (lookup "span_id" (irow_row b)) with (Some (VStr (r_span b))).
    cbn [veqb]. now rewrite andb_true_r.
  Qed.

  (* the SELECT list over one group *)
  Lemma non_null_VInt (l : list irow) (h : irow -> Z) : non_null (map (fun r => VInt (h r)) l) = map (fun r => VInt (h r)) l.
  Proof. unfold non_null. induction l as [|x l IH]; [reflexivity|]. cbn [map filter is_null negb]. now rewrite IH. Qed.

  Lemma out_row_group cte r0 rest :
    out_row re_match parse_float hash64 cte al_group ["trace_id"; "span_id"]
            (["trace_id"; "span_id"; "duration"; "timestamp_ns"] ++ match snd (agg_step attr) with Some _ => ["agg_val"] | None => [] end)
            cols1 (map irow_row (r0 :: rest))
    = Some (mspan_row (mk_mspan (r0 :: rest))).
  Proof.
    destruct al_group_facts as [Ak [Av Ad]].
    set (g := map irow_row (r0 :: rest)).
    assert (Hkey : forall k f, (k = "trace_id" \/ k = "span_id") ->
                                    EVW cte al_group ["trace_id"; "span_id"] (S (S f)) true k g (irow_row r0) (Col (Id k) k) = lookup k (irow_row r0)).
    { intros k f Hk. rewrite ev_Col, ev_Id_agg, String.eqb_refl. destruct Hk as [-> | ->]; reflexivity. }
    assert (Hany : forall k (h : irow -> Z) f, (forall r, lookup k (irow_row r) = Some (VInt (h r))) ->
                                               EVW cte al_group ["trace_id"; "span_id"] (S (S (S f))) true k g (irow_row r0) (Col (Fn FAny [Id k]) k) = Some (VInt (h r0))).
    { intros k h f Hl. rewrite ev_Col, ev_FAny. subst g. rewrite map_map.
      rewrite (all_some_map_ext _ (fun r => VInt (h r))).
      - rewrite non_null_VInt. reflexivity.
      - intros r _. rewrite ev_Id_row, String.eqb_refl. apply Hl. }
    unfold out_row, evg. fold g. change g with (irow_row r0 :: map irow_row rest) at 1. cbv beta iota.
    unfold cols1, agg_cols, mspan_row, mk_mspan, agg_of, ev_fuel. cbn [m_trace m_span m_dur m_ts m_agg].
    unfold agg_step. destruct (String.eqb attr "") eqn:E0; cbn [snd app combine map fst all_some].
    - change 40%nat with (S (S 38)). rewrite (Hkey "trace_id" 38 (or_introl eq_refl)), (Hkey "span_id" 38 (or_intror eq_refl)).
      change (S (S 38)) with (S (S (S 37))).
      rewrite (Hany "duration" r_dur 37 (fun r => eq_refl)), (Hany "timestamp_ns" r_ts 37 (fun r => eq_refl)). reflexivity.
    - destruct (String.eqb attr "duration") eqn:E1; cbn [snd app combine map fst all_some].
      + change 40%nat with (S (S 38)). rewrite (Hkey "trace_id" 38 (or_introl eq_refl)), (Hkey "span_id" 38 (or_intror eq_refl)).
        change (S (S 38)) with (S (S (S 37))).
        rewrite (Hany "duration" r_dur 37 (fun r => eq_refl)), (Hany "timestamp_ns" r_ts 37 (fun r => eq_refl)).
        (* agg_val = toFloat64(duration): duration is the alias of any(duration) here *)
        rewrite ev_Col, ev_ToFloat64, ev_Id_agg.
        change (String.eqb "duration" "agg_val") with false. cbv iota.
        assert (Hal : lookup_alias "duration" al_group = Some (Fn FAny [Id "duration"])).
        { rewrite al_group_eq, lookup_alias_app, col_aliases_cols1. reflexivity. }
        rewrite Hal.
        pose proof (Hany "duration" r_dur 35 (fun r => eq_refl)) as Hd. rewrite ev_Col in Hd.
        rewrite Hd. reflexivity.
      + change 40%nat with (S (S 38)). rewrite (Hkey "trace_id" 38 (or_introl eq_refl)), (Hkey "span_id" 38 (or_intror eq_refl)).
        change (S (S 38)) with (S (S (S 37))).
        rewrite (Hany "duration" r_dur 37 (fun r => eq_refl)), (Hany "timestamp_ns" r_ts 37 (fun r => eq_refl)).
        rewrite ev_Col, ev_AttrValue. subst g. rewrite map_map.
        rewrite (all_some_map_ext _ (fun r => if String.eqb (r_key r) (strip_agg attr)
                                              then match parse_float (r_val r) with Some q => VNum q | None => VNull end else VNull));
          [|intros r _; reflexivity].
        cbn [map].
        match goal with |- context [non_null ?l] => destruct (non_null l) end; reflexivity.
  Qed.

  Lemma same_span_refl a : same_span a a = true.
  Proof. unfold same_span. now rewrite !String.eqb_refl. Qed.
  Lemma same_span_sym a b : same_span a b = same_span b a.
  Proof. unfold same_span. now rewrite (String.eqb_sym (r_trace a)), (String.eqb_sym (r_span a)). Qed.
  Lemma same_span_trans a b x : same_span a b = true -> same_span b x = true -> same_span a x = true.
  Proof.
    unfold same_span. intros H1 H2. apply andb_true_iff in H1, H2. destruct H1 as [A1 A2], H2 as [B1 B2].
    apply String.eqb_eq in A1, A2, B1, B2. rewrite A1, A2, B1, B2. now rewrite !String.eqb_refl.
  Qed.

  Definition names1 : list string :=
    ["trace_id"; "span_id"; "duration"; "timestamp_ns"] ++ match snd (agg_step attr) with Some _ => ["agg_val"] | None => [] end.
  Lemma names_cols1 : all_some (map col_name cols1) = Some names1.
  Proof.
    unfold cols1, names1, agg_cols, agg_step. destruct (String.eqb attr ""); [reflexivity|].
    destruct (String.eqb attr "duration"); reflexivity.
  Qed.

  Lemma rows_have_keys (l : list irow) :
    forallb (fun r => forallb (fun k => match lookup k r with Some _ => true | None => false end) ["trace_id"; "span_id"]) (map irow_row l) = true.
  Proof. apply forallb_forall. intros r Hr. apply in_map_iff in Hr. destruct Hr as [x [<- _]]. reflexivity. Qed.

  (* the statement with any WHERE expression wh that evaluates, on every index row, to the boolean wp *)
  Definition stmt_w (wh : expr) : select :=
    Sel [] false cols1 (Some (Col (Id (attrs_table c)) "traces_idx")) [] None (Some wh) (Some having1)
        [Id "trace_id"; Id "span_id"] [Ord (Id "timestamp_ns") true] None.
  Definition spans_w (wp : irow -> bool) : list mspan :=
    map mk_mspan (filter (fun g => csem terms g cd) (group_rows same_span (filter wp d))).

  Theorem bridge_w rec cte wh wp :
    (forall r, EVW cte al_where [] ev_fuel false "" [] (irow_row r) wh = Some (vbool (wp r))) ->
    eval_body re_match parse_float hash64 tables rec cte false (stmt_w wh) = Some (map mspan_row (spans_w wp)).
  Proof.
    intros Hwh. unfold eval_body, stmt_w. cbv beta iota. unfold stage_with. cbv beta iota.
    assert (Hfrom : stage_joins re_match parse_float hash64 cte [] (stage_from tables rec cte (Some (Col (Id (attrs_table c)) "traces_idx")))
                    = Some (map irow_row d)).
    { unfold stage_joins, stage_from, tables. cbn [fold_left env_get]. rewrite String.eqb_refl, map_map. reflexivity. }
    rewrite Hfrom.
    assert (Hwhere : stage_where re_match parse_float hash64 cte cols1 (Some wh) (map irow_row d)
                     = Some (map irow_row (filter wp d))).
    { unfold stage_where. apply keep_true_map. intros r _. apply Hwh. }
    rewrite Hwhere, names_cols1. cbn [map all_some].
    unfold stage_group. rewrite rows_have_keys. cbn [negb].
    rewrite (group_rows_map irow_row same_span _ eq_keys_span).
    fold al_group.
    set (W := filter wp d).
    assert (Hne : forall grp, In grp (group_rows same_span W) -> grp <> [])
      by (intros grp; apply (group_nonempty same_span same_span_refl same_span_sym same_span_trans)).
    destruct al_group_facts as [Ak [Av Ad]].
    assert (Hkept : keep_true (fun g => evg re_match parse_float hash64 cte al_group ["trace_id"; "span_id"] "" g having1)
                              (map (map irow_row) (group_rows same_span W))
                    = Some (map (map irow_row) (filter (fun g => csem terms g cd) (group_rows same_span W)))).
    { apply keep_true_map. intros grp Hg. destruct grp as [|r0 rest]; [exfalso; now apply (Hne [] Hg)|].
      unfold evg. cbn [map].
      apply (having_value re_match parse_float hash64 cte al_group ["trace_id"; "span_id"] Ak Av Ad e conds Hkeys Hconds Hlits Hlen al_group_bs
                          ev_fuel (r0 :: rest) (irow_row r0)).
      unfold ev_fuel. pose proof Hdepth. fold cd. lia. }
    rewrite Hkept. unfold spans_w. fold W. rewrite !map_map.
    apply (all_some_map_ext _ (fun grp => mspan_row (mk_mspan grp))). intros grp Hg. apply filter_In in Hg. destruct Hg as [Hg _].
    destruct grp as [|r0 rest]; [exfalso; now apply (Hne [] Hg)|].
    apply out_row_group.
  Qed.

  Theorem index_search_bridge rec cte :
    eval_body re_match parse_float hash64 tables rec cte false stmt1 = Some (map mspan_row sql_spans).
  Proof. exact (bridge_w rec cte where1 where_sem (where1_eval cte)). Qed.

  (* ---------- one portion of a complex request: cityHash64(trace_id) % Max == I  [OR trace_id IN (cached ids)] ---------- *)
  Definition in_portion_g (t : string) : bool :=
    Z.eqb (rf_max c) 0 || Z.eqb (Z.modulo (hash64 t) (rf_max c)) (rf_i c) || existsb (String.eqb t) (cached c).
  (* the number of portions as the statement prints it reads back as itself (computed on every case; string_of_Z / parse_dec round trip) *)
  Definition rf_ok : bool :=
    Z.ltb 0 (rf_max c)
    && match parse_dec (string_of_Z (rf_max c)) with
       | Some dd => Nat.eqb (d_flen dd) 0 && Z.eqb (Z.of_N (d_int dd)) (rf_max c)
       | None => false end.
  Definition visible : db := filter (fun r => in_portion_g (r_trace r)) d.

  Lemma attr_condition_gen n :
    attr_condition c terms (Some cd) attr n = Ok (match random_filter c with [] => stmt1 | f => and_where f stmt1 end).
  Proof.
    unfold attr_condition. rewrite Hconds. cbn [bind].
    unfold stmt1, where1, having1, cols1, with_where, wh_list, agg_cols, where_terms.
    destruct (get_cond conds cd false) as [having a'] eqn:Eg. cbn [fst].
    destruct (agg_step attr) as [extra aggcol] eqn:Ea. cbn [fst snd].
    set (wh := map snd (filter (fun p => is_indexed_label (a_label (fst p))) (combine terms conds)) ++ extra).
    unfold init_index.
    destruct aggcol as [col|]; destruct wh as [|w0 wr]; destruct (random_filter c); try reflexivity;
      destruct (holds_without_indexed terms cd); reflexivity.
  Qed.

  Lemma lookup_trace r : lookup "trace_id" (irow_row r) = Some (VStr (r_trace r)). Proof. reflexivity. Qed.

  Section RF.
    Hypothesis Hok : rf_ok = true.
    Variable cte : env.
    Notation EV := (ev re_match parse_float hash64 cte al_where []).

    Lemma al_where_trace : lookup_alias "trace_id" al_where = Some (Id "trace_id").
    Proof. rewrite col_aliases_cols1. reflexivity. Qed.

    Lemma ev_hash f self g r :
      EV (S (S (S (S f)))) false self g (irow_row r)
         (LOp OEq [Bin BMod (Fn FCityHash64 [Id "trace_id"]) (NumLit (string_of_Z (rf_max c))); IntV (rf_i c)])
      = Some (vbool (Z.eqb (Z.modulo (hash64 (r_trace r)) (rf_max c)) (rf_i c))).
    Proof.
      clear Hrf. unfold rf_ok in Hok. apply andb_true_iff in Hok. destruct Hok as [Hpos Hp].
      destruct (parse_dec (string_of_Z (rf_max c))) as [dd|] eqn:Ed; [|discriminate]. apply andb_true_iff in Hp. destruct Hp as [Hfl Hin].
      apply Nat.eqb_eq in Hfl. apply Z.eqb_eq in Hin. apply Z.ltb_lt in Hpos.
      assert (Htr : EV (S f) false self g (irow_row r) (Id "trace_id") = Some (VStr (r_trace r))).
      { rewrite ev_Id_row. destruct (String.eqb "trace_id" self); [apply lookup_trace|]. rewrite al_where_trace, String.eqb_refl. apply lookup_trace. }
      assert (Hh : EV (S (S f)) false self g (irow_row r) (Fn FCityHash64 [Id "trace_id"]) = Some (VInt (hash64 (r_trace r)))).
      { change (EV (S (S f)) false self g (irow_row r) (Fn FCityHash64 [Id "trace_id"]))
          with (match EV (S f) false self g (irow_row r) (Id "trace_id") with Some (VStr s0) => Some (VInt (hash64 s0)) | _ => None end).
        now rewrite Htr. }
      assert (Hn : EV (S (S f)) false self g (irow_row r) (NumLit (string_of_Z (rf_max c))) = Some (VInt (rf_max c))).
      { change (EV (S (S f)) false self g (irow_row r) (NumLit (string_of_Z (rf_max c))))
          with (match parse_dec (string_of_Z (rf_max c)) with
                | Some d0 => if Nat.eqb (d_flen d0) 0 then Some (VInt (Z.of_N (d_int d0))) else Some (VNum (dec_Q d0)) | None => None end).
        rewrite Ed, Hfl. cbn [Nat.eqb]. now rewrite Hin. }
      assert (Hm : EV (S (S (S f))) false self g (irow_row r) (Bin BMod (Fn FCityHash64 [Id "trace_id"]) (NumLit (string_of_Z (rf_max c))))
                   = Some (VInt (Z.modulo (hash64 (r_trace r)) (rf_max c)))).
      { change (EV (S (S (S f))) false self g (irow_row r) (Bin BMod (Fn FCityHash64 [Id "trace_id"]) (NumLit (string_of_Z (rf_max c)))))
          with (match EV (S (S f)) false self g (irow_row r) (Fn FCityHash64 [Id "trace_id"]), EV (S (S f)) false self g (irow_row r) (NumLit (string_of_Z (rf_max c))) with
                | Some (VInt x), Some (VInt y) => if Z.eqb y 0 then None else Some (VInt (Z.modulo x y))
                | _, _ => None end).
        rewrite Hh, Hn. destruct (Z.eqb_spec (rf_max c) 0); [lia|reflexivity]. }
      change OEq with (lop_of CEq). rewrite (ev_LOp_cmp re_match parse_float hash64 cte al_where [] _ false self g (irow_row r) CEq _ _ eq_refl).
      rewrite Hm, ev_IntV. rewrite (vcmp_int CEq _ _ eq_refl). reflexivity.
    Qed.

    Lemma ev_unhex_list f self g r (ids : list string) :
      all_some (map (fun x => EV (S (S f)) false self g (irow_row r) x) (map (fun t => Fn FUnhex [RawStr t]) ids)) = Some (map VStr ids).
    Proof. induction ids as [|t ids IH]; [reflexivity|]. cbn [map all_some]. rewrite IH. reflexivity. Qed.

    Lemma ev_InE f agg self g r l rs :
      EV (S f) agg self g r (InE l rs) =
      match EV f agg self g r l with
      | None => None
      | Some lv =>
          match rs with
          | [WRef a] =>
              match env_get a cte with
              | Some t =>
                  Some (vbool (existsb (fun tr => match lv, tr with
                                                  | VTup xs, _ => veqb (VTup xs) (VTup (map snd tr))
                                                  | _, (_, v) :: _ => veqb lv v
                                                  | _, [] => false end) t))
              | None => None
              end
          | _ => match all_some (map (fun x => EV f agg self g r x) rs) with Some vs => Some (vbool (existsb (veqb lv) vs)) | None => None end
          end
      end.
    Proof. reflexivity. Qed.

    Lemma ev_in_ids f self g r (ids : list string) :
      EV (S (S (S f))) false self g (irow_row r) (InE (Id "trace_id") (map (fun t => Fn FUnhex [RawStr t]) ids))
      = Some (vbool (existsb (String.eqb (r_trace r)) ids)).
    Proof.
      assert (Htr : EV (S (S f)) false self g (irow_row r) (Id "trace_id") = Some (VStr (r_trace r))).
      { rewrite ev_Id_row. destruct (String.eqb "trace_id" self); [apply lookup_trace|]. rewrite al_where_trace, String.eqb_refl. apply lookup_trace. }
      assert (Hex : existsb (veqb (VStr (r_trace r))) (map VStr ids) = existsb (String.eqb (r_trace r)) ids).
      { induction ids as [|t l IH]; [reflexivity|]. cbn [map existsb]. rewrite IH. reflexivity. }
      rewrite ev_InE, Htr. pose proof (ev_unhex_list f self g r ids) as Hl. destruct ids as [|a l].
      - reflexivity.
      - cbn [map] in *. rewrite Hl. cbn [map] in Hex. now rewrite Hex.
    Qed.

    Lemma ev_rf f self g r x : random_filter c = [x] ->
      EV (6 + f) false self g (irow_row r) x = Some (vbool (in_portion_g (r_trace r))).
    Proof.
      clear Hrf. assert (Hpos : Z.eqb (rf_max c) 0 = false).
      { unfold rf_ok in Hok. apply andb_true_iff in Hok. destruct Hok as [Hpos _]. apply Z.ltb_lt in Hpos. apply Z.eqb_neq. lia. }
      unfold random_filter, in_portion_g. rewrite Hpos. cbn [orb]. destruct (cached c) as [|id0 ids] eqn:Ec.
      - intros E. injection E as <-. change (6 + f) with (S (S (S (S (2 + f))))). rewrite ev_hash. cbn [existsb]. now rewrite orb_false_r.
      - intros E. injection E as <-. change (6 + f) with (S (S (S (S (S (S f)))))). rewrite ev_LOp.
        cbn [map]. rewrite ev_hash.
        change (Fn FUnhex [RawStr id0] :: map (fun t : string => Fn FUnhex [RawStr t]) ids) with (map (fun t : string => Fn FUnhex [RawStr t]) (id0 :: ids)).
        rewrite (ev_in_ids (S (S f))).
        cbn [all_some map]. rewrite !truth_vbool. cbn [all_some]. now rewrite or3_2.
    Qed.

    (* the WHERE of the statement of one portion *)
    Definition where1p (x : expr) : expr := LOp OAnd ([LOp OAnd (window c)] ++ (if with_where then [LOp OOr wh_list] else []) ++ [x]).
    Lemma where1p_eval r x : random_filter c = [x] ->
      EV ev_fuel false "" [] (irow_row r) (where1p x) = Some (vbool (where_sem r && in_portion_g (r_trace r))).
    Proof.
      intros Hx. destruct al_where_facts as [Ak [Av [Ad [Adt Ats]]]].
      unfold where1p, where_sem, ev_fuel, wh_list. change 40%nat with (S 39).
      rewrite ev_LOp. destruct with_where; cbn [app map].
      - change 39%nat with (3 + 36)%nat at 1. rewrite (ev_window cte al_where [] Adt Ats).
        change 39%nat with (6 + 33)%nat.
        rewrite (ev_where re_match parse_float hash64 cte al_where [] Ak Av Ad 33 "" [] r terms conds attr (map_res_Forall2 _ _ _ Hconds) Hlits).
        rewrite (ev_rf 33 "" [] r x Hx).
        cbn [all_some map]. rewrite !truth_vbool. cbn [all_some]. now rewrite and3_3.
      - change 39%nat with (3 + 36)%nat at 1. rewrite (ev_window cte al_where [] Adt Ats).
        change 39%nat with (6 + 33)%nat. rewrite (ev_rf 33 "" [] r x Hx).
        cbn [all_some map]. rewrite !truth_vbool. cbn [all_some]. now rewrite and3_2, andb_true_r.
    Qed.
  End RF.
End IDX.

(* ---------- the statement of one portion over the whole index = the statement without portion filter over the visible rows ---------- *)
Lemma filter_filter_and {A} (p q : A -> bool) l : filter p (filter q l) = filter (fun x => p x && q x) l.
Proof. induction l as [|x l IH]; [reflexivity|]. cbn [filter]. destruct (q x); cbn [filter]; rewrite ?IH; destruct (p x); reflexivity. Qed.

Lemma rf_single c : rf_ok c = true -> exists x, random_filter c = [x].
Proof.
  unfold rf_ok, random_filter. intros H. apply andb_true_iff in H. destruct H as [H _]. apply Z.ltb_lt in H.
  destruct (Z.eqb_spec (rf_max c) 0) as [E|E]; [lia|]. destruct (cached c); eexists; reflexivity.
Qed.

Theorem index_search_bridge_portion re_match parse_float hash64 c d e attr conds :
  keys_ok e = true -> map_res get_term (fst (snd (analyze_cond e ([], [])))) = Ok conds ->
  forallb term_lit_ok (fst (snd (analyze_cond e ([], [])))) = true ->
  (List.length (fst (snd (analyze_cond e ([], [])))) <= 64)%nat -> (cond_depth (fst (analyze_cond e ([], []))) <= 28)%nat ->
  rf_ok c = true ->
  forall x, random_filter c = [x] ->
  forall rec cte,
  eval_body re_match parse_float hash64 [(attrs_table c, map row_of_irow d)] rec cte false (and_where [x] (stmt1 c e attr conds))
  = Some (map mspan_row (sql_spans re_match parse_float c (visible hash64 c d) e attr conds)).
Proof.
  intros Hkeys Hc Hlits Hlen Hdepth Hok x Hx rec cte.
  change (and_where [x] (stmt1 c e attr conds)) with (stmt_w c e attr conds (where1p c e attr conds x)).
  rewrite (bridge_w re_match parse_float hash64 c d e attr conds Hkeys Hc Hlits Hlen Hdepth rec cte (where1p c e attr conds x)
             (fun r => where_sem re_match parse_float c e attr conds r && in_portion_g hash64 c (r_trace r))).
  - unfold spans_w, sql_spans, visible. now rewrite filter_filter_and.
  - intros r. exact (where1p_eval re_match parse_float hash64 c e attr conds Hc Hlits Hlen Hdepth Hok cte r x Hx).
Qed.

