(* C01 promise_resolved_with_its_block, C02 block_carries_its_waiters / blocks_good:
   every event trace of the global ingest model is accepted by the service discipline monitor smon_step. *)
From Coq Require Import List NArith ZArith Bool Lia Arith.
From Qryn Require Import model.Ingest model.PushHandler model.IngestSpec proofs.IngestBase proofs.IngestAck.
Import ListNotations.

Definition is_some_b {A} (o : option A) : bool := match o with Some _ => true | None => false end.

(* ---------------------------------------------------------------- a predicate on all requests held by handlers *)
Section HQ.
Variable Q : kind -> req -> bool.
Definition item_q (it : item) : bool :=
  match it with
  | IChunk c => forallb (fun x => Q (snd (fst (fst x))) (snd (fst x))) c
  | IError => true
  end.
Definition act_q (a : gact) : bool :=
  match a with
  | GEnvReq _ k _ r _ => Q k r
  | GNewHandler items => forallb item_q items
  | _ => true
  end.
Definition HQ (g : gstate) : Prop :=
  forall h hd, nth_error (hs g) h = Some hd ->
    Forall (fun sp => Q (sp_kind sp) (sp_req sp) = true) (h_subs hd) /\
    Forall (fun it => item_q it = true) (h_items hd).

Lemma svc_act_hs g s a g' es : svc_act g s a = Some (g', es) -> hs g' = hs g /\ attempts g' = attempts g.
Proof.
  unfold svc_act. destruct (nth_error (svcs g) s); [|discriminate]. destruct (sstep s0 a) as [[sv' vs]|]; [|discriminate].
  destruct (apply_sevs _ _ _ _). intros H; inversion H; subst. auto.
Qed.

Lemma HQ_upd g h hd' :
  HQ g ->
  Forall (fun sp => Q (sp_kind sp) (sp_req sp) = true) (h_subs hd') ->
  Forall (fun it => item_q it = true) (h_items hd') ->
  HQ (set_hs g (upd h hd' (hs g))).
Proof.
  intros H Hs Hi h0 hd0 Hn. cbn in Hn. apply nth_error_upd_cases in Hn as [[-> ->]|[_ Hn]]; [split; assumption|exact (H _ _ Hn)].
Qed.

Lemma Forall_upd_sub (P : subpush -> Prop) l i sp : Forall P l -> P sp -> Forall P (upd i sp l).
Proof. apply Forall_upd. Qed.

Lemma HQ_step g a g' es : HQ g -> act_q a = true -> gstep g a = Some (g', es) -> HQ g'.
Proof.
  intros H Hok Hstep. destruct a as [s a|s k n r sz|items|h|h i s|h i|h]; cbn in Hstep.
  - destruct (is_request a); [discriminate|]. apply svc_act_hs in Hstep as [E _]. unfold HQ. rewrite E. exact H.
  - destruct (nth_error (svcs g) s); [|discriminate]. destruct (_ && _); [|discriminate].
    apply svc_act_hs in Hstep as [E _]. unfold HQ. rewrite E. exact H.
  - inversion Hstep; subst. intros h hd Hn. cbn in Hn.
    destruct (Nat.lt_ge_cases h (length (hs g))) as [L|L].
    + rewrite nth_error_app1 in Hn by assumption. exact (H _ _ Hn).
    + rewrite nth_error_app2 in Hn by assumption.
      destruct (h - length (hs g))%nat as [|[|?]]; cbn in Hn; try discriminate. inversion Hn; subst. cbn.
      split; [constructor|]. cbn in Hok. rewrite forallb_forall in Hok. apply Forall_forall. auto.
  - destruct (nth_error (hs g) h) as [hd|] eqn:Hh; [|discriminate]. destruct (H _ _ Hh) as [Hs Hi].
    destruct (h_items hd) as [|[c|] rest] eqn:Hit; [discriminate| |].
    + inversion Hstep; subst. inversion Hi as [|? ? Hc Hrest]; subst. apply HQ_upd; cbn; auto.
      apply Forall_app. split; [assumption|]. apply Forall_forall. intros sp Hin.
      apply in_map_iff in Hin as ([[[s0 k0] r0] sz0] & <- & Hin). cbn. cbn in Hc. rewrite forallb_forall in Hc.
      exact (Hc _ Hin).
    + destruct (h_answer hd); inversion Hstep; subst; apply HQ_upd; cbn; auto.
  - destruct (nth_error (hs g) h) as [hd|] eqn:Hh; [|discriminate].
    destruct (nth_error (h_subs hd) i) as [sp|] eqn:Hi; [|discriminate].
    destruct (_ && _); [|discriminate].
    destruct (svc_act g s _) as [[g1 es1]|] eqn:Hact; [|discriminate]. inversion Hstep; subst.
    apply svc_act_hs in Hact as [E _]. destruct (H _ _ Hh) as [Hs Hitems].
    assert (H1 : HQ g1) by (unfold HQ; rewrite E; exact H).
    rewrite E. rewrite <- E. apply HQ_upd; cbn; auto.
    apply Forall_upd; [assumption|]. cbn. eapply Forall_nth_error in Hs; eauto.
  - destruct (nth_error (hs g) h) as [hd|] eqn:Hh; [|discriminate].
    destruct (nth_error (h_subs hd) i) as [sp|] eqn:Hi; [|discriminate].
    destruct (sp_cur sp); [|discriminate]. destruct (lookup_store _ _) as [[[? ?] ok]|]; [|discriminate].
    inversion Hstep; subst. destruct (H _ _ Hh) as [Hs Hitems]. apply HQ_upd; cbn; auto.
    apply Forall_upd; [assumption|]. cbn. eapply Forall_nth_error in Hs; eauto.
  - destruct (nth_error (hs g) h) as [hd|] eqn:Hh; [|discriminate].
    destruct (h_items hd) eqn:Hit; [|discriminate]. destruct (h_answer hd); [discriminate|].
    destruct (verdict _); [|discriminate]. inversion Hstep; subst. destruct (H _ _ Hh) as [Hs Hitems].
    apply HQ_upd; cbn; auto.
Qed.

Lemma HQ_init cfg n : HQ (ginit cfg n).
Proof. intros h hd Hn. destruct h; discriminate. Qed.
End HQ.

(* ---------------------------------------------------------------- expected blocks *)
Lemma zip_app_table_gen : forall n start (r1 r2 : list N),
  zip_app (map (fun k => map (fun rid : N => (rid, k)) r1) (seq start n))
          (map (fun k => map (fun rid : N => (rid, k)) r2) (seq start n)) =
  map (fun k => map (fun rid : N => (rid, k)) (r1 ++ r2)) (seq start n).
Proof.
  induction n as [|n IH]; intros start r1 r2; cbn; [reflexivity|].
  rewrite IH. f_equal. now rewrite map_app.
Qed.
Lemma zip_app_table n r1 r2 : zip_app (table_of n r1) (table_of n r2) = table_of n (r1 ++ r2).
Proof. apply zip_app_table_gen. Qed.

Lemma table_nil_gen n start : map (fun k : nat => map (fun rid : N => (rid, k)) []) (seq start n) = repeat [] n.
Proof. revert start; induction n as [|n IH]; intros start; cbn; [reflexivity|]. now rewrite IH. Qed.
Lemma empty_cols_table k : empty_cols k = table_of (ncols k) [].
Proof. unfold empty_cols, table_of. now rewrite table_nil_gen. Qed.

Lemma zip_app_no_cells (c : block) (r : req) : no_cells r = true -> zip_app c r = c.
Proof.
  revert r; induction c as [|x c IH]; intros [|y r] H; cbn; try reflexivity.
  cbn in H. apply andb_true_iff in H as [H1 H2]. destruct y; [|discriminate]. rewrite app_nil_r. f_equal. auto.
Qed.

Lemma expected_block_snoc k ws p r :
  expected_block k (ws ++ [(p, r)]) = append_eff k (expected_block k ws) (p, r).
Proof. unfold expected_block. now rewrite fold_left_app. Qed.

Definition wf_w (k : kind) (pr : pid * req) : Prop := wf_reqb k (snd pr) = true.

Lemma fold_table k ws : Forall (wf_w k) ws -> forall acc,
  fold_left (append_eff k) ws (table_of (ncols k) acc) = table_of (ncols k) (acc ++ rows_of ws).
Proof.
  induction ws as [|[p r] ws IH]; intros F acc; cbn.
  - unfold rows_of. cbn. now rewrite app_nil_r.
  - inversion F as [|? ? Hw F']; subst. unfold wf_w in Hw. cbn in Hw. unfold wf_reqb in Hw. apply block_eqb_eq in Hw.
    unfold append_eff at 2. cbn [snd]. rewrite Hw at 1. rewrite eff_table, zip_app_table, IH by assumption.
    unfold rows_of. cbn. now rewrite app_assoc.
Qed.
Lemma expected_block_table k ws : Forall (wf_w k) ws -> expected_block k ws = table_of (ncols k) (rows_of ws).
Proof. intros F. unfold expected_block. rewrite empty_cols_table. now rewrite fold_table. Qed.

(* ---------------------------------------------------------------- subsequences of waiters *)
Inductive Sub {A} : list A -> list A -> Prop :=
 | Sub_nil l : Sub [] l
 | Sub_skip l x t : Sub l t -> Sub l (x :: t)
 | Sub_take l x t : Sub l t -> Sub (x :: l) (x :: t).
Lemma Sub_refl {A} (l : list A) : Sub l l.
Proof. induction l; [apply Sub_nil|apply Sub_take; assumption]. Qed.
Lemma Sub_tail {A} (x : A) l t : Sub (x :: l) t -> Sub l t.
Proof.
  intros H. remember (x :: l) as xl eqn:E. revert x l E. induction H as [l0|l0 y t H IH|l0 y t H IH]; intros x l E.
  - discriminate.
  - constructor. eapply IH; eauto.
  - inversion E; subst. constructor. assumption.
Qed.

Lemma remove_sub p r l ws : Sub ((p, r) :: l) ws -> exists ws', remove_waiter p r ws = Some ws' /\ Sub l ws'.
Proof.
  induction ws as [|[q r'] t IH]; intros H; [inversion H|].
  cbn [remove_waiter]. destruct (pid_eqb p q && block_eqb r r') eqn:E.
  - exists t. split; [reflexivity|]. inversion H; subst; [eapply Sub_tail; eauto|assumption].
  - inversion H as [|? ? ? H'|? ? ? H']; subst.
    + destruct (IH H') as (ws' & R & S). rewrite R. exists ((q, r') :: ws'). split; [reflexivity|]. now constructor.
    + rewrite pid_eqb_refl, block_eqb_refl in E. discriminate.
Qed.

Section SPEC.
Variable md : smode.
Notation strict := (strict_of md).
Notation mstep := (smon_step md).

Definition req_ok (k : kind) (r : req) : bool :=
  match md with MLenient => true | MClean => ok_req true k r | MTable => wf_reqb k r end.

Lemma req_ok_strict k r : req_ok k r = true -> ok_req strict k r = true.
Proof.
  unfold req_ok. destruct md; cbn; intros H; auto using wf_ok_req.
  unfold ok_req. destruct (eff k r); [|reflexivity]. cbn. destruct (key_empty k r0); reflexivity.
Qed.

(* worker state vs monitor state *)
Definition SR (sv : svc) (w : wmon) : Prop :=
  w_open w = results sv /\
  w_infl w = match inflight sv with Some po => Some (p_res po, p_sent po) | None => None end /\
  (results sv = [] -> size sv = 0%Z) /\
  (strict = true -> cols sv = expected_block (kd sv) (results sv) /\
                    forall po, inflight sv = Some po -> p_cols po = expected_block (kd sv) (p_res po)) /\
  (md = MTable -> Forall (wf_w (kd sv)) (results sv) /\
                  forall po, inflight sv = Some po -> Forall (wf_w (kd sv)) (p_res po)).

Definition GS (g : gstate) (m : smon) : Prop := Forall2 SR (svcs g) (s_w m).

Lemma SR_flags sv sv' w :
  kd sv' = kd sv -> cols sv' = cols sv -> results sv' = results sv -> inflight sv' = inflight sv -> size sv' = size sv ->
  SR sv w -> SR sv' w.
Proof. unfold SR. intros -> -> -> -> ->. auto. Qed.

(* the burst of completions after a Do returned *)
Lemma smon_dones s k ok W : forall l st ws, Sub l ws ->
  exists st' es ws',
    apply_sevs s k st (map (fun pr => VDone (fst pr) (snd pr) ok) l) = (st', es) /\
    run_mon mstep {| s_w := W; s_rel := Some (ws, ok); s_imm := None |} es =
      Some {| s_w := W; s_rel := Some (ws', ok); s_imm := None |}.
Proof.
  induction l as [|[p r] l IH]; intros st ws HS.
  - exists st, [], ws. split; reflexivity.
  - cbn [map apply_sevs fst snd]. destruct (in_store p st).
    + apply Sub_tail in HS. destruct (IH st ws HS) as (st' & es & ws' & E & R). eauto.
    + destruct (remove_sub _ _ _ _ HS) as (ws1 & Rm & HS1).
      destruct (IH ((p, (k, r, ok)) :: st) ws1 HS1) as (st' & es & ws' & E & R). rewrite E.
      exists st', (EResolve p k r ok :: es), ws'. split; [reflexivity|].
      cbn [run_mon smon_step s_imm s_rel]. rewrite eqb_reflx, Rm. exact R.
Qed.

Lemma flag_step g m s sv sv' :
  GS g m -> nth_error (svcs g) s = Some sv ->
  kd sv' = kd sv -> cols sv' = cols sv -> results sv' = results sv -> inflight sv' = inflight sv -> size sv' = size sv ->
  GS (with_svc g s sv' (store g)) m.
Proof.
  intros G Hs H1 H2 H3 H4 H5. unfold GS in *. cbn.
  destruct (Forall2_nth_error_l _ _ _ _ _ G Hs) as (w & Hw & Hr).
  eapply Forall2_upd_l; eauto. eapply SR_flags; eauto.
Qed.

(* the monitor state after an event that resets the release bookkeeping *)
Definition reset (m : smon) : smon := {| s_w := s_w m; s_rel := None; s_imm := None |}.

Lemma svc_act_GS g m s a g' es :
  GS g m -> svc_act g s a = Some (g', es) ->
  (forall p r sz sv, a = SRequest p r sz -> nth_error (svcs g) s = Some sv -> req_ok (kd sv) r = true) ->
  exists m', run_mon mstep m es = Some m' /\ GS g' m'.
Proof.
  intros G Hact Hside. unfold svc_act in Hact.
  destruct (nth_error (svcs g) s) as [sv|] eqn:Hs; [|discriminate].
  destruct (sstep sv a) as [[sv' vs]|] eqn:Hstep; [|discriminate].
  destruct (apply_sevs s (kd sv) (store g) vs) as [st' es0] eqn:Hap.
  inversion Hact; subst g' es; clear Hact.
  destruct (Forall2_nth_error_l _ _ _ _ _ G Hs) as (w & Hw & Hr).
  destruct a as [p r sz| |ok| | |ok| |]; cbn in Hstep.
  - (* SRequest *)
    pose proof (Hside p r sz sv eq_refl eq_refl) as Hq. pose proof (req_ok_strict _ _ Hq) as Hok.
    destruct (running sv) eqn:Hrun; cbn in Hstep.
    + destruct (eff (kd sv) r) as [r'|] eqn:Heff; [|discriminate].
      destruct Hr as (R1 & R2 & R3 & R4 & R5).
      destruct (Nat.eqb (length (nth (keycol (kd sv)) r' [])) 0) eqn:Hkey.
      * (* nothing inserted *)
        inversion Hstep; subst sv' vs; clear Hstep.
        assert (Hke : key_empty (kd sv) r' = true).
        { unfold key_empty. apply Nat.eqb_eq in Hkey. destruct (nth (keycol (kd sv)) r' []); [reflexivity|discriminate]. }
        assert (Htriv : trivial strict (kd sv) r' = true).
        { unfold ok_req in Hok. rewrite Heff, Hke in Hok. exact Hok. }
        assert (HSR : SR (set_cols sv (zip_app (cols sv) r')) w).
        { unfold SR; cbn [cols kd results inflight size set_cols]. repeat split; auto.
          - destruct (R4 H) as [X _]. rewrite <- X. apply zip_app_no_cells.
            destruct md; cbn in H; [discriminate| |]; exact Htriv.
          - apply R4; assumption.
          - apply R5; assumption.
          - apply R5; assumption. }
        cbn [apply_sevs imm_of] in Hap.
        destruct (in_store p (store g)); inversion Hap; subst st' es0; clear Hap;
          cbn [app run_mon smon_step imm_of]; rewrite Hw, Heff, Htriv.
        -- eexists. split; [reflexivity|]. unfold GS; cbn. eapply Forall2_upd_l; eauto.
        -- cbn [run_mon smon_step s_imm]. rewrite pid_eqb_refl. cbn.
           eexists. split; [reflexivity|]. unfold GS; cbn. eapply Forall2_upd_l; eauto.
      * (* accepted *)
        inversion Hstep; subst sv' vs; clear Hstep. cbn in Hap. inversion Hap; subst st' es0; clear Hap.
        assert (Hke : key_empty (kd sv) r' = false).
        { unfold key_empty. apply Nat.eqb_neq in Hkey. destruct (nth (keycol (kd sv)) r' []); [contradiction|reflexivity]. }
        cbn [app run_mon smon_step imm_of]. rewrite Hw, Heff, Hke.
        eexists. split; [reflexivity|]. unfold GS; cbn. apply Forall2_upd; [assumption|].
        unfold SR; cbn [cols kd results inflight size w_open w_infl]. repeat split; auto.
        -- now rewrite R1.
        -- intros X. destruct (results sv); discriminate.
        -- destruct (R4 H) as [X _]. rewrite expected_block_snoc. unfold append_eff. cbn [snd]. rewrite Heff, <- X. reflexivity.
        -- apply R4; assumption.
        -- apply Forall_app. split; [apply R5; assumption|]. constructor; [|constructor].
           unfold wf_w. cbn. unfold req_ok in Hq. rewrite H in Hq. exact Hq.
        -- apply R5; assumption.
    + (* stopped *)
      inversion Hstep; subst sv' vs; clear Hstep. cbn [apply_sevs imm_of] in Hap.
      destruct (in_store p (store g)); inversion Hap; subst st' es0; clear Hap; cbn [app run_mon smon_step imm_of]; rewrite Hw.
      * eexists. split; [reflexivity|]. unfold GS, set_svcs; cbn. rewrite (upd_same_id _ _ _ Hs). exact G.
      * cbn [run_mon smon_step s_imm]. rewrite pid_eqb_refl. cbn.
        eexists. split; [reflexivity|]. unfold GS, set_svcs; cbn. rewrite (upd_same_id _ _ _ Hs). exact G.
  - (* SPlan *)
    inversion Hstep; subst sv' vs; clear Hstep. cbn in Hap. inversion Hap; subst st' es0; clear Hap.
    exists m. split; [reflexivity|]. eapply flag_step; eauto.
  - (* SDial *)
    destruct (loop_ready sv && negb (client sv)); [|discriminate].
    inversion Hstep; subst sv' vs; clear Hstep. cbn in Hap. inversion Hap; subst st' es0; clear Hap.
    exists (reset m). split; [reflexivity|]. apply (flag_step g (reset m) s sv); auto.
  - (* SSwap *)
    destruct (loop_ready sv && client sv) eqn:Hready; [|discriminate].
    destruct (is_nil (results sv)) eqn:Hsz.
    + inversion Hstep; subst sv' vs; clear Hstep. cbn in Hap. inversion Hap; subst st' es0; clear Hap.
      exists m. split; [reflexivity|]. eapply flag_step; eauto.
    + inversion Hstep; subst sv' vs; clear Hstep. cbn in Hap. inversion Hap; subst st' es0; clear Hap.
      destruct Hr as (R1 & R2 & R3 & R4 & R5).
      assert (Hinf : inflight sv = None).
      { unfold loop_ready in Hready. destruct (inflight sv); [|reflexivity]. cbn in Hready.
        rewrite !andb_false_r in Hready. discriminate. }
      rewrite Hinf in R2.
      assert (Hne : results sv <> []).
      { intros X. rewrite X in Hsz. discriminate. }
      cbn [app run_mon smon_step]. rewrite Hw, R2, R1.
      destruct (results sv) as [|x xs] eqn:Eres; [contradiction|].
      eexists. split; [reflexivity|]. unfold GS; cbn. apply Forall2_upd; [assumption|].
      unfold SR; cbn [cols kd results inflight size w_open w_infl p_cols p_res p_sent]. repeat split; auto.
      * intros po Hpo. inversion Hpo; subst po. cbn. apply R4; assumption.
      * intros po Hpo. inversion Hpo; subst po. cbn. apply R5; assumption.
  - (* SSend *)
    destruct (inflight sv) as [po|] eqn:Hinf; [|discriminate].
    destruct (p_sent po) eqn:Hsent; [discriminate|].
    inversion Hstep; subst sv' vs; clear Hstep. cbn in Hap. inversion Hap; subst st' es0; clear Hap.
    destruct Hr as (R1 & R2 & R3 & R4 & R5). rewrite Hinf, Hsent in R2.
    assert (Hsend : send_ok md (kd sv) (p_res po) (p_cols po) = true).
    { unfold send_ok. destruct md eqn:Emd; [reflexivity| |].
      - destruct (R4 eq_refl) as [_ X]. rewrite (X _ Hinf). apply block_eqb_refl.
      - destruct (R4 eq_refl) as [_ X]. destruct (R5 eq_refl) as [_ Y].
        rewrite <- expected_block_table by (apply Y; assumption). rewrite (X _ Hinf). apply block_eqb_refl. }
    cbn [app run_mon smon_step]. rewrite Hw, R2, Hsend.
    eexists. split; [reflexivity|]. unfold GS; cbn. apply Forall2_upd; [assumption|].
    unfold SR; cbn [cols kd results inflight size w_open w_infl p_cols p_res p_sent]. repeat split; auto.
    * apply R4; assumption.
    * intros po' Hpo. inversion Hpo; subst po'. cbn. destruct (R4 H) as [_ X]. exact (X _ Hinf).
    * apply R5; assumption.
    * intros po' Hpo. inversion Hpo; subst po'. cbn. destruct (R5 H) as [_ X]. exact (X _ Hinf).
  - (* SDoReturn *)
    destruct (inflight sv) as [po|] eqn:Hinf; [|discriminate].
    destruct (p_sent po) eqn:Hsent; [|discriminate]. cbn [negb] in Hstep.
    inversion Hstep; subst sv' vs; clear Hstep.
    destruct Hr as (R1 & R2 & R3 & R4 & R5). rewrite Hinf, Hsent in R2.
    cbn [apply_sevs] in Hap.
    set (W := upd s {| w_open := w_open w; w_infl := None |} (s_w m)).
    destruct (smon_dones s (kd sv) ok W (p_res po) (store g) (p_res po) (Sub_refl _)) as (st1 & es1 & ws' & E1 & Run1).
    rewrite E1 in Hap. inversion Hap; subst st' es0; clear Hap.
    cbn [app run_mon smon_step]. rewrite Hw, R2. fold W. rewrite Run1.
    eexists. split; [reflexivity|]. unfold GS; cbn. apply Forall2_upd; [assumption|].
    unfold SR; cbn [cols kd results inflight size w_open w_infl]. repeat split; auto.
    * apply R4; assumption.
    * discriminate.
    * apply R5; assumption.
    * discriminate.
  - (* SPingFail *)
    destruct (is_none (inflight sv)); [|discriminate].
    inversion Hstep; subst sv' vs; clear Hstep. cbn in Hap. inversion Hap; subst st' es0; clear Hap.
    exists m. split; [reflexivity|]. eapply flag_step; eauto.
  - (* SStop *)
    inversion Hstep; subst sv' vs; clear Hstep. cbn in Hap. inversion Hap; subst st' es0; clear Hap.
    exists m. split; [reflexivity|]. eapply flag_step; eauto.
Qed.

Lemma GS_set_hs g m l : GS g m -> GS (set_hs g l) m.
Proof. auto. Qed.

Lemma gstep_GS g m a g' es :
  GS g m -> HQ req_ok g -> act_q req_ok a = true -> gstep g a = Some (g', es) ->
  exists m', run_mon mstep m es = Some m' /\ GS g' m'.
Proof.
  intros G H Hok Hstep. destruct a as [s a|s k n r sz|items|h|h i s|h i|h]; cbn in Hstep.
  - destruct (is_request a) eqn:Hreq; [discriminate|].
    eapply svc_act_GS; eauto. intros p r sz sv E. subst a. discriminate.
  - destruct (nth_error (svcs g) s) as [sv|] eqn:Hs; [|discriminate].
    destruct (kind_eqb (kd sv) k && rr_pick_ok g s) eqn:Hk; [|discriminate]. apply andb_true_iff in Hk as [Hk _]. apply kind_eqb_eq in Hk. subst k.
    eapply svc_act_GS; eauto. intros p r0 sz0 sv0 E Hs0. inversion E; subst r0. rewrite Hs in Hs0. inversion Hs0; subst sv0. exact Hok.
  - inversion Hstep; subst. exists m. split; [reflexivity|exact G].
  - destruct (nth_error (hs g) h) as [hd|]; [|discriminate].
    destruct (h_items hd) as [|[c|] rest]; [discriminate| |].
    + inversion Hstep; subst. exists m. split; [reflexivity|exact G].
    + destruct (h_answer hd); inversion Hstep; subst.
      * exists m. split; [reflexivity|exact G].
      * exists (reset m). split; [reflexivity|exact G].
  - destruct (nth_error (hs g) h) as [hd|] eqn:Hh; [|discriminate].
    destruct (nth_error (h_subs hd) i) as [sp|] eqn:Hi; [|discriminate].
    destruct (is_none (sp_result sp) && is_none (sp_cur sp) && N.ltb (sp_used sp) (attempts g) && may_take g s sp) eqn:Hg;
      [|discriminate].
    apply andb_true_iff in Hg as [_ Htake].
    destruct (svc_act g s _) as [[g1 es1]|] eqn:Hact; [|discriminate]. inversion Hstep; subst g' es; clear Hstep.
    destruct (svc_act_GS g m s _ g1 es1 G Hact) as (m' & R & G1).
    + intros p r sz sv E Hs. inversion E; subst p r sz. pose proof (may_take_kind _ _ _ _ Htake Hs) as Hk. rewrite Hk.
      destruct (H _ _ Hh) as [Hsubs _]. eapply Forall_nth_error in Hsubs; eauto.
    + exists m'. split; [assumption|exact G1].
  - destruct (nth_error (hs g) h) as [hd|]; [|discriminate].
    destruct (nth_error (h_subs hd) i) as [sp|]; [|discriminate].
    destruct (sp_cur sp); [|discriminate]. destruct (lookup_store _ _) as [[[? ?] ok]|]; [|discriminate].
    inversion Hstep; subst. exists m. split; [reflexivity|exact G].
  - destruct (nth_error (hs g) h) as [hd|]; [|discriminate].
    destruct (h_items hd); [|discriminate]. destruct (h_answer hd); [discriminate|].
    destruct (verdict _); [|discriminate]. inversion Hstep; subst.
    exists (reset m). split; [reflexivity|exact G].
Qed.

Lemma grun_GS tr : forall g m g' es,
  GS g m -> HQ req_ok g -> forallb (act_q req_ok) tr = true -> grun g tr = Some (g', es) ->
  exists m', run_mon mstep m es = Some m' /\ GS g' m'.
Proof.
  induction tr as [|a tr IH]; intros g m g' es G H Hok Hrun; cbn in Hrun.
  - inversion Hrun; subst. exists m. split; [reflexivity|assumption].
  - cbn in Hok. apply andb_true_iff in Hok as [Ha Htr].
    destruct (gstep g a) as [[g1 e1]|] eqn:Es; [|discriminate].
    destruct (grun g1 tr) as [[g2 e2]|] eqn:Er; [|discriminate]. inversion Hrun; subst g' es.
    destruct (gstep_GS _ _ _ _ _ G H Ha Es) as (m1 & R1 & G1).
    pose proof (HQ_step _ _ _ _ _ H Ha Es) as H1.
    destruct (IH _ _ _ _ G1 H1 Htr Er) as (m2 & R2 & G2).
    exists m2. split; [|assumption]. rewrite run_mon_app, R1. exact R2.
Qed.

Lemma GS_init cfg n : GS (ginit cfg n) (smon_init (length cfg)).
Proof.
  unfold GS; cbn. induction cfg as [|c cfg IH]; cbn; constructor; [|exact IH].
  unfold SR; cbn. repeat split; auto; try discriminate.
Qed.

Theorem spec_sound_gen cfg n tr g es :
  forallb (act_q req_ok) tr = true -> grun (ginit cfg n) tr = Some (g, es) ->
  run_mon mstep (smon_init (length cfg)) es <> None.
Proof.
  intros Hok Hrun.
  destruct (grun_GS tr _ _ _ _ (GS_init cfg n) (HQ_init req_ok cfg n) Hok Hrun) as (m' & R & _). congruence.
Qed.

End SPEC.

Lemma act_q_lenient tr : forallb (act_q (req_ok MLenient)) tr = true.
Proof.
  apply forallb_forall. intros a _. destruct a; cbn; auto.
  apply forallb_forall. intros it _. destruct it; cbn; auto. apply forallb_forall. auto.
Qed.
Lemma act_q_clean tr : forallb (act_ok true) tr = true -> forallb (act_q (req_ok MClean)) tr = true.
Proof. intros H. exact H. Qed.
Lemma act_q_table tr : forallb act_wf tr = true -> forallb (act_q (req_ok MTable)) tr = true.
Proof. intros H. exact H. Qed.

(* ---------------------------------------------------------------- what "is the table of rids" means *)
Lemma nth_table_gen rids : forall n start j, (j < n)%nat ->
  nth j (map (fun k => map (fun rid : N => (rid, k)) rids) (seq start n)) [] = map (fun rid => (rid, (start + j)%nat)) rids.
Proof.
  induction n as [|n IH]; intros start j Hj; [lia|]. destruct j as [|j]; cbn [seq map nth].
  - now rewrite Nat.add_0_r.
  - rewrite IH by lia. now rewrite Nat.add_succ_comm.
Qed.
Lemma table_of_shape n rids :
  (forall c, In c (table_of n rids) -> length c = length rids) /\
  (forall j i, (j < n)%nat -> (i < length rids)%nat ->
     nth i (nth j (table_of n rids) []) (0%N, 0%nat) = (nth i rids 0%N, j)).
Proof.
  split.
  - intros c Hc. unfold table_of in Hc. apply in_map_iff in Hc as (j & <- & _). apply map_length.
  - intros j i Hj Hi. unfold table_of. rewrite nth_table_gen by assumption. cbn [plus].
    rewrite (nth_indep _ _ ((fun rid : N => (rid, j)) 0%N)) by (rewrite map_length; assumption).
    exact (map_nth (fun rid : N => (rid, j)) rids 0%N i).
Qed.

(* non-vacuity: a script with a failing and a succeeding INSERT, a retry and an answering handler is a trace of the
   model, all of its requests are well formed, and (necessarily) all monitors accept it *)
Definition demo_cfg : list (kind * nat * Z) := [(KSamples, 0%nat, 40%Z); (KSeries, 1%nat, 0%Z)].
Definition demo_trace : list gact :=
  [ GNewHandler [IChunk [(1%nat, KSeries, table_of 4 [5%N], 20%Z); (0%nat, KSamples, table_of 5 [1%N; 2%N], 30%Z)]];
    GItem 0; GSubReq 0 0 1; GSubReq 0 1 0;
    GEnvReq 0 KSamples 9%N (table_of 5 [3%N]) 15%Z;                 (* pushes the samples worker over maxQueueSize *)
    GSvc 0 (SDial true); GSvc 0 SSwap; GSvc 0 SSend; GSvc 0 (SDoReturn false);    (* the INSERT fails *)
    GSubGet 0 1; GSubReq 0 1 0;                                      (* second attempt of the samples sub-push *)
    GSvc 1 SPlan; GSvc 1 (SDial true); GSvc 1 SSwap; GSvc 1 SSend; GSvc 1 (SDoReturn true); GSubGet 0 0;
    GSvc 0 SPlan; GSvc 0 (SDial true); GSvc 0 SSwap; GSvc 0 SSend; GSvc 0 (SDoReturn true); GSubGet 0 1;
    GAnswer 0 ].
Example demo_trace_runs :
  forallb act_wf demo_trace = true /\
  exists g es, grun (ginit demo_cfg 2) demo_trace = Some (g, es) /\
    In (EAnswer 0 [(KSeries, table_of 4 [5%N]); (KSamples, table_of 5 [1%N; 2%N])] true) es /\
    is_some_b (run_mon (amon_step true) (amon_init 2) es) = true /\
    is_some_b (run_mon (smon_step MTable) (smon_init 2) es) = true.
Proof.
  split; [vm_compute; reflexivity|].
  destruct (grun (ginit demo_cfg 2) demo_trace) as [[g es]|] eqn:E; [|vm_compute in E; discriminate].
  exists g, es. split; [reflexivity|]. vm_compute in E. inversion E; subst. clear E.
  split; [|split; vm_compute; reflexivity].
  repeat (first [left; reflexivity|right]).
Qed.
