(* C14 proofs: a Process call never changes the plan object (induction over the planner tree);
   the root of a plan ignores whatever state earlier executions left; hence every re-execution
   yields the statement of a never executed plan. *)
From Coq Require Import List ZArith NArith String Ascii Bool Lia Permutation.
From Qryn Require Import lib.Strs model.Sql model.SqlRender model.Logql model.LogqlPlan model.LogqlCases model.Replan.
Import ListNotations.
Open Scope string_scope.

(* ---------------------------------------------------------------- process never mutates the plan *)
(* one step of case analysis on the scrutinee of a hypothesis built from `bind`s and matches *)
Ltac pp_step H :=
  match type of H with
  | context [bind (process ?p ?c ?s) _] =>
      let E := fresh "E" in
      destruct (process p c s) as [[[? ?] ?]|] eqn:E; cbn [bind] in H; [|discriminate H]
  | context [bind ?x _] =>
      destruct x eqn:?; cbn [bind] in H; [|discriminate H]
  | None = Some _ => discriminate H
  | (if ?b then _ else _) = Some _ => destruct b eqn:?
  | match ?x with _ => _ end = Some _ => destruct x eqn:?
  end.
Ltac pp_use_ih :=
  repeat match goal with
  | IH : (forall c st q st' p', process ?m c st = Some (q, st', p') -> p' = ?m),
    E : process ?m _ _ = Some (_, _, ?m') |- _ =>
      let X := fresh "X" in pose proof (IH _ _ _ _ _ E) as X; clear E; subst m'
  end.
Ltac pp_finish H := inversion H; subst; reflexivity.

Lemma with_connector_preserves :
  forall mainp withp c st fn r st' m' w',
    (forall c st q st' p', process mainp c st = Some (q, st', p') -> p' = mainp) ->
    (forall c st q st' p', process withp c st = Some (q, st', p') -> p' = withp) ->
    with_connector process mainp withp c st fn = Some (r, st', m', w') -> m' = mainp /\ w' = withp.
Proof.
  intros mainp withp c st fn r st' m' w' IHm IHw H. unfold with_connector in H.
  destruct (process mainp c st) as [[[q1 s1] p1]|] eqn:E1; cbn [bind] in H; [|discriminate H].
  apply IHm in E1. subst p1.
  destruct (fp_cache s1) as [w|].
  - inversion H; subst; split; reflexivity.
  - destruct (process withp c s1) as [[[q2 s2] p2]|] eqn:E2; cbn [bind] in H; [|discriminate H].
    apply IHw in E2. subst p2. inversion H; subst; split; reflexivity.
Qed.

Ltac pp_connector H :=
  match type of H with
  | context [bind (with_connector process ?m ?w ?c ?s ?fn) _] =>
      let E := fresh "E" in
      destruct (with_connector process m w c s fn) as [[[[? ?] ?] ?]|] eqn:E; cbn [bind] in H; [|discriminate H];
      apply with_connector_preserves in E; [destruct E; subst | assumption | assumption]
  end.
Ltac pp_solve H :=
  cbn [process] in H;
  repeat (first [pp_connector H | pp_step H]; pp_use_ih);
  try (unfold next_id in H; cbn [fst snd] in H);
  repeat (pp_step H; pp_use_ih);
  pp_finish H.

Lemma process_preserves_plan :
  forall p c st q st' p', process p c st = Some (q, st', p') -> p' = p.
Proof.
  induction p; intros c st q st' p' H; pp_solve H.
Qed.

(* ---------------------------------------------------------------- the root ignores the incoming caches *)
Lemma clear_new_ctx st : clear_caches (new_ctx st) = pst0.
Proof. reflexivity. Qed.
Lemma clear_at_pid st : clear_caches st = at_pid (pid st).
Proof. reflexivity. Qed.

Lemma root_ignores_caches p c st :
  is_root p = true -> process p c st = process p c (clear_caches st).
Proof.
  destruct p; cbn [is_root]; intro H; try discriminate H. cbn [process]. reflexivity.
Qed.

Lemma root_new_ctx p c st : is_root p = true -> process p c (new_ctx st) = process p c pst0.
Proof.
  intro H. rewrite (root_ignores_caches p c (new_ctx st) H), (root_ignores_caches p c pst0 H). reflexivity.
Qed.

Lemma plan_log_is_root sel fin p : plan_log sel fin = Some p -> is_root p = true.
Proof.
  unfold plan_log. destruct (plan_spl _ _ _ _ _ _ _); intro H; inversion H; reflexivity.
Qed.

Lemma plan_metric_is_root s fin p : plan_metric s fin = Some p -> is_root p = true.
Proof.
  unfold plan_metric. intro H.
  match type of H with bind ?x _ = _ => destruct x as [[[[cur lj] li] fp]|] end; cbn [bind] in H; [|discriminate H].
  inversion H. reflexivity.
Qed.
Lemma plan_script_is_root s fin p : plan_script s fin = Some p -> is_root p = true.
Proof.
  destruct s; cbn [plan_script]; intro H;
    first [exact (plan_log_is_root _ _ _ H) | exact (plan_metric_is_root _ _ _ H) | discriminate H].
Qed.

(* ---------------------------------------------------------------- live tail *)
Lemma tail_is_fresh p c :
  is_root p = true -> forall ws st, run_tail p c ws st = fresh_run p c ws.
Proof.
  intros R ws. induction ws as [|w r IH]; intro st; cbn [run_tail fresh_run]; [reflexivity|].
  unfold fresh_sql. rewrite (root_new_ctx p (with_window c w) st R).
  destruct (process p (with_window c w) pst0) as [[[q st1] p1]|] eqn:E; [|reflexivity].
  apply process_preserves_plan in E. subst p1. rewrite IH. reflexivity.
Qed.

(* ---------------------------------------------------------------- one context, window moved *)
Lemma reuse_is_fresh_at_counter p :
  is_root p = true -> forall k c st, run_plan k p c st = run_plan_ref k p c (pid st).
Proof.
  intros R k. induction k as [|k IH]; intros c st; cbn [run_plan run_plan_ref]; [reflexivity|].
  rewrite (root_ignores_caches p c st R), clear_at_pid.
  destruct (process p c (at_pid (pid st))) as [[[q st1] p1]|] eqn:E; [|reflexivity].
  apply process_preserves_plan in E. subst p1. rewrite IH. reflexivity.
Qed.

(* ---------------------------------------------------------------- the reset is necessary *)
Definition witness_plan : option planner := plan_log witness_sel true.
Lemma witness_plans : exists p, witness_plan = Some p /\ is_root p = true.
Proof.
  destruct witness_plan as [p|] eqn:E; [|vm_compute in E; discriminate E].
  exists p. split; [reflexivity|]. exact (plan_log_is_root _ _ _ E).
Qed.
(* below the root (= the whole plan before 9757427) the second execution under a new context is
   a different statement, although the window is the only thing that changed *)
Lemma below_root_differs :
  match witness_plan with
  | None => False
  | Some p =>
    let m := below_root p in
    ostring_eqb (second_run_text m witness_ctx witness_w1 witness_w2) (fresh_text m witness_ctx witness_w2) = false
    /\ ostring_eqb (second_run_text p witness_ctx witness_w1 witness_w2) (fresh_text p witness_ctx witness_w2) = true
    /\ second_run_text m witness_ctx witness_w1 witness_w2 <> None
  end.
Proof. vm_compute. split; [reflexivity|split; [reflexivity|discriminate]]. Qed.

(* ---------------------------------------------------------------- date bound, IN lists, SETTINGS *)
Lemma from_day_monotone a b : (a <= b)%Z -> (from_day a <= from_day b)%Z.
Proof. intro H. unfold from_day. apply Z.div_le_mono; lia. Qed.

Lemma in_sem_perm {V} (veq : V -> V -> bool) (v : V) l1 l2 :
  Permutation l1 l2 -> in_sem veq v l1 = in_sem veq v l2.
Proof.
  unfold in_sem. induction 1 as [|x l l' _ IH|x y l|l l' l'' _ IH1 _ IH2]; cbn [existsb].
  - reflexivity.
  - rewrite IH. reflexivity.
  - destruct (veq v x), (veq v y); reflexivity.
  - rewrite IH1. exact IH2.
Qed.

(* the SETTINGS clause is a function of the iteration order: with at most one entry there is one
   order, with two different entries there are two texts *)
Lemma settings_text_one kv kv' :
  Permutation kv kv' -> (List.length kv <= 1)%nat -> settings_text kv = settings_text kv'.
Proof.
  intros P L. destruct kv as [|a [|b r]].
  - apply Permutation_nil in P. subst. reflexivity.
  - apply Permutation_length_1_inv in P. subst. reflexivity.
  - cbn [List.length] in L. lia.
Qed.
Lemma settings_text_two_orders :
  settings_text [("a", "1"); ("b", "2")] <> settings_text [("b", "2"); ("a", "1")].
Proof. vm_compute. discriminate. Qed.

(* every select a planner returns has no SETTINGS (top level): no planner sets one *)
Lemma ss_set_distinct b s : s_settings (set_distinct b s) = s_settings s. Proof. reflexivity. Qed.
Lemma ss_set_cols x s : s_settings (set_cols x s) = s_settings s. Proof. reflexivity. Qed.
Lemma ss_set_from x s : s_settings (set_from x s) = s_settings s. Proof. reflexivity. Qed.
Lemma ss_set_where x s : s_settings (set_where x s) = s_settings s. Proof. reflexivity. Qed.
Lemma ss_set_prewhere x s : s_settings (set_prewhere x s) = s_settings s. Proof. reflexivity. Qed.
Lemma ss_set_having x s : s_settings (set_having x s) = s_settings s. Proof. reflexivity. Qed.
Lemma ss_set_groupby x s : s_settings (set_groupby x s) = s_settings s. Proof. reflexivity. Qed.
Lemma ss_set_orderby x s : s_settings (set_orderby x s) = s_settings s. Proof. reflexivity. Qed.
Lemma ss_set_limit x s : s_settings (set_limit x s) = s_settings s. Proof. reflexivity. Qed.
Lemma ss_set_offset x s : s_settings (set_offset x s) = s_settings s. Proof. reflexivity. Qed.
Lemma ss_set_withs x s : s_settings (set_withs x s) = s_settings s. Proof. reflexivity. Qed.
Lemma ss_set_joins x s : s_settings (set_joins x s) = s_settings s. Proof. reflexivity. Qed.
Lemma ss_set_unions x s : s_settings (set_unions x s) = s_settings s. Proof. reflexivity. Qed.
Lemma ss_and_where x s : s_settings (and_where x s) = s_settings s. Proof. reflexivity. Qed.
Lemma ss_or_where x s : s_settings (or_where x s) = s_settings s. Proof. reflexivity. Qed.
Lemma ss_and_having x s : s_settings (and_having x s) = s_settings s. Proof. reflexivity. Qed.
Lemma ss_and_prewhere x s : s_settings (and_prewhere x s) = s_settings s.
Proof. unfold and_prewhere. destruct (s_prewhere s) as [[]|]; try reflexivity. destruct fn; reflexivity. Qed.
Lemma ss_add_withs x s : s_settings (add_withs x s) = s_settings s. Proof. reflexivity. Qed.
Lemma ss_with_ x s : s_settings (with_ x s) = s_settings s. Proof. reflexivity. Qed.
Lemma ss_drop_with x s : s_settings (drop_with x s) = s_settings s. Proof. reflexivity. Qed.
Lemma ss_add_join x s : s_settings (add_join x s) = s_settings s. Proof. reflexivity. Qed.
Lemma ss_empty : s_settings empty_select = []. Proof. reflexivity. Qed.
#[export] Hint Rewrite ss_set_distinct ss_set_cols ss_set_from ss_set_where ss_set_prewhere ss_set_having ss_set_groupby
  ss_set_orderby ss_set_limit ss_set_offset ss_set_withs ss_set_joins ss_set_unions ss_and_where ss_or_where ss_and_having
  ss_and_prewhere ss_add_withs ss_with_ ss_drop_with ss_add_join ss_empty : ss.

Lemma with_connector_no_settings :
  forall mainp withp c st fn r st' m' w',
    (forall c st q st' p', process mainp c st = Some (q, st', p') -> s_settings q = []) ->
    (forall q w, s_settings (fn q w) = s_settings q) ->
    with_connector process mainp withp c st fn = Some (r, st', m', w') -> s_settings r = [].
Proof.
  intros mainp withp c st fn r st' m' w' IHm Hfn H. unfold with_connector in H.
  destruct (process mainp c st) as [[[q1 s1] p1]|] eqn:E1; cbn [bind] in H; [|discriminate H].
  apply IHm in E1.
  destruct (fp_cache s1) as [w|].
  - inversion H; subst. rewrite Hfn. autorewrite with ss. exact E1.
  - destruct (process withp c s1) as [[[q2 s2] p2]|] eqn:E2; cbn [bind] in H; [|discriminate H].
    inversion H; subst. rewrite Hfn. autorewrite with ss. exact E1.
Qed.

Ltac ns_use_ih :=
  repeat match goal with
  | IH : (forall c st q st' p', process ?m c st = Some (q, st', p') -> s_settings q = []),
    E : process ?m _ _ = Some (_, _, _) |- _ => apply IH in E
  end.
Ltac ns_connector H :=
  match type of H with
  | context [bind (with_connector process ?m ?w ?c ?s ?fn) _] =>
      let E := fresh "E" in
      destruct (with_connector process m w c s fn) as [[[[? ?] ?] ?]|] eqn:E; cbn [bind] in H; [|discriminate H];
      apply with_connector_no_settings in E;
      [| assumption | intros; autorewrite with ss; reflexivity]
  end.
Ltac ns_solve H :=
  cbn [process] in H;
  repeat (first [ns_connector H | pp_step H]; ns_use_ih);
  try (unfold next_id in H; cbn [fst snd] in H);
  repeat (pp_step H; ns_use_ih);
  inversion H; subst; autorewrite with ss; try reflexivity; try assumption;
  repeat match goal with |- context [if ?b then _ else _] => destruct b end; autorewrite with ss; try reflexivity; try assumption.

Lemma process_no_settings :
  forall p c st q st' p', process p c st = Some (q, st', p') -> s_settings q = [].
Proof.
  induction p; intros c st q st' p' H; ns_solve H.
Qed.


(* ---------------------------------------------------------------- plans that draw no id: the counter is irrelevant *)
Lemma with_connector_lift mainp withp c st fn n :
  (forall c st n, process mainp c (add_pid n st) = lift_pid n (process mainp c st)) ->
  (forall c st n, process withp c (add_pid n st) = lift_pid n (process withp c st)) ->
  with_connector process mainp withp c (add_pid n st) fn =
  match with_connector process mainp withp c st fn with
  | Some (r, st', m', w') => Some (r, add_pid n st', m', w')
  | None => None
  end.
Proof.
  intros IHm IHw. unfold with_connector. rewrite IHm.
  destruct (process mainp c st) as [[[q1 s1] p1]|]; cbn [lift_pid bind]; [|reflexivity].
  change (fp_cache (add_pid n s1)) with (fp_cache s1). destruct (fp_cache s1) as [w|] eqn:E; [reflexivity|].
  rewrite IHw.
  destruct (process withp c s1) as [[[q2 s2] p2]|]; cbn [lift_pid bind]; reflexivity.
Qed.

Ltac split_orb H :=
  repeat match type of H with
  | (_ || _)%bool = false => let A := fresh "Hd" in let B := fresh "Hd" in apply orb_false_elim in H; destruct H as [A B]; try split_orb A; try split_orb B
  end.

Lemma no_ids_pid_irrelevant : forall p, draws_ids p = false ->
  forall c st n, process p c (add_pid n st) = lift_pid n (process p c st).
Proof.
  induction p; cbn [draws_ids]; intros Hd c st n; try discriminate Hd.
  all: try (apply orb_false_elim in Hd; destruct Hd as [Hd1 Hd2]).
  all: try (apply orb_false_elim in Hd1; destruct Hd1 as [Hd1 Hd3]).
  all: cbn [process].
  all: try reflexivity.
  all: repeat match goal with
       | IH : draws_ids ?m = false -> _, H : draws_ids ?m = false |- _ => specialize (IH H)
       end.
  all: try (rewrite with_connector_lift by assumption;
            match goal with |- context [with_connector process ?a ?b ?c ?s ?f] => destruct (with_connector process a b c s f) as [[[[? ?] ?] ?]|] end;
            cbn [bind lift_pid]; [|reflexivity]).
  all: try match goal with |- context [clear_caches (add_pid ?k ?s)] => change (clear_caches (add_pid k s)) with (add_pid k (clear_caches s)) end.
  all: repeat match goal with
       | IH : (forall c st n, process ?m c (add_pid n st) = _) |- context [process ?m ?c (add_pid ?n ?s)] => rewrite (IH c s n)
       end.
  all: repeat first
       [ match goal with |- context [process ?m ?c ?s] => destruct (process m c s) as [[[? ?] ?]|]; cbn [bind lift_pid] end
       | match goal with |- context [bind ?x _] => destruct x; cbn [bind lift_pid] end
       | match goal with |- context [match ?x with _ => _ end] => destruct x; cbn [bind lift_pid] end ].
  all: try reflexivity.
Qed.

Lemma advance_is_window c : advance c = with_window c ((c_from_ns c + 1000000000)%Z, (c_to_ns c + 1000000000)%Z).
Proof. reflexivity. Qed.

Lemma reuse_is_fresh_exact p :
  is_root p = true -> draws_ids p = false -> forall k c st, run_plan k p c st = fresh_seq k p c.
Proof.
  intros R D k. induction k as [|k IH]; intros c st; cbn [run_plan fresh_seq]; [reflexivity|].
  rewrite (root_ignores_caches p c st R), clear_at_pid.
  change (at_pid (pid st)) with (add_pid (pid st) pst0).
  rewrite (no_ids_pid_irrelevant p D c pst0 (pid st)).
  destruct (process p c pst0) as [[[q st1] p1]|] eqn:E; cbn [lift_pid]; [|reflexivity].
  apply process_preserves_plan in E. subst p1. rewrite IH. reflexivity.
Qed.

(* without the guard the statements differ (in the alias numbers): the witness plan, two executions *)
Lemma reuse_exact_needs_guard :
  match witness_plan with
  | None => False
  | Some p => draws_ids p = true /\
              olist_eqb (run_plan 2 p witness_ctx pst0) (fresh_seq 2 p witness_ctx) = false /\
              olist_eqb (run_plan 1 p witness_ctx pst0) (fresh_seq 1 p witness_ctx) = true
  end.
Proof. vm_compute. split; [reflexivity|split; reflexivity]. Qed.

(* a plan that meets the guard: {a="b"} |= "x" | json x="x" is planned without an id-drawing planner *)
Definition noid_sel : strsel :=
  {| sel_matchers := [{| m_name := "a"; m_op := MEq; m_val := "b" |}];
     sel_pipeline := [PLineFilter LFContains "x" None; PParser PJson [{| pp_label := "x"; pp_val := "x"; pp_path := Some ["x"] |}]] |}.
Lemma noid_plan_meets_guard :
  match plan_log noid_sel true with
  | Some p => is_root p = true /\ draws_ids p = false /\ fresh_seq 2 p witness_ctx <> [None]
  | None => False
  end.
Proof. vm_compute. split; [reflexivity|split; [reflexivity|discriminate]]. Qed.

(* ---------------------------------------------------------------- what a Process call can depend on *)
(* `process` is a function: its result is determined by its three arguments, and the state argument has
   exactly three components *)
Lemma process_inputs p c st st' :
  fp_cache st = fp_cache st' -> labels_cache st = labels_cache st' -> pid st = pid st' ->
  process p c st = process p c st'.
Proof. destruct st, st'; cbn; intros -> -> ->. reflexivity. Qed.
Lemma root_inputs p c st st' :
  is_root p = true -> pid st = pid st' -> process p c st = process p c st'.
Proof.
  intros R E. rewrite (root_ignores_caches p c st R), (root_ignores_caches p c st' R), !clear_at_pid, E. reflexivity.
Qed.
