(* Proofs about model/TwoReaders.v: the SQL reading and the Go reading of a label document agree on every name exactly
   outside the class [ambiguous]; documents with pairwise distinct names are outside it. *)
From Coq Require Import List String Bool.
From Qryn Require Import model.TwoReaders proofs.LabelDocReaderProofs.
From Qryn Require model.SqlEval.
Import ListNotations.
Open Scope string_scope.

Lemma go_last_absent m k : ~ In k (map fst m) -> go_last m k = None.
Proof.
  induction m as [|kv m IH]; intros Hn; [reflexivity|]. cbn [go_last].
  rewrite IH by (intros H; apply Hn; now right).
  destruct (String.eqb (fst kv) k) eqn:E; [|reflexivity].
  apply String.eqb_eq in E. exfalso. apply Hn. now left.
Qed.

Lemma readings_agree_outside_class m : ambiguous m = false -> forall k, SqlEval.label_of m k = go_read m k.
Proof.
  intros Ha k. destruct (in_dec string_dec k (map fst m)) as [Hin|Hn].
  - apply in_map_iff in Hin. destruct Hin as [kv [<- Hkv]].
    unfold ambiguous in Ha.
    assert (H : negb (String.eqb (SqlEval.label_of m (fst kv)) (go_read m (fst kv))) = false).
    { destruct (negb (String.eqb (SqlEval.label_of m (fst kv)) (go_read m (fst kv)))) eqn:E; [|reflexivity].
      assert (Hex : existsb (fun kv : string * string => negb (String.eqb (SqlEval.label_of m (fst kv)) (go_read m (fst kv)))) m = true)
        by (apply existsb_exists; exists kv; split; assumption).
      rewrite Ha in Hex. discriminate Hex. }
    apply negb_false_iff in H. now apply String.eqb_eq in H.
  - rewrite (label_of_absent m k Hn). unfold go_read. now rewrite go_last_absent.
Qed.

Lemma readings_differ_inside_class m : ambiguous m = true -> exists k, In k (map fst m) /\ SqlEval.label_of m k <> go_read m k.
Proof.
  intros Ha. unfold ambiguous in Ha. apply existsb_exists in Ha. destruct Ha as [kv [Hin H]].
  exists (fst kv). split; [now apply in_map|]. apply negb_true_iff in H. now apply String.eqb_neq in H.
Qed.

Lemma distinct_names_agree m : NoDup (map fst m) -> forall k, SqlEval.label_of m k = go_read m k.
Proof.
  induction m as [|kv m IH]; intros Hnd k; [reflexivity|].
  cbn [map] in Hnd. inversion Hnd as [|? ? Hnot Hnd']; subst.
  unfold go_read. cbn [SqlEval.label_of go_last].
  destruct (String.eqb (fst kv) k) eqn:E.
  - apply String.eqb_eq in E. subst k. now rewrite (go_last_absent m (fst kv) Hnot).
  - rewrite (IH Hnd' k). unfold go_read. now destruct (go_last m k).
Qed.

Lemma distinct_names_unambiguous m : NoDup (map fst m) -> ambiguous m = false.
Proof.
  intros Hnd. unfold ambiguous. destruct (existsb _ m) eqn:E; [|reflexivity].
  apply existsb_exists in E. destruct E as [kv [_ H]]. apply negb_true_iff in H.
  rewrite (distinct_names_agree m Hnd) in H. now rewrite String.eqb_refl in H.
Qed.

(* Datadog logs: ddtags "service:x,env:prod" and the field service = "y" *)
Definition w_dd_repeated : list (string * string) := [("service", "x"); ("env", "prod"); ("service", "y"); ("type", "datadog")].
Lemma w_rep_two_readings :
  ambiguous w_dd_repeated = true /\ SqlEval.label_of w_dd_repeated "service" = "x" /\ go_read w_dd_repeated "service" = "y" /\
  ambiguous [("service", "x"); ("env", "prod"); ("service", "x")] = false.
Proof. vm_compute. repeat split; reflexivity. Qed.
