(* C02: where the freshness hypothesis of blocks_have_distinct_rows comes from.  fresh_run own asks for an owner function; if
   the rows submitted by the pushes of a trace are named pairwise differently (no direct Request calls), the owner function
   read off the trace works: own rid = (push, position of the sub-request) that holds rid.  For the pushes the parsers produce
   the rows of ONE push are pairwise different by construction (proofs/IngestBridgeRows.v); that different pushes are named
   apart is what remains of the hypothesis. *)
From Coq Require Import List NArith ZArith Bool Lia.
From Qryn Require Import model.Ingest model.PushHandler model.IngestSpec model.IngestFresh proofs.IngestBase proofs.IngestAck
  proofs.IngestSpecProofs proofs.IngestHandler proofs.IngestPromises proofs.IngestConfirm proofs.IngestConfirmInv.
Import ListNotations.

Fixpoint chunk_owners (h i : nat) (c : list (nat * kind * req * Z)) : list (N * okey) :=
  match c with
  | [] => []
  | x :: t => map (fun rid => (rid, KSub h i)) (rids_of (snd (fst x))) ++ chunk_owners h (S i) t
  end.
Fixpoint items_owners (h i : nat) (items : list item) : list (N * okey) :=
  match items with
  | [] => []
  | IChunk c :: t => chunk_owners h i c ++ items_owners h (i + length c) t
  | IError :: _ => []                            (* doParse returns: the rest is dropped *)
  end.
Fixpoint trace_owners (h : nat) (tr : list gact) : list (N * okey) :=
  match tr with
  | [] => []
  | GNewHandler items :: t => items_owners h 0 items ++ trace_owners (S h) t
  | _ :: t => trace_owners h t
  end.
Fixpoint own_find (x : N) (t : list (N * okey)) : okey :=
  match t with [] => KEnv 0 | (y, k) :: r => if N.eqb x y then k else own_find x r end.
(* the owner function read off the trace, and the rows the pushes of the trace submit, in order *)
Definition own_of (tr : list gact) : N -> okey := fun x => own_find x (trace_owners 0 tr).
Definition trace_rids (tr : list gact) : list N := map fst (trace_owners 0 tr).
Definition no_env (a : gact) : bool := match a with GEnvReq _ _ _ _ _ => false | _ => true end.

Lemma own_find_in t : NoDup (map fst t) -> forall x k, In (x, k) t -> own_find x t = k.
Proof.
  induction t as [|[y k0] t IH]; intros Nd x k Hin; [destruct Hin|]. cbn [map fst] in Nd. inversion Nd as [|? ? Hy Nd']; subst.
  cbn [own_find]. destruct Hin as [E|Hin].
  - inversion E; subst. now rewrite N.eqb_refl.
  - destruct (N.eqb x y) eqn:Exy; [|exact (IH Nd' _ _ Hin)]. apply N.eqb_eq in Exy. subst y. exfalso. apply Hy.
    apply in_map_iff. exists (x, k). auto.
Qed.

Lemma okey_eqb_refl k : okey_eqb k k = true.
Proof. destruct k; cbn; rewrite ?N.eqb_refl, ?Nat.eqb_refl; reflexivity. Qed.
Lemma N_eqb_iff (x y : N) : N.eqb x y = true <-> x = y.
Proof. apply N.eqb_eq. Qed.

Lemma nodup_app_l {A} (a b : list A) : NoDup (a ++ b) -> NoDup a.
Proof. induction a as [|x a IH]; cbn; intros H; [constructor|]. inversion H; subst. constructor; [rewrite in_app_iff in *; tauto|auto]. Qed.
Lemma nodup_app_r {A} (a b : list A) : NoDup (a ++ b) -> NoDup b.
Proof. induction a as [|x a IH]; cbn; intros H; [exact H|]. inversion H; subst. auto. Qed.

Lemma chunk_owned_ok own h c : forall i, (forall rid k, In (rid, k) (chunk_owners h i c) -> own rid = k) ->
  NoDup (map fst (chunk_owners h i c)) -> chunk_owned own h i c = true.
Proof.
  induction c as [|x c IH]; intros i Ho Nd; [reflexivity|]. cbn [chunk_owned chunk_owners] in *.
  rewrite map_app, map_map in Nd. cbn [fst] in Nd. rewrite map_id in Nd.
  apply andb_true_iff. split.
  - unfold req_owned. apply andb_true_iff. split.
    + apply forallb_forall. intros rid Hr. rewrite (Ho rid (KSub h i)); [apply okey_eqb_refl|].
      apply in_app_iff. left. apply in_map_iff. exists rid. auto.
    + apply (nodupb_spec N.eqb _ N_eqb_iff). exact (nodup_app_l _ _ Nd).
  - apply IH; [|exact (nodup_app_r _ _ Nd)]. intros rid k Hin. apply Ho. apply in_app_iff. now right.
Qed.
Lemma items_owned_ok own h items : forall i, (forall rid k, In (rid, k) (items_owners h i items) -> own rid = k) ->
  NoDup (map fst (items_owners h i items)) -> items_owned own h i items = true.
Proof.
  induction items as [|[c|] t IH]; intros i Ho Nd; [reflexivity| |reflexivity]. cbn [items_owned items_owners] in *.
  rewrite map_app in Nd. apply andb_true_iff. split.
  - apply chunk_owned_ok; [|exact (nodup_app_l _ _ Nd)]. intros rid k Hin. apply Ho. apply in_app_iff. now left.
  - apply IH; [|exact (nodup_app_r _ _ Nd)]. intros rid k Hin. apply Ho. apply in_app_iff. now right.
Qed.

Lemma gstep_hs_len g a g' es : gstep g a = Some (g', es) ->
  length (hs g') = match a with GNewHandler _ => S (length (hs g)) | _ => length (hs g) end.
Proof.
  intros G. destruct (gstep_hs _ _ _ _ G) as [[E _]|[(items & -> & E & _)|(h & hd & hd' & Hh & E & S)]].
  - rewrite E. destruct a; try reflexivity. cbn in G. inversion G; subst. cbn in E. apply (f_equal (@length _)) in E.
    rewrite app_length in E. cbn in E. lia.
  - rewrite E, app_length. cbn. lia.
  - rewrite E, length_upd. destruct S as [-> _ _ _| ? ? ? ? -> _ _ _ _ _| ? ? ? ? -> _ _ _ _ _|? -> _ _ _ _ _]; reflexivity.
Qed.

Lemma fresh_gen tr : forall g pre, forallb no_env tr = true ->
  NoDup (map fst (pre ++ trace_owners (length (hs g)) tr)) ->
  fresh_run (fun x => own_find x (pre ++ trace_owners (length (hs g)) tr)) g tr = true.
Proof.
  induction tr as [|a tr IH]; intros g pre Ne Nd; [reflexivity|]. cbn [forallb] in Ne. apply andb_true_iff in Ne as [Na Nt].
  cbn [fresh_run]. apply andb_true_iff. split.
  - destruct a as [s a|s k n r sz|items|h|h i s|h i|h]; cbn [step_fresh]; try reflexivity; [discriminate|].
    cbn [trace_owners] in *. apply items_owned_ok.
    + intros rid k Hin. apply own_find_in; [exact Nd|]. apply in_app_iff. right. apply in_app_iff. now left.
    + rewrite map_app in Nd. apply nodup_app_r in Nd. rewrite map_app in Nd. exact (nodup_app_l _ _ Nd).
  - destruct (gstep g a) as [[g' es]|] eqn:G; [|reflexivity]. pose proof (gstep_hs_len _ _ _ _ G) as L.
    destruct a as [s a|s k n r sz|items|h|h i s|h i|h]; cbn [trace_owners] in *;
      try (rewrite <- L; apply IH; [exact Nt|rewrite L; exact Nd]).
    replace (pre ++ items_owners (length (hs g)) 0 items ++ trace_owners (S (length (hs g))) tr)
      with ((pre ++ items_owners (length (hs g)) 0 items) ++ trace_owners (length (hs g')) tr) in * by (rewrite L, <- app_assoc; reflexivity).
    apply IH; [exact Nt|exact Nd].
Qed.

(* If the rows the pushes of a trace submit are named pairwise differently (and nothing is submitted through direct Request
   calls), the trace is fresh for the owner function read off it. *)
Theorem fresh_from_distinct cfg n tr : forallb no_env tr = true -> NoDup (trace_rids tr) ->
  fresh_run (own_of tr) (ginit cfg n) tr = true.
Proof. intros Ne Nd. exact (fresh_gen tr (ginit cfg n) [] Ne Nd). Qed.

(* hence: every block is a table of pairwise distinct rows *)
Theorem distinct_names_give_distinct_rows cfg n tr g es :
  forallb act_wf tr = true -> forallb no_env tr = true -> NoDup (trace_rids tr) -> grun (ginit cfg n) tr = Some (g, es) ->
  forall s k b, In (ESend s k b) es -> good_block_b k b = true.
Proof.
  intros W Ne Nd R. exact (sends_are_tables_of_distinct_rows (own_of tr) cfg n tr g es W (fresh_from_distinct cfg n tr Ne Nd) R).
Qed.
