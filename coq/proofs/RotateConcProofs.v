(* Proofs about concurrent Rotate runs (model/RotateConc.v): property C19. *)
From Coq Require Import List ZArith Bool String Ascii Lia.
From Qryn Require Import model.Rotate model.RotateConc proofs.RotateProofs.
Import ListNotations.
Open Scope string_scope.
Open Scope Z_scope.

(* ------------------------------------------------------------------ an instance alone is Rotate.run *)
Definition okw (d : db) (cs : list call) (log : list (call * bool)) : world :=
  {| w_db := fold_left apply cs d; w_log := (rev (map (fun c => (c, true)) cs) ++ log)%list; w_fault := None |}.

Lemma exec_all_nofault_eq : forall cs d log,
  exec_all {| w_db := d; w_log := log; w_fault := None |} cs = (okw d cs log, true).
Proof.
  induction cs as [|c r IH]; intros d log; [reflexivity|].
  cbn [exec_all exec w_fault w_db w_log]. rewrite IH. unfold okw. cbn [fold_left map rev].
  rewrite <- app_assoc. reflexivity.
Qed.

(* the calls of one group operation / of the whole run when nothing fails *)
Definition group_calls (cfg : config) (g : group) (d : db) : list call :=
  let v := recd d g in
  CGet g :: (if skip cfg g v then [] else
             (if String.eqb v "" then [] else [CPut g ""]) ++ alters cfg g ++ [CPut g (desired cfg g)])%list.
Fixpoint run_calls (cfg : config) (gs : list group) (d : db) : list call :=
  match gs with
  | [] => []
  | g :: r => let cs := group_calls cfg g d in (cs ++ run_calls cfg r (fold_left apply cs d))%list
  end.

Lemma okw_cons d c cs log : okw (apply d c) cs ((c, true) :: log) = okw d (c :: cs) log.
Proof. unfold okw. cbn [fold_left map rev]. now rewrite <- app_assoc. Qed.
Lemma exec_okw d cs log c : exec (okw d cs log) c = (okw d (cs ++ [c]) log, true).
Proof.
  unfold okw. cbn [exec w_fault w_db w_log]. rewrite fold_left_app, map_app, rev_app_distr. reflexivity.
Qed.
Lemma exec_all_okw d cs log cs' : exec_all (okw d cs log) cs' = (okw d (cs ++ cs') log, true).
Proof.
  unfold okw at 1. rewrite exec_all_nofault_eq. unfold okw. rewrite fold_left_app, map_app, rev_app_distr, app_assoc. reflexivity.
Qed.
Lemma okw_nil d log : {| w_db := d; w_log := log; w_fault := None |} = okw d [] log.
Proof. reflexivity. Qed.

Lemma group_op_nofault_eq cfg g d log :
  group_op cfg g {| w_db := d; w_log := log; w_fault := None |} = (okw d (group_calls cfg g d) log, true).
Proof.
  unfold group_op, group_calls. rewrite (okw_nil d log), exec_okw. cbn [app w_db okw fold_left].
  destruct (skip cfg g (recd d g)); [reflexivity|].
  unfold forget, alter_and_record.
  destruct (String.eqb (recd d g) "").
  - rewrite exec_all_okw, exec_okw. cbn [app]. try rewrite <- !app_assoc. reflexivity.
  - rewrite exec_okw, exec_all_okw, exec_okw. cbn [app]. try rewrite <- !app_assoc. reflexivity.
Qed.

Lemma seq_ops_nofault_eq cfg : forall gs d log,
  seq_ops cfg gs {| w_db := d; w_log := log; w_fault := None |} = (okw d (run_calls cfg gs d) log, true).
Proof.
  induction gs as [|g r IH]; intros d log; [reflexivity|].
  cbn [seq_ops run_calls]. rewrite group_op_nofault_eq. unfold okw at 1. rewrite IH. unfold okw.
  f_equal. f_equal.
  - now rewrite fold_left_app.
  - rewrite map_app, rev_app_distr, <- app_assoc. reflexivity.
Qed.

(* solo over a list of ALTER calls *)
Lemma solo_alters cfg g rest : forall cs c n d log,
  solo (S (List.length cs) + n) d {| i_cfg := cfg; i_pc := PAlter g c cs rest |} log =
  solo n (fold_left apply (c :: cs) d) {| i_cfg := cfg; i_pc := PPut g rest |} (rev (c :: cs) ++ log)%list.
Proof.
  induction cs as [|c' r IH]; intros c n d log.
  - reflexivity.
  - change (S (List.length (c' :: r)) + n)%nat with (S (S (List.length r) + n)).
    cbn [solo step i_pc i_cfg alter_pc]. rewrite IH. cbn [fold_left rev]. rewrite <- !app_assoc. reflexivity.
Qed.

Lemma solo_alter_pc cfg g rest cs n d log :
  solo (List.length cs + n) d {| i_cfg := cfg; i_pc := alter_pc g cs rest |} log =
  solo n (fold_left apply cs d) {| i_cfg := cfg; i_pc := PPut g rest |} (rev cs ++ log)%list.
Proof. destruct cs as [|c r]; [reflexivity|]. apply solo_alters. Qed.

Lemma solo_group cfg g rest n d log :
  solo (List.length (group_calls cfg g d) + n) d {| i_cfg := cfg; i_pc := PGet g rest |} log =
  solo n (fold_left apply (group_calls cfg g d) d) {| i_cfg := cfg; i_pc := goto rest |} (rev (group_calls cfg g d) ++ log)%list.
Proof.
  unfold group_calls. cbn [List.length Nat.add solo step i_pc i_cfg]. unfold after_get.
  destruct (skip cfg g (recd d g)); [reflexivity|].
  destruct (String.eqb (recd d g) "").
  - cbn [app]. rewrite app_length. cbn [List.length]. rewrite <- Nat.add_assoc. rewrite solo_alter_pc.
    cbn [Nat.add solo step i_pc i_cfg fold_left]. rewrite fold_left_app. cbn [fold_left rev].
    rewrite rev_app_distr. cbn [rev app]. rewrite <- !app_assoc. reflexivity.
  - cbn [app List.length Nat.add solo step i_pc i_cfg]. rewrite app_length. cbn [List.length]. rewrite <- Nat.add_assoc.
    rewrite solo_alter_pc. cbn [Nat.add solo step i_pc i_cfg fold_left]. rewrite fold_left_app. cbn [fold_left rev].
    rewrite rev_app_distr. cbn [rev app]. rewrite <- !app_assoc. reflexivity.
Qed.

Lemma solo_done n d cfg log : solo n d {| i_cfg := cfg; i_pc := PDone |} log = (d, {| i_cfg := cfg; i_pc := PDone |}, log).
Proof. destruct n; reflexivity. Qed.

Lemma solo_groups cfg : forall gs n d log,
  solo (List.length (run_calls cfg gs d) + n) d {| i_cfg := cfg; i_pc := goto gs |} log =
  solo n (fold_left apply (run_calls cfg gs d) d) {| i_cfg := cfg; i_pc := PDone |} (rev (run_calls cfg gs d) ++ log)%list.
Proof.
  induction gs as [|g r IH]; intros n d log; [reflexivity|].
  cbn [run_calls goto]. rewrite app_length, <- Nat.add_assoc, solo_group, IH.
  rewrite fold_left_app, rev_app_distr, <- app_assoc. reflexivity.
Qed.

(* an instance that runs alone issues exactly the calls of Rotate.run, with the same effect, and then is done *)
Lemma solo_is_run cfg d n : (List.length (run_log cfg None d) <= n)%nat ->
  solo n d (start cfg) [] = (run_db cfg None d, {| i_cfg := cfg; i_pc := PDone |}, map fst (run_log cfg None d)) /\
  snd (run cfg None d) = true.
Proof.
  unfold run_log, run_db, run, rotate. rewrite seq_ops_nofault_eq. cbn [fst snd w_log w_db okw].
  rewrite app_nil_r, rev_length, map_length. intros Hn. split; [|reflexivity].
  replace n with (List.length (run_calls cfg groups d) + (n - List.length (run_calls cfg groups d)))%nat by lia.
  unfold start. rewrite solo_groups, solo_done, app_nil_r. f_equal.
  rewrite map_rev, map_map. cbn [fst]. now rewrite map_id.
Qed.

(* ------------------------------------------------------------------ all instances have the same configuration *)
Section SameConfig.
Variable cfg : config.

Definition okrec (d : db) (g : group) : Prop := recd d g = "" \/ recd d g = desired cfg g.
Definition galter (g : group) (c : call) : Prop :=
  (exists t, c = CTune t) \/ (exists t, In t (tables_of g) /\ c = alter_call cfg g t).
Definition covered (d : db) (g : group) (cs : list call) : Prop :=
  forall t, In t (tables_of g) -> In (alter_call cfg g t) cs \/ val d g t = desired cfg g.

Definition pending (g : group) (p : pc) : Prop :=
  match p with
  | PGet g' rest | PForget g' rest | PAlter g' _ _ rest | PPut g' rest => g = g' \/ In g rest
  | PDone => False
  end.
Definition pc_inv (d : db) (p : pc) : Prop :=
  match p with
  | PAlter g c cs _ => okrec d g /\ covered d g (c :: cs) /\ Forall (galter g) (c :: cs)
  | PPut g _ => okrec d g /\ covered d g []
  | _ => True
  end.
Definition inst_inv (d : db) (i : inst) : Prop := i_cfg i = cfg /\ pc_inv d (i_pc i).

Definition Inv (d : db) (l : list inst) : Prop :=
  consistent d /\ Forall (inst_inv d) l /\
  forall g, wanted cfg g = true -> recd d g <> desired cfg g -> Exists (fun i => pending g (i_pc i)) l.

(* the calls instances with this configuration issue *)
Definition scall (c : call) : Prop :=
  (exists g, c = CGet g) \/ (exists g, c = CPut g "") \/ (exists g, c = CPut g (desired cfg g)) \/
  (exists t, c = CTune t) \/ (exists g t, In t (tables_of g) /\ c = alter_call cfg g t).

Lemma apply_get d g : apply d (CGet g) = d. Proof. reflexivity. Qed.
Lemma apply_tune d t : apply d (CTune t) = d. Proof. reflexivity. Qed.

Lemma okrec_stable d g c : scall c -> okrec d g -> okrec (apply d c) g.
Proof.
  intros [[g' ->]|[[g' ->]|[[g' ->]|[[t ->]|[g' [t [Ht ->]]]]]]] H; try exact H.
  - destruct (group_eq_dec g g') as [->|Hne]; [left; apply recd_put_same|].
    unfold okrec. now rewrite recd_put_other.
  - destruct (group_eq_dec g g') as [->|Hne]; [right; apply recd_put_same|].
    unfold okrec. now rewrite recd_put_other.
  - unfold okrec. now rewrite recd_alter.
Qed.

Lemma val_stable d g t c : scall c -> In t (tables_of g) -> val d g t = desired cfg g -> val (apply d c) g t = desired cfg g.
Proof.
  intros [[g' ->]|[[g' ->]|[[g' ->]|[[t' ->]|[g' [t' [Ht' ->]]]]]]] Ht H; try exact H.
  destruct (group_eq_dec g g') as [->|Hne].
  - destruct (table_eq_dec t t') as [->|Hnt]; [apply val_alter_same|].
    rewrite val_alter_other; auto.
  - rewrite val_alter_other; auto.
Qed.

Lemma covered_stable d g cs c : scall c -> covered d g cs -> covered (apply d c) g cs.
Proof. intros Hs Hc t Ht. destruct (Hc t Ht) as [H|H]; [now left|right; now apply val_stable]. Qed.

Lemma pc_inv_stable d p c : scall c -> pc_inv d p -> pc_inv (apply d c) p.
Proof.
  intros Hs. destruct p as [g rest|g rest|g c0 cs rest|g rest|]; cbn; auto.
  - intros [A [B C]]. split; [now apply okrec_stable|]. split; [now apply covered_stable|exact C].
  - intros [A B]. split; [now apply okrec_stable|now apply covered_stable].
Qed.

Lemma consistent_alter_ok d g t :
  consistent d -> okrec d g -> In t (tables_of g) -> consistent (apply d (alter_call cfg g t)).
Proof.
  intros Hc Hr Hin g' t' Hin' Hrec. rewrite recd_alter in *.
  destruct (group_eq_dec g' g) as [->|Hne].
  - destruct Hr as [Hr|Hr]; [congruence|].
    destruct (table_eq_dec t' t) as [->|Hnt]; [rewrite val_alter_same; congruence|].
    rewrite val_alter_other; auto.
  - rewrite val_alter_other; auto.
Qed.

Lemma alter_pc_inv d g cs rest : okrec d g -> covered d g cs -> Forall (galter g) cs -> pc_inv d (alter_pc g cs rest).
Proof. intros A B C. destruct cs as [|c r]; cbn; auto. Qed.

Lemma alters_galter g : Forall (galter g) (alters cfg g).
Proof.
  apply Forall_forall. intros c Hin. rewrite alters_unfold in Hin. apply in_alters_for in Hin.
  destruct Hin as [[t ->]|[t [Ht ->]]]; [left; now exists t|right; now exists t].
Qed.
Lemma alters_covered d g : covered d g (alters cfg g).
Proof. intros t Ht. left. now apply in_alters. Qed.

Lemma pending_goto g rest : In g rest -> pending g (goto rest).
Proof. destruct rest as [|g' r]; [intros []|]. cbn. intros [->|H]; auto. Qed.
Lemma pending_alter_pc g g0 cs rest : g = g0 \/ In g rest -> pending g (alter_pc g0 cs rest).
Proof. destruct cs; cbn; auto. Qed.

(* one step of an instance that satisfies its invariant *)
Lemma step_ok d i c d' i' : consistent d -> inst_inv d i -> step d i = Some (c, d', i') ->
  scall c /\ d' = apply d c /\ consistent d' /\ inst_inv d' i' /\
  (forall g, wanted cfg g = true -> recd d' g <> desired cfg g -> pending g (i_pc i) -> pending g (i_pc i')) /\
  (forall g, recd d' g <> desired cfg g -> recd d g = desired cfg g -> pending g (i_pc i')).
Proof.
  intros Hc [Hcfg Hp] Hs. destruct i as [icfg p]. cbn in Hcfg, Hp. subst icfg. unfold step in Hs. cbn [i_pc i_cfg] in *.
  destruct p as [g rest|g rest|g c0 cs rest|g rest|]; [| | | |discriminate]; injection Hs as <- <- <-.
  - (* getSetting *)
    split; [left; now exists g|]. split; [reflexivity|]. split; [exact Hc|]. split.
    + split; [reflexivity|]. cbn [i_pc]. unfold after_get.
      destruct (skip cfg g (recd d g)); [destruct rest; exact I|].
      destruct (String.eqb (recd d g) "") eqn:Ev; [|exact I].
      apply String.eqb_eq in Ev. apply alter_pc_inv; [now left|apply alters_covered|apply alters_galter].
    + split.
      * intros g1 Hw Hne Hpend. cbn [i_pc] in *. unfold after_get.
        destruct (skip cfg g (recd d g)) eqn:Es.
        -- destruct Hpend as [->|Hin]; [|now apply pending_goto].
           exfalso. apply Hne. now apply skip_wanted.
        -- destruct (String.eqb (recd d g) ""); [now apply pending_alter_pc|exact Hpend].
      * intros g1 H1 H2. contradiction.
  - (* forget *)
    split; [right; left; now exists g|]. split; [reflexivity|]. split; [now apply consistent_put_empty|]. split.
    + split; [reflexivity|]. cbn [i_pc]. apply alter_pc_inv; [left; apply recd_put_same|apply alters_covered|apply alters_galter].
    + split.
      * intros g1 Hw Hne Hpend. cbn [i_pc] in *. now apply pending_alter_pc.
      * intros g1 H1 H2. cbn [i_pc]. apply pending_alter_pc. left.
        destruct (group_eq_dec g1 g) as [->|Hn]; [reflexivity|].
        exfalso. apply H1. rewrite <- H2. exact (recd_put_other d g g1 "" Hn).
  - (* one ALTER *)
    destruct Hp as [A [B C]]. inversion C as [|x l Hg0 Hrest]; subst.
    assert (Hsc : scall c0).
    { destruct Hg0 as [[t ->]|[t [Ht ->]]]; [right; right; right; left; now exists t|right; right; right; right; now exists g, t]. }
    split; [exact Hsc|]. split; [reflexivity|]. split.
    { destruct Hg0 as [[t ->]|[t [Ht ->]]]; [exact Hc|now apply consistent_alter_ok]. }
    split.
    + split; [reflexivity|]. cbn [i_pc]. apply alter_pc_inv; [now apply okrec_stable| |exact Hrest].
      intros t Ht. destruct (B t Ht) as [[Heq|Hin]|Hv]; [|now left|right; now apply val_stable].
      right. rewrite Heq. apply val_alter_same.
    + split.
      * intros g1 Hw Hne Hpend. cbn [i_pc] in *. now apply pending_alter_pc.
      * intros g1 H1 H2. exfalso. apply H1.
        destruct Hg0 as [[t ->]|[t [Ht ->]]]; [exact H2|now rewrite recd_alter].
  - (* record *)
    destruct Hp as [A B].
    split; [right; right; left; now exists g|]. split; [reflexivity|]. split.
    { apply consistent_put_all; [exact Hc|]. intros t Ht. destruct (B t Ht) as [[]|Hv]. exact Hv. }
    split.
    + split; [reflexivity|]. cbn [i_pc]. destruct rest; exact I.
    + split.
      * intros g1 Hw Hne Hpend. cbn [i_pc] in *.
        destruct Hpend as [->|Hin]; [|now apply pending_goto].
        exfalso. apply Hne. apply recd_put_same.
      * intros g1 H1 H2. exfalso. apply H1. destruct (group_eq_dec g1 g) as [->|Hn]; [exact (recd_put_same d g (desired cfg g))|].
        rewrite <- H2. exact (recd_put_other d g g1 (desired cfg g) Hn).
Qed.
End SameConfig.

(* ------------------------------------------------------------------ the interleaved system *)
Lemma nth_error_split_set {A} : forall (l : list A) k x y, nth_error l k = Some x ->
  exists l1 l2, l = (l1 ++ x :: l2)%list /\ set_nth k y l = (l1 ++ y :: l2)%list.
Proof.
  induction l as [|a r IH]; intros k x y H; [destruct k; discriminate|].
  destruct k as [|k]; cbn in H.
  - injection H as ->. exists [], r. split; reflexivity.
  - destruct (IH k x y H) as [l1 [l2 [E1 E2]]]. exists (a :: l1), l2. cbn. now rewrite E1 at 1; rewrite E2.
Qed.

Lemma inst_inv_stable cfg d i c : scall cfg c -> inst_inv cfg d i -> inst_inv cfg (apply d c) i.
Proof. intros Hs [A B]. split; [exact A|now apply pc_inv_stable]. Qed.

Lemma sched_step_inv cfg s k : Inv cfg (s_db s) (s_insts s) ->
  Inv cfg (s_db (sched_step s k)) (s_insts (sched_step s k)).
Proof.
  intros HI. unfold sched_step. destruct (nth_error (s_insts s) k) as [i|] eqn:En; [|exact HI].
  destruct (step (s_db s) i) as [[[c d'] i']|] eqn:Es; [|exact HI].
  cbn [s_db s_insts]. destruct HI as [Hc [Hall Hpend]].
  destruct (nth_error_split_set _ _ _ i' En) as [l1 [l2 [E1 E2]]]. rewrite E2. rewrite E1 in Hall, Hpend.
  apply Forall_app in Hall. destruct Hall as [H1 H2]. inversion H2 as [|x l Hi H2']; subst x l.
  destruct (step_ok cfg _ _ _ _ _ Hc Hi Es) as [Hsc [Hd [Hc' [Hi' [Hb Hnew]]]]].
  split; [exact Hc'|]. split.
  - apply Forall_app. split; [|constructor; [exact Hi'|]].
    + eapply Forall_impl; [|exact H1]. intros j Hj. rewrite Hd. now apply inst_inv_stable.
    + eapply Forall_impl; [|exact H2']. intros j Hj. rewrite Hd. now apply inst_inv_stable.
  - intros g Hw Hne. apply Exists_app.
    destruct (string_dec (recd (s_db s) g) (desired cfg g)) as [Heq|Hneq].
    + right. apply Exists_cons_hd. now apply Hnew.
    + specialize (Hpend g Hw Hneq). apply Exists_app in Hpend. destruct Hpend as [Hp|Hp]; [now left|right].
      inversion Hp as [x l Hx|x l Hx]; subst x l; [apply Exists_cons_hd; now apply Hb|now apply Exists_cons_tl].
Qed.

Lemma sched_run_inv cfg : forall sched s, Inv cfg (s_db s) (s_insts s) ->
  Inv cfg (s_db (sched_run sched s)) (s_insts (sched_run sched s)).
Proof.
  induction sched as [|k r IH]; intros s H; [exact H|]. cbn. apply IH. now apply sched_step_inv.
Qed.

Lemma init_inv cfg n d : (0 < n)%nat -> consistent d -> Inv cfg d (map start (repeat cfg n)).
Proof.
  intros Hn Hc. split; [exact Hc|]. split.
  - apply Forall_forall. intros i Hin. apply in_map_iff in Hin. destruct Hin as [c [<- Hc']].
    apply repeat_spec in Hc'. subst c. split; [reflexivity|exact I].
  - intros g _ _. destruct n as [|m]; [lia|]. cbn. apply Exists_cons_hd. cbn [start i_pc].
    apply pending_goto. apply in_groups.
Qed.

(* Any number (at least one) of instances with the same configuration, any interleaving of their statements, from a
   database whose records name only applied values: at every moment the records name only applied values; and once
   every instance has finished, the database is converged. *)
Lemma conc_same_config cfg n sched d : (0 < n)%nat -> consistent d ->
  let s := sched_run sched (init_sys d (repeat cfg n)) in
  consistent (s_db s) /\ (all_done s = true -> converged cfg (s_db s)).
Proof.
  intros Hn Hc s.
  assert (HI : Inv cfg (s_db s) (s_insts s)) by (apply sched_run_inv; cbn; now apply init_inv).
  destruct HI as [Hcons [_ Hpend]]. split; [exact Hcons|].
  intros Hdone g Hw.
  assert (Hr : recd (s_db s) g = desired cfg g).
  { destruct (string_dec (recd (s_db s) g) (desired cfg g)) as [E|E]; [exact E|exfalso].
    specialize (Hpend g Hw E). apply Exists_exists in Hpend. destruct Hpend as [i [Hin Hp]].
    unfold all_done in Hdone. rewrite forallb_forall in Hdone. specialize (Hdone i Hin).
    unfold done in Hdone. destruct (i_pc i); try discriminate. exact Hp. }
  split; [exact Hr|]. intros t Ht. rewrite <- Hr. apply Hcons; [exact Ht|]. rewrite Hr. now apply desired_nonempty.
Qed.

(* ------------------------------------------------------------------ every instance finishes: a measure *)
Definition group_cost (cfg : config) (g : group) : nat := 3 + List.length (alters cfg g).
Fixpoint rest_cost (cfg : config) (gs : list group) : nat :=
  match gs with [] => 0 | g :: r => group_cost cfg g + rest_cost cfg r end.
Definition measure (i : inst) : nat :=
  let cfg := i_cfg i in
  match i_pc i with
  | PGet g rest => group_cost cfg g + rest_cost cfg rest
  | PForget g rest => 2 + List.length (alters cfg g) + rest_cost cfg rest
  | PAlter g c cs rest => 2 + List.length cs + rest_cost cfg rest
  | PPut g rest => 1 + rest_cost cfg rest
  | PDone => 0
  end%nat.

Lemma measure_goto cfg rest : measure {| i_cfg := cfg; i_pc := goto rest |} = rest_cost cfg rest.
Proof. destruct rest; reflexivity. Qed.
Lemma measure_alter_pc cfg g cs rest :
  measure {| i_cfg := cfg; i_pc := alter_pc g cs rest |} = (1 + List.length cs + rest_cost cfg rest)%nat.
Proof. destruct cs; cbn; lia. Qed.

Lemma step_measure d i c d' i' : step d i = Some (c, d', i') -> (measure i' < measure i)%nat.
Proof.
  destruct i as [cfg p]. unfold step. cbn [i_pc i_cfg].
  destruct p as [g rest|g rest|g c0 cs rest|g rest|]; [| | | |discriminate]; intros [= <- <- <-].
  - unfold after_get. destruct (skip cfg g _); [rewrite measure_goto; cbn; unfold group_cost; lia|].
    destruct (String.eqb _ ""); [rewrite measure_alter_pc; cbn; unfold group_cost; lia|cbn; unfold group_cost; lia].
  - rewrite measure_alter_pc. cbn. lia.
  - rewrite measure_alter_pc. cbn. lia.
  - rewrite measure_goto. cbn. lia.
Qed.
Lemma measure_start cfg : measure (start cfg) = 45%nat.
Proof.
  unfold start. rewrite measure_goto. reflexivity.
Qed.
Lemma measure_zero_done i : measure i = 0%nat -> done i = true.
Proof. destruct i as [cfg p]. destruct p; cbn; unfold group_cost; try lia; reflexivity. Qed.

(* an instance alone is done after at most 45 statements *)
Lemma solo_measure : forall n d i log, (measure i <= n)%nat -> done (snd (fst (solo n d i log))) = true.
Proof.
  induction n as [|n IH]; intros d i log H; cbn.
  - apply measure_zero_done. lia.
  - destruct (step d i) as [[[c d'] i']|] eqn:E.
    + apply IH. apply step_measure in E. lia.
    + cbn. unfold step in E. destruct i as [cfg p]. destruct p; try discriminate. reflexivity.
Qed.

(* ------------------------------------------------------------------ different configurations at the same time *)
Lemma consistent_b_complete d : consistent d -> consistent_b d = true.
Proof.
  intros H. unfold consistent_b. apply forallb_forall. intros g _.
  destruct (String.eqb (recd d g) "") eqn:E; [reflexivity|]. cbn. apply forallb_forall. intros t Ht.
  apply String.eqb_eq. apply H; [exact Ht|]. intro E'. rewrite E' in E. discriminate.
Qed.

Definition cc_a : config := {| cluster := ""; distributed := false; days := []; drop_days := 30; storage_policy := "" |}.
Definition cc_b : config := {| cluster := ""; distributed := false; days := []; drop_days := 60; storage_policy := "" |}.
(* instance 0 (30 days) runs up to, not including, its last statement (the record of metrics_15s); instance 1
   (60 days) runs completely; instance 0 records *)
Definition cc_sched : list nat := (repeat 0 26 ++ repeat 1 31 ++ [0])%nat%list.
Definition cc_final : sys := sched_run cc_sched (init_sys fresh [cc_a; cc_b]).

(* Two instances with DIFFERENT configurations: an interleaving after which the record says 30 days while
   metrics_15s carries 60 days, both instances have finished without an error, and the next run with 30 days
   configured skips that group: the table keeps 60 days. *)
Lemma conc_different_configs_diverge :
  consistent fresh /\ all_done cc_final = true /\ ~ consistent (s_db cc_final) /\
  recd (s_db cc_final) TtlMetrics = desired cc_a TtlMetrics /\
  d_ttl (s_db cc_final) Metrics15s = desired cc_b TtlMetrics /\
  d_ttl (run_db cc_a None (s_db cc_final)) Metrics15s = desired cc_b TtlMetrics /\
  converged_b cc_a (run_db cc_a None (s_db cc_final)) = false.
Proof.
  split; [apply fresh_consistent|]. split; [vm_compute; reflexivity|]. split.
  - intros H. apply consistent_b_complete in H. vm_compute in H. discriminate.
  - repeat split; vm_compute; reflexivity.
Qed.

(* non-vacuity of conc_same_config: three instances, a round-robin schedule long enough for all to finish *)
Fixpoint round_robin (n rounds : nat) : list nat :=
  match rounds with O => [] | S r => (seq 0 n ++ round_robin n r)%list end.
Example ex_conc_same :
  let s := sched_run (round_robin 3 45) (init_sys fresh (repeat ex_a 3)) in
  (all_done s, converged_b ex_a (s_db s), List.length (s_log s)) = (true, true, 111%nat).
Proof. vm_compute. reflexivity. Qed.
