(* Proofs about Rotate over stamped settings rows (model/RotateStamp.v): property C19.
   Main result: a forward simulation.  When every answer of the server is an admissible one (pick_ok), the clock never
   goes back (clock_mono) and advances over every successful SELECT and ALTER (clock_advances), the program over the
   rows and model/Rotate.v's program over the map "value inserted last" issue the same calls with the same results and
   leave related databases, for every fault and every history.  The invariant: the stamps of every fingerprint strictly
   increase and none lies in the future ("warm"); after a successful SELECT or ALTER all stamps are strictly in the past
   ("cool"), and an INSERT is only ever issued from a cool state. *)
From Coq Require Import List ZArith Bool String Ascii Lia.
From Qryn Require Import model.Rotate model.RotateClock model.RotateStamp proofs.RotateProofs proofs.RotateClockProofs.
Import ListNotations.
Open Scope string_scope.
Open Scope Z_scope.

(* ------------------------------------------------------------------ the relation between the two databases *)
(* same_db (model/RotateStamp.v): same tables, and the map is "the value of the row inserted last" *)
Definition Rw (sw : sworld) (w : world) : Prop :=
  same_db (sw_db sw) (w_db w) /\ sw_log sw = w_log w /\ sw_fault sw = w_fault w.

Lemma same_db_abs s : same_db s (abs s).
Proof. unfold same_db, abs. cbn. auto. Qed.

Lemma same_db_sapply s d now c : same_db s d -> same_db (sapply s now c) (apply d c).
Proof.
  intros [Ht [Hp Hs]]. destruct c as [g|t|t c ts dd|t p|g v]; cbn; unfold same_db; cbn.
  - auto.
  - auto.
  - split; [|auto]. intro t'. now rewrite Ht.
  - split; [auto|]. split; [|auto]. intro t'. now rewrite Hp.
  - split; [auto|]. split; [auto|]. intro k. rewrite latest_insert. now rewrite Hs.
Qed.

Lemma same_db_recd s d g : same_db s d -> recd d g = latest (sd_rows s) (key g).
Proof. intros [_ [_ Hs]]. unfold recd. now rewrite Hs. Qed.
Lemma same_db_val s d g t : same_db s d -> val d g t = val (abs s) g t.
Proof. intros [Ht [Hp _]]. unfold val, abs. cbn. destruct (is_sp g); [now rewrite Hp|now rewrite Ht]. Qed.

(* ------------------------------------------------------------------ warm and cool *)
Definition warm (s : sdb) (now : Z) : Prop := strict (sd_rows s) /\ forall r, In r (sd_rows s) -> r_ts r <= now.
Definition cool (s : sdb) (now : Z) : Prop := strict (sd_rows s) /\ forall r, In r (sd_rows s) -> r_ts r < now.
Definition inv_warm (w : sworld) : Prop := warm (sw_db w) (sw_now w).
Definition inv_cool (w : sworld) : Prop := cool (sw_db w) (sw_now w).

Lemma cool_warm s now : cool s now -> warm s now.
Proof. intros [A B]. split; [exact A|]. intros r Hr. specialize (B r Hr). lia. Qed.
Lemma warm_later s now now' : now <= now' -> warm s now -> warm s now'.
Proof. intros H [A B]. split; [exact A|]. intros r Hr. specialize (B r Hr). lia. Qed.
Lemma cool_later s now now' : now <= now' -> cool s now -> cool s now'.
Proof. intros H [A B]. split; [exact A|]. intros r Hr. specialize (B r Hr). lia. Qed.
Lemma warm_cool_later s now now' : now < now' -> warm s now -> cool s now'.
Proof. intros H [A B]. split; [exact A|]. intros r Hr. specialize (B r Hr). lia. Qed.

Lemma sapply_rows_nonput s now c : is_put c = false -> sd_rows (sapply s now c) = sd_rows s.
Proof. destruct c; cbn; intros H; try reflexivity; discriminate. Qed.

Lemma sapply_put_cool s now g v : cool s now -> warm (sapply s now (CPut g v)) now.
Proof.
  intros [A B]. cbn. split; cbn.
  - apply insert_keeps_strict; [exact A|]. intros r' Hin _. cbn. now apply B.
  - intros r Hr. apply in_app_or in Hr. destruct Hr as [Hr|[<-|[]]]; [specialize (B r Hr); lia|cbn; lia].
Qed.

Section Sim.
Variable pick : nat -> list row -> Z -> string.
Variable dur : nat -> call -> bool -> Z.
Hypothesis Hpick : pick_ok pick.
Hypothesis Hmono : clock_mono dur.
Hypothesis Hadv : clock_advances dur.

(* ------------------------------------------------------------------ one statement *)
Lemma sexec_sim sw w c : Rw sw w ->
  snd (sexec dur sw c) = snd (exec w c) /\ Rw (fst (sexec dur sw c)) (fst (exec w c)).
Proof.
  intros [Hd [Hl Hf]]. unfold sexec, exec. rewrite Hf.
  destruct (w_fault w) as [[[|k] [|]]|]; cbn; (split; [reflexivity|]); unfold Rw; cbn;
    (split; [try exact Hd; now apply same_db_sapply|split; [now rewrite Hl|reflexivity]]).
Qed.

Lemma sexec_now sw c : sw_now sw <= sw_now (fst (sexec dur sw c)).
Proof.
  unfold sexec. destruct (sw_fault sw) as [[[|k] eff]|]; cbn.
  - pose proof (Hmono (sw_n sw) c false). lia.
  - pose proof (Hmono (sw_n sw) c true). lia.
  - pose proof (Hmono (sw_n sw) c true). lia.
Qed.
Lemma sexec_now_ok sw c : is_put c = false -> snd (sexec dur sw c) = true -> sw_now sw < sw_now (fst (sexec dur sw c)).
Proof.
  intros Hc. unfold sexec. destruct (sw_fault sw) as [[[|k] eff]|]; cbn; intro H; try discriminate;
    pose proof (Hadv (sw_n sw) c Hc); lia.
Qed.
Lemma sexec_rows_nonput sw c : is_put c = false -> sd_rows (sw_db (fst (sexec dur sw c))) = sd_rows (sw_db sw).
Proof.
  intros Hc. unfold sexec. destruct (sw_fault sw) as [[[|k] [|]]|]; cbn; try reflexivity; now apply sapply_rows_nonput.
Qed.

Lemma sexec_nonput_warm sw c : is_put c = false -> inv_warm sw ->
  inv_warm (fst (sexec dur sw c)) /\ (snd (sexec dur sw c) = true -> inv_cool (fst (sexec dur sw c))).
Proof.
  intros Hc [A B]. unfold inv_warm, inv_cool, warm, cool. rewrite (sexec_rows_nonput sw c Hc).
  split.
  - split; [exact A|]. intros r Hr. pose proof (sexec_now sw c). specialize (B r Hr). lia.
  - intro Hok. split; [exact A|]. intros r Hr. pose proof (sexec_now_ok sw c Hc Hok). specialize (B r Hr). lia.
Qed.
Lemma sexec_nonput_cool sw c : is_put c = false -> inv_cool sw -> inv_cool (fst (sexec dur sw c)).
Proof.
  intros Hc [A B]. unfold inv_cool, cool. rewrite (sexec_rows_nonput sw c Hc).
  split; [exact A|]. intros r Hr. pose proof (sexec_now sw c). specialize (B r Hr). lia.
Qed.
(* an INSERT issued from a cool state, whether it succeeds, fails having taken effect, or fails without *)
Lemma sexec_put_cool sw g v : inv_cool sw -> inv_warm (fst (sexec dur sw (CPut g v))).
Proof.
  intros Hc. pose proof (sexec_now sw (CPut g v)) as Hn. unfold inv_warm.
  assert (Hw : warm (sapply (sw_db sw) (sw_now sw) (CPut g v)) (sw_now (fst (sexec dur sw (CPut g v))))).
  { apply (warm_later _ (sw_now sw)); [exact Hn|]. now apply sapply_put_cool. }
  assert (Hw0 : warm (sw_db sw) (sw_now (fst (sexec dur sw (CPut g v))))).
  { apply (warm_later _ (sw_now sw)); [exact Hn|]. now apply cool_warm. }
  revert Hw Hw0. unfold sexec. destruct (sw_fault sw) as [[[|k] [|]]|]; cbn; auto.
Qed.

(* ------------------------------------------------------------------ a sequence of ALTERs *)
Lemma sexec_all_sim : forall cs sw w, Rw sw w ->
  snd (sexec_all dur sw cs) = snd (exec_all w cs) /\ Rw (fst (sexec_all dur sw cs)) (fst (exec_all w cs)).
Proof.
  induction cs as [|c r IH]; intros sw w H; cbn; [now split|].
  destruct (sexec_sim sw w c H) as [Hok HR].
  destruct (sexec dur sw c) as [sw1 ok] eqn:E. destruct (exec w c) as [w1 ok'] eqn:E'. cbn in Hok, HR. subst ok'.
  destruct ok; [now apply IH|now split].
Qed.

Lemma sexec_all_cool : forall cs sw, Forall (fun c => is_put c = false) cs -> inv_cool sw ->
  inv_cool (fst (sexec_all dur sw cs)).
Proof.
  induction cs as [|c r IH]; intros sw Hcs H; cbn; [exact H|].
  inversion Hcs as [|c' r' Hc Hr]; subst.
  pose proof (sexec_nonput_cool sw c Hc H) as H1.
  destruct (sexec dur sw c) as [sw1 ok] eqn:E. cbn in H1. destruct ok; [now apply IH|exact H1].
Qed.
Lemma sexec_all_warm : forall cs sw, Forall (fun c => is_put c = false) cs -> inv_warm sw ->
  inv_warm (fst (sexec_all dur sw cs)) /\
  (snd (sexec_all dur sw cs) = true -> cs <> [] -> inv_cool (fst (sexec_all dur sw cs))).
Proof.
  destruct cs as [|c r]; intros sw Hcs H; cbn; [split; [exact H|intros _ Hne; now elim Hne]|].
  inversion Hcs as [|c' r' Hc Hr]; subst.
  destruct (sexec_nonput_warm sw c Hc H) as [H1 H2].
  destruct (sexec dur sw c) as [sw1 ok] eqn:E. cbn in H1, H2. destruct ok.
  - specialize (H2 eq_refl). pose proof (sexec_all_cool r sw1 Hr H2) as H3. split; [now apply cool_warm|auto].
  - split; [exact H1|discriminate].
Qed.

Lemma alters_nonput cfg g : Forall (fun c => is_put c = false) (alters cfg g).
Proof.
  unfold alters. apply Forall_forall. intros c Hin. apply in_flat_map in Hin. destruct Hin as [t [_ Hin]].
  unfold alter_call in Hin. destruct (is_sp g); cbn in Hin.
  - destruct Hin as [<-|[]]. reflexivity.
  - destruct Hin as [<-|[<-|[]]]; reflexivity.
Qed.
Lemma alters_nonempty cfg g : alters cfg g <> [].
Proof. unfold alters. destruct g; cbn; discriminate. Qed.

(* ------------------------------------------------------------------ the ALTER loop and the record *)
Lemma salter_and_record_sim cfg g sw w : Rw sw w -> inv_warm sw ->
  snd (salter_and_record dur cfg g sw) = snd (alter_and_record cfg g w) /\
  Rw (fst (salter_and_record dur cfg g sw)) (fst (alter_and_record cfg g w)) /\
  inv_warm (fst (salter_and_record dur cfg g sw)).
Proof.
  intros HR Hw. unfold salter_and_record, alter_and_record.
  destruct (sexec_all_sim (alters cfg g) sw w HR) as [Hok HR3].
  destruct (sexec_all_warm (alters cfg g) sw (alters_nonput cfg g) Hw) as [Hw3 Hc3].
  destruct (sexec_all dur sw (alters cfg g)) as [sw3 ok3] eqn:E. destruct (exec_all w (alters cfg g)) as [w3 ok3'] eqn:E'.
  cbn in Hok, HR3, Hw3, Hc3. subst ok3'. destruct ok3.
  - destruct (sexec_sim sw3 w3 (CPut g (desired cfg g)) HR3) as [Hok4 HR4].
    split; [exact Hok4|]. split; [exact HR4|]. apply sexec_put_cool. apply Hc3; [reflexivity|apply alters_nonempty].
  - cbn. auto.
Qed.

(* ------------------------------------------------------------------ one group *)
Lemma read_is_latest n s g : strict (sd_rows s) -> pick n (sd_rows s) (key g) = latest (sd_rows s) (key g).
Proof. intro Hs. apply strict_reads_latest; [exact Hs|apply Hpick]. Qed.

Lemma sgroup_op_sim cfg g sw w : Rw sw w -> inv_warm sw ->
  snd (sgroup_op pick dur cfg g sw) = snd (group_op cfg g w) /\
  Rw (fst (sgroup_op pick dur cfg g sw)) (fst (group_op cfg g w)) /\
  inv_warm (fst (sgroup_op pick dur cfg g sw)).
Proof.
  intros HR Hw. unfold sgroup_op, group_op.
  destruct (sexec_sim sw w (CGet g) HR) as [Hok1 HR1].
  destruct (sexec_nonput_warm sw (CGet g) eq_refl Hw) as [Hw1 Hc1].
  destruct (sexec dur sw (CGet g)) as [sw1 ok1] eqn:E1. destruct (exec w (CGet g)) as [w1 ok1'] eqn:E1'.
  cbn in Hok1, HR1, Hw1, Hc1. subst ok1'. destruct ok1; [|cbn; auto].
  specialize (Hc1 eq_refl).
  rewrite (read_is_latest (sw_n sw) (sw_db sw) g (proj1 Hw)).
  rewrite <- (same_db_recd (sw_db sw) (w_db w) g (proj1 HR)).
  destruct (skip cfg g (recd (w_db w) g)); [cbn; auto|].
  unfold sforget, forget. destruct (String.eqb (recd (w_db w) g) "").
  - now apply salter_and_record_sim.
  - destruct (sexec_sim sw1 w1 (CPut g "") HR1) as [Hok2 HR2].
    pose proof (sexec_put_cool sw1 g "" Hc1) as Hw2.
    destruct (sexec dur sw1 (CPut g "")) as [sw2 ok2] eqn:E2. destruct (exec w1 (CPut g "")) as [w2 ok2'] eqn:E2'.
    cbn in Hok2, HR2, Hw2. subst ok2'. destruct ok2; [now apply salter_and_record_sim|cbn; auto].
Qed.

Lemma sseq_ops_sim cfg : forall gs sw w, Rw sw w -> inv_warm sw ->
  snd (sseq_ops pick dur cfg gs sw) = snd (seq_ops cfg gs w) /\
  Rw (fst (sseq_ops pick dur cfg gs sw)) (fst (seq_ops cfg gs w)) /\
  inv_warm (fst (sseq_ops pick dur cfg gs sw)).
Proof.
  induction gs as [|g r IH]; intros sw w HR Hw; cbn; [auto|].
  destruct (sgroup_op_sim cfg g sw w HR Hw) as [Hok [HR1 Hw1]].
  destruct (sgroup_op pick dur cfg g sw) as [sw1 ok] eqn:E. destruct (group_op cfg g w) as [w1 ok'] eqn:E'.
  cbn in Hok, HR1, Hw1. subst ok'. destruct ok; [now apply IH|cbn; auto].
Qed.

(* ------------------------------------------------------------------ runs and histories *)
Lemma well_stamped_warm st : well_stamped st <-> warm (st_db st) (st_now st).
Proof. unfold well_stamped, warm, stamps_past. tauto. Qed.

Lemma srun_sim cfg f gap st d : same_db (st_db st) d -> well_stamped st -> 0 <= gap ->
  snd (srun pick dur cfg f gap st) = snd (run cfg f d) /\
  sw_log (fst (srun pick dur cfg f gap st)) = run_log cfg f d /\
  same_db (st_db (srun_st pick dur cfg f gap st)) (run_db cfg f d) /\
  well_stamped (srun_st pick dur cfg f gap st).
Proof.
  intros HR Hws Hgap. unfold srun_st, srun, run_log, run_db, run, rotate.
  match goal with |- context [sseq_ops pick dur cfg groups ?sw0] => set (sw := sw0) end.
  match goal with |- context [seq_ops cfg groups ?w0] => set (w := w0) end.
  assert (HRw : Rw sw w) by (unfold Rw, sw, w; cbn; auto).
  assert (Hw : inv_warm sw).
  { unfold inv_warm, sw. cbn. apply (warm_later _ (st_now st)); [lia|]. now apply well_stamped_warm. }
  destruct (sseq_ops_sim cfg groups sw w HRw Hw) as [Hok [[HRd [HRl _]] Hw']].
  split; [exact Hok|]. split; [exact HRl|]. split; [exact HRd|]. apply well_stamped_warm. exact Hw'.
Qed.

Definition gaps_ok (h : list (config * fault * Z)) : Prop := Forall (fun x => 0 <= snd x) h.
Definition plain (h : list (config * fault * Z)) : list (config * fault) := map fst h.

Lemma srun_hist_sim : forall h st d, same_db (st_db st) d -> well_stamped st -> gaps_ok h ->
  same_db (st_db (srun_hist pick dur h st)) (run_hist (plain h) d) /\ well_stamped (srun_hist pick dur h st).
Proof.
  induction h as [|[[cfg f] gap] r IH]; intros st d HR Hws Hg; cbn; [auto|].
  inversion Hg as [|x r' Hx Hr]; subst. cbn in Hx.
  destruct (srun_sim cfg f gap st d HR Hws Hx) as [_ [_ [HR1 Hws1]]].
  exact (IH _ _ HR1 Hws1 Hr).
Qed.

(* ------------------------------------------------------------------ the property over the stamped rows *)
Lemma same_db_sconverged cfg s d : same_db s d -> strict (sd_rows s) -> converged cfg d -> sconverged cfg s.
Proof.
  intros HR Hs Hc g Hw. destruct (Hc g Hw) as [Hrec Hval]. split.
  - intros v Hv. rewrite (strict_reads_latest _ _ _ Hs Hv). rewrite <- (same_db_recd s d g HR). exact Hrec.
  - intros t Ht. rewrite <- (same_db_val s d g t HR). now apply Hval.
Qed.

(* any history of interrupted runs, then one uninterrupted run *)
Lemma stamped_completed h cfg gap st : well_stamped st -> consistent (abs (st_db st)) -> gaps_ok h -> 0 <= gap ->
  let r := srun pick dur cfg None gap (srun_hist pick dur h st) in
  snd r = true /\ sconverged cfg (sw_db (fst r)) /\ well_stamped (state_of (fst r)).
Proof.
  intros Hws Hc Hg Hgap r.
  destruct (srun_hist_sim h st (abs (st_db st)) (same_db_abs _) Hws Hg) as [HR1 Hws1].
  destruct (srun_sim cfg None gap _ _ HR1 Hws1 Hgap) as [Hok [_ [HR2 Hws2]]].
  split; [unfold r; rewrite Hok; apply run_nofault_ok|]. split; [|exact Hws2].
  apply (same_db_sconverged cfg _ _ HR2 (proj1 Hws2)).
  apply (proj2 (run_ok_converged cfg None _ (run_nofault_ok cfg _))). now apply run_hist_consistent.
Qed.

(* ... and the run after that one, with the same configuration: the eight settings queries and nothing else *)
Lemma stamped_silent h cfg gap gap' st : well_stamped st -> gaps_ok h -> 0 <= gap -> 0 <= gap' ->
  let st1 := srun_st pick dur cfg None gap (srun_hist pick dur h st) in
  sw_log (fst (srun pick dur cfg None gap' st1)) = rev (map (fun g => (CGet g, true)) groups) /\
  snd (srun pick dur cfg None gap' st1) = true.
Proof.
  intros Hws Hg Hgap Hgap' st1.
  destruct (srun_hist_sim h st (abs (st_db st)) (same_db_abs _) Hws Hg) as [HR1 Hws1].
  destruct (srun_sim cfg None gap _ _ HR1 Hws1 Hgap) as [_ [_ [HR2 Hws2]]].
  destruct (srun_sim cfg None gap' _ _ HR2 Hws2 Hgap') as [Hok [Hlog _]].
  fold st1 in Hok, Hlog. unfold run_log in Hlog. rewrite second_run in Hok, Hlog. cbn [fst snd w_log] in Hok, Hlog.
  split; [exact Hlog|exact Hok].
Qed.
End Sim.

(* ------------------------------------------------------------------ particular servers are admissible *)
Lemma fold_best_in (le : Z -> Z -> bool) : forall l r,
  In (fold_left (fun best x => if le (r_ts best) (r_ts x) then x else best) l r) (r :: l).
Proof.
  induction l as [|a l IH]; intros r; cbn; [now left|].
  destruct (le (r_ts r) (r_ts a)).
  - destruct (IH a) as [H|H]; [right; left; exact H|right; right; exact H].
  - destruct (IH r) as [H|H]; [left; exact H|right; right; exact H].
Qed.
Lemma fold_best_max (le : Z -> Z -> bool) (Hle : forall a b, le a b = false -> b <= a) (Hle' : forall a b, le a b = true -> a <= b) :
  forall l r r', In r' (r :: l) ->
  r_ts r' <= r_ts (fold_left (fun best x => if le (r_ts best) (r_ts x) then x else best) l r).
Proof.
  assert (Hge : forall l r, r_ts r <= r_ts (fold_left (fun best x => if le (r_ts best) (r_ts x) then x else best) l r)).
  { induction l as [|a l IH]; intros r; cbn; [lia|].
    destruct (le (r_ts r) (r_ts a)) eqn:E; [|apply IH].
    pose proof (Hle' _ _ E). pose proof (IH a). lia. }
  induction l as [|a l IH]; intros r r' Hin; cbn.
  - destruct Hin as [<-|[]]. lia.
  - destruct (le (r_ts r) (r_ts a)) eqn:E.
    + destruct Hin as [<-|[<-|Hin]].
      * pose proof (Hle' _ _ E). pose proof (Hge l a). lia.
      * apply Hge.
      * apply IH. now right.
    + destruct Hin as [<-|[<-|Hin]].
      * apply Hge.
      * pose proof (Hle _ _ E). pose proof (Hge l r). lia.
      * apply IH. now right.
Qed.

Lemma pick_first_ok : pick_ok (fun _ => pick_first).
Proof.
  intros n rows k. unfold pick_first, may_read. destruct (rows_of rows k) as [|r l] eqn:E; [left; now split|].
  right. eexists. split; [apply (fold_best_in Z.ltb)|]. split; [reflexivity|].
  intros r' Hin. apply (fold_best_max Z.ltb); [intros a b H; apply Z.ltb_ge in H; lia|intros a b H; apply Z.ltb_lt in H; lia|exact Hin].
Qed.
Lemma pick_last_ok : pick_ok (fun _ => pick_last).
Proof.
  intros n rows k. unfold pick_last, may_read. destruct (rows_of rows k) as [|r l] eqn:E; [left; now split|].
  right. eexists. split; [apply (fold_best_in Z.leb)|]. split; [reflexivity|].
  intros r' Hin. apply (fold_best_max Z.leb); [intros a b H; apply Z.leb_gt in H; lia|intros a b H; apply Z.leb_le in H; lia|exact Hin].
Qed.
Lemma wt1_pick_ok : pick_ok wt1_pick.
Proof. exact pick_first_ok. Qed.
Lemma wt2_pick_ok : pick_ok wt2_pick.
Proof. intros n. unfold wt2_pick. destruct (n <? 65)%nat; [apply (pick_first_ok n)|apply (pick_last_ok n)]. Qed.

Lemma st0_well_stamped : well_stamped st0.
Proof. split; [intro k; exact I|intros r []]. Qed.
Lemma st0_consistent : consistent (abs (st_db st0)).
Proof. intros g t _ H. now elim H. Qed.

(* ------------------------------------------------------------------ a clock that is merely non-decreasing is not enough *)
Lemma wt1_diverges :
  pick_ok wt1_pick /\ clock_mono wt1_dur /\ (forall n c b, is_alter c = true -> 0 < wt1_dur n c b) /\
  well_stamped st0 /\ consistent (abs (st_db st0)) /\ gaps_ok wt1_hist /\
  snd (srun wt1_pick wt1_dur wt_a None 0 (srun_hist wt1_pick wt1_dur wt1_hist st0)) = true /\
  sd_ttl (st_db wt1_final) SamplesV3 = desired wt_b TtlSamples /\
  may_read (sd_rows (st_db wt1_final)) (key TtlSamples) (desired wt_a TtlSamples) /\
  ~ sconverged wt_a (st_db wt1_final).
Proof.
  split; [exact wt1_pick_ok|]. split; [intros n c b; unfold wt1_dur; destruct (is_alter c); lia|].
  split; [intros n c b H; unfold wt1_dur; rewrite H; lia|].
  split; [exact st0_well_stamped|]. split; [exact st0_consistent|].
  split; [repeat constructor; cbn; lia|]. split; [vm_compute; reflexivity|]. split; [vm_compute; reflexivity|].
  split.
  - replace (desired wt_a TtlSamples) with (wt1_pick 0%nat (sd_rows (st_db wt1_final)) (key TtlSamples)) by (vm_compute; reflexivity).
    apply wt1_pick_ok.
  - intro H. destruct (H TtlSamples eq_refl) as [_ Hv]. specialize (Hv SamplesV3 (or_introl eq_refl)).
    vm_compute in Hv. discriminate.
Qed.

Lemma wt2_diverges :
  pick_ok wt2_pick /\ clock_mono wt2_dur /\ (forall n g b, 0 < wt2_dur n (CGet g) b) /\
  well_stamped st0 /\ consistent (abs (st_db st0)) /\ gaps_ok wt2_hist /\
  snd (srun wt2_pick wt2_dur wt_b None 5000000000 (srun_hist wt2_pick wt2_dur wt2_hist st0)) = true /\
  sd_ttl (st_db wt2_final) SamplesV3 = desired wt_c TtlSamples /\
  ~ sconverged wt_b (st_db wt2_final).
Proof.
  split; [exact wt2_pick_ok|]. split; [intros n c b; unfold wt2_dur; destruct c; lia|].
  split; [intros n g b; cbn; lia|].
  split; [exact st0_well_stamped|]. split; [exact st0_consistent|].
  split; [repeat constructor; cbn; lia|]. split; [vm_compute; reflexivity|]. split; [vm_compute; reflexivity|].
  intro H. destruct (H TtlSamples eq_refl) as [_ Hv]. specialize (Hv SamplesV3 (or_introl eq_refl)).
  vm_compute in Hv. discriminate.
Qed.

(* ------------------------------------------------------------------ the hypotheses are satisfiable: a server that takes a
   microsecond per SELECT/ALTER, no time at all for an INSERT, and answers the first-inserted row among ties; B applied,
   A interrupted at its 9th call, B interrupted at its 7th, then A completes: 27 + 9 + 7 + 31 statements *)
Definition ex_dur (n : nat) (c : call) (b : bool) : Z := if is_put c then 0 else if b then 1000 else 0.
Example ex_stamped_hypotheses : pick_ok wt1_pick /\ clock_mono ex_dur /\ clock_advances ex_dur.
Proof.
  split; [exact wt1_pick_ok|]. split; [intros n c b; unfold ex_dur; destruct (is_put c), b; lia|].
  intros n c H. unfold ex_dur. rewrite H. lia.
Qed.
Example ex_stamped_run :
  let st := srun_hist wt1_pick ex_dur wt1_hist st0 in
  let r := srun wt1_pick ex_dur wt_a None 0 st in
  st_n st = 43%nat /\ List.length (sd_rows (st_db st)) = 8%nat /\
  snd r = true /\ sw_n (fst r) = 74%nat /\ sd_ttl (sw_db (fst r)) SamplesV3 = desired wt_a TtlSamples.
Proof. vm_compute. repeat split. Qed.
