(* C20 — the regenerated assembly (gen/GenRoutes.v) passes the structural check in every configuration *)
From Coq Require Import List String Ascii Bool NArith.
From Qryn Require Import model.Auth model.Router proofs.AuthProofs gen.GenRoutes.
Import ListNotations.

Definition ok_and_known (ops : list rop) : bool := assembly_ok ops && assembly_known ops.

(* 2^gen_natoms valuations, evaluated by the kernel's virtual machine *)
Lemma gen_all_envs : all_envs gen_natoms gen_must ok_and_known gen_assembly = true.
Proof. vm_compute. reflexivity. Qed.
Lemma gen_has_credential_atoms : gen_credentials_atoms = true.
Proof. reflexivity. Qed.

Lemma ok_and_known_split : forall ops, ok_and_known ops = true -> assembly_ok ops = true /\ assembly_known ops = true.
Proof. intros ops G. unfold ok_and_known in G. apply andb_true_iff in G. exact G. Qed.

Lemma gen_ok : forall env : nat -> bool, (forall a, In a gen_must -> env a = true) ->
  assembly_ok (active env gen_assembly) = true /\ assembly_known (active env gen_assembly) = true.
Proof.
  intros env H. apply ok_and_known_split.
  exact (all_envs_sound gen_natoms gen_must ok_and_known gen_assembly gen_all_envs env H).
Qed.

(* nothing serves http.DefaultServeMux (census of the translator) *)
Lemma gen_default_mux_not_served : gen_default_mux_served = false.
Proof. reflexivity. Qed.

(* login set, password EMPTY (Mode "all", CORS off): main() installs no BasicAuth at all -- some reachable route is
   served to anybody.  The premise of C20 ("a login and a password are configured") is not met in that configuration. *)
Lemma gen_open_without_password :
  let env := env_of_list gen_open_witness in
  env gen_login_atom = true /\ env gen_pass_atom = false /\
  exists rt, In rt (reachable_routes (active env gen_assembly)) /\
    forall ce login pass other h q,
      p_status (serve ce login pass other h (chain (active env gen_assembly) (rt_router rt)) q) = h q /\
      In EvHandler (p_trace (serve ce login pass other h (chain (active env gen_assembly) (rt_router rt)) q)).
Proof.
  cbv zeta. split; [reflexivity|]. split; [reflexivity|].
  apply open_check_sound. vm_compute. reflexivity.
Qed.
