(* Property C11, part 1 of the proofs: the analysis of a selector (simpleExpressionPlanner.analyzeCond:
   de-duplicated term list + tree of term indices) keeps the meaning of the boolean expression, and
   the key/val pre-filter of AttrConditionPlanner (with the guard holdsWithoutIndexedTerm) loses no
   matching span. *)
From Coq Require Import List ZArith QArith String Ascii Bool Lia.
From Qryn Require Import model.TqSql model.Traceql model.TraceqlPlan model.TraceqlSem.
Import ListNotations.
Open Scope list_scope.

(* ---------- decidable equalities used by keys_ok ---------- *)
Lemma opt_eqb_eq {A} (eq : A -> A -> bool) (H : forall x y, eq x y = true -> x = y) :
  forall a b, opt_eqb eq a b = true -> a = b.
Proof. intros [x|] [y|] E; cbn in E; try discriminate; [f_equal; now apply H|reflexivity]. Qed.

Lemma cmp_eqb_eq a b : cmp_eqb a b = true -> a = b.
Proof. destruct a, b; cbn; intros E; try discriminate; reflexivity. Qed.

Lemma value_eqb_eq a b : value_eqb a b = true -> a = b.
Proof.
  destruct a as [t1 f1 s1 u1 m1 d1], b as [t2 f2 s2 u2 m2 d2]. unfold value_eqb. cbn [v_time v_f v_str v_unq v_ffmt v_dur].
  intros E. repeat (apply andb_true_iff in E; destruct E as [E ?]).
  apply String.eqb_eq in E. apply String.eqb_eq in H3.
  apply (opt_eqb_eq String.eqb (fun x y => proj1 (String.eqb_eq x y))) in H2, H1, H0.
  apply (opt_eqb_eq Z.eqb (fun x y => proj1 (Z.eqb_eq x y))) in H.
  subst. reflexivity.
Qed.

Lemma attr_sel_eqb_eq a b : attr_sel_eqb a b = true -> a = b.
Proof.
  destruct a as [l1 o1 v1], b as [l2 o2 v2]. unfold attr_sel_eqb. cbn [a_label a_op a_val].
  intros E. apply andb_true_iff in E. destruct E as [E Hv]. apply andb_true_iff in E. destruct E as [Hl Ho].
  apply String.eqb_eq in Hl. apply cmp_eqb_eq in Ho. apply value_eqb_eq in Hv. subst. reflexivity.
Qed.

(* keys_ok: within the term universe U of one selector, equal keys mean equal terms *)
Definition keys_inj (U : list attr_sel) : Prop :=
  forall a b, In a U -> In b U -> attr_sel_string a = attr_sel_string b -> a = b.

Lemma keys_ok_inj e : keys_ok e = true -> keys_inj (exp_terms e).
Proof.
  unfold keys_ok, keys_inj. intros H a b Ha Hb Hk.
  rewrite forallb_forall in H. specialize (H a Ha). rewrite forallb_forall in H. specialize (H b Hb).
  apply orb_true_iff in H. destruct H as [H|H].
  - apply negb_true_iff in H. apply String.eqb_neq in H. contradiction.
  - now apply attr_sel_eqb_eq.
Qed.

Section ANALYZE.
  Variable re_match : string -> string -> bool.
  Variable parse_float : string -> option Q.
  Variable lit_round : bool.
  Notation tsem := (term_sem re_match parse_float lit_round).
  Notation esem := (exp_sem re_match parse_float lit_round).
  Notation csem := (cond_sem re_match parse_float lit_round).

  (* every index of the tree is below n *)
  Fixpoint cond_wf (n : nat) (c : condition) : Prop :=
    match c with CTerm i => (i < n)%nat | CBin _ l r => cond_wf n l /\ cond_wf n r end.

  Lemma cond_wf_mono n m c : (n <= m)%nat -> cond_wf n c -> cond_wf m c.
  Proof. induction c as [i|op l IHl r IHr]; cbn; intros; [lia|tauto]. Qed.

  Lemma csem_ext ts ext rows c : cond_wf (List.length ts) c -> csem (ts ++ ext) rows c = csem ts rows c.
  Proof.
    induction c as [i|op l IHl r IHr]; cbn [cond_wf cond_sem]; intros H.
    - now rewrite nth_error_app1.
    - destruct H as [Hl Hr]. rewrite IHl, IHr by assumption. reflexivity.
  Qed.

  (* the map of analyzeCond is consistent with its term list *)
  Definition st_ok (U : list attr_sel) (st : an_state) : Prop :=
    (forall k i, find_key k (snd st) = Some i -> exists t, nth_error (fst st) i = Some t /\ attr_sel_string t = k)
    /\ (forall i t, nth_error (fst st) i = Some t -> In t U).

  Lemma st_ok_nil U : st_ok U ([], []).
  Proof. split; [intros k i H; discriminate|intros [|i] t H; discriminate]. Qed.

  Fixpoint analyze_cond_ok (U : list attr_sel) (HU : keys_inj U) (e : attr_exp) {struct e} :
    forall st c st',
      (forall t, In t (exp_terms e) -> In t U) -> st_ok U st -> analyze_cond e st = (c, st') ->
      st_ok U st' /\ (exists ext, fst st' = fst st ++ ext) /\ cond_wf (List.length (fst st')) c
      /\ forall rows, csem (fst st') rows c = esem e rows.
  Proof.
    destruct e as [h ao tl]. intros st c st' Hin Hst Han. cbn [analyze_cond] in Han.
    (* the head *)
    assert (Hhead : forall res st1,
               match h with
               | HParen e' => analyze_cond e' st
               | HTerm t =>
                   match find_key (attr_sel_string t) (snd st) with
                   | Some i => (CTerm i, st)
                   | None => (CTerm (List.length (fst st)), (fst st ++ [t], (attr_sel_string t, List.length (fst st)) :: snd st))
                   end
               end = (res, st1) ->
               st_ok U st1 /\ (exists ext, fst st1 = fst st ++ ext) /\ cond_wf (List.length (fst st1)) res
               /\ forall rows, csem (fst st1) rows res =
                               match h with HTerm t => existsb (tsem t) rows | HParen e' => esem e' rows end).
    { intros res st1 E. destruct h as [t|e'].
      - assert (HtU : In t U) by (apply Hin; cbn; left; reflexivity).
        destruct (find_key (attr_sel_string t) (snd st)) as [i|] eqn:Ek.
        + inversion E; subst res st1; clear E.
          destruct Hst as [Hmap HinU]. destruct (Hmap _ _ Ek) as [t0 [Hn Hk]].
          split; [split; assumption|]. split; [exists []; now rewrite app_nil_r|].
          split; [cbn; apply nth_error_Some; congruence|].
          intros rows. cbn [cond_sem]. rewrite Hn.
          assert (t0 = t) as -> by (apply HU; [eapply HinU; eassumption|assumption|assumption]). reflexivity.
        + inversion E; subst res st1; clear E. cbn [fst snd].
          destruct Hst as [Hmap HinU].
          split; [split|].
          * intros k i Hf. cbn [find_key fst snd] in Hf |- *.
            destruct (String.eqb k (attr_sel_string t)) eqn:Ekk.
            -- injection Hf as <-. exists t. split; [now rewrite nth_error_app2, Nat.sub_diag by lia|].
               symmetry. now apply String.eqb_eq.
            -- destruct (Hmap _ _ Hf) as [t0 [Hn Hk]]. exists t0. split; [|assumption].
               rewrite nth_error_app1; [assumption|]. apply nth_error_Some. congruence.
          * intros i t0 Hn. cbn [fst snd] in Hn. destruct (Nat.lt_ge_cases i (List.length (fst st))) as [Hlt|Hge].
            -- rewrite nth_error_app1 in Hn by assumption. eapply HinU; eassumption.
            -- rewrite nth_error_app2 in Hn by assumption.
               destruct (i - List.length (fst st))%nat as [|k]; cbn in Hn; [inversion Hn; now subst|destruct k; discriminate].
          * split; [exists [t]; reflexivity|]. split; [cbn; rewrite app_length; cbn; lia|].
            intros rows. cbn [cond_sem]. now rewrite nth_error_app2, Nat.sub_diag by lia.
      - apply (analyze_cond_ok U HU e' st res st1); [|assumption|assumption].
        intros t Ht. apply Hin. cbn. apply in_or_app. left. assumption. }
    destruct (match h with
              | HParen e' => analyze_cond e' st
              | HTerm t =>
                  match find_key (attr_sel_string t) (snd st) with
                  | Some i => (CTerm i, st)
                  | None => (CTerm (List.length (fst st)), (fst st ++ [t], (attr_sel_string t, List.length (fst st)) :: snd st))
                  end
              end) as [res st1] eqn:Eh.
    destruct (Hhead res st1 eq_refl) as [Hst1 [[ext1 Hext1] [Hwf1 Hsem1]]].
    destruct tl as [t'|].
    - destruct (analyze_cond t' st1) as [r2 st2] eqn:Et. inversion Han; subst c st'; clear Han.
      destruct (analyze_cond_ok U HU t' st1 r2 st2) as [Hst2 [[ext2 Hext2] [Hwf2 Hsem2]]]; [|assumption|assumption|].
      { intros t Ht. apply Hin. cbn. apply in_or_app. right. assumption. }
      split; [assumption|]. split; [exists (ext1 ++ ext2); now rewrite Hext2, Hext1, app_assoc|].
      split; [cbn; split; [|assumption]; eapply cond_wf_mono; [|eassumption]; rewrite Hext2, app_length; lia|].
      intros rows. cbn [cond_sem exp_sem]. rewrite Hsem2, Hext2, csem_ext, Hsem1 by assumption.
      destruct ao; reflexivity.
    - inversion Han; subst c st'; clear Han.
      split; [assumption|]. split; [exists ext1; assumption|]. split; [assumption|].
      intros rows. cbn [exp_sem]. apply Hsem1.
  Qed.

  (* analyze: the term list and the tree of a selector mean what its expression means *)
  Theorem analyze_sem (e : attr_exp) :
    keys_ok e = true ->
    let '(c, st) := analyze_cond e ([], []) in
    cond_wf (List.length (fst st)) c /\ forall rows, csem (fst st) rows c = esem e rows.
  Proof.
    intros Hk. destruct (analyze_cond e ([], [])) as [c st] eqn:E.
    destruct (analyze_cond_ok (exp_terms e) (keys_ok_inj e Hk) e ([], []) c st (fun t H => H) (st_ok_nil _) E)
      as [_ [_ [Hwf Hsem]]].
    split; assumption.
  Qed.

  (* ---------- the key/val pre-filter ---------- *)
  (* a row passes the pre-filter when it passes the key/val test of some indexed term, or carries the
     aggregated attribute (those are exactly the WHERE terms collected by maybeCreateWhere/aggregator) *)
  Definition indexed (t : attr_sel) : bool := is_indexed_label (a_label t).
  Definition prefilter (terms : list attr_sel) (extra : irow -> bool) (r : irow) : bool :=
    existsb (fun t => indexed t && tsem t r) terms || extra r.

  (* a term that is not indexed and yet supported is a duration term: it does not look at key/val, so
     within one span (all rows carry the span's duration) it is true of one row iff of every row *)
  Definition uniform_dur (rows : list irow) : Prop :=
    forall a b, In a rows -> In b rows -> r_dur a = r_dur b.

  Lemma tsem_nonindexed_dur t a b : indexed t = false -> r_dur a = r_dur b -> tsem t a = tsem t b.
  Proof.
    unfold indexed, is_indexed_label, term_sem, label_key, strip_scope. intros Hi Hd.
    apply orb_false_iff in Hi. destruct Hi as [Hi Hname]. apply orb_false_iff in Hi. destruct Hi as [Hi Hdot].
    apply orb_false_iff in Hi. destruct Hi as [Hspan Hres].
    rewrite Hspan, Hres, Hdot, Hname. now rewrite Hd.
  Qed.

  Lemma existsb_filter_sub {A} (f p : A -> bool) l : existsb f (filter p l) = true -> existsb f l = true.
  Proof.
    rewrite !existsb_exists. intros [x [Hx Hf]]. apply filter_In in Hx. exists x. tauto.
  Qed.

  (* on the rows that pass the pre-filter, an indexed term is true of some row iff it was of some row before *)
  Lemma indexed_term_filter terms extra rows t :
    In t terms -> indexed t = true ->
    existsb (tsem t) (filter (prefilter terms extra) rows) = existsb (tsem t) rows.
  Proof.
    intros Hin Hi. apply eq_true_iff_eq. split; [apply existsb_filter_sub|].
    rewrite !existsb_exists. intros [r [Hr Ht]]. exists r. split; [|assumption].
    apply filter_In. split; [assumption|]. unfold prefilter. apply orb_true_iff. left.
    apply existsb_exists. exists t. split; [assumption|]. now rewrite Hi, Ht.
  Qed.

  Lemma nonindexed_term_filter terms extra rows t :
    uniform_dur rows -> indexed t = false -> filter (prefilter terms extra) rows <> [] ->
    existsb (tsem t) (filter (prefilter terms extra) rows) = existsb (tsem t) rows.
  Proof.
    intros Hu Hi Hne. apply eq_true_iff_eq. split; [apply existsb_filter_sub|].
    rewrite !existsb_exists. intros [r [Hr Ht]].
    destruct (filter (prefilter terms extra) rows) as [|r0 rest] eqn:Ef; [congruence|].
    exists r0. split; [left; reflexivity|].
    assert (Hr0 : In r0 rows) by (eapply proj1, filter_In; rewrite Ef; left; reflexivity).
    rewrite (tsem_nonindexed_dur t r0 r Hi (Hu _ _ Hr0 Hr)). assumption.
  Qed.

  (* holds_without_indexed = false: if the condition holds, some indexed term holds *)
  Lemma cond_needs_indexed terms rows c :
    holds_without_indexed terms c = false -> csem terms rows c = true ->
    exists t, In t terms /\ indexed t = true /\ existsb (tsem t) rows = true.
  Proof.
    induction c as [i|op l IHl r IHr]; cbn [holds_without_indexed cond_sem]; intros Hh Hc.
    - destruct (nth_error terms i) as [t|] eqn:En; [|discriminate].
      exists t. split; [eapply nth_error_In; eassumption|]. split; [|assumption].
      (* a supported non-duration term is indexed; an unsupported one is never true *)
      unfold indexed, is_indexed_label.
      destruct (has_prefix "span." (a_label t) || has_prefix "resource." (a_label t) || has_prefix "." (a_label t) || String.eqb (a_label t) "name")%string eqn:E; [reflexivity|].
      exfalso. apply existsb_exists in Hc. destruct Hc as [r0 [_ Hr0]].
      unfold term_sem, label_key, strip_scope in Hr0.
      apply orb_false_iff in E. destruct E as [E Hname]. apply orb_false_iff in E. destruct E as [E Hdot].
      apply orb_false_iff in E. destruct E as [Hspan Hres].
      rewrite Hspan, Hres, Hdot, Hname in Hr0.
      destruct (dur_ns (a_val t)); [|discriminate]. rewrite Hh in Hr0. discriminate.
    - destruct op.
      + apply orb_false_iff in Hh. destruct Hh as [Hl Hr]. apply orb_true_iff in Hc. destruct Hc as [Hc|Hc]; [now apply IHl|now apply IHr].
      + apply andb_true_iff in Hc. destruct Hc as [Hcl Hcr].
        apply andb_false_iff in Hh. destruct Hh as [Hl|Hr]; [now apply IHl|now apply IHr].
      + apply orb_false_iff in Hh. destruct Hh as [Hl Hr]. apply orb_true_iff in Hc. destruct Hc as [Hc|Hc]; [now apply IHl|now apply IHr].
  Qed.

  Lemma csem_filter_nonempty terms extra rows c :
    uniform_dur rows -> cond_wf (List.length terms) c -> filter (prefilter terms extra) rows <> [] ->
    csem terms (filter (prefilter terms extra) rows) c = csem terms rows c.
  Proof.
    intros Hu. induction c as [i|op l IHl r IHr]; cbn [cond_wf cond_sem]; intros Hwf Hne.
    - destruct (nth_error terms i) as [t|] eqn:En; [|reflexivity].
      destruct (indexed t) eqn:Ei.
      + apply indexed_term_filter; [eapply nth_error_In; eassumption|assumption].
      + now apply nonindexed_term_filter.
    - destruct Hwf as [Hl Hr]. rewrite IHl, IHr by assumption. reflexivity.
  Qed.

  (* The pre-filter, applied under the guard of AttrConditionPlanner.Process, does not change which spans
     match: the surviving rows of a span satisfy the condition iff all its rows do (and a span with no
     surviving row -- which disappears from the GROUP BY -- did not match). *)
  Theorem prefilter_sound terms extra rows c :
    uniform_dur rows -> cond_wf (List.length terms) c -> holds_without_indexed terms c = false ->
    (filter (prefilter terms extra) rows <> [] /\ csem terms (filter (prefilter terms extra) rows) c = true)
    <-> csem terms rows c = true.
  Proof.
    intros Hu Hwf Hh. split.
    - intros [Hne Hc]. now rewrite csem_filter_nonempty in Hc.
    - intros Hc. destruct (cond_needs_indexed terms rows c Hh Hc) as [t [Hin [Hi Ht]]].
      assert (Hne : filter (prefilter terms extra) rows <> []).
      { rewrite <- (indexed_term_filter terms extra rows t Hin Hi) in Ht.
        intros E. rewrite E in Ht. discriminate. }
      split; [assumption|]. now rewrite csem_filter_nonempty.
  Qed.

  (* and without the guard it does: the witness of the repaired defect, {duration > 1s || .a = "b"} on a
     span whose only attribute is not a *)
End ANALYZE.
