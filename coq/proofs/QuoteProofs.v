(* C10 — proofs about StringVal.String (model/Quote.v) against the ClickHouse literal lexer (model/ChLex.v) *)
From Coq Require Import List String Ascii Bool NArith Lia.
From Qryn Require Import model.Quote model.ChLex.
Import ListNotations.
Open Scope string_scope.

Lemma sapp_nil_r (s : string) : s ++ "" = s.
Proof. induction s as [|c s IH]; cbn; [reflexivity|now rewrite IH]. Qed.
Lemma sapp_assoc (a b c : string) : (a ++ b) ++ c = a ++ (b ++ c).
Proof. induction a as [|x a IH]; cbn; [reflexivity|now rewrite IH]. Qed.
Lemma app1_assoc acc c s : app1 acc c ++ s = acc ++ String c s.
Proof. unfold app1. now rewrite sapp_assoc. Qed.

(* ------------------------------------------------------------------ *)
(* strings.Replace with a one-byte search string is a per-byte map      *)

Definition single (k : ascii) : string := String k EmptyString.

Lemma prefix_nil r : prefix "" r = true.
Proof. destruct r; reflexivity. Qed.

Lemma repl_single_cons k new x r :
  repl (single k) new O (String x r) =
  (if Ascii.eqb x k then new else single x) ++ repl (single k) new O r.
Proof.
  unfold single. cbn [repl prefix].
  destruct (ascii_dec k x) as [->|Hne].
  - rewrite Ascii.eqb_refl, prefix_nil. cbn. reflexivity.
  - destruct (Ascii.eqb_spec x k) as [->|_]; [contradiction|]. cbn. reflexivity.
Qed.

Lemma repl_single_app k new a b :
  repl (single k) new O (a ++ b) = repl (single k) new O a ++ repl (single k) new O b.
Proof.
  induction a as [|x a IH]; [reflexivity|].
  change (String x a ++ b) with (String x (a ++ b)).
  rewrite !repl_single_cons, IH, sapp_assoc. reflexivity.
Qed.

Definition single_keys (tbl : list (string * string)) : Prop :=
  Forall (fun p => exists k, fst p = single k) tbl.

Lemma esc_seq_app tbl : single_keys tbl -> forall a b,
  esc_seq tbl (a ++ b) = esc_seq tbl a ++ esc_seq tbl b.
Proof.
  unfold esc_seq. induction 1 as [|[old new] tbl [k Hk] _ IH]; intros a b; [reflexivity|].
  cbn [fold_left fst snd] in *. subst old. unfold replace_all, single at 1 3 5.
  fold (single k). rewrite repl_single_app. apply IH.
Qed.

Lemma escape_table_single : single_keys escape_table.
Proof. unfold escape_table, bs, ch. repeat constructor; eexists; reflexivity. Qed.

Lemma replace_single_ne k new c : c <> k ->
  replace_all (String k EmptyString) new (String c EmptyString) = String c EmptyString.
Proof.
  intro H. unfold replace_all. change (String k "") with (single k).
  rewrite repl_single_cons. destruct (Ascii.eqb_spec c k); [contradiction|]. reflexivity.
Qed.

Lemma esc_seq_one c : esc_seq escape_table (single c) = esc_char c.
Proof.
  unfold esc_char.
  repeat match goal with
  | |- context [Ascii.eqb c ?k] => destruct (Ascii.eqb_spec c k) as [->|?]; [reflexivity|]
  end.
  unfold esc_seq, escape_table, bs, ch, single. cbn [fold_left fst snd ascii_of_nat].
  repeat (rewrite replace_single_ne by (cbn; assumption)). reflexivity.
Qed.

(* the eight sequential replaces are the per-byte map *)
Lemma esc_seq_is_esc : forall s, esc_seq escape_table s = esc s.
Proof.
  induction s as [|c s IH]; [reflexivity|].
  change (String c s) with (single c ++ s).
  rewrite (esc_seq_app _ escape_table_single), esc_seq_one, IH. reflexivity.
Qed.

Lemma quote_seq_is_quote : forall s, quote_seq s = quote s.
Proof. intro s. unfold quote_seq, quote. now rewrite esc_seq_is_esc. Qed.

(* ------------------------------------------------------------------ *)
(* quote s is exactly one literal that decodes to s                     *)

Lemma hex_1a : hex_byte "1" "a" = "026"%char.
Proof. reflexivity. Qed.

Lemma lex_body_esc : forall s rest acc, safe_rest rest ->
  lex_body (esc s ++ String "'" rest) acc = Some (acc ++ s, rest).
Proof.
  induction s as [|c s IH]; intros rest acc Hsafe.
  - cbn. destruct rest as [|c2 r2]; cbn.
    + now rewrite sapp_nil_r.
    + cbn in Hsafe. destruct (Ascii.eqb_spec c2 "'"); [contradiction|]. now rewrite sapp_nil_r.
  - cbn [esc]. unfold esc_char.
    repeat match goal with
    | |- context [Ascii.eqb c ?k] => destruct (Ascii.eqb_spec c k) as [->|?]
    end;
    try (cbn [append lex_body Ascii.eqb Bool.eqb andb orb unescape]; try rewrite hex_1a;
         rewrite IH by assumption; try rewrite app1_assoc; try rewrite sapp_assoc; reflexivity).
    (* generic byte: not a quote, not a backslash *)
    cbn [append lex_body].
    rewrite (proj2 (Ascii.eqb_neq _ _)) by assumption.
    rewrite (proj2 (Ascii.eqb_neq _ _)) by assumption.
    rewrite IH by assumption. rewrite app1_assoc. reflexivity.
Qed.

Lemma quote_is_one_literal_l : forall s rest, safe_rest rest ->
  lex_string (quote s ++ rest) = Some (s, rest).
Proof.
  intros s rest Hsafe. unfold quote, lex_string. cbn.
  rewrite sapp_assoc. cbn. now rewrite lex_body_esc.
Qed.
