(* C12 -- proofs about model/ReadPool.v: threads over StableSqlxDBWrapper's RWMutex. *)
From Coq Require Import List Bool Arith ZArith Lia Wf_nat.
From Qryn Require Import model.ReadPool.
Import ListNotations.

(* ------------------------------------------------------------------ every schedule is finite *)
Lemma pl_measure_app : forall a b, pl_measure (a ++ b) = pl_measure a + pl_measure b.
Proof. induction a as [|t a IH]; intros b; simpl; [reflexivity|]. rewrite IH. lia. Qed.

Lemma pl_tstep_decreases : forall all t t', pl_tstep all t = Some t' -> pl_measure_t t' < pl_measure_t t.
Proof.
  intros all [r w a ops] t' H. unfold pl_tstep in H. cbn [t_ops t_ann t_r t_w] in H.
  destruct ops as [|o ops]; [discriminate|].
  unfold pl_measure_t.
  destruct o; destruct a; cbn [t_ann t_ops] in *;
    repeat match type of H with
           | (if ?c then _ else _) = _ => destruct c
           | match ?c with _ => _ end = _ => destruct c
           end; try discriminate; inversion H; subst; cbn [t_ann t_ops List.length]; lia.
Qed.

Lemma pl_step_decreases : forall a b, pl_step a b -> pl_measure b < pl_measure a.
Proof.
  intros a b H. destruct H as [l1 t l2 t' H]. apply pl_tstep_decreases in H.
  rewrite !pl_measure_app. simpl. lia.
Qed.

Lemma pl_terminates : forall ts, Acc (fun b a => pl_step a b) ts.
Proof.
  intros ts. remember (pl_measure ts) as n eqn:E. revert ts E.
  induction n as [n IH] using lt_wf_ind. intros ts E. constructor. intros b Hs.
  apply pl_step_decreases in Hs. eapply IH; [|reflexivity]. lia.
Qed.

(* ------------------------------------------------------------------ the per-thread invariant *)
Lemma pl_tinv_step : forall all t t', pl_tstep all t = Some t' -> pl_tinv t = true -> pl_tinv t' = true.
Proof.
  intros all [r w a ops] t' H I. unfold pl_tstep in H. unfold pl_tinv, pl_mode_of in *. cbn [t_ops t_ann t_r t_w] in *.
  destruct ops as [|o ops]; [discriminate|].
  destruct r as [|[|r]]; destruct w; destruct a; try discriminate; destruct o; cbn [pl_ok] in I; try discriminate;
    cbn [t_ann t_ops] in H;
    repeat match type of H with
           | (if ?c then _ else _) = _ => destruct c
           end; try discriminate; inversion H; subst; cbn [t_ops t_ann t_r t_w pl_ok]; exact I.
Qed.

Lemma pl_inv_step : forall a b, pl_step a b -> forallb pl_tinv a = true -> forallb pl_tinv b = true.
Proof.
  intros a b H I. destruct H as [l1 t l2 t' H]. rewrite forallb_app in *. simpl in *.
  apply andb_true_iff in I. destruct I as [I1 I2]. apply andb_true_iff in I2. destruct I2 as [It I2].
  rewrite I1, I2, (pl_tinv_step _ _ _ H It). reflexivity.
Qed.

Lemma pl_inv_star : forall a b, pl_star a b -> forallb pl_tinv a = true -> forallb pl_tinv b = true.
Proof. induction 1 as [|a b c S _ IH]; intros I; [exact I|]. apply IH. eapply pl_inv_step; eauto. Qed.

Lemma pl_fresh_inv : forall progs, forallb (pl_ok MOut) progs = true -> forallb pl_tinv (map pl_fresh progs) = true.
Proof. induction progs as [|p ps IH]; simpl; intros H; [reflexivity|]. apply andb_true_iff in H. destruct H as [H1 H2].
  unfold pl_tinv at 1. simpl. rewrite H1. simpl. auto. Qed.

(* ------------------------------------------------------------------ nobody waits for ever *)
Lemma existsb_false_all : forall (A : Type) (f : A -> bool) l, existsb f l = false -> forall x, In x l -> f x = false.
Proof. induction l as [|y l IH]; simpl; intros H x Hx; [contradiction|]. apply orb_false_iff in H. destruct H as [H1 H2].
  destruct Hx as [<-|Hx]; auto. Qed.

Lemma pl_readers_zero : forall ts, (forall t, In t ts -> t_r t = 0) -> pl_readers ts = 0.
Proof. induction ts as [|t ts IH]; simpl; intros H; [reflexivity|]. rewrite (H t (or_introl eq_refl)), IH; auto. Qed.

Lemma pl_can_step : forall ts t t', In t ts -> pl_tstep ts t = Some t' -> exists ts', pl_step ts ts'.
Proof. intros ts t t' Hin H. apply in_split in Hin. destruct Hin as [l1 [l2 ->]]. eexists. constructor. exact H. Qed.

Lemma pl_progress : forall ts, forallb pl_tinv ts = true -> existsb (fun t => negb (pl_done t)) ts = true -> exists ts', pl_step ts ts'.
Proof.
  intros ts I U. rewrite forallb_forall in I.
  destruct (existsb t_w ts) eqn:EW.
  { (* a writer is active: it can go on *)
    apply existsb_exists in EW. destruct EW as [t [Hin Hw]]. specialize (I t Hin).
    destruct t as [r w a ops]. cbn [t_w] in Hw. subst w. unfold pl_tinv, pl_mode_of in I. cbn [t_r t_w t_ann t_ops] in I.
    destruct r as [|[|r]]; destruct a; try discriminate.
    destruct ops as [|o ops]; [discriminate|]. destruct o; cbn [pl_ok] in I; try discriminate;
      eapply pl_can_step; eauto; unfold pl_tstep; cbn; reflexivity. }
  pose proof (existsb_false_all _ _ _ EW) as NW.
  destruct (existsb (fun t => negb (Nat.eqb (t_r t) 0)) ts) eqn:ER.
  { (* a reader holds the lock: it can go on *)
    apply existsb_exists in ER. destruct ER as [t [Hin Hr]]. specialize (I t Hin). pose proof (NW t Hin) as Hw.
    destruct t as [r w a ops]. cbn [t_w t_r] in *. subst w. unfold pl_tinv, pl_mode_of in I. cbn [t_r t_w t_ann t_ops] in I.
    destruct r as [|[|r]]; [discriminate Hr| |discriminate]. destruct a; [discriminate|].
    destruct ops as [|o ops]; [discriminate|]. destruct o; cbn [pl_ok] in I; try discriminate;
      eapply pl_can_step; eauto; unfold pl_tstep; cbn; reflexivity. }
  pose proof (existsb_false_all _ _ _ ER) as NR.
  assert (R0 : pl_readers ts = 0).
  { apply pl_readers_zero. intros t Hin. specialize (NR t Hin). apply negb_false_iff in NR. apply Nat.eqb_eq in NR. exact NR. }
  destruct (existsb t_ann ts) eqn:EA.
  { (* an announced writer and no reader: it gets the lock *)
    apply existsb_exists in EA. destruct EA as [t [Hin Ha]]. specialize (I t Hin).
    destruct t as [r w a ops]. cbn [t_ann] in Ha. subst a. unfold pl_tinv, pl_mode_of in I. cbn [t_r t_w t_ann t_ops] in I.
    destruct r as [|[|r]]; destruct w; try discriminate.
    destruct ops as [|o ops]; [discriminate|]. destruct o; cbn [pl_ok] in I; try discriminate.
    eapply pl_can_step; eauto. unfold pl_tstep. cbn [t_ops t_ann]. rewrite R0. reflexivity. }
  pose proof (existsb_false_all _ _ _ EA) as NA.
  assert (WB : pl_wbusy ts = false).
  { unfold pl_wbusy. destruct (existsb (fun t => t_w t || t_ann t) ts) eqn:E; [|reflexivity].
    apply existsb_exists in E. destruct E as [t [Hin H]]. rewrite (NW t Hin), (NA t Hin) in H. discriminate. }
  (* the mutex is free: whoever is not finished can move *)
  apply existsb_exists in U. destruct U as [t [Hin Hu]]. specialize (I t Hin).
  pose proof (NW t Hin) as Hw. pose proof (NA t Hin) as Ha.
  destruct t as [r w a ops]. cbn [t_w t_ann] in *. subst w a. unfold pl_tinv, pl_mode_of in I. cbn [t_r t_w t_ann t_ops] in I.
  destruct r as [|[|r]]; try discriminate.
  - destruct ops as [|o ops]; [discriminate Hu|]. destruct o; cbn [pl_ok] in I; try discriminate;
      eapply pl_can_step; eauto; unfold pl_tstep; cbn [t_ops t_ann t_r t_w]; rewrite ?WB; reflexivity.
  - specialize (NR _ Hin). discriminate NR.
Qed.

Lemma pl_stuck_all_returned : forall ts, forallb pl_tinv ts = true -> pl_stuck ts ->
  forallb (fun t => pl_done t && pl_free t) ts = true.
Proof.
  intros ts I S.
  destruct (existsb (fun t => negb (pl_done t)) ts) eqn:U.
  { destruct (pl_progress ts I U) as [ts' H]. exfalso. exact (S ts' H). }
  pose proof (existsb_false_all _ _ _ U) as D.
  apply forallb_forall. intros t Hin. rewrite forallb_forall in I. specialize (I t Hin). specialize (D t Hin).
  apply negb_false_iff in D. rewrite D. unfold pl_done in D. unfold pl_tinv, pl_mode_of in I. unfold pl_free.
  destruct t as [r w a ops]. cbn [t_r t_w t_ann t_ops] in *. destruct ops; [|discriminate].
  destruct r as [|[|r]]; destruct w; destruct a; try discriminate; reflexivity.
Qed.

(* THE theorem: any number of threads, each any well-bracketed sequence of read / write sections, every interleaving *)
Lemma pool_never_wedges : forall progs, forallb (pl_ok MOut) progs = true ->
  let init := map pl_fresh progs in
  Acc (fun b a => pl_step a b) init /\
  forall ts, pl_star init ts -> pl_stuck ts -> forallb (fun t => pl_done t && pl_free t) ts = true.
Proof.
  intros progs H init. split; [apply pl_terminates|].
  intros ts St S. apply pl_stuck_all_returned; [|exact S]. eapply pl_inv_star; [exact St|]. apply pl_fresh_inv. exact H.
Qed.

(* StableSqlxDBWrapper's programs have that shape, whatever the database does with each statement *)
Lemma pl_request_ok : forall evs, pl_ok MOut (pl_request pl_query_ctx evs) = true.
Proof. induction evs as [|ev evs IH]; [reflexivity|]. unfold pl_request in *. destruct ev; simpl; exact IH. Qed.

Lemma read_requests_never_wedge : forall reqs : list (list pl_event),
  let init := map (fun evs => pl_fresh (pl_request pl_query_ctx evs)) reqs in
  Acc (fun b a => pl_step a b) init /\
  forall ts, pl_star init ts -> pl_stuck ts -> forallb (fun t => pl_done t && pl_free t) ts = true.
Proof.
  intros reqs. rewrite <- (map_map (pl_request pl_query_ctx) pl_fresh). apply pool_never_wedges.
  induction reqs as [|r rs IH]; simpl; [reflexivity|]. rewrite pl_request_ok. exact IH.
Qed.

(* ------------------------------------------------------------------ a read lock left behind (seeded change C12-e) *)
Definition pl_is_lock (o : pl_op) : bool := match o with OLock => true | _ => false end.
Definition pl_is_rlock (o : pl_op) : bool := match o with ORLock => true | _ => false end.
Definition pl_wants_write (t : pl_thread) : bool := existsb pl_is_lock (t_ops t).
Definition pl_wants_read (t : pl_thread) : bool := existsb pl_is_rlock (t_ops t).
Definition pl_leaked (t : pl_thread) : bool := pl_done t && negb (Nat.eqb (t_r t) 0).

Lemma pl_readers_app : forall a b, pl_readers (a ++ b) = pl_readers a + pl_readers b.
Proof. induction a as [|t a IH]; intros b; simpl; [reflexivity|]. rewrite IH. lia. Qed.

Lemma pl_leak_readers : forall ts, existsb pl_leaked ts = true -> pl_readers ts <> 0.
Proof.
  intros ts H. apply existsb_exists in H. destruct H as [t [Hin L]]. apply in_split in Hin. destruct Hin as [l1 [l2 ->]].
  rewrite pl_readers_app. simpl. unfold pl_leaked in L. apply andb_true_iff in L. destruct L as [_ L].
  apply negb_true_iff in L. apply Nat.eqb_neq in L. lia.
Qed.

Lemma pl_leak_step : forall a b, pl_step a b -> existsb pl_leaked a = true ->
  existsb pl_leaked b = true /\ map pl_wants_write b = map pl_wants_write a.
Proof.
  intros a b H L. pose proof (pl_leak_readers _ L) as R. destruct H as [l1 t l2 t' H].
  assert (K : pl_leaked t = false /\ (pl_leaked t' = true \/ True) /\ pl_wants_write t' = pl_wants_write t).
  { destruct t as [r w an ops]. unfold pl_tstep in H. cbn [t_ops t_ann t_r t_w] in H.
    destruct ops as [|o ops]; [discriminate|]. split; [reflexivity|]. split; [right; exact I|].
    unfold pl_wants_write.
    destruct o; destruct an; cbn [t_ann t_ops] in H;
      repeat match type of H with
             | (if ?c then _ else _) = _ => destruct c eqn:?
             | match ?c with _ => _ end = _ => destruct c eqn:?
             end; try discriminate; inversion H; subst; cbn [t_ops existsb pl_is_lock orb]; try reflexivity.
    apply Nat.eqb_eq in Heqb. contradiction. }
  destruct K as [Lt [_ Ww]].
  split.
  - rewrite existsb_app in *. simpl in *. rewrite Lt in L. simpl in L.
    apply orb_true_iff in L. destruct L as [L|L]; rewrite L; [reflexivity|]. rewrite !orb_true_r. reflexivity.
  - rewrite !map_app. simpl. rewrite Ww. reflexivity.
Qed.

(* once a finished thread has kept a read lock, every thread that still has a pool rebuild ahead (its statement failed,
   or will fail) keeps having it ahead for ever: it is never answered *)
Lemma leaked_read_lock_blocks_every_rebuild : forall a b, pl_star a b -> existsb pl_leaked a = true ->
  existsb pl_leaked b = true /\ map pl_wants_write b = map pl_wants_write a.
Proof.
  induction 1 as [|a b c S _ IH]; intros L; [split; [exact L|reflexivity]|].
  destruct (pl_leak_step _ _ S L) as [L' W]. destruct (IH L') as [L'' W']. split; [exact L''|]. rewrite W', W. reflexivity.
Qed.

(* and once such a thread has announced itself, nobody gets a read lock any more: every later request hangs *)
Definition pl_wedged (ts : list pl_thread) : bool := existsb pl_leaked ts && existsb t_ann ts.

Lemma pl_wedged_step : forall a b, pl_step a b -> pl_wedged a = true ->
  pl_wedged b = true /\ map pl_wants_read b = map pl_wants_read a.
Proof.
  intros a b H Wd. unfold pl_wedged in *. apply andb_true_iff in Wd. destruct Wd as [L A].
  pose proof (pl_leak_readers _ L) as R. destruct (pl_leak_step _ _ H L) as [L' _]. rewrite L'.
  assert (WB : pl_wbusy a = true).
  { unfold pl_wbusy. apply existsb_exists in A. destruct A as [t [Hin Ha]]. apply existsb_exists. exists t. rewrite Ha, orb_true_r. auto. }
  destruct H as [l1 t l2 t' H].
  assert (K : t_ann t' = t_ann t /\ pl_wants_read t' = pl_wants_read t).
  { destruct t as [r w an ops]. unfold pl_tstep in H. cbn [t_ops t_ann t_r t_w] in H.
    destruct ops as [|o ops]; [discriminate|]. unfold pl_wants_read. rewrite WB in H.
    destruct o; destruct an; cbn [t_ann t_ops] in H;
      repeat match type of H with
             | (if ?c then _ else _) = _ => destruct c eqn:?
             | match ?c with _ => _ end = _ => destruct c eqn:?
             end; try discriminate; inversion H; subst; cbn [t_ops t_ann existsb pl_is_rlock orb]; try (split; reflexivity).
    apply Nat.eqb_eq in Heqb. contradiction. }
  destruct K as [Ka Kr]. split.
  - rewrite existsb_app in *. simpl in *. rewrite Ka. exact A.
  - rewrite !map_app. simpl. rewrite Kr. reflexivity.
Qed.

Lemma wedged_pool_blocks_every_reader : forall a b, pl_star a b -> pl_wedged a = true ->
  pl_wedged b = true /\ map pl_wants_read b = map pl_wants_read a.
Proof.
  induction 1 as [|a b c S _ IH]; intros L; [split; [exact L|reflexivity]|].
  destruct (pl_wedged_step _ _ S L) as [L' W]. destruct (IH L') as [L'' W']. split; [exact L''|]. rewrite W', W. reflexivity.
Qed.

(* ------------------------------------------------------------------ the history function is a schedule of the LTS *)
Lemma pl_run_alone_star : forall fuel before t, pl_star (before ++ [t]) (before ++ [pl_run_alone fuel before t]).
Proof.
  induction fuel as [|f IH]; intros before t; simpl; [constructor|].
  destruct (pl_tstep (before ++ [t]) t) as [t'|] eqn:E; [|constructor].
  eapply PlNext; [|apply IH]. constructor. exact E.
Qed.

(* the seeded history: a caller gave up mid-statement, then the database refuses a statement, then a healthy request *)
Definition pl_witness : list (list pl_event) := [[EvOk; EvGaveUp]; [EvOk; EvDbErr]; [EvOk; EvOk]].

Lemma pl_witness_runs :
  pl_history pl_query_ctx [] pl_witness = [(true, 1%Z); (true, 1%Z); (true, 0%Z)] /\
  pl_history pl_query_ctx_leaky [] pl_witness = [(true, 0%Z); (false, 0%Z); (false, 0%Z)].
Proof. split; vm_compute; reflexivity. Qed.

(* ------------------------------------------------------------------ histories under the wrapper as it is: every request
   of every history is answered, and the pool is rebuilt exactly once per failed statement *)
Lemma pl_idle_fields : forall t, pl_idle t = true -> t_r t = 0 /\ t_w t = false /\ t_ann t = false /\ t_ops t = [].
Proof.
  intros [r w a ops] H. unfold pl_idle, pl_done, pl_free in H. cbn [t_r t_w t_ann t_ops] in *.
  destruct ops; [|discriminate]. destruct r; [|discriminate]. destruct w; [discriminate|]. destruct a; [discriminate|]. auto.
Qed.

Lemma pl_idle_context : forall before, forallb pl_idle before = true ->
  forall t, pl_readers (before ++ [t]) = t_r t /\ pl_wbusy (before ++ [t]) = (t_w t || t_ann t).
Proof.
  induction before as [|u before IH]; intros H t.
  - simpl. split; [lia|]. unfold pl_wbusy. simpl. rewrite orb_false_r. reflexivity.
  - simpl in H. apply andb_true_iff in H. destruct H as [Hu H]. destruct (IH H t) as [R W].
    destruct (pl_idle_fields u Hu) as [A [B [C _]]]. simpl. rewrite A, R. split; [reflexivity|].
    unfold pl_wbusy in *. simpl. rewrite B, C, W. reflexivity.
Qed.

Lemma pl_alone_progress : forall all t, pl_readers all = t_r t -> pl_wbusy all = (t_w t || t_ann t) ->
  pl_tinv t = true -> pl_done t = false -> exists t', pl_tstep all t = Some t'.
Proof.
  intros all [r w a ops] R W I D. unfold pl_tinv, pl_mode_of, pl_done in *. cbn [t_r t_w t_ann t_ops] in *.
  destruct ops as [|o ops]; [discriminate|].
  destruct r as [|[|r]]; destruct w; destruct a; try discriminate; destruct o; cbn [pl_ok] in I; try discriminate;
    unfold pl_tstep; cbn [t_r t_w t_ann t_ops]; rewrite ?R, ?W; cbn; eexists; reflexivity.
Qed.

Lemma pl_done_inv_idle : forall t, pl_tinv t = true -> pl_done t = true -> pl_idle t = true.
Proof.
  intros [r w a ops] I D. unfold pl_tinv, pl_mode_of, pl_done, pl_idle, pl_free in *. cbn [t_r t_w t_ann t_ops] in *.
  destruct ops; [|discriminate]. destruct r as [|[|r]]; destruct w; destruct a; try discriminate; reflexivity.
Qed.

Lemma pl_run_alone_finishes : forall fuel before t, forallb pl_idle before = true -> pl_tinv t = true ->
  pl_measure_t t <= fuel -> pl_idle (pl_run_alone fuel before t) = true.
Proof.
  induction fuel as [|f IH]; intros before t B I M.
  - simpl. apply pl_done_inv_idle; [exact I|]. unfold pl_measure_t in M. destruct t as [r w a ops]. cbn [t_ann t_ops] in *.
    unfold pl_done. cbn [t_ops]. destruct ops; [reflexivity|]. simpl in M. lia.
  - simpl. destruct (pl_done t) eqn:D.
    + assert (E : pl_tstep (before ++ [t]) t = None).
      { unfold pl_tstep. unfold pl_done in D. destruct (t_ops t); [reflexivity|discriminate]. }
      rewrite E. apply pl_done_inv_idle; assumption.
    + destruct (pl_idle_context before B t) as [R W].
      destruct (pl_alone_progress _ t R W I D) as [t' E]. rewrite E. apply IH; [exact B|eapply pl_tinv_step; eauto|].
      apply pl_tstep_decreases in E. lia.
Qed.

Lemma pl_count_lock_request : forall evs, pl_count_lock (pl_request pl_query_ctx evs) = pl_failed evs.
Proof. induction evs as [|ev evs IH]; [reflexivity|]. unfold pl_request in *. destruct ev; simpl in *; rewrite IH; reflexivity. Qed.

Lemma pl_history_answers : forall reqs before, forallb pl_idle before = true ->
  pl_history pl_query_ctx before reqs = map (fun evs => (true, pl_failed evs)) reqs.
Proof.
  induction reqs as [|evs reqs IH]; intros before B; [reflexivity|].
  cbn [pl_history map].
  set (ops := pl_request pl_query_ctx evs).
  assert (Id : pl_idle (pl_run_alone (2 * List.length ops + 2) before (pl_fresh ops)) = true).
  { apply pl_run_alone_finishes; [exact B| |unfold pl_measure_t; simpl; lia].
    unfold pl_tinv. simpl. apply pl_request_ok. }
  destruct (pl_idle_fields _ Id) as [_ [_ [_ O]]].
  assert (Dn : pl_done (pl_run_alone (2 * List.length ops + 2) before (pl_fresh ops)) = true).
  { unfold pl_done. rewrite O. reflexivity. }
  rewrite Dn, O. cbn [pl_count_lock]. rewrite Z.sub_0_r. unfold ops at 1. rewrite pl_count_lock_request.
  f_equal. apply IH. rewrite forallb_app. cbn [forallb]. rewrite B, Id. reflexivity.
Qed.

Lemma every_history_is_answered : forall reqs,
  pl_history pl_query_ctx [] reqs = map (fun evs => (true, pl_failed evs)) reqs.
Proof. intros reqs. apply pl_history_answers. reflexivity. Qed.

(* the hypotheses of the theorems above are met by non-trivial values *)
Example pool_hypothesis_met :
  forallb (pl_ok MOut) [pl_request pl_query_ctx [EvOk; EvDbErr; EvGaveUp]; pl_conn; pl_rebuild] = true /\
  pl_ok MOut (pl_request pl_query_ctx_leaky [EvOk; EvGaveUp]) = false.
Proof. split; vm_compute; reflexivity. Qed.

(* the state after a caller gave up under the early return: a finished thread still counted as a reader; one more
   request with a refused statement and the pool is wedged *)
Example pool_leak_reachable :
  let t1 := pl_run_alone 20 [] (pl_fresh (pl_request pl_query_ctx_leaky [EvOk; EvGaveUp])) in
  let t2 := pl_run_alone 30 [t1] (pl_fresh (pl_request pl_query_ctx_leaky [EvOk; EvDbErr])) in
  existsb pl_leaked [t1] = true /\ pl_wedged [t1; t2] = true /\ pl_wants_write t2 = true.
Proof. vm_compute. auto. Qed.
