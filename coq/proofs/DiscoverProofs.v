(* End-to-end form of property C04 (model/SeriesDoc.v): acknowledged data is discoverable by its labels. *)
From Coq Require Import List ZArith Lia String Bool Permutation.
From Qryn Require Import model.GoQuote model.LabelJson model.Fingerprint model.Labels model.ProtoLabels
  model.SeriesIndex model.SeriesDoc proofs.SeriesIndexProofs proofs.JsonQuoteProofs.
Import ListNotations.
Open Scope Z_scope.

Section E2E.
  Variable fp_of : list label -> Z.

  Lemma all_streams_map h : all_streams (map (to_action fp_of) h) = map (to_stream fp_of) (lstreams h).
  Proof.
    unfold all_streams, lstreams. induction h as [|a h IH]; [reflexivity|].
    cbn [map flat_map]. rewrite map_app, <- IH. f_equal. destruct a; reflexivity.
  Qed.

  (* For every history (failures, retries, malformed bodies, overlapping pushes, resets) in which the fingerprint
     tells the label sets that occur apart: an acknowledged sample of a stream with labels L has a successfully
     inserted series row of its day and type; that row was written for a stream s of the history whose labels are
     L up to order; and the labels text written for s is JSON that decodes to exactly s's labels, for every IsPrint. *)
  Theorem acked_sample_discoverable (h : list laction) :
    (forall s1 s2, In s1 (lstreams h) -> In s2 (lstreams h) ->
       fp_of (ls_labels s1) = fp_of (ls_labels s2) -> Permutation (ls_labels s1) (ls_labels s2)) ->
    forall s0 d t, In s0 (lstreams h) -> In (fp_of (ls_labels s0), d, t) (acked (lrun fp_of h)) ->
    In (d, fp_of (ls_labels s0), t) (ts_rows (lrun fp_of h)) /\
    exists s, In s (lstreams h) /\ from_stream (to_stream fp_of s) (d, fp_of (ls_labels s0), t) /\
              Permutation (ls_labels s0) (ls_labels s) /\
              forall ip, json_decode (encode_labels ip (ls_labels s)) = Some (ls_labels s).
  Proof.
    intros Hinj s0 d t Hs0 Hack. unfold lrun in *.
    destruct (acked_sample_row_and_origin _ _ _ _ Hack) as [Hrow [s' [Hs' [Hfp Hfrom]]]].
    split; [assumption|].
    rewrite all_streams_map in Hs'. apply in_map_iff in Hs'. destruct Hs' as [s [<- Hs]].
    exists s. split; [assumption|]. split; [assumption|]. cbn [to_stream s_fp] in Hfp. split.
    - apply Hinj; [assumption|assumption|now symmetry].
    - intros ip. unfold ls_labels. apply label_document_roundtrip_all.
  Qed.
End E2E.

(* the hypothesis-free part for a fingerprint that is injective up to order by construction (a toy: the sorted
   label list itself as the "fingerprint" is not a number; so the example uses concrete streams instead) *)
Definition ex_ls1 : lstream := {| ls_raw := [("app", "api"); ("env", "prod")]%string; ls_entries := [{| e_ts := 1704888000000000000; e_type := TLog |}] |}.
Definition ex_ls2 : lstream := {| ls_raw := [("env", "prod"); ("app", "api")]%string; ls_entries := [{| e_ts := 1704888060000000000; e_type := TLog |}] |}.
Definition ex_ls3 : lstream := {| ls_raw := [("app", "db")]%string; ls_entries := [{| e_ts := 1704974400000000000; e_type := TMetric |}] |}.
Definition ex_lh : list laction := [LPush [ex_ls1] false true; LBegin [ex_ls2; ex_ls3]; LPushBad [ex_ls3]; LReset; LEnd 0 true true].
Definition ex_fp (l : list label) : Z := List.fold_left (fun a x => a + Z.of_nat (String.length (fst x)) * 1000 + Z.of_nat (String.length (snd x))) l 0.
Example discoverable_hypotheses_met :
  (forall s1 s2, In s1 (lstreams ex_lh) -> In s2 (lstreams ex_lh) ->
     ex_fp (ls_labels s1) = ex_fp (ls_labels s2) -> Permutation (ls_labels s1) (ls_labels s2)) /\
  List.length (acked (lrun ex_fp ex_lh)) = 2%nat.
Proof.
  split; [|vm_compute; reflexivity].
  intros s1 s2 H1 H2. cbn in H1, H2.
  destruct H1 as [<-|[<-|[<-|[<-|[]]]]]; destruct H2 as [<-|[<-|[<-|[<-|[]]]]]; intros H;
    try apply Permutation_refl; try apply perm_swap; vm_compute in H; discriminate H.
Qed.
