(* C15 — /series after the repair (stored label texts are decoded and encoded again): the body is ONE
   document for every list of label maps, without any hypothesis on the stored texts. *)
From Coq Require Import List NArith ZArith Bool Ascii String Lia.
From Qryn Require Import model.JsonStream proofs.JsonStreamProofs.
Import ListNotations.
Open Scope string_scope.
Open Scope list_scope.

Lemma sep_loop'_true : forall A (item : A -> list token) xs,
  sep_loop' item xs true = flat_map (fun x => TComma :: item x) xs.
Proof. intros A item. induction xs as [|x r IH]; [reflexivity|]. cbn [sep_loop' flat_map app]. now rewrite IH. Qed.

Lemma sep_loop'_join_gen : forall A B (item : A -> list token) (doc : A -> B) (tk : B -> list token),
  (forall x, item x = tk (doc x)) -> forall xs, sep_loop' item xs false = join (map tk (map doc xs)).
Proof.
  intros A B item doc tk H [|x r]; [reflexivity|]. cbn [sep_loop' map app]. rewrite join_flat, sep_loop'_true, H. f_equal.
  induction r as [|y r IH]; [reflexivity|]. cbn [flat_map map app]. now rewrite IH, H.
Qed.

Lemma prep_sep_loop' : forall A (item : A -> list token) xs i,
  prep (sep_loop' item xs i) = sep_loop' (fun x => prep (item x)) xs i.
Proof.
  intros A item. induction xs as [|x r IH]; intros i; [reflexivity|]. cbn [sep_loop'].
  rewrite !prep_app, IH. destruct i; reflexivity.
Qed.

Lemma simple_sep_loop' : forall A (item : A -> list token) xs i,
  (forall x, forallb simple_tok (item x) = true) -> forallb simple_tok (sep_loop' item xs i) = true.
Proof.
  intros A item xs. induction xs as [|x r IH]; intros i H; [reflexivity|]. cbn [sep_loop'].
  rewrite !forallb_app, H, IH by exact H. destruct i; reflexivity.
Qed.

Lemma simple_label_obj : forall l, forallb simple_tok (label_obj l) = true.
Proof.
  intros l. unfold label_obj. rewrite !forallb_app, simple_sep_loop'; [reflexivity|]. intros kv. reflexivity.
Qed.

Lemma prep_label_obj : forall l, prep (label_obj l) = tokens_of (label_obj_doc l).
Proof.
  intros l. unfold label_obj, label_obj_doc. rewrite !prep_app, prep_sep_loop', tokens_of_obj.
  rewrite (sep_loop'_join_gen _ _ _ (fun kv : string * string => (sanitize (fst kv), JStr (sanitize (snd kv)))) member_toks)
    by (intros kv; reflexivity).
  reflexivity.
Qed.

Theorem series_reencoded_bytes : forall ms, parse_bytes (render (enc_series ms)) = Some (doc_series ms).
Proof.
  intros ms. apply parse_bytes_of_prep.
  - apply simple_lexable. unfold enc_series. rewrite !forallb_app, simple_sep_loop' by (apply simple_label_obj). reflexivity.
  - unfold enc_series, doc_series. rewrite !prep_app, prep_sep_loop'.
    rewrite (sep_loop'_join_gen _ _ _ label_obj_doc tokens_of) by (apply prep_label_obj).
    rewrite tokens_of_obj. cbn [map]. rewrite join_cons2, join_one. unfold member_toks. cbn [fst snd].
    rewrite tokens_of_arr. cbn [tokens_of app]. now rewrite <- app_assoc.
Qed.
