(* C01: one_answer (no promise completed twice, no handler answers twice) and exhaustion_is_error (a handler
   answers success only if every one of its sub-pushes had an attempt whose promise was completed with success). *)
From Coq Require Import List NArith ZArith Bool Lia Arith.
From Qryn Require Import model.Ingest model.PushHandler model.IngestSpec proofs.IngestBase proofs.IngestAck
  proofs.IngestSpecProofs.
Import ListNotations.

(* ---------------------------------------------------------------- lists of events *)
Lemma resolved_app a b : resolved (a ++ b) = resolved a ++ resolved b.
Proof. induction a as [|e a IH]; cbn; [reflexivity|]. destruct e; cbn; rewrite ?IH; reflexivity. Qed.
Lemma answered_app a b : answered (a ++ b) = answered a ++ answered b.
Proof. induction a as [|e a IH]; cbn; [reflexivity|]. destruct e; cbn; rewrite ?IH; reflexivity. Qed.

Lemma NoDup_app_intro {A} (l1 l2 : list A) :
  NoDup l1 -> NoDup l2 -> (forall x, In x l1 -> ~ In x l2) -> NoDup (l1 ++ l2).
Proof.
  induction l1 as [|x l1 IH]; intros H1 H2 D; cbn; [assumption|].
  inversion H1; subst. constructor.
  - intros Hin. apply in_app_iff in Hin as [Hin|Hin]; [contradiction|]. exact (D x (or_introl eq_refl) Hin).
  - apply IH; auto. intros y Hy. apply D. right; assumption.
Qed.

Lemma nodupb_spec {A} (eqb : A -> A -> bool) (l : list A) :
  (forall x y, eqb x y = true <-> x = y) -> NoDup l -> nodupb eqb l = true.
Proof.
  intros E H. induction H as [|x l Hx H IH]; cbn; [reflexivity|]. rewrite IH, andb_true_r.
  apply negb_true_iff. apply not_true_is_false. intros Hex. apply existsb_exists in Hex as (y & Hy & Hxy).
  apply E in Hxy. subst y. contradiction.
Qed.

(* ---------------------------------------------------------------- the promise store *)
Lemma in_store_cons p q v st : in_store p ((q, v) :: st) = pid_eqb p q || in_store p st.
Proof. reflexivity. Qed.
Lemma lookup_none_in_store p st : in_store p st = false -> lookup_store p st = None.
Proof.
  induction st as [|[q v] st IH]; cbn; [reflexivity|]. intros H. apply orb_false_iff in H as [H1 H2].
  rewrite H1. auto.
Qed.

(* what a burst of service effects does to store and events *)
Lemma apply_sevs_props s k : forall vs st st' es,
  apply_sevs s k st vs = (st', es) ->
  NoDup (resolved es) /\ answered es = [] /\
  (forall p, In p (resolved es) -> in_store p st = false /\ in_store p st' = true) /\
  (forall p, in_store p st = true -> in_store p st' = true) /\
  (forall p v, lookup_store p st = Some v -> lookup_store p st' = Some v).
Proof.
  induction vs as [|v vs IH]; intros st st' es H; cbn in H.
  - inversion H; subst. cbn. split; [constructor|]. split; [reflexivity|]. split; [intros ? []|]. split; auto.
  - destruct v as [|b|ok|p r ok].
    + destruct (apply_sevs s k st vs) as [st1 es1] eqn:E. inversion H; subst. exact (IH _ _ _ E).
    + destruct (apply_sevs s k st vs) as [st1 es1] eqn:E. inversion H; subst. exact (IH _ _ _ E).
    + destruct (apply_sevs s k st vs) as [st1 es1] eqn:E. inversion H; subst. exact (IH _ _ _ E).
    + destruct (in_store p st) eqn:Hin; [exact (IH _ _ _ H)|].
      destruct (apply_sevs s k ((p, (k, r, ok)) :: st) vs) as [st1 es1] eqn:E. inversion H; subst.
      destruct (IH _ _ _ E) as (N & A & R & M & L). cbn [resolved answered].
      assert (Hp : in_store p st' = true). { apply M. rewrite in_store_cons, pid_eqb_refl. reflexivity. }
      split; [|split; [assumption|split; [|split]]].
      * constructor; [|assumption]. intros Hin2. destruct (R _ Hin2) as [X _].
        rewrite in_store_cons, pid_eqb_refl in X. discriminate.
      * intros q [<-|Hq]; [auto|]. destruct (R _ Hq) as [X Y]. rewrite in_store_cons in X.
        apply orb_false_iff in X as [_ X]. auto.
      * intros q Hq. apply M. rewrite in_store_cons, Hq. apply orb_true_r.
      * intros q v Hq. apply L. cbn [lookup_store]. destruct (pid_eqb q p) eqn:Eq; [|assumption].
        apply pid_eqb_eq in Eq. subst q. rewrite (lookup_none_in_store _ _ Hin) in Hq. discriminate.
Qed.

Lemma svc_act_props g s a g' es :
  svc_act g s a = Some (g', es) ->
  hs g' = hs g /\ attempts g' = attempts g /\
  NoDup (resolved es) /\ answered es = [] /\
  (forall p, In p (resolved es) -> in_store p (store g) = false /\ in_store p (store g') = true) /\
  (forall p, in_store p (store g) = true -> in_store p (store g') = true) /\
  (forall p v, lookup_store p (store g) = Some v -> lookup_store p (store g') = Some v).
Proof.
  unfold svc_act. destruct (nth_error (svcs g) s) as [sv|]; [|discriminate].
  destruct (sstep sv a) as [[sv' vs]|]; [|discriminate].
  destruct (apply_sevs s (kd sv) (store g) vs) as [st' es0] eqn:E. intros H; inversion H; subst; clear H. cbn.
  destruct (apply_sevs_props _ _ _ _ _ _ E) as (N & A & R & M & L).
  assert (P : forall pre, (forall e, In e pre -> match e with EReq _ _ _ _ _ _ | EDial _ _ => True | _ => False end) ->
              resolved (pre ++ es0) = resolved es0 /\ answered (pre ++ es0) = answered es0).
  { induction pre as [|e pre IH]; intros Hp; [auto|]. cbn.
    pose proof (Hp e (or_introl eq_refl)) as He. destruct e; try contradiction; apply IH; intros x Hx; apply Hp; right; assumption. }
  destruct (P (match a with SRequest p r sz => [EReq s p (kd sv) r sz (imm_of vs)] | SDial ok => [EDial s ok] | _ => [] end)) as [P1 P2].
  { destruct a; cbn; intros e He; try contradiction; destruct He as [<-|[]]; exact I. }
  rewrite P1, P2. auto 10.
Qed.

(* ---------------------------------------------------------------- one answer *)
Definition Inv1 (g : gstate) (es : list event) : Prop :=
  NoDup (resolved es) /\ (forall p, In p (resolved es) -> in_store p (store g) = true) /\
  NoDup (answered es) /\
  (forall h, In h (answered es) -> exists hd, nth_error (hs g) h = Some hd /\ h_answer hd <> None).

Definition keeps_answers (H H' : list handler) : Prop :=
  forall h hd, nth_error H h = Some hd -> h_answer hd <> None ->
    exists hd', nth_error H' h = Some hd' /\ h_answer hd' <> None.

Lemma keeps_upd H h hd hd' :
  nth_error H h = Some hd -> (h_answer hd <> None -> h_answer hd' <> None) -> keeps_answers H (upd h hd' H).
Proof.
  intros Hh Ha h0 hd0 H0 N0. destruct (Nat.eq_dec h h0) as [->|Hne].
  - exists hd'. rewrite nth_error_upd_same by (eapply nth_error_some_lt; eauto). split; [reflexivity|].
    apply Ha. congruence.
  - exists hd0. rewrite nth_error_upd_other by assumption. auto.
Qed.

Lemma Inv1_quiet g g' es :
  Inv1 g es -> (forall p, in_store p (store g) = true -> in_store p (store g') = true) ->
  keeps_answers (hs g) (hs g') -> Inv1 g' es.
Proof.
  intros (A & B & C & D) M K. split; [assumption|]. split; [auto|]. split; [assumption|].
  intros h Hh. destruct (D h Hh) as (hd & X & Y). exact (K _ _ X Y).
Qed.

Lemma gstep_Inv1 g a g' e1 es : gstep g a = Some (g', e1) -> Inv1 g es -> Inv1 g' (es ++ e1).
Proof.
  intros Hstep HI.
  (* steps that go through a worker *)
  assert (SVC : forall s sa g1 ev, svc_act g s sa = Some (g1, ev) -> Inv1 g1 (es ++ ev)).
  { intros s sa g1 ev Hact. destruct (svc_act_props _ _ _ _ _ Hact) as (Eh & _ & N & A & R & M & _).
    destruct HI as (I1 & I2 & I3 & I4). unfold Inv1. rewrite resolved_app, answered_app, A, app_nil_r.
    split; [|split; [|split]].
    - apply NoDup_app_intro; auto. intros p Hp Hq. destruct (R _ Hq) as [X _]. rewrite (I2 _ Hp) in X. discriminate.
    - intros p Hp. apply in_app_iff in Hp as [Hp|Hp]; [auto|]. apply R; assumption.
    - assumption.
    - rewrite Eh. assumption. }
  destruct a as [s a|s k n r sz|items|h|h i s|h i|h]; cbn in Hstep.
  - destruct (is_request a); [discriminate|]. eauto.
  - destruct (nth_error (svcs g) s); [|discriminate]. destruct (_ && _); [|discriminate]. eauto.
  - inversion Hstep; subst. rewrite app_nil_r. eapply Inv1_quiet; eauto. cbn.
    intros h hd Hh N. exists hd. split; [|assumption]. rewrite nth_error_app1; [assumption|]. eapply nth_error_some_lt; eauto.
  - destruct (nth_error (hs g) h) as [hd|] eqn:Hh; [|discriminate].
    destruct (h_items hd) as [|[c|] rest]; [discriminate| |].
    + inversion Hstep; subst. rewrite app_nil_r. eapply Inv1_quiet; eauto. cbn. eapply keeps_upd; eauto.
    + destruct (h_answer hd) eqn:Ha; inversion Hstep; subst.
      * rewrite app_nil_r. eapply Inv1_quiet; eauto. cbn. eapply keeps_upd; eauto. cbn. congruence.
      * destruct HI as (I1 & I2 & I3 & I4). unfold Inv1. rewrite resolved_app, answered_app. cbn. rewrite app_nil_r.
        split; [assumption|]. split; [assumption|]. split.
        -- apply NoDup_app_intro; auto; [constructor; [intros []|constructor]|].
           intros x Hx [<-|[]]. destruct (I4 _ Hx) as (hd0 & X & Y). congruence.
        -- intros x Hx. apply in_app_iff in Hx as [Hx|[<-|[]]].
           ++ destruct (I4 _ Hx) as (hd0 & X & Y). eapply keeps_upd; eauto; try (cbn; discriminate).
           ++ eexists. rewrite nth_error_upd_same by (eapply nth_error_some_lt; eauto). split; [reflexivity|]. cbn. discriminate.
  - destruct (nth_error (hs g) h) as [hd|] eqn:Hh; [|discriminate].
    destruct (nth_error (h_subs hd) i) as [sp|]; [|discriminate].
    destruct (_ && _); [|discriminate].
    destruct (svc_act g s _) as [[g1 es1]|] eqn:Hact; [|discriminate]. inversion Hstep; subst; clear Hstep.
    pose proof (SVC _ _ _ _ Hact) as H1. destruct (svc_act_props _ _ _ _ _ Hact) as (Eh & _).
    eapply Inv1_quiet; eauto. cbn. eapply keeps_upd; [rewrite Eh; eauto|auto].
  - destruct (nth_error (hs g) h) as [hd|] eqn:Hh; [|discriminate].
    destruct (nth_error (h_subs hd) i) as [sp|]; [|discriminate].
    destruct (sp_cur sp); [|discriminate]. destruct (lookup_store _ _) as [[[? ?] ok]|]; [|discriminate].
    inversion Hstep; subst. rewrite app_nil_r. eapply Inv1_quiet; eauto. cbn. eapply keeps_upd; eauto.
  - destruct (nth_error (hs g) h) as [hd|] eqn:Hh; [|discriminate].
    destruct (h_items hd); [|discriminate]. destruct (h_answer hd) eqn:Ha; [discriminate|].
    destruct (verdict _) as [ok|]; [|discriminate]. inversion Hstep; subst.
    destruct HI as (I1 & I2 & I3 & I4). unfold Inv1. rewrite resolved_app, answered_app. cbn. rewrite app_nil_r.
    split; [assumption|]. split; [assumption|]. split.
    + apply NoDup_app_intro; auto; [constructor; [intros []|constructor]|].
      intros x Hx [<-|[]]. destruct (I4 _ Hx) as (hd0 & X & Y). congruence.
    + intros x Hx. apply in_app_iff in Hx as [Hx|[<-|[]]].
      * destruct (I4 _ Hx) as (hd0 & X & Y). eapply keeps_upd; eauto; try (cbn; discriminate).
      * eexists. rewrite nth_error_upd_same by (eapply nth_error_some_lt; eauto). split; [reflexivity|]. cbn. discriminate.
Qed.

Lemma grun_Inv1 tr : forall g g' es0 es, grun g tr = Some (g', es) -> Inv1 g es0 -> Inv1 g' (es0 ++ es).
Proof.
  induction tr as [|a tr IH]; intros g g' es0 es Hrun HI; cbn in Hrun.
  - inversion Hrun; subst. now rewrite app_nil_r.
  - destruct (gstep g a) as [[g1 e1]|] eqn:Es; [|discriminate].
    destruct (grun g1 tr) as [[g2 e2]|] eqn:Er; [|discriminate]. inversion Hrun; subst.
    rewrite app_assoc. eapply IH; eauto. eapply gstep_Inv1; eauto.
Qed.

Theorem one_answer_holds cfg n tr g es :
  grun (ginit cfg n) tr = Some (g, es) -> one_answer_b es = true.
Proof.
  intros Hrun. assert (I0 : Inv1 (ginit cfg n) []).
  { unfold Inv1; cbn. repeat split; try constructor; intros ? []. }
  destruct (grun_Inv1 _ _ _ _ _ Hrun I0) as (A & _ & C & _). cbn in A, C.
  unfold one_answer_b. rewrite (nodupb_spec pid_eqb _ pid_eqb_eq A).
  rewrite (nodupb_spec Nat.eqb _ Nat.eqb_eq C). reflexivity.
Qed.

(* ---------------------------------------------------------------- success needs a successful attempt *)
Definition sub_won (g : gstate) (h i : nat) : Prop :=
  exists k v, lookup_store (PSub h i k) (store g) = Some (v, true).

Definition InvE (g : gstate) : Prop :=
  forall h hd, nth_error (hs g) h = Some hd ->
    (h_answer hd = Some true -> h_items hd = [] /\ forall sp, In sp (h_subs hd) -> sp_result sp = Some true) /\
    (forall i sp, nth_error (h_subs hd) i = Some sp ->
        (sp_result sp <> None -> sp_cur sp = None) /\
        (sp_result sp = Some true -> sub_won g h i)).

Lemma sub_won_mono g g' h i :
  (forall p v, lookup_store p (store g) = Some v -> lookup_store p (store g') = Some v) -> sub_won g h i -> sub_won g' h i.
Proof. intros L (k & v & X). exists k, v. auto. Qed.

Lemma InvE_store g g' :
  InvE g -> hs g' = hs g ->
  (forall p v, lookup_store p (store g) = Some v -> lookup_store p (store g') = Some v) -> InvE g'.
Proof.
  intros H Eh L h hd Hh. rewrite Eh in Hh. destruct (H _ _ Hh) as [A B]. split; [assumption|].
  intros i sp Hi. destruct (B _ _ Hi) as [B1 B2]. split; [assumption|]. intros X. eapply sub_won_mono; eauto.
Qed.

(* replacing handler h *)
Lemma InvE_upd g h hd' :
  InvE g ->
  (h_answer hd' = Some true -> h_items hd' = [] /\ forall sp, In sp (h_subs hd') -> sp_result sp = Some true) ->
  (forall i sp, nth_error (h_subs hd') i = Some sp ->
        (sp_result sp <> None -> sp_cur sp = None) /\ (sp_result sp = Some true -> sub_won g h i)) ->
  InvE (set_hs g (upd h hd' (hs g))).
Proof.
  intros H A B h0 hd0 Hn. cbn in Hn. apply nth_error_upd_cases in Hn as [[-> ->]|[Hne Hn]].
  - split; [assumption|]. intros i sp Hi. destruct (B _ _ Hi) as [B1 B2]. split; [assumption|].
    intros X. destruct (B2 X) as (k & v & Y). exists k, v. exact Y.
  - destruct (H _ _ Hn) as [A0 B0]. split; [assumption|]. intros i sp Hi. destruct (B0 _ _ Hi) as [B1 B2].
    split; [assumption|]. intros X. destruct (B2 X) as (k & v & Y). exists k, v. exact Y.
Qed.

Lemma gstep_InvE g a g' es : gstep g a = Some (g', es) -> InvE g -> InvE g'.
Proof.
  intros Hstep HI. destruct a as [s a|s k n r sz|items|h|h i s|h i|h]; cbn in Hstep.
  - destruct (is_request a); [discriminate|].
    destruct (svc_act_props _ _ _ _ _ Hstep) as (Eh & _ & _ & _ & _ & _ & L). eapply InvE_store; eauto.
  - destruct (nth_error (svcs g) s); [|discriminate]. destruct (_ && _); [|discriminate].
    destruct (svc_act_props _ _ _ _ _ Hstep) as (Eh & _ & _ & _ & _ & _ & L). eapply InvE_store; eauto.
  - inversion Hstep; subst. intros h hd Hn. cbn in Hn.
    destruct (Nat.lt_ge_cases h (length (hs g))) as [L|L].
    + rewrite nth_error_app1 in Hn by assumption. exact (HI _ _ Hn).
    + rewrite nth_error_app2 in Hn by assumption.
      destruct (h - length (hs g))%nat as [|[|?]]; cbn in Hn; try discriminate. inversion Hn; subst. cbn.
      split; [discriminate|]. intros i sp Hi. destruct i; discriminate.
  - destruct (nth_error (hs g) h) as [hd|] eqn:Hh; [|discriminate]. destruct (HI _ _ Hh) as [A B].
    destruct (h_items hd) as [|[c|] rest] eqn:Hit; [discriminate| |].
    + inversion Hstep; subst. apply InvE_upd; cbn; auto.
      * intros X. destruct (A X) as [Y _]. discriminate.
      * intros i sp Hi. destruct (Nat.lt_ge_cases i (length (h_subs hd))) as [L|L].
        -- rewrite nth_error_app1 in Hi by assumption. exact (B _ _ Hi).
        -- rewrite nth_error_app2 in Hi by assumption. apply nth_error_In in Hi.
           apply in_map_iff in Hi as ([[[s0 k0] r0] sz0] & <- & _). cbn. split; [reflexivity|].
           destruct (N.eqb (attempts g) 0); discriminate.
    + destruct (h_answer hd) eqn:Ha; inversion Hstep; subst; apply InvE_upd; cbn; auto.
      * intros X. destruct (A X) as [Y _]. discriminate.
      * discriminate.
  - destruct (nth_error (hs g) h) as [hd|] eqn:Hh; [|discriminate].
    destruct (nth_error (h_subs hd) i) as [sp|] eqn:Hi; [|discriminate].
    destruct (is_none (sp_result sp) && is_none (sp_cur sp) && N.ltb (sp_used sp) (attempts g) && may_take g s sp) eqn:Hg; [|discriminate].
    destruct (svc_act g s _) as [[g1 es1]|] eqn:Hact; [|discriminate]. inversion Hstep; subst; clear Hstep.
    destruct (svc_act_props _ _ _ _ _ Hact) as (Eh & _ & _ & _ & _ & _ & L).
    assert (H1 : InvE g1) by (eapply InvE_store; eauto).
    assert (Hh1 : nth_error (hs g1) h = Some hd) by (rewrite Eh; assumption).
    destruct (H1 _ _ Hh1) as [A B].
    assert (Hres : sp_result sp = None).
    { apply andb_true_iff in Hg as [Hg _]. apply andb_true_iff in Hg as [Hg _]. apply andb_true_iff in Hg as [Hg _].
      destruct (sp_result sp); [discriminate|reflexivity]. }
    apply InvE_upd; cbn; auto.
    + intros X. destruct (A X) as [Y Z]. split; [assumption|]. intros x Hx. apply in_upd in Hx as [->|Hx]; [|auto].
      exfalso. apply nth_error_In in Hi. specialize (Z _ Hi). congruence.
    + intros j x Hj. apply nth_error_upd_cases in Hj as [[-> ->]|[Hne Hj]]; cbn; [split; [congruence|discriminate]|].
      exact (B _ _ Hj).
  - destruct (nth_error (hs g) h) as [hd|] eqn:Hh; [|discriminate].
    destruct (nth_error (h_subs hd) i) as [sp|] eqn:Hi; [|discriminate].
    destruct (sp_cur sp) as [k|] eqn:Hcur; [|discriminate].
    destruct (lookup_store (PSub h i k) (store g)) as [[[k0 r0] ok]|] eqn:Hl; [|discriminate].
    inversion Hstep; subst; clear Hstep. destruct (HI _ _ Hh) as [A B].
    assert (Hres : sp_result sp = None).
    { destruct (B _ _ Hi) as [B1 _]. destruct (sp_result sp); [|reflexivity]. rewrite B1 in Hcur by discriminate. discriminate. }
    apply InvE_upd; cbn; auto.
    + intros X. destruct (A X) as [Y Z]. exfalso. apply nth_error_In in Hi. specialize (Z _ Hi). congruence.
    + intros j x Hj. apply nth_error_upd_cases in Hj as [[-> ->]|[Hne Hj]]; cbn; [|exact (B _ _ Hj)].
      split; [reflexivity|]. intros X. destruct ok.
      * exists k, (k0, r0). exact Hl.
      * destruct (N.ltb (sp_used sp) (attempts g)); discriminate.
  - destruct (nth_error (hs g) h) as [hd|] eqn:Hh; [|discriminate].
    destruct (h_items hd) eqn:Hit; [|discriminate]. destruct (h_answer hd) eqn:Ha; [discriminate|].
    destruct (verdict (h_subs hd)) as [ok|] eqn:Hv; [|discriminate]. inversion Hstep; subst.
    destruct (HI _ _ Hh) as [A B]. apply InvE_upd; cbn; auto.
    intros X. inversion X; subst ok. split; [reflexivity|]. apply verdict_true. assumption.
Qed.

Lemma grun_InvE tr : forall g g' es, grun g tr = Some (g', es) -> InvE g -> InvE g'.
Proof.
  induction tr as [|a tr IH]; intros g g' es Hrun HI; cbn in Hrun.
  - inversion Hrun; subst. assumption.
  - destruct (gstep g a) as [[g1 e1]|] eqn:Es; [|discriminate].
    destruct (grun g1 tr) as [[g2 e2]|] eqn:Er; [|discriminate]. inversion Hrun; subst.
    eapply IH; eauto. eapply gstep_InvE; eauto.
Qed.

Theorem success_needs_successful_attempt cfg n tr g es h hd i sp :
  grun (ginit cfg n) tr = Some (g, es) ->
  nth_error (hs g) h = Some hd -> nth_error (h_subs hd) i = Some sp ->
  h_answer hd = Some true ->
  exists k v, lookup_store (PSub h i k) (store g) = Some (v, true).
Proof.
  intros Hrun Hh Hi Ha.
  assert (I0 : InvE (ginit cfg n)) by (intros x hd0 Hn; destruct x; discriminate).
  pose proof (grun_InvE _ _ _ _ Hrun I0) as HI. destruct (HI _ _ Hh) as [A B].
  destruct (A Ha) as [_ Z]. destruct (B _ _ Hi) as [_ B2]. apply B2. apply Z. eapply nth_error_In; eauto.
Qed.
