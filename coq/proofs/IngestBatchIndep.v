(* Round 8 (seeded C01-h).  Whether `Request` ties a promise to the open batch depends on the REQUEST alone -- `inserted`, the growth of the
   key column, is the number of rows the request carries -- never on what the batch already holds.  The seeded change made the time_series
   closure skip rows another request of the same batch had queued: such a request appended nothing, was answered success at once by the
   `inserted == 0` branch, and the INSERT of the batch that held "its" row could still fail.  Model side: `eff` takes no worker state
   (theorem 1); the skipping variant as a step function, and why it is not the model (refutation with a witness). *)
From Coq Require Import List NArith ZArith Bool.
From Qryn Require Import model.Ingest.
Import ListNotations.

(* 1. a running worker, a request that carries at least one row (key column non-empty after ProcessRequest): whatever the open batch, the
      portion in flight, the size and the flush state are, Request completes nothing; the promise waits in `results` (behind the earlier
      ones) and every column of the request is appended to the open batch *)
Theorem request_with_rows_joins_the_batch : forall s p r sz r',
  running s = true ->
  eff (kd s) r = Some r' ->
  nth (keycol (kd s)) r' [] <> [] ->
  exists s', sstep s (SRequest p r sz) = Some (s', []) /\
             results s' = results s ++ [(p, r)] /\
             cols s' = zip_app (cols s) r' /\
             inflight s' = inflight s.
Proof.
  intros s p r sz r' R E K. cbn [sstep]. rewrite R, E. cbn [negb].
  destruct (nth (keycol (kd s)) r' []) eqn:N; [now contradiction K|]. cbn [length Nat.eqb].
  eexists; split; [reflexivity|]. cbn. auto.
Qed.

(* the same request submitted twice (two pushes of one new stream: both carry its series row) -- both promises wait for the batch, which
   holds the row twice *)
Corollary same_rows_twice_both_wait : forall s p1 p2 r sz1 sz2 r',
  running s = true ->
  eff (kd s) r = Some r' ->
  nth (keycol (kd s)) r' [] <> [] ->
  exists s1 s2, sstep s (SRequest p1 r sz1) = Some (s1, []) /\ sstep s1 (SRequest p2 r sz2) = Some (s2, []) /\
                results s2 = results s ++ [(p1, r); (p2, r)] /\
                cols s2 = zip_app (zip_app (cols s) r') r'.
Proof.
  intros s p1 p2 r sz1 sz2 r' R E K.
  destruct (request_with_rows_joins_the_batch s p1 r sz1 r' R E K) as (s1 & H1 & Q1 & C1 & _).
  assert (R1 : running s1 = true).
  { cbn [sstep] in H1. rewrite R, E in H1. cbn [negb] in H1.
    destruct (Nat.eqb _ 0) in H1; inversion H1; subst; cbn; auto. }
  assert (K1 : kd s1 = kd s).
  { cbn [sstep] in H1. rewrite R, E in H1. cbn [negb] in H1.
    destruct (Nat.eqb _ 0) in H1; inversion H1; subst; cbn; auto. }
  rewrite <- K1 in E, K.
  destruct (request_with_rows_joins_the_batch s1 p2 r sz2 r' R1 E K) as (s2 & H2 & Q2 & C2 & _).
  exists s1, s2. repeat split; auto.
  - rewrite Q2, Q1, <- app_assoc. reflexivity.
  - rewrite C2, C1. reflexivity.
Qed.

(* 2. the seeded variant: a time_series request all of whose rows (named by the row id in the key column) are already queued in the open
      batch appends nothing and is answered at once *)
Definition queued_all (s : svc) (r' : req) : bool :=
  forallb (fun c => existsb (fun c' => N.eqb (fst c) (fst c')) (nth (keycol (kd s)) (cols s) []))
          (nth (keycol (kd s)) r' []).

Definition sstep_skip (s : svc) (a : sact) : option (svc * list sev) :=
  match a with
  | SRequest p r sz =>
      match kd s, eff (kd s) r with
      | KSeries, Some r' => if running s && queued_all s r' then Some (s, [VDone p r true]) else sstep s a
      | _, _ => sstep s a
      end
  | _ => sstep s a
  end.

Definition row1 : req := table_of 4 [1%N].
Definition skip_s0 : svc := svc_init KSeries 0 0.
Definition skip_s1 : svc :=
  match sstep_skip skip_s0 (SRequest (PEnv 1) row1 10) with Some (s, _) => s | None => skip_s0 end.

(* push 2 carries row 1 as push 1 does; the variant completes its promise with success before any block has been sent, and the batch holds
   the row once: if the INSERT of that batch is refused, push 2 was told success for a row no successful INSERT contained *)
Example skipping_variant_answers_before_any_insert :
  sstep_skip skip_s0 (SRequest (PEnv 1) row1 10) = Some (skip_s1, []) /\
  results skip_s1 = [(PEnv 1, row1)] /\
  sstep_skip skip_s1 (SRequest (PEnv 2) row1 10) = Some (skip_s1, [VDone (PEnv 2) row1 true]) /\
  inflight skip_s1 = None /\
  (* the unchanged step: both wait *)
  (exists s2, sstep skip_s1 (SRequest (PEnv 2) row1 10) = Some (s2, []) /\ results s2 = [(PEnv 1, row1); (PEnv 2, row1)]).
Proof. repeat split; try reflexivity. eexists; split; reflexivity. Qed.

Theorem skipping_queued_rows_is_not_the_model :
  ~ (forall s p r sz r',
       running s = true -> eff (kd s) r = Some r' -> nth (keycol (kd s)) r' [] <> [] ->
       exists s', sstep_skip s (SRequest p r sz) = Some (s', []) /\ results s' = results s ++ [(p, r)]).
Proof.
  intro H. destruct (H skip_s1 (PEnv 2) row1 10%Z row1) as (s' & E & _); try reflexivity.
  - discriminate.
  - vm_compute in E. discriminate.
Qed.
