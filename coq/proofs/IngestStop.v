(* Why the liveness theorems exclude Stop: the open batch of a stopped worker is never sent.  Run has returned, nobody
   calls swapBuffers any more; Request refuses new work, the promises in svc.results stay uncompleted for ever. *)
From Coq Require Import List NArith ZArith Bool Lia Arith.
From Qryn Require Import model.Ingest model.PushHandler proofs.IngestBase proofs.IngestDrain.
Import ListNotations.

Lemma stopped_step sv a sv' vs : running sv = false -> sstep sv a = Some (sv', vs) ->
  running sv' = false /\ results sv' = results sv.
Proof.
  intros R H. destruct a as [q r sz| |ok| | |ok| |]; cbn in H.
  - rewrite R in H. cbn in H. inversion H; subst. auto.
  - inversion H; subst. cbn. auto.
  - unfold loop_ready in H. rewrite R in H. cbn in H. discriminate.
  - unfold loop_ready in H. rewrite R in H. cbn in H. discriminate.
  - destruct (inflight sv) as [po|] eqn:I; [|discriminate]. destruct (p_sent po); inversion H; subst; cbn. auto.
  - destruct (inflight sv) as [po|] eqn:I; [|discriminate]. destruct (p_sent po); cbn in H; inversion H; subst; cbn. auto.
  - destruct (is_none (inflight sv)); inversion H; subst. cbn. auto.
  - inversion H; subst. cbn. auto.
Qed.

(* whatever happens to a stopped worker, its open batch stays as it is *)
Theorem stopped_worker_never_flushes tr : forall sv sv' vs,
  running sv = false -> srun sv tr = Some (sv', vs) -> running sv' = false /\ results sv' = results sv.
Proof.
  induction tr as [|a tr IH]; intros sv sv' vs R H; cbn in H.
  - inversion H; subst. auto.
  - destruct (sstep sv a) as [[s1 e1]|] eqn:E; [|discriminate]. destruct (srun s1 tr) as [[s2 e2]|] eqn:E2; [|discriminate].
    inversion H; subst. destruct (stopped_step _ _ _ _ R E) as (R1 & Q1). destruct (IH _ _ _ R1 E2) as (R2 & Q2). split; congruence.
Qed.

Example stop_strands_a_request :
  let tr := [SRequest (PEnv 1) (table_of 5 [1%N]) 10; SStop] in
  exists s vs, srun (svc_init KSamples 0 0) tr = Some (s, vs) /\ running s = false /\ results s <> [] /\ dones vs = [].
Proof. cbv zeta. eexists. eexists. split; [vm_compute; reflexivity|]. split; [reflexivity|]. split; [discriminate|reflexivity]. Qed.
