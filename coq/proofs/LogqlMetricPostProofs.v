(* Proofs for C08, the Go post-processors: FixPeriodPlanner's transcription fix_period equals its specification
   fix_period_spec for every row stream and every batching; consequences (a reported point carries the value of the
   last row of its series whose range window covers its step slot, rows whose window misses every slot contribute
   nothing, a slot with a non-zero value is reported). *)
From Coq Require Import List ZArith NArith String Bool Lia.
From Qryn Require Import model.LogqlMetricSem model.LogqlMetricPost.
Import ListNotations.
Open Scope Z_scope.

Section POSTSPEC_PROOFS.
  Context {V : Type} (is_zero : V -> bool) (zero : V).
  Variables from step d : Z.
  Notation pent := (pentry V).
  Notation covers := (covers from step d).
  Notation slot_upd := (slot_upd from step d).
  Notation slot_val := (slot_val from step d).

  (* ---------- slots as functions over zrange ---------- *)
  Lemma zrange_in k : forall s i, In i (zrange k s) <-> s <= i < s + Z.of_nat k.
  Proof.
    induction k as [|k IH]; intros s i; cbn [zrange].
    - cbn. lia.
    - cbn [In]. rewrite IH. lia.
  Qed.
  Lemma zrange_length k : forall s, List.length (zrange k s) = k.
  Proof. induction k as [|k IH]; intros s; cbn; [reflexivity|now rewrite IH]. Qed.

  Lemma fill_map (g : Z -> V) lo hi v k : forall s,
    fill (map g (zrange k s)) s lo hi v = map (fun i => if Z.leb lo i && Z.leb i hi then v else g i) (zrange k s).
  Proof. induction k as [|k IH]; intros s; cbn [zrange map fill]; [reflexivity|]. now rewrite IH. Qed.

  Lemma repeat_map k : forall s, repeat zero k = map (fun _ : Z => zero) (zrange k s).
  Proof. induction k as [|k IH]; intros s; cbn; [reflexivity|]. now rewrite (IH (s + 1)). Qed.

  Lemma fix_place_map (g : Z -> V) n (e : pent) : 0 <= n ->
    fix_place from step d n (map g (zrange (Z.to_nat n) 0)) e = map (slot_upd g e) (zrange (Z.to_nat n) 0).
  Proof.
    intros Hn. unfold fix_place, LogqlMetricPost.slot_upd, LogqlMetricPost.covers, win_start. cbv zeta.
    set (i0 := Z.quot (Z.quot (pe_ts e) d * d - from) step).
    set (i1 := Z.quot (Z.quot (pe_ts e) d * d + d - from) step).
    destruct (Z.ltb i1 0 || Z.leb n i0) eqn:Eskip.
    - rewrite <- (map_id (map g _)) at 1. rewrite map_map. apply map_ext_in. intros i Hi.
      apply zrange_in in Hi. rewrite Z2Nat.id in Hi by lia.
      destruct (Z.leb i0 i && Z.leb i i1) eqn:Ec; [|reflexivity].
      apply orb_true_iff in Eskip. apply andb_true_iff in Ec. lia.
    - rewrite fill_map. apply map_ext_in. intros i Hi.
      apply zrange_in in Hi. rewrite Z2Nat.id in Hi by lia.
      apply orb_false_iff in Eskip.
      replace (Z.leb (Z.max i0 0) i && Z.leb i (if Z.leb n i1 then n - 1 else i1)) with (Z.leb i0 i && Z.leb i i1); [reflexivity|].
      destruct (Z.leb n i1) eqn:En; apply eq_true_iff_eq; rewrite !andb_true_iff; lia.
  Qed.

  (* ---------- runs ---------- *)
  Definition EXP (n : Z) := export_run is_zero zero from step d n.

  Lemma slot_val_cons g (e : pent) r : slot_val g (e :: r) = slot_val (slot_upd g e) r.
  Proof. reflexivity. Qed.
  Lemma slot_upd_eq g (e : pent) i : slot_upd g e i = if covers e i then pe_val e else g i.
  Proof. reflexivity. Qed.

  Lemma runs_shape (es : list pent) :
    match runs es with
    | [] => es = []
    | [] :: _ => False
    | (x :: _) :: _ => exists r, es = x :: r
    end.
  Proof.
    destruct es as [|e r]; cbn [runs]; [reflexivity|].
    destruct (runs r) as [|[|x g] gs]; [eauto|eauto|].
    destruct (N.eqb (pe_fp x) (pe_fp e)); eauto.
  Qed.

  (* the state machine of FixPeriodPlanner, started inside a series f whose slots are g, against the runs of the rest *)
  Lemma fix_run_runs n : 0 <= n -> forall (es : list pent) f (g : Z -> V),
    fix_run is_zero zero from step d n (Some (f, map g (zrange (Z.to_nat n) 0))) es =
    match runs es with
    | (x :: r1) :: gs =>
      if N.eqb (pe_fp x) f
      then (fix_export is_zero from step f (map (slot_val g (x :: r1)) (zrange (Z.to_nat n) 0)) ++ flat_map (EXP n) gs)%list
      else (fix_export is_zero from step f (map g (zrange (Z.to_nat n) 0)) ++ flat_map (EXP n) (runs es))%list
    | _ => (fix_export is_zero from step f (map g (zrange (Z.to_nat n) 0)) ++ flat_map (EXP n) (runs es))%list
    end.
  Proof.
    intros Hn. induction es as [|e r IH]; intros f g.
    - cbn [fix_run runs flat_map]. now rewrite app_nil_r.
    - cbn [fix_run]. pose proof (runs_shape r) as Hsh.
      destruct (N.eqb (pe_fp e) f) eqn:Ef.
      + (* e continues the series *)
        rewrite fix_place_map by exact Hn. rewrite IH. cbn [runs].
        destruct (runs r) as [|[|x r1] gs] eqn:Er.
        * cbn [flat_map]. rewrite Ef. cbn [flat_map]. now rewrite !app_nil_r.
        * contradiction.
        * apply N.eqb_eq in Ef. destruct (N.eqb (pe_fp x) (pe_fp e)) eqn:Ex.
          -- rewrite Ef in Ex. rewrite Ex. rewrite Ef, N.eqb_refl. reflexivity.
          -- rewrite Ef in Ex. rewrite Ex. rewrite Ef, N.eqb_refl. cbn [flat_map]. reflexivity.
      + (* e opens another series *)
        rewrite (repeat_map (Z.to_nat n) 0). rewrite fix_place_map by exact Hn. rewrite IH. cbn [runs].
        destruct (runs r) as [|[|x r1] gs] eqn:Er.
        * rewrite Ef. cbn [flat_map]. unfold EXP, export_run. cbn [run_fp]. now rewrite !app_nil_r.
        * contradiction.
        * destruct (N.eqb (pe_fp x) (pe_fp e)) eqn:Ex.
          -- rewrite Ef. cbn [flat_map]. unfold EXP, export_run. cbn [run_fp]. reflexivity.
          -- rewrite Ef. cbn [flat_map]. unfold EXP, export_run. cbn [run_fp]. reflexivity.
  Qed.

  (* THE CHARACTERISATION: for every row stream, every batching *)
  Theorem fix_period_is_spec to (bs : list (list pent)) : 0 <= Z.quot (to - from) step + 1 ->
    fix_period is_zero zero from to step d bs = fix_period_spec is_zero zero from step d to bs.
  Proof.
    intros Hn. unfold fix_period, fix_period_spec. set (n := Z.quot (to - from) step + 1) in *.
    destruct (List.concat bs) as [|e r]; [reflexivity|].
    cbn [fix_run]. rewrite (repeat_map (Z.to_nat n) 0), fix_place_map by exact Hn. rewrite fix_run_runs by exact Hn.
    cbn [runs]. pose proof (runs_shape r) as Hsh.
    destruct (runs r) as [|[|x r1] gs] eqn:Er.
    - cbn [flat_map]. unfold export_run. cbn [run_fp]. reflexivity.
    - contradiction.
    - destruct (N.eqb (pe_fp x) (pe_fp e)) eqn:Ex.
      + cbn [flat_map]. unfold export_run. cbn [run_fp]. reflexivity.
      + cbn [flat_map]. unfold export_run. cbn [run_fp]. reflexivity.
  Qed.

  (* batching is irrelevant *)
  Corollary fix_period_batching to (bs bs' : list (list pent)) : List.concat bs = List.concat bs' ->
    fix_period is_zero zero from to step d bs = fix_period is_zero zero from to step d bs'.
  Proof. unfold fix_period. now intros ->. Qed.

  (* ---------- what a slot holds ---------- *)
  (* the last covering row decides; without one the slot keeps what it had *)
  Lemma slot_val_last (run : list pent) : forall g i,
    (slot_val g run i = g i /\ forall x, In x run -> covers x i = false) \/
    (exists r1 x r2, run = (r1 ++ x :: r2)%list /\ covers x i = true /\ slot_val g run i = pe_val x /\
                     forall y, In y r2 -> covers y i = false).
  Proof.
    induction run as [|e r IH]; intros g i.
    - left. split; [reflexivity|]. intros x [].
    - rewrite slot_val_cons. destruct (IH (slot_upd g e) i) as [[Hv Hn]|[r1 [x [r2 [-> [Hc [Hv Hl]]]]]]].
      + rewrite slot_upd_eq in Hv. destruct (covers e i) eqn:Ec.
        * right. exists [], e, r. cbn. auto.
        * left. split; [exact Hv|]. intros x [<-|Hx]; [exact Ec|now apply Hn].
      + right. exists (e :: r1), x, r2. cbn. auto.
  Qed.

  Lemma runs_members (es : list pent) : forall run x, In run (runs es) -> In x run -> In x es /\ pe_fp x = run_fp run.
  Proof.
    induction es as [|e r IH]; intros run x Hr Hx; cbn [runs] in Hr; [contradiction|].
    destruct (runs r) as [|[|y g] gs] eqn:Er.
    - destruct Hr as [<-|[]]. destruct Hx as [<-|[]]. split; [now left|reflexivity].
    - destruct Hr as [<-|[]]. destruct Hx as [<-|[]]. split; [now left|reflexivity].
    - destruct (N.eqb (pe_fp y) (pe_fp e)) eqn:Ey.
      + apply N.eqb_eq in Ey. destruct Hr as [<-|Hr].
        * destruct Hx as [<-|Hx]; [split; [now left|reflexivity]|].
          destruct (IH (y :: g) x (or_introl eq_refl) Hx) as [Hin Hf]. split; [now right|]. cbn [run_fp] in *. congruence.
        * destruct (IH run x (or_intror Hr) Hx). split; [now right|assumption].
      + destruct Hr as [<-|Hr].
        * destruct Hx as [<-|[]]. split; [now left|reflexivity].
        * destruct (IH run x Hr Hx). split; [now right|assumption].
  Qed.
  Lemma runs_concat (es : list pent) : List.concat (runs es) = es.
  Proof.
    induction es as [|e r IH]; cbn [runs]; [reflexivity|]. pose proof (runs_shape r) as Hsh.
    destruct (runs r) as [|[|y g] gs] eqn:Er.
    - cbn in *. now subst r.
    - contradiction.
    - destruct (N.eqb (pe_fp y) (pe_fp e)); cbn in *; now rewrite IH.
  Qed.

  Lemma export_in (f : N) (h : Z -> V) k (e : pent) :
    (exists b, In b (fix_export is_zero from step f (map h (zrange k 0))) /\ In e b) <->
    (exists i, 0 <= i < Z.of_nat k /\ pe_ts e = from + i * step /\ pe_fp e = f /\ pe_val e = h i /\ is_zero (h i) = false).
  Proof.
    unfold fix_export. rewrite map_length, zrange_length. set (es := flat_map _ _).
    assert (Hes : In e es <-> exists i, 0 <= i < Z.of_nat k /\ pe_ts e = from + i * step /\ pe_fp e = f /\ pe_val e = h i /\ is_zero (h i) = false).
    { unfold es. rewrite in_flat_map. split.
      - intros [[i v] [Hiv Hx]]. cbn [fst snd] in Hx.
        assert (Hv : v = h i /\ In i (zrange k 0)).
        { clear Hx. revert Hiv. generalize 0. induction k as [|k IH]; intros s Hiv; cbn in Hiv; [contradiction|].
          destruct Hiv as [Hiv|Hiv]; [inversion Hiv; subst; split; [reflexivity|now left]|].
          destruct (IH _ Hiv). split; [assumption|now right]. }
        destruct Hv as [-> Hi]. apply zrange_in in Hi.
        destruct (is_zero (h i)) eqn:Ez; [contradiction|]. destruct Hx as [<-|[]]. exists i. cbn. auto with zarith.
      - intros [i [Hi [Ht [Hf [Hv Hz]]]]]. exists (i, h i). split.
        + assert (Hin : In i (zrange k 0)) by (apply zrange_in; lia).
          clear Hi. revert Hin. generalize 0. induction k as [|k IH]; intros s Hin; cbn in *; [contradiction|].
          destruct Hin as [->|Hin]; [now left|right; now apply IH].
        + cbn [fst snd]. rewrite Hz. left. destruct e as [t f' v]. cbn in *. congruence. }
    split.
    - intros [b [Hb He]]. apply Hes. destruct es; [contradiction|]. destruct Hb as [<-|[]]. exact He.
    - intros H. apply Hes in H. destruct es as [|x r] eqn:E; [contradiction|]. exists (x :: r). split; [now left|exact H].
  Qed.

  Hypothesis zero_is_zero : is_zero zero = true.

  (* SOUNDNESS: a reported point lies on the step grid inside the array, is not zero, and carries the value of the
     LAST row of its series (run of its fingerprint) whose range window covers its slot. *)
  Theorem fix_period_sound to (bs : list (list pent)) b (e : pent) :
    0 <= Z.quot (to - from) step + 1 ->
    In b (fix_period is_zero zero from to step d bs) -> In e b ->
    exists i run r1 x r2,
      0 <= i < Z.quot (to - from) step + 1 /\ pe_ts e = from + i * step /\ is_zero (pe_val e) = false /\
      In run (runs (List.concat bs)) /\ run = (r1 ++ x :: r2)%list /\ pe_fp x = pe_fp e /\ pe_val x = pe_val e /\
      covers x i = true /\ (forall y, In y r2 -> covers y i = false) /\ In x (List.concat bs).
  Proof.
    intros Hn Hb He. rewrite fix_period_is_spec in Hb by exact Hn. unfold fix_period_spec in Hb.
    apply in_flat_map in Hb. destruct Hb as [run [Hrun Hb]]. unfold export_run in Hb.
    destruct (proj1 (export_in _ _ _ e) (ex_intro _ b (conj Hb He))) as [i [Hi [Ht [Hf [Hv Hz]]]]].
    rewrite Z2Nat.id in Hi by exact Hn.
    destruct (slot_val_last run (fun _ => zero) i) as [[Hs _]|[r1 [x [r2 [Er [Hc [Hs Hl]]]]]]].
    - rewrite Hs in Hz. congruence.
    - exists i, run, r1, x, r2.
      assert (Hx : In x run) by (rewrite Er; apply in_or_app; right; now left).
      destruct (runs_members _ _ _ Hrun Hx) as [Hin Hfx].
      split; [exact Hi|]. split; [exact Ht|]. split; [now rewrite Hv|]. split; [exact Hrun|]. split; [exact Er|].
      split; [congruence|]. split; [congruence|]. auto.
  Qed.

  (* COMPLETENESS: if the last row of a series covering slot i (0 <= i < n) has a non-zero value, the point
     (from + i*step, fingerprint, value) is reported. *)
  Theorem fix_period_complete to (bs : list (list pent)) run r1 x r2 i :
    0 <= Z.quot (to - from) step + 1 ->
    In run (runs (List.concat bs)) -> run = (r1 ++ x :: r2)%list ->
    0 <= i < Z.quot (to - from) step + 1 -> covers x i = true -> (forall y, In y r2 -> covers y i = false) ->
    is_zero (pe_val x) = false ->
    exists b, In b (fix_period is_zero zero from to step d bs) /\
              In {| pe_ts := from + i * step; pe_fp := pe_fp x; pe_val := pe_val x |} b.
  Proof.
    intros Hn Hrun Er Hi Hc Hl Hz. rewrite fix_period_is_spec by exact Hn. unfold fix_period_spec.
    assert (Hx : In x run) by (rewrite Er; apply in_or_app; right; now left).
    destruct (runs_members _ _ _ Hrun Hx) as [_ Hfx].
    assert (Hs : slot_val (fun _ => zero) run i = pe_val x).
    { destruct (slot_val_last run (fun _ => zero) i) as [[_ Hno]|[r1' [x' [r2' [Er' [Hc' [Hs' Hl']]]]]]].
      - rewrite (Hno x Hx) in Hc. discriminate.
      - rewrite Hs'. rewrite Er in Er'.
        (* the last covering row is unique *)
        clear - Er' Hc Hl Hc' Hl'. revert r1' Er'. induction r1 as [|a r1 IH]; intros r1' Er'.
        + destruct r1' as [|a' r1'']; cbn in Er'.
          * now inversion Er'.
          * inversion Er'; subst. rewrite (Hl x') in Hc'; [discriminate|]. apply in_or_app. right. now left.
        + destruct r1' as [|a' r1'']; cbn in Er'.
          * inversion Er'; subst. rewrite (Hl' x) in Hc; [discriminate|]. apply in_or_app. right. now left.
          * inversion Er'. eapply IH. eassumption. }
    destruct (proj2 (export_in (run_fp run) (slot_val (fun _ => zero) run) (Z.to_nat (Z.quot (to - from) step + 1))
                               {| pe_ts := from + i * step; pe_fp := pe_fp x; pe_val := pe_val x |}))
      as [b [Hb He]].
    { exists i. rewrite Z2Nat.id by exact Hn. cbn. rewrite Hs. auto. }
    exists b. split; [|exact He]. apply in_flat_map. exists run. split; [exact Hrun|exact Hb].
  Qed.

  (* NOTHING FROM OUTSIDE: a series none of whose rows covers a slot of the array is not reported at all *)
  Theorem fix_period_outside to (bs : list (list pent)) run :
    0 <= Z.quot (to - from) step + 1 -> In run (runs (List.concat bs)) ->
    (forall x i, In x run -> 0 <= i < Z.quot (to - from) step + 1 -> covers x i = false) ->
    export_run is_zero zero from step d (Z.quot (to - from) step + 1) run = [].
  Proof.
    intros Hn Hrun Hno. unfold export_run.
    destruct (fix_export is_zero from step (run_fp run) _) as [|b l] eqn:E; [reflexivity|exfalso].
    assert (Hb : In b (b :: l)) by now left. rewrite <- E in Hb.
    assert (Hne : exists e, In e b).
    { unfold fix_export in E. destruct (flat_map _ _) as [|e0 r0] eqn:E2; [discriminate|]. inversion E; subst. exists e0. now left. }
    destruct Hne as [e He].
    destruct (proj1 (export_in _ _ _ e) (ex_intro _ b (conj Hb He))) as [i [Hi [_ [_ [_ Hz]]]]].
    rewrite Z2Nat.id in Hi by exact Hn.
    destruct (slot_val_last run (fun _ => zero) i) as [[Hs _]|[r1 [x [r2 [Er [Hc _]]]]]].
    - rewrite Hs in Hz. congruence.
    - rewrite (Hno x i) in Hc; [discriminate| |exact Hi]. rewrite Er. apply in_or_app. right. now left.
  Qed.

  (* what "covers" means in time: for a row whose window starts at or after `from`, slot i at t = from + i*step is
     covered iff the window [b, b+d] reaches t and starts before the next step: t - d <= b < t + step *)
  Lemma covers_time (x : pent) i : 0 < step -> from <= win_start d x -> 0 <= d ->
    covers x i = true <-> (from + i * step - d <= win_start d x < from + i * step + step).
  Proof.
    intros Hs Hb Hd. unfold LogqlMetricPost.covers. set (b := win_start d x) in *.
    rewrite andb_true_iff, !Z.leb_le.
    rewrite !Z.quot_div_nonneg by lia.
    pose proof (Z.div_mod (b - from) step ltac:(lia)). pose proof (Z.mod_pos_bound (b - from) step Hs).
    pose proof (Z.div_mod (b + d - from) step ltac:(lia)). pose proof (Z.mod_pos_bound (b + d - from) step Hs).
    split; intros; nia.
  Qed.
End POSTSPEC_PROOFS.

(* the hypotheses are met by a concrete stream: two series, three batches, a row overwritten by a later one *)
Example fix_period_spec_example :
  let bs := [[{| pe_ts := 10; pe_fp := 1%N; pe_val := 3 |}; {| pe_ts := 12; pe_fp := 1%N; pe_val := 4 |}];
             [{| pe_ts := 20; pe_fp := 1%N; pe_val := 0 |}]; [{| pe_ts := 10; pe_fp := 2%N; pe_val := 7 |}]] in
  fix_period (Z.eqb 0) 0 10 30 5 10 bs = fix_period_spec (Z.eqb 0) 0 10 5 10 30 bs /\
  fix_period (Z.eqb 0) 0 10 30 5 10 bs =
    [[{| pe_ts := 10; pe_fp := 1%N; pe_val := 4 |}; {| pe_ts := 15; pe_fp := 1%N; pe_val := 4 |}];
     [{| pe_ts := 10; pe_fp := 2%N; pe_val := 7 |}; {| pe_ts := 15; pe_fp := 2%N; pe_val := 7 |}; {| pe_ts := 20; pe_fp := 2%N; pe_val := 7 |}]].
Proof. split; reflexivity. Qed.
