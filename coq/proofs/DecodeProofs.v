(* Proofs about model/Decode.v (property C03). *)
From Coq Require Import List ZArith NArith Bool Ascii String Lia Arith.
From Coq Require Permutation.
From Qryn Require Import gen.DecodeConsts model.Decode.
Import ListNotations.
Open Scope Z_scope.

(* ---------------------------------------------------------------- fastFillArray = repeat *)
Lemma firstn_repeat {A} (v : A) : forall k m, firstn k (repeat v m) = repeat v (Nat.min k m).
Proof.
  induction k as [|k IH]; intros [|m]; cbn; try reflexivity.
  now rewrite IH.
Qed.

Lemma repeat_app_len {A} (v : A) (a b : nat) : (repeat v a ++ repeat v b)%list = repeat v (a + b).
Proof. now rewrite repeat_app. Qed.

Lemma fill_loop_spec {A} (v : A) (n : nat) : forall fuel l res tail,
  (1 <= l)%nat -> List.length res = n -> res = (repeat v (Nat.min l n) ++ tail)%list -> (n <= l + fuel)%nat ->
  fill_loop fuel res l = repeat v n.
Proof.
  assert (Hdone : forall l res tail, List.length res = n -> res = (repeat v (Nat.min l n) ++ tail)%list -> (n <= l)%nat ->
                  res = repeat v n).
  { intros l res tail Hlen Hres Hle. rewrite Nat.min_r in Hres by lia.
    assert (Ht : List.length tail = 0%nat).
    { rewrite Hres in Hlen. rewrite app_length, repeat_length in Hlen. lia. }
    destruct tail; [|discriminate]. now rewrite app_nil_r in Hres. }
  induction fuel as [|f IH]; intros l res tail Hl Hlen Hres Hfuel; cbn [fill_loop].
  - eapply Hdone; eauto. lia.
  - destruct (Nat.ltb l (List.length res)) eqn:Hlt.
    + apply Nat.ltb_lt in Hlt. rewrite Hlen in Hlt.
      rewrite Nat.min_l in Hres by lia.
      assert (Htl : List.length tail = (n - l)%nat).
      { rewrite Hres in Hlen. rewrite app_length, repeat_length in Hlen. lia. }
      assert (Hcp : copy_prefix res l = (repeat v (Nat.min (l + l) n) ++ skipn l tail)%list).
      { unfold copy_prefix. rewrite Hlen.
        assert (Hf : firstn l res = repeat v l).
        { rewrite Hres. rewrite firstn_app, repeat_length, Nat.sub_diag. cbn [firstn].
          rewrite firstn_repeat, Nat.min_id. now rewrite app_nil_r. }
        rewrite Hf, firstn_repeat.
        assert (Hs : skipn (l + l) res = skipn l tail).
        { rewrite Hres. rewrite skipn_app, repeat_length.
          replace (l + l - l)%nat with l by lia.
          rewrite skipn_all2 by (rewrite repeat_length; lia). reflexivity. }
        rewrite Hs, app_assoc, repeat_app_len. f_equal. f_equal. lia. }
      rewrite Hcp. eapply IH with (tail := skipn l tail).
      * lia.
      * rewrite app_length, repeat_length, skipn_length. lia.
      * reflexivity.
      * lia.
    + apply Nat.ltb_ge in Hlt. rewrite Hlen in Hlt. eapply Hdone; eauto.
Qed.

Lemma fast_fill_spec {A} (zero : A) (n : nat) (v : A) : fast_fill zero n v = repeat v n.
Proof.
  destruct n as [|m]; [reflexivity|]. unfold fast_fill.
  eapply fill_loop_spec with (tail := repeat zero m).
  - lia.
  - cbn. now rewrite repeat_length.
  - rewrite Nat.min_l by lia. reflexivity.
  - lia.
Qed.

(* ---------------------------------------------------------------- rows of chunks *)
Lemma zip6_app : forall (a : list N) b c d e f a' b' c' d' e' f',
  List.length b = List.length a -> List.length c = List.length a -> List.length d = List.length a ->
  List.length e = List.length a -> List.length f = List.length a ->
  zip6 (a ++ a') (b ++ b') (c ++ c') (d ++ d') (e ++ e') (f ++ f') = (zip6 a b c d e f ++ zip6 a' b' c' d' e' f')%list.
Proof.
  induction a as [|x a IH]; intros b c d e f a' b' c' d' e' f' Hb Hc Hd He Hf.
  - destruct b, c, d, e, f; try discriminate. reflexivity.
  - destruct b as [|xb b], c as [|xc c], d as [|xd d], e as [|xe e], f as [|xf f]; try discriminate.
    cbn in *. f_equal. apply IH; lia.
Qed.

Lemma repeat_map_const {A B} (v : B) (l : list A) : repeat v (List.length l) = map (fun _ => v) l.
Proof. induction l; cbn; congruence. Qed.

(* the rows appended for one call *)
Lemma zip6_call (fpv ttl : N) (lbls : labels) : forall ts msg val types,
  List.length msg = List.length ts -> List.length val = List.length ts -> List.length types = List.length ts ->
  zip6 (repeat fpv (List.length ts)) ts msg val (repeat ttl (List.length ts)) types =
  map (fun e => R fpv (e_ts e) (e_msg e) (e_val e) ttl (e_type e)) (call_entries (K lbls ts msg val types)).
Proof.
  unfold call_entries. cbn [k_labels k_ts k_msg k_val k_types].
  induction ts as [|t ts IH]; intros msg val types Hm Hv Ht.
  - reflexivity.
  - destruct msg as [|m msg], val as [|v val], types as [|ty types]; try discriminate.
    cbn in *. f_equal. apply IH; lia.
Qed.

Lemma call_entries_maps {A} (lbls : labels) (f1 : A -> Z) (f2 : A -> string) (f3 f4 : A -> N) (l : list A) :
  call_entries (K lbls (map f1 l) (map f2 l) (map f3 l) (map f4 l)) = map (fun x => E lbls (f1 x) (f2 x) (f3 x) (f4 x)) l.
Proof. unfold call_entries. cbn. induction l; cbn; congruence. Qed.

Lemma call_entries_labels (k : call) : Forall (fun e => e_labels e = k_labels k) (call_entries k).
Proof. unfold call_entries. apply Forall_forall. intros e He. apply in_map_iff in He. destruct He as [x [<- _]]. reflexivity. Qed.

Section RUN.
  Variable fp : labels -> N.
  Variable enc_len : labels -> Z.
  Variable CS : Type.
  Variable cache_add : CS -> Z -> N -> N -> CS * bool.
  Variable threshold : Z.
  Variable ctx_ttl : N.

  Notation on_entries := (on_entries fp enc_len CS cache_add threshold ctx_ttl).
  Notation run := (run fp enc_len CS cache_add threshold ctx_ttl).
  Notation add_series := (add_series enc_len CS cache_add).

  Definition same_columns (c c' : chunk) : Prop :=
    ch_ts c' = ch_ts c /\ ch_fp c' = ch_fp c /\ ch_msg c' = ch_msg c /\ ch_val c' = ch_val c /\
    ch_ttl c' = ch_ttl c /\ ch_type c' = ch_type c.

  Lemma add_series_columns lbls f types : forall days c cs, same_columns c (fst (add_series lbls f types days c cs)).
  Proof.
    intros days. unfold add_series. generalize (flat_map (fun d : Z => map (fun t : N => (d, t)) types) days).
    induction l as [|dt l IH]; intros c cs; cbn [fold_left].
    - unfold same_columns; cbn; tauto.
    - destruct (cache_add cs (fst dt) f (snd dt)) as [cs' add]. destruct add.
      + match goal with |- same_columns _ (fst (fold_left _ _ (?c1, _))) => specialize (IH c1 cs') end.
        unfold same_columns in *. cbn in IH. tauto.
      + apply IH.
  Qed.

  Lemma call_wf_no_panic k : call_wf k -> call_panics k = false.
  Proof.
    intros [Hm [_ [_ Ht]]]. unfold call_panics. apply orb_false_iff. split.
    - apply not_true_is_false. intros H. apply existsb_exists in H. destruct H as [t [Hin Hlt]].
      rewrite Forall_forall in Ht. specialize (Ht t Hin). apply N.ltb_lt in Hlt. lia.
    - apply Nat.ltb_ge. lia.
  Qed.

  Definition call_rows (k : call) : list row := map (row_of fp ctx_ttl) (call_entries k).

  Lemma row_of_call_entries k :
    call_rows k = map (fun e => R (fp (fst (labels_ttl ctx_ttl (k_labels k)))) (e_ts e) (e_msg e) (e_val e)
                                  (snd (labels_ttl ctx_ttl (k_labels k))) (e_type e)) (call_entries k).
  Proof.
    unfold call_rows. apply map_ext_in. intros e He.
    pose proof (call_entries_labels k) as HF. rewrite Forall_forall in HF. specialize (HF e He).
    unfold row_of. rewrite HF. destruct (labels_ttl ctx_ttl (k_labels k)); reflexivity.
  Qed.

  (* one callback on a rectangular chunk: never panics on a well-formed call, keeps the chunk rectangular,
     appends exactly the call's rows; what is flushed plus what stays open is the old rows plus the call's *)
  Lemma on_entries_rows c cs k : call_wf k -> chunk_rect c ->
    exists c' cs' out, on_entries (c, cs) k = Some ((c', cs'), out) /\ chunk_rect c' /\ Forall chunk_rect out /\
                       (rows_of out ++ chunk_rows c' = chunk_rows c ++ call_rows k)%list.
  Proof.
    intros Hwf Hrect. unfold on_entries.
    destruct (labels_ttl ctx_ttl (k_labels k)) as [lbls ttl] eqn:Hlt.
    rewrite (call_wf_no_panic k Hwf).
    rewrite !fast_fill_spec.
    set (c1 := CH _ _ _ _ _ _ _ _ _).
    pose proof (add_series_columns lbls (fp lbls) (present_types (k_types k)) (dedup (map day_of (k_ts k)) []) c1 cs) as Hcols.
    destruct (add_series lbls (fp lbls) (present_types (k_types k)) (dedup (map day_of (k_ts k)) []) c1 cs) as [c2 cs2].
    cbn [fst] in Hcols. destruct Hcols as [H1 [H2 [H3 [H4 [H5 H6]]]]].
    destruct Hwf as [Hm [Hv [Ht _]]]. destruct Hrect as [R1 [R2 [R3 [R4 R5]]]].
    assert (Hrect2 : chunk_rect c2).
    { unfold chunk_rect. rewrite H1, H2, H3, H4, H5, H6. subst c1. cbn.
      rewrite !app_length, !repeat_length. repeat split; lia. }
    assert (Hrows2 : chunk_rows c2 = (chunk_rows c ++ call_rows k)%list).
    { unfold chunk_rows. rewrite H1, H2, H3, H4, H5, H6. subst c1. cbn.
      rewrite zip6_app by lia. f_equal.
      rewrite row_of_call_entries, Hlt. cbn [fst snd].
      destruct k as [kl kts kmsg kval ktypes]. cbn in *. apply zip6_call; lia. }
    destruct (threshold <? ch_spl_size c2 + ch_ts_size c2).
    - exists empty_chunk, cs2, [c2]. split; [reflexivity|]. split; [|split].
      + unfold chunk_rect; cbn; tauto.
      + constructor; [assumption|constructor].
      + unfold rows_of. cbn. rewrite !app_nil_r. exact Hrows2.
    - exists c2, cs2, []. split; [reflexivity|]. split; [assumption|]. split; [constructor|]. exact Hrows2.
  Qed.

  Lemma run_rows : forall ks c cs, Forall call_wf ks -> chunk_rect c ->
    exists out, run (c, cs) ks = Done out /\ Forall chunk_rect out /\
                rows_of out = (chunk_rows c ++ flat_map call_rows ks)%list.
  Proof.
    induction ks as [|k ks IH]; intros c cs Hwf Hrect.
    - exists [c]. cbn. split; [reflexivity|]. split; [constructor; [assumption|constructor]|].
      unfold rows_of. cbn. now rewrite !app_nil_r.
    - inversion Hwf as [|k' ks' Hk Hks]; subst.
      destruct (on_entries_rows c cs k Hk Hrect) as [c' [cs' [out [Hon [Hr' [Hout Hrows]]]]]].
      destruct (IH c' cs' Hks Hr') as [out' [Hrun [Hrect' Hrows']]].
      exists (out ++ out')%list. cbn [Decode.run]. rewrite Hon, Hrun.
      split; [reflexivity|]. split; [apply Forall_app; split; assumption|].
      unfold rows_of in *. rewrite map_app, concat_app, Hrows'. cbn [flat_map].
      rewrite app_assoc, Hrows, <- app_assoc. reflexivity.
  Qed.

  (* responses are values: what was sent while the first calls were handled is a prefix of the final response
     sequence, whatever comes later *)
  Notation steps := (steps fp enc_len CS cache_add threshold ctx_ttl).
  Lemma run_steps : forall ks st,
    run st ks = match steps st ks with (o, Some st') => Done (o ++ [fst st']) | (o, None) => Panicked o end.
  Proof.
    induction ks as [|k r IH]; intros st; cbn [Decode.run Decode.steps].
    - reflexivity.
    - destruct (on_entries st k) as [[st' out]|]; [|reflexivity].
      rewrite IH. destruct (steps st' r) as [o [st''|]]; now rewrite <- ?app_assoc.
  Qed.
  Lemma steps_app : forall ks1 ks2 st,
    steps st (ks1 ++ ks2) =
    match steps st ks1 with
    | (o1, Some st1) => let '(o2, s2) := steps st1 ks2 in (o1 ++ o2, s2)
    | (o1, None) => (o1, None)
    end.
  Proof.
    induction ks1 as [|k r IH]; intros ks2 st; cbn [app Decode.steps].
    - destruct (steps st ks2); reflexivity.
    - destruct (on_entries st k) as [[st' out]|]; [|reflexivity].
      rewrite IH. destruct (steps st' r) as [o1 [st1|]]; [|reflexivity].
      destruct (steps st1 ks2) as [o2 s2]. now rewrite app_assoc.
  Qed.
  Lemma sent_prefix_stable ks1 ks2 st :
    exists rest, result_chunks (run st (ks1 ++ ks2)) = (fst (steps st ks1) ++ rest)%list.
  Proof.
    rewrite run_steps, steps_app. destruct (steps st ks1) as [o1 [st1|]]; cbn [fst].
    - destruct (steps st1 ks2) as [o2 [st2|]]; cbn [result_chunks].
      + exists (o2 ++ [fst st2])%list. now rewrite app_assoc.
      + now exists o2.
    - exists []. cbn. now rewrite app_nil_r.
  Qed.

  Lemma flat_map_call_rows ks : flat_map call_rows ks = rows_spec fp ctx_ttl (flat_map call_entries ks).
  Proof.
    unfold rows_spec, call_rows. induction ks as [|k ks IH]; cbn; [reflexivity|].
    now rewrite map_app, IH.
  Qed.

  (* the callback layer, for any sequence of well-formed calls *)
  Theorem run_faithful ks cs0 : Forall call_wf ks ->
    exists out, run (empty_chunk, cs0) ks = Done out /\ Forall chunk_rect out /\
                rows_of out = rows_spec fp ctx_ttl (flat_map call_entries ks).
  Proof.
    intros Hwf. destruct (run_rows ks empty_chunk cs0 Hwf) as [out [H1 [H2 H3]]].
    - unfold chunk_rect; cbn; tauto.
    - exists out. split; [assumption|]. split; [assumption|]. rewrite H3. cbn. apply flat_map_call_rows.
  Qed.
End RUN.

(* ---------------------------------------------------------------- the decoders produce well-formed calls whose
   entries are the submitted entries *)
Definition calls_ok (ks : list call) (es : list entry) : Prop := Forall call_wf ks /\ flat_map call_entries ks = es.

Lemma calls_ok_app a b ea eb : calls_ok a ea -> calls_ok b eb -> calls_ok (a ++ b) (ea ++ eb).
Proof. intros [A1 A2] [B1 B2]. split; [apply Forall_app; tauto|]. rewrite flat_map_app. congruence. Qed.

Lemma calls_ok_nil : calls_ok [] [].
Proof. split; [constructor|reflexivity]. Qed.

Lemma calls_ok_flat_map {A} (f : A -> list call) (g : A -> list entry) (l : list A) :
  (forall x, In x l -> calls_ok (f x) (g x)) -> calls_ok (flat_map f l) (flat_map g l).
Proof.
  induction l as [|x l IH]; intros H; cbn.
  - apply calls_ok_nil.
  - apply calls_ok_app; [apply H; now left|apply IH; intros y Hy; apply H; now right].
Qed.

Lemma calls_ok_map {A} (f : A -> call) (g : A -> list entry) (l : list A) :
  (forall x, In x l -> call_wf (f x) /\ call_entries (f x) = g x) -> calls_ok (map f l) (flat_map g l).
Proof.
  induction l as [|x l IH]; intros H; cbn.
  - apply calls_ok_nil.
  - destruct (H x (or_introl eq_refl)) as [Hw He].
    destruct IH as [I1 I2]; [intros y Hy; apply H; now right|].
    split; [constructor; assumption|]. cbn. now rewrite He, I2.
Qed.

Lemma call_wf_maps {A} lbls (f1 : A -> Z) (f2 : A -> string) (f3 f4 : A -> N) (l : list A) :
  (forall x, In x l -> (f4 x <= 2)%N) -> call_wf (K lbls (map f1 l) (map f2 l) (map f3 l) (map f4 l)).
Proof.
  intros H. unfold call_wf. cbn. rewrite !map_length. repeat split; try reflexivity.
  apply Forall_forall. intros t Ht. apply in_map_iff in Ht. destruct Ht as [x [<- Hx]]. now apply H.
Qed.

Lemma le_type_le2 e : (le_type e <= 2)%N.
Proof. unfold le_type, TYPE_LOG, TYPE_METRIC. destruct (le_line e), (le_val e); cbn; lia. Qed.

Lemma loki_json_ok body : calls_ok (calls_loki_json body) (entries_loki_json body).
Proof.
  unfold calls_loki_json, entries_loki_json. apply calls_ok_map. intros ms _. unfold loki_call, loki_entries. split.
  - apply call_wf_maps. intros e _. apply le_type_le2.
  - apply call_entries_maps.
Qed.

(* the members of a stream object may come in any order and be interleaved with unknown keys *)
Lemma decode_stream_general : forall ms la ea,
  fold_left member_step ms (la, ea) =
  (fold_left (fun a l => sanitize_labels (a ++ l)) (members_labels ms) la, (ea ++ List.concat (members_entries ms))%list).
Proof.
  induction ms as [|m ms IH]; intros la ea; cbn [fold_left members_labels members_entries flat_map].
  - cbn. now rewrite app_nil_r.
  - destruct m as [l|es|]; cbn [member_step fst snd app].
    + rewrite IH. reflexivity.
    + rewrite IH. cbn [List.concat]. now rewrite app_assoc.
    + apply IH.
Qed.

Lemma decode_stream_wf ms s : wf_members ms s -> decode_stream ms = (sanitize_labels (ls_labels s), ls_entries s).
Proof.
  intros [Hl He]. unfold decode_stream. rewrite decode_stream_general.
  unfold members_labels, members_entries in *. rewrite Hl, He. cbn. now rewrite app_nil_r.
Qed.

Lemma entries_loki_json_wf bm b : Forall2 wf_members bm b -> entries_loki_json bm = entries_loki_streams b.
Proof.
  unfold entries_loki_json, entries_loki_streams. induction 1 as [|ms s bm b Hw _ IH]; cbn [flat_map]; [reflexivity|].
  rewrite (decode_stream_wf ms s Hw), IH. reflexivity.
Qed.

Lemma members_of_wf s : wf_members (members_of s) s.
Proof. split; reflexivity. Qed.

Lemma loki_pb_ok body : calls_ok (calls_loki_pb body) (entries_loki_pb body).
Proof.
  unfold calls_loki_pb, entries_loki_pb. apply calls_ok_map. intros s _.
  rewrite fast_fill_spec, !repeat_map_const. split.
  - apply call_wf_maps. intros e _. unfold TYPE_LOG. lia.
  - apply call_entries_maps.
Qed.

(* remote write *)
Definition prw_entry (lbls : labels) (p : Z * N) : entry := E lbls (fst p) EmptyString (snd p) TYPE_METRIC.

Lemma prw_call_ok lbls tsns vals : List.length vals = List.length tsns ->
  call_wf (prw_call lbls tsns vals) /\ call_entries (prw_call lbls tsns vals) = map (prw_entry lbls) (combine tsns vals).
Proof.
  intros Hlen. unfold prw_call. rewrite fast_fill_spec. split.
  - unfold call_wf. cbn. rewrite !repeat_length. repeat split; try lia.
    apply Forall_forall. intros t Ht. apply repeat_spec in Ht. subst. unfold TYPE_METRIC. lia.
  - unfold call_entries. cbn. revert vals Hlen. induction tsns as [|t tsns IH]; intros [|v vals] Hlen; try discriminate; cbn.
    + reflexivity.
    + f_equal. apply IH. cbn in Hlen. lia.
Qed.

Lemma combine_snoc {A B} (a : list A) (b : list B) x y : List.length a = List.length b ->
  combine (a ++ [x]) (b ++ [y]) = (combine a b ++ [(x, y)])%list.
Proof.
  revert b. induction a as [|u a IH]; intros [|w b] H; try discriminate; cbn.
  - reflexivity.
  - f_equal. apply IH. cbn in H. lia.
Qed.

Lemma prw_series_ok flush_limit lbls : forall samples tsns vals points,
  List.length vals = List.length tsns ->
  calls_ok (fst (prw_series flush_limit lbls samples tsns vals points))
           (map (prw_entry lbls) (combine tsns vals) ++
            map (fun p => E lbls (wrap64 (fst p * 1000000)) EmptyString (snd p) TYPE_METRIC) samples).
Proof.
  induction samples as [|[t v] r IH]; intros tsns vals points Hlen; cbn [prw_series].
  - cbn [map]. rewrite app_nil_r. destruct tsns as [|t0 tsns'].
    + destruct vals; [|discriminate]. apply calls_ok_nil.
    + cbn [fst]. destruct (prw_call_ok lbls (t0 :: tsns') vals Hlen) as [Hw He].
      split; [constructor; [assumption|constructor]|]. cbn [flat_map]. now rewrite app_nil_r.
  - assert (Hlen' : List.length (vals ++ [v]) = List.length (tsns ++ [wrap64 (t * 1000000)])).
    { rewrite !app_length. cbn. lia. }
    destruct (N.leb flush_limit (points + 1)).
    + specialize (IH [] [] 0%N eq_refl).
      destruct (prw_series flush_limit lbls r [] [] 0%N) as [cs p] eqn:Hrec. cbn [fst] in *.
      destruct (prw_call_ok lbls _ _ Hlen') as [Hw He].
      destruct IH as [I1 I2]. split; [constructor; assumption|].
      cbn [flat_map]. rewrite He, I2, combine_snoc by lia. cbn [combine map app].
      rewrite map_app. cbn [map]. rewrite <- app_assoc. reflexivity.
    + specialize (IH _ _ (points + 1)%N Hlen').
      rewrite combine_snoc in IH by lia. rewrite map_app in IH. cbn [map] in IH.
      rewrite <- app_assoc in IH. exact IH.
Qed.

Lemma prw_body_ok flush_limit : forall body points,
  calls_ok (prw_body flush_limit body points) (entries_prw body).
Proof.
  induction body as [|s r IH]; intros points; cbn [prw_body].
  - apply calls_ok_nil.
  - pose proof (prw_series_ok flush_limit (sanitize_labels (ps_labels s)) (ps_samples s) [] [] points eq_refl) as H.
    destruct (prw_series flush_limit (sanitize_labels (ps_labels s)) (ps_samples s) [] [] points) as [cs p].
    cbn [fst combine map app] in H. unfold entries_prw. cbn [flat_map]. apply calls_ok_app; [exact H|apply IH].
Qed.

Lemma prw_ok flush_limit body : calls_ok (calls_prw flush_limit body) (entries_prw body).
Proof. apply prw_body_ok. Qed.

(* single-entry calls *)
Lemma single_call_ok lbls ts msg val ty : (ty <= 2)%N ->
  call_wf (K lbls [ts] [msg] [val] [ty]) /\ call_entries (K lbls [ts] [msg] [val] [ty]) = [E lbls ts msg val ty].
Proof. intros H. split; [|reflexivity]. unfold call_wf; cbn. repeat split; try reflexivity. repeat constructor. exact H. Qed.

Lemma one_call_ok lbls ts msg val ty : (ty <= 2)%N ->
  calls_ok [K lbls [ts] [msg] [val] [ty]] [E lbls ts msg val ty].
Proof.
  intros H. destruct (single_call_ok lbls ts msg val ty H) as [Hw He].
  split; [constructor; [exact Hw|constructor]|]. cbn [flat_map]. now rewrite He.
Qed.

Lemma influx_line_ok p now l : calls_ok (influx_line_calls p now l) (influx_line_entries p now l).
Proof.
  unfold influx_line_calls, influx_line_entries.
  destruct (find is_message (il_fields l)) as [[nm v]|].
  - apply one_call_ok. unfold TYPE_LOG. lia.
  - apply calls_ok_flat_map. intros f _. destruct (snd f) as [b|b|s| |z|n|b].
    + apply one_call_ok. unfold TYPE_METRIC. lia.
    + apply one_call_ok. unfold TYPE_METRIC. lia.
    + apply calls_ok_nil.
    + apply calls_ok_nil.
    + apply calls_ok_nil.
    + apply calls_ok_nil.
    + apply calls_ok_nil.
Qed.

Lemma influx_ok p ck body : calls_ok (calls_influx p ck body) (entries_influx p ck body).
Proof. unfold calls_influx, entries_influx. apply (calls_ok_flat_map (fun q => influx_line_calls p (fst q) (snd q)) (fun q => influx_line_entries p (fst q) (snd q))). intros l _. apply influx_line_ok. Qed.

Lemma calls_ok_map1 {A} (f : A -> call) (g : A -> entry) (l : list A) :
  (forall x, In x l -> call_wf (f x) /\ call_entries (f x) = [g x]) -> calls_ok (map f l) (map g l).
Proof.
  intros H.
  assert (Hfm : flat_map (fun x => [g x]) l = map g l).
  { clear H. induction l as [|a l IHl]; [reflexivity|]. cbn [flat_map map]. rewrite IHl. reflexivity. }
  rewrite <- Hfm. apply calls_ok_map. exact H.
Qed.

Lemma ddlog_ok ck body : calls_ok (calls_ddlog ck body) (entries_ddlog ck body).
Proof.
  unfold calls_ddlog, entries_ddlog. apply calls_ok_map1. intros e _. apply single_call_ok. unfold TYPE_LOG. lia.
Qed.

Lemma cf_ok src ck body : calls_ok (calls_cf src ck body) (entries_cf src ck body).
Proof.
  unfold calls_cf, entries_cf. apply calls_ok_map1. intros e _. apply single_call_ok. unfold TYPE_LOG. lia.
Qed.

(* Elasticsearch bulk: the label buffer the loop carries from line to line is the one of the last action line *)
Lemma last_action_snoc before l acc :
  last_action (before ++ [l]) acc = match el_kind l with EsClear => [] | EsSet l' => l' | _ => last_action before acc end.
Proof.
  revert acc. induction before as [|x before IH]; intros acc; cbn [app last_action].
  - destruct (el_kind l); reflexivity.
  - apply IH.
Qed.

Lemma es_lines_ok : forall body before nows,
  calls_ok (es_lines (last_action before []) nows body)
           (map (fun p => E (fst (snd p)) (fst p) (snd (snd p)) 0%N TYPE_LOG) (clocked nows (es_entry_lines before body))).
Proof.
  induction body as [|l r IH]; intros before nows; cbn [es_lines es_entry_lines].
  - apply calls_ok_nil.
  - pose proof (last_action_snoc before l []) as Hs. unfold es_is_entry.
    destruct (el_kind l) as [|l'| |] eqn:Hk; cbn [app].
    + rewrite <- Hs. apply IH.
    + rewrite <- Hs. apply IH.
    + destruct (last_action before []) as [|kv lb] eqn:Hl; cbn [negb app].
      * specialize (IH (before ++ [l]) nows). rewrite Hs in IH. exact IH.
      * cbn [clocked map fst snd]. specialize (IH (before ++ [l]) (tl nows)). rewrite Hs in IH.
        change (calls_ok ([K (kv :: lb) [hd 0 nows] [el_text l] [0%N] [TYPE_LOG]] ++ es_lines (kv :: lb) (tl nows) r)
                         ([E (kv :: lb) (hd 0 nows) (el_text l) 0%N TYPE_LOG] ++
                          map (fun p => E (fst (snd p)) (fst p) (snd (snd p)) 0%N TYPE_LOG) (clocked (tl nows) (es_entry_lines (before ++ [l]) r)))).
        apply calls_ok_app; [|exact IH]. apply one_call_ok. unfold TYPE_LOG. lia.
    + specialize (IH (before ++ [l]) nows). rewrite Hs in IH. exact IH.
Qed.

Lemma es_ok ck body : calls_ok (calls_es ck body) (entries_es ck body).
Proof. unfold calls_es, entries_es. exact (es_lines_ok body [] (ck_nows ck)). Qed.

Lemma ddmet_ok ck body : calls_ok (calls_ddmet ck body) (entries_ddmet ck body).
Proof.
  unfold calls_ddmet, entries_ddmet. apply calls_ok_map. intros s _.
  rewrite fast_fill_spec, !repeat_map_const. split.
  - apply call_wf_maps. intros e _. unfold TYPE_METRIC. lia.
  - apply call_entries_maps.
Qed.

Lemma otlp_ok body : calls_ok (calls_otlp body) (entries_otlp body).
Proof.
  unfold calls_otlp, entries_otlp. apply calls_ok_flat_map. intros rl _.
  apply calls_ok_flat_map. intros sl _. apply calls_ok_map1. intros r _. apply single_call_ok. unfold TYPE_LOG. lia.
Qed.

Lemma calls_of_ok flush_limit b : calls_ok (calls_of flush_limit b) (entries_of b).
Proof.
  destruct b; cbn [calls_of entries_of].
  - apply loki_json_ok.
  - apply loki_pb_ok.
  - apply prw_ok.
  - apply influx_ok.
  - apply ddlog_ok.
  - apply ddmet_ok.
  - apply otlp_ok.
  - apply cf_ok.
  - apply es_ok.
Qed.

(* ---------------------------------------------------------------- the clock: entries without a timestamp of their own *)
Lemma clocked_length {A} : forall (l : list A) nows, List.length (clocked nows l) = List.length l.
Proof. induction l as [|x r IH]; intros nows; cbn; [reflexivity|now rewrite IH]. Qed.

Lemma clocked_in {A} : forall (l : list A) nows t x, In (t, x) (clocked nows l) ->
  (List.length l <= List.length nows)%nat -> In t nows /\ In x l.
Proof.
  induction l as [|y r IH]; intros nows t x Hin Hlen; cbn in Hin; [contradiction|].
  destruct nows as [|n0 nows]; [cbn in Hlen; lia|]. cbn [hd tl] in Hin. destruct Hin as [Heq|Hin].
  - inversion Heq; subst. split; now left.
  - cbn in Hlen. destruct (IH nows t x Hin ltac:(lia)) as [A1 A2]. split; now right.
Qed.

Lemma clock_okb_spec ck : clock_okb ck = true -> forall t, In t (ck_nows ck) -> ck_lo ck <= t <= ck_hi ck.
Proof.
  unfold clock_okb. intros H t Ht. rewrite forallb_forall in H. specialize (H t Ht).
  apply andb_prop in H. destruct H as [H1 H2]. apply Z.leb_le in H1. apply Z.leb_le in H2. lia.
Qed.

(* every Datadog log entry carries its own timestamp when it has one, and a clock reading of the request otherwise *)
Lemma ddlog_entries_times ck body : clock_okb ck = true -> (List.length body <= List.length (ck_nows ck))%nat ->
  Forall2 (fun (l : ddlog) (e : entry) =>
             e_labels e = ddlog_labels l /\ e_msg e = dl_msg l /\
             (dl_ts l <> 0 -> e_ts e = wrap64 (dl_ts l * 1000000)) /\
             (dl_ts l = 0 -> ck_lo ck <= e_ts e <= ck_hi ck))
          body (entries_ddlog ck body).
Proof.
  intros Hck. pose proof (clock_okb_spec ck Hck) as Hin. unfold entries_ddlog. clear Hck.
  generalize dependent (ck_nows ck). intros nows Hin. revert nows Hin.
  induction body as [|l r IH]; intros nows Hin Hlen; cbn [clocked map]; constructor.
  - cbn [fst snd e_labels e_msg e_ts]. unfold ddlog_ts. split; [reflexivity|]. split; [reflexivity|]. split.
    + intros Hz. apply Z.eqb_neq in Hz. now rewrite Hz.
    + intros Hz. rewrite Hz. cbn. destruct nows as [|n0 nows]; [cbn in Hlen; lia|]. apply Hin. now left.
  - apply IH.
    + intros t Ht. apply Hin. destruct nows; [contradiction|now right].
    + destruct nows; cbn in *; lia.
Qed.

Lemma cf_entries_times src ck body : clock_okb ck = true -> (List.length body <= List.length (ck_nows ck))%nat ->
  Forall2 (fun (l : cfline) (e : entry) =>
             e_labels e = cf_labels src l /\ e_msg e = cf_text l /\
             (cf_ts l <> 0 -> e_ts e = cf_ts l) /\ (cf_ts l = 0 -> ck_lo ck <= e_ts e <= ck_hi ck))
          body (entries_cf src ck body).
Proof.
  intros Hck. pose proof (clock_okb_spec ck Hck) as Hin. unfold entries_cf. clear Hck.
  generalize dependent (ck_nows ck). intros nows Hin. revert nows Hin.
  induction body as [|l r IH]; intros nows Hin Hlen; cbn [clocked map]; constructor.
  - cbn [fst snd e_labels e_msg e_ts]. unfold cf_time. split; [reflexivity|]. split; [reflexivity|]. split.
    + intros Hz. apply Z.eqb_neq in Hz. now rewrite Hz.
    + intros Hz. rewrite Hz. cbn. destruct nows as [|n0 nows]; [cbn in Hlen; lia|]. apply Hin. now left.
  - apply IH.
    + intros t Ht. apply Hin. destruct nows; [contradiction|now right].
    + destruct nows; cbn in *; lia.
Qed.

(* the rows of a clocked body do not depend on the clock where the entries carry their own timestamps *)
Lemma ddlog_clock_irrelevant ck1 ck2 body : Forall (fun l => dl_ts l <> 0) body -> entries_ddlog ck1 body = entries_ddlog ck2 body.
Proof.
  unfold entries_ddlog. generalize (ck_nows ck1) (ck_nows ck2). induction body as [|l r IH]; intros n1 n2 H; cbn [clocked map]; [reflexivity|].
  inversion H as [|? ? Hl Hr]; subst. cbn [fst snd]. unfold ddlog_ts. apply Z.eqb_neq in Hl. rewrite Hl. f_equal. now apply IH.
Qed.

(* ---------------------------------------------------------------- the parsers, end to end *)
Section DECODE.
  Variable fp : labels -> N.
  Variable enc_len : labels -> Z.
  Variable CS : Type.
  Variable cache_add : CS -> Z -> N -> N -> CS * bool.
  Variable cache0 : CS.
  Variable threshold : Z.
  Variable flush_limit : N.
  Variable ctx_ttl : N.

  Theorem decode_faithful_all b :
    exists cs, decode fp enc_len CS cache_add cache0 threshold flush_limit ctx_ttl b = Done cs /\
               Forall chunk_rect cs /\ rows_of cs = rows_spec fp ctx_ttl (entries_of b).
  Proof.
    unfold decode. destruct (calls_of_ok flush_limit b) as [Hwf Hes].
    destruct (run_faithful fp enc_len CS cache_add threshold ctx_ttl _ cache0 Hwf) as [out [H1 [H2 H3]]].
    exists out. rewrite Hes in H3. tauto.
  Qed.
End DECODE.

(* ---------------------------------------------------------------- histories: one body after another in one process *)
Section HISTORY.
  Variable fp : labels -> N.
  Variable enc_len : labels -> Z.
  Variable CS : Type.
  Variable cache_add : CS -> Z -> N -> N -> CS * bool.
  Variable threshold : Z.
  Variable flush_limit : N.

  Lemma decode_st_decode cache0 ttl b :
    fst (decode_st fp enc_len CS cache_add threshold flush_limit cache0 ttl b) =
    decode fp enc_len CS cache_add cache0 threshold flush_limit ttl b.
  Proof.
    unfold decode_st, decode. rewrite run_steps.
    destruct (steps fp enc_len CS cache_add threshold ttl (empty_chunk, cache0) (calls_of flush_limit b)) as [o [st|]]; reflexivity.
  Qed.

  Definition step_faithful (req : N * body) (r : result) : Prop :=
    exists cs, r = Done cs /\ Forall chunk_rect cs /\ rows_of cs = rows_spec fp (fst req) (entries_of (snd req)).

  Lemma decode_history_faithful : forall reqs cache0,
    Forall2 step_faithful reqs (decode_history fp enc_len CS cache_add threshold flush_limit cache0 reqs).
  Proof.
    induction reqs as [|[ttl b] r IH]; intros cache0; cbn [decode_history].
    - constructor.
    - pose proof (decode_st_decode cache0 ttl b) as Hd.
      destruct (decode_st fp enc_len CS cache_add threshold flush_limit cache0 ttl b) as [res c1]. cbn [fst] in Hd.
      constructor; [|apply IH].
      destruct (decode_faithful_all fp enc_len CS cache_add cache0 threshold flush_limit ttl b) as [cs [H1 [H2 H3]]].
      exists cs. subst res. cbn [fst snd]. tauto.
  Qed.
End HISTORY.

Definition result_rows (r : result) : list row := match r with Done cs => rows_of cs | Panicked cs => rows_of cs end.

(* ---------------------------------------------------------------- timestamps: no wrap inside the int64 range *)
Lemma wrap64_id z : -9223372036854775808 <= z < 9223372036854775808 -> wrap64 z = z.
Proof. intros H. unfold wrap64. rewrite Z.mod_small by lia. lia. Qed.

(* the order in which Go visits the fields of an Influx line only permutes that line's rows *)
Lemma influx_fields_perm p now meas tags ts f1 f2 :
  Permutation.Permutation f1 f2 -> find is_message f1 = None -> find is_message f2 = None ->
  Permutation.Permutation (influx_line_entries p now (IL meas tags f1 ts)) (influx_line_entries p now (IL meas tags f2 ts)).
Proof.
  intros HP H1 H2. unfold influx_line_entries. cbn [il_fields il_meas il_tags il_ts]. rewrite H1, H2.
  induction HP; cbn [flat_map].
  - constructor.
  - apply Permutation.Permutation_app_head. apply IHHP.
    + cbn in H1. destruct (is_message x); [discriminate|assumption].
    + cbn in H2. destruct (is_message x); [discriminate|assumption].
  - rewrite !app_assoc. apply Permutation.Permutation_app_tail. apply Permutation.Permutation_app_comm.
  - assert (Hl' : find is_message l' = None).
    { clear - HP1 H1. destruct (find is_message l') as [m|] eqn:Hf; [|reflexivity].
      apply find_some in Hf. destruct Hf as [Hin Hm].
      apply (Permutation.Permutation_in _ (Permutation.Permutation_sym HP1)) in Hin.
      pose proof (find_none _ _ H1 _ Hin) as Hn. congruence. }
    eapply Permutation.perm_trans; [apply IHHP1|apply IHHP2]; assumption.
Qed.

Lemma chunking_irrelevant_all fp ctx_ttl b
  enc_len1 CS1 cache_add1 cache1 threshold1 flush_limit1 enc_len2 CS2 cache_add2 cache2 threshold2 flush_limit2 :
  result_rows (decode fp enc_len1 CS1 cache_add1 cache1 threshold1 flush_limit1 ctx_ttl b) =
  result_rows (decode fp enc_len2 CS2 cache_add2 cache2 threshold2 flush_limit2 ctx_ttl b).
Proof.
  destruct (decode_faithful_all fp enc_len1 CS1 cache_add1 cache1 threshold1 flush_limit1 ctx_ttl b) as [c1 [H1 [_ R1]]].
  destruct (decode_faithful_all fp enc_len2 CS2 cache_add2 cache2 threshold2 flush_limit2 ctx_ttl b) as [c2 [H2 [_ R2]]].
  rewrite H1, H2. cbn. congruence.
Qed.

(* ---------------------------------------------------------------- a body whose reader fails part-way *)
Lemma cut_fails_or_full fp enc_len CS cache_add cache0 threshold flush_limit ctx_ttl n noticed b :
  match decode_cut fp enc_len CS cache_add cache0 threshold flush_limit ctx_ttl n noticed b with
  | ReadFailed sent => exists rest, result_chunks (decode fp enc_len CS cache_add cache0 threshold flush_limit ctx_ttl b) = (sent ++ rest)%list
  | Answered r => exists cs, r = Done cs /\ Forall chunk_rect cs /\ rows_of cs = rows_spec fp ctx_ttl (entries_of b)
  end.
Proof.
  unfold decode_cut. destruct (Nat.ltb n (List.length (calls_of flush_limit b)) || noticed).
  - unfold decode. set (ks := calls_of flush_limit b).
    pose proof (sent_prefix_stable fp enc_len CS cache_add threshold ctx_ttl (firstn n ks) (skipn n ks) (empty_chunk, cache0)) as H.
    rewrite firstn_skipn in H. exact H.
  - apply decode_faithful_all.
Qed.

(* an Influx line without a timestamp is stamped with the clock reading truncated to the precision: at most one unit of the
   precision before the reading, never after it *)
Lemma influx_ts_bounds precision now l : 0 < precision ->
  match il_ts l with
  | Some t => influx_ts precision now l = wrap64 (t * precision)
  | None => now - precision < influx_ts precision now l <= now /\ (influx_ts precision now l) mod precision = 0
  end.
Proof.
  intro Hp. unfold influx_ts. destruct (il_ts l) as [t|]; [reflexivity|].
  pose proof (Z.div_mod now precision ltac:(lia)) as D. pose proof (Z.mod_pos_bound now precision Hp) as B.
  split; [nia|]. apply Z.mod_mul. lia.
Qed.

