(* C15 - the rounding used for float64(int64) and the two timestamp quotients is correct rounding: within half a unit of the last place *)
From Coq Require Import List NArith ZArith Bool Lia.
From Qryn Require Import model.GoFloat.
Open Scope Z_scope.

Lemma round_step : forall num den, 0 <= num -> 0 < den ->
  let q := num / den in let r := num mod den in
  let q' := if 2 * r <? den then q else if 2 * r =? den then (if Z.even q then q else q + 1) else q + 1 in
  2 * Z.abs (q' * den - num) <= den.
Proof.
  intros num den Hn Hd q r q'. pose proof (Z.div_mod num den ltac:(lia)) as E. pose proof (Z.mod_pos_bound num den Hd) as Hr.
  fold q in E. fold r in E, Hr. subst q'.
  destruct (2 * r <? den) eqn:E1; [apply Z.ltb_lt in E1; nia|]. apply Z.ltb_ge in E1.
  destruct (2 * r =? den) eqn:E2; [apply Z.eqb_eq in E2; destruct (Z.even q); nia|]. apply Z.eqb_neq in E2. nia.
Qed.

(* rne is correctly rounded: the result m * 2^e is within half a unit of the last place (2^e / 2) of a / b *)
Theorem rne_half_ulp : forall a b, 0 < a -> 0 < b ->
  2 * Z.abs (fst (rne a b) * 2 ^ Z.max (snd (rne a b)) 0 * b - a * 2 ^ Z.max (- snd (rne a b)) 0)
  <= b * 2 ^ Z.max (snd (rne a b)) 0.
Proof.
  intros a b Ha Hb. unfold rne.
  set (e := if _ <? 2 ^ 53 then _ else _).
  set (S := 2 ^ Z.max (- e) 0). set (T := 2 ^ Z.max e 0).
  assert (HS : 0 < S) by (apply Z.pow_pos_nonneg; lia). assert (HT : 0 < T) by (apply Z.pow_pos_nonneg; lia).
  pose proof (round_step (a * S) (b * T) ltac:(nia) ltac:(nia)) as H. cbv zeta in H.
  set (q' := if 2 * ((a * S) mod (b * T)) <? b * T then _ else _) in *.
  destruct (q' =? 2 ^ 53) eqn:Ec; cbn [fst snd].
  - apply Z.eqb_eq in Ec. rewrite Ec in H.
    destruct (Z_le_gt_dec 0 e) as [He|He].
    + replace (Z.max (e + 1) 0) with (Z.succ (Z.max e 0)) by lia. replace (Z.max (- (e + 1)) 0) with (Z.max (- e) 0) by lia.
      rewrite Z.pow_succ_r by lia. fold T S.
      replace (2 ^ 52 * (2 * T) * b - a * S) with (2 ^ 53 * (b * T) - a * S) by (change (2 ^ 53) with (2 * 2 ^ 52); ring). nia.
    + replace (Z.max (e + 1) 0) with 0 by lia. replace (Z.max e 0) with 0 in * by lia.
      assert (ES : S = 2 * 2 ^ Z.max (- (e + 1)) 0).
      { unfold S. replace (Z.max (- e) 0) with (Z.succ (Z.max (- (e + 1)) 0)) by lia. rewrite Z.pow_succ_r by lia. reflexivity. }
      unfold T in *. rewrite Z.pow_0_r in *. set (S' := 2 ^ Z.max (- (e + 1)) 0) in *.
      replace (a * S) with (2 * (a * S')) in H by (rewrite ES; ring).
      set (P := a * S') in *. change (2 ^ 53) with 9007199254740992 in H. change (2 ^ 52) with 4503599627370496.
      assert (HT1 : 2 ^ Z.max e 0 = 1) by (replace (Z.max e 0) with 0 by lia; reflexivity).
      rewrite HT1 in H. lia.
  - fold T S. replace (q' * T * b - a * S) with (q' * (b * T) - a * S) by ring. exact H.
Qed.
