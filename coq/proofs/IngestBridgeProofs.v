(* C02: proofs for model/IngestBridge.v -- the cell-level runs of the regenerated append programs refine C05's count-level
   runs, every request they send is the table of its rows, and so the block theorems of C02 hold for pushes made by the
   parsers, with no hypothesis on the requests. *)
From Coq Require Import List String Ascii ZArith NArith Bool Lia.
From Qryn Require Import model.IngestRobust model.IngestPipe proofs.IngestPipeProofs.
From Qryn Require Import model.Ingest model.PushHandler model.IngestSpec model.IngestBridge.
From Qryn Require Import proofs.IngestBase proofs.IngestSpecProofs proofs.IngestAck.
Import ListNotations.
Open Scope string_scope.

(* ------------------------------------------------------------------------------------------ *)
(** * 1. Erasing the row identities gives the count level of IngestPipe.v *)

Lemma counts_push_many f l m : counts (push_many f l m) = bump_by f (List.length l) (counts m).
Proof.
  unfold counts, push_many, bump_by. rewrite !map_map. apply map_ext. intros [k v]. cbn [fst snd].
  destruct (String.eqb k f); cbn [fst snd]; [|reflexivity]. rewrite app_length, Nat2N.inj_add. reflexivity.
Qed.
Lemma counts_push f rid m : counts (push f rid m) = bump f (counts m).
Proof.
  unfold push. rewrite counts_push_many. unfold bump_by, bump. apply map_ext. intros [k v]. cbn [fst snd List.length].
  destruct (String.eqb k f); reflexivity.
Qed.
Lemma counts_zero fields : counts (zero_fcols fields) = zero_cols fields.
Proof. unfold counts, zero_fcols, zero_cols. rewrite map_map. reflexivity. Qed.
Lemma counts_const fields ids : counts (const_fcols fields ids) = const_cols fields (N.of_nat (List.length ids)).
Proof. unfold counts, const_fcols, const_cols. rewrite map_map. reflexivity. Qed.

Lemma abs_cb0 sf af n : abs_cb (cbatch0 sf af n) = batch0 sf af.
Proof. unfold abs_cb, cbatch0, batch0. cbn. now rewrite !counts_zero. Qed.
Lemma abs_bump_next b : abs_cb (bump_next b) = abs_cb b.
Proof. reflexivity. Qed.

Lemma exec_cop_abs b o rid i nv : exec_cop (abs_cb b) o i nv = option_map abs_cb (exec_cop_c b o rid i nv).
Proof.
  unfold exec_cop, exec_cop_c. destruct (cop_panics o i nv); [reflexivity|].
  destruct o as [[|] f idx|t idx]; cbn [option_map]; unfold abs_cb; cbn [cb_spans cb_attrs cb_size b_spans b_attrs b_size];
    rewrite ?counts_push; reflexivity.
Qed.
Lemma exec_cops_abs os : forall b rid i nv, exec_cops (abs_cb b) os i nv = option_map abs_cb (exec_cops_c b os rid i nv).
Proof.
  induction os as [|o os IH]; intros b rid i nv; cbn [exec_cops exec_cops_c]; [reflexivity|].
  rewrite (exec_cop_abs b o rid). destruct (exec_cop_c b o rid i nv) as [b'|]; cbn [option_map]; [apply IH|reflexivity].
Qed.
Lemma exec_loop_abs os todo : forall b i nv, exec_loop (abs_cb b) os i todo nv = option_map abs_cb (exec_loop_c b os i todo nv).
Proof.
  induction todo as [|t IH]; intros b i nv; cbn [exec_loop exec_loop_c]; [reflexivity|].
  rewrite (exec_cops_abs os b (cb_next b)). destruct (exec_cops_c b os (cb_next b) i nv) as [b'|]; cbn [option_map]; [|reflexivity].
  rewrite <- IH. reflexivity.
Qed.

Definition abs_step (x : ccol_step) : col_step :=
  match x with CStOk b sent => StOk (abs_cb b) (map abs_cb sent) | CStErr => StErr | CStPanic => StPanic end.
Lemma on_span_abs h sf af b s : on_span_cols h sf af (abs_cb b) s = abs_step (on_span_cells h sf af b s).
Proof.
  unfold on_span_cols, on_span_cells.
  destruct (hp_width_check h && negb ((se_tid s =? 16)%N && (se_sid s =? 8)%N)); [reflexivity|].
  rewrite (exec_cops_abs (hp_once h) b (cb_next b)).
  destruct (exec_cops_c b (hp_once h) (cb_next b) 0 (se_vals s)) as [b1|]; cbn [option_map]; [|reflexivity].
  rewrite <- (abs_bump_next b1), exec_loop_abs.
  destruct (exec_loop_c (bump_next b1) (hp_loop h) 0 (se_keys s) (se_vals s)) as [b2|]; cbn [option_map]; [|reflexivity].
  cbn [abs_cb cb_size b_size b_spans b_attrs cb_spans cb_attrs].
  destruct (MiB <? cb_size b2 + se_bytes s)%N; cbn [abs_step map]; [|reflexivity].
  destruct (hp_flush_resets h); [rewrite abs_cb0|]; reflexivity.
Qed.
(* the responses of a span push, with identities erased, are the ones C05's interpreter computes *)
Lemma sent_batches_abs h sf af evs : forall b,
  sent_batches h sf af (abs_cb b) evs = map abs_cb (sent_cbatches h sf af b evs).
Proof.
  induction evs as [|ev evs IH]; intros b; cbn [sent_batches sent_cbatches]; [reflexivity|].
  destruct ev as [s| |t]; [|reflexivity|reflexivity].
  rewrite on_span_abs. destruct (on_span_cells h sf af b s) as [b' sent| |]; cbn [abs_step]; [|reflexivity|reflexivity].
  now rewrite IH, map_app.
Qed.

Lemma length_ids_from base n : List.length (ids_from base n) = n.
Proof. unfold ids_from. now rewrite map_length, seq_length. Qed.

Lemma fold_spl_abs e base ops : forall m,
  counts (fold_left (fun m o => push_many (lop_field o) (ids_from base (src_len e (lop_src o))) m) ops m)
  = fold_left (fun m o => bump_by (lop_field o) (src_len e (lop_src o)) m) ops (counts m).
Proof.
  induction ops as [|o ops IH]; intros m; cbn [fold_left]; [reflexivity|].
  now rewrite IH, counts_push_many, length_ids_from.
Qed.
Lemma fold_ts_abs base k fs : forall m,
  counts (fold_left (fun m f => push_many f (ids_from base k) m) fs m) = fold_left (fun m f => bump_by f k m) fs (counts m).
Proof.
  induction fs as [|f fs IH]; intros m; cbn [fold_left]; [reflexivity|].
  now rewrite IH, counts_push_many, length_ids_from.
Qed.

Lemma abs_cl0 sf tf n : abs_cl (clbatch0 sf tf n) = lbatch0 sf tf.
Proof. unfold abs_cl, clbatch0, lbatch0. cbn. now rewrite !counts_zero. Qed.
Definition abs_lstep (x : clstep) : lstep :=
  match x with CLOk b sent => LOk (abs_cl b) (map abs_cl sent) | CLPanic => LPanic end.
Lemma on_entries_abs p sf tf b e : on_entries_cols p sf tf (abs_cl b) e = abs_lstep (on_entries_cells p sf tf b e).
Proof.
  unfold on_entries_cols, on_entries_cells. cbv zeta.
  destruct (en_lbl_short e); [reflexivity|].
  destruct (en_bad_type e || Nat.ltb (en_msg e) (en_ts e)); [reflexivity|].
  cbn [abs_cl cl_spl cl_ts cl_size lb_spl lb_ts lb_size].
  destruct (MiB <? cl_size b + en_bytes e)%N; cbn [abs_lstep map].
  - destruct (ep_flush_resets p); [rewrite abs_cl0|]; unfold abs_cl; cbn [cl_spl cl_ts cl_size];
      now rewrite fold_spl_abs, fold_ts_abs.
  - unfold abs_cl; cbn [cl_spl cl_ts cl_size]. now rewrite fold_spl_abs, fold_ts_abs.
Qed.
Lemma sent_lbatches_abs p sf tf evs : forall b,
  sent_lbatches p sf tf (abs_cl b) evs = map abs_cl (sent_clbatches p sf tf b evs).
Proof.
  induction evs as [|ev evs IH]; intros b; cbn [sent_lbatches sent_clbatches]; [reflexivity|].
  destruct ev as [e| |t]; [|reflexivity|reflexivity].
  rewrite on_entries_abs. destruct (on_entries_cells p sf tf b e) as [b' sent|]; cbn [abs_lstep]; [|reflexivity].
  now rewrite IH, map_app.
Qed.

(* the chunks of a push are its sent batches; an error response ends it *)
Definition is_chunk (it : item) : bool := match it with IChunk _ => true | IError => false end.
Lemma span_items_chunks h sf af w evs : forall b,
  filter is_chunk (span_items h sf af w b evs) = map (span_chunk w) (sent_cbatches h sf af b evs).
Proof.
  induction evs as [|ev evs IH]; intros b; cbn [span_items sent_cbatches]; [reflexivity|].
  destruct ev as [s| |t]; [|reflexivity|reflexivity].
  destruct (on_span_cells h sf af b s) as [b' sent| |]; [|reflexivity|reflexivity].
  rewrite filter_app, IH, map_app. f_equal. induction sent as [|x l IHl]; [reflexivity|]. cbn. now rewrite IHl.
Qed.
Lemma logs_items_chunks p sf tf w evs : forall b,
  filter is_chunk (logs_items p sf tf w b evs) = map (logs_chunk w) (sent_clbatches p sf tf b evs).
Proof.
  induction evs as [|ev evs IH]; intros b; cbn [logs_items sent_clbatches]; [reflexivity|].
  destruct ev as [e| |t]; [|reflexivity|reflexivity].
  destruct (on_entries_cells p sf tf b e) as [b' sent|]; [|reflexivity].
  rewrite filter_app, IH, map_app. f_equal. induction sent as [|x l IHl]; [reflexivity|]. cbn. now rewrite IHl.
Qed.

(* ------------------------------------------------------------------------------------------ *)
(** * 2. From "every field holds the same rows" to "the request is the table of its rows" *)

Lemma field_ids_const f fields ids : existsb (String.eqb f) fields = true -> field_ids f (const_fcols fields ids) = ids.
Proof.
  unfold field_ids, const_fcols. induction fields as [|g fs IH]; intros H; [discriminate|]. cbn [map find fst].
  cbn [existsb] in H. rewrite (String.eqb_sym g f). destruct (String.eqb f g); [reflexivity|]. apply IH. exact H.
Qed.
Lemma req_from_const fields ids order : forall j,
  forallb (fun f => existsb (String.eqb f) fields) order = true ->
  req_from j order (const_fcols fields ids) = map (fun k => map (fun rid => (rid, k)) ids) (seq j (List.length order)).
Proof.
  induction order as [|f r IH]; intros j H; cbn [req_from List.length seq map]; [reflexivity|].
  cbn [forallb] in H. apply andb_true_iff in H as [H1 H2]. now rewrite (field_ids_const _ _ _ H1), (IH (S j) H2).
Qed.
Lemma length_kind_fields k : List.length (kind_fields k) = ncols k.
Proof. destruct k; reflexivity. Qed.
Lemma req_of_const k fields ids : fields_cover fields k = true -> req_of k (const_fcols fields ids) = table_of (ncols k) ids.
Proof. intros H. unfold req_of, table_of. rewrite (req_from_const _ _ _ 0 H), length_kind_fields. reflexivity. Qed.

Lemma rids_of_table k ids : rids_of (table_of (ncols k) ids) = ids.
Proof.
  unfold rids_of, table_of. assert (E : exists n, ncols k = S n) by (destruct k; eexists; reflexivity).
  destruct E as [n E]. rewrite E. cbn [seq map hd]. rewrite map_map. cbn [fst]. apply map_id.
Qed.
Lemma wf_table k ids : wf_reqb k (table_of (ncols k) ids) = true.
Proof. unfold wf_reqb. rewrite rids_of_table. apply block_eqb_refl. Qed.
Lemma wf_req_of_const k fields ids : fields_cover fields k = true -> wf_reqb k (req_of k (const_fcols fields ids)) = true.
Proof. intros H. rewrite (req_of_const _ _ _ H). apply wf_table. Qed.
Lemma rids_req_of_const k fields ids : fields_cover fields k = true -> rids_of (req_of k (const_fcols fields ids)) = ids.
Proof. intros H. rewrite (req_of_const _ _ _ H). apply rids_of_table. Qed.

(* ------------------------------------------------------------------------------------------ *)
(** * 3. onSpan: every batch keeps the same rows in all fields of a table *)

Definition add_ids (t : tbl) (os : list cop) (rid : N) (m : fcols) : fcols :=
  map (fun kv => (fst kv, (snd kv ++ repeat rid (count_app t (fst kv) os))%list)) m.

Lemma add_ids_nil t rid m : add_ids t [] rid m = m.
Proof.
  unfold add_ids. cbn. rewrite <- (map_id m) at 2. apply map_ext. intros [k v]. cbn. now rewrite app_nil_r.
Qed.
Lemma push_add t f idx os rid m : add_ids t os rid (push f rid m) = add_ids t (CApp t f idx :: os) rid m.
Proof.
  unfold add_ids, push, push_many. rewrite map_map. apply map_ext. intros [k v]. cbn [fst snd].
  rewrite count_app_cons. assert (Ht : tbl_eqb t t = true) by (destruct t; reflexivity). rewrite Ht. cbn [andb].
  destruct (String.eqb k f); cbn [fst snd Nat.add repeat]; [now rewrite <- app_assoc|reflexivity].
Qed.
Lemma other_add_ids t t' f idx os rid m : tbl_eqb t t' = false -> add_ids t os rid m = add_ids t (CApp t' f idx :: os) rid m.
Proof. intros H. unfold add_ids. apply map_ext. intros [k v]. cbn [fst snd]. now rewrite count_app_cons, H. Qed.
Lemma size_add_ids t t' idx os rid m : add_ids t os rid m = add_ids t (CSize t' idx :: os) rid m.
Proof. unfold add_ids. apply map_ext. intros [k v]. cbn [fst snd]. now rewrite count_app_cons. Qed.

Lemma exec_cops_c_ids os : forall b rid i nv b', exec_cops_c b os rid i nv = Some b' ->
  cb_spans b' = add_ids TSpans os rid (cb_spans b) /\ cb_attrs b' = add_ids TAttrs os rid (cb_attrs b)
  /\ cb_size b' = cb_size b /\ cb_next b' = cb_next b.
Proof.
  induction os as [|o os IH]; intros b rid i nv b' H; cbn [exec_cops_c] in H.
  - inversion H; subst. now rewrite !add_ids_nil.
  - destruct (exec_cop_c b o rid i nv) as [b1|] eqn:E; [|discriminate].
    destruct (IH _ _ _ _ _ H) as [Hs [Ha [Hz Hn]]]. rewrite Hs, Ha, Hz, Hn. clear IH H Hs Ha Hz Hn.
    unfold exec_cop_c in E. destruct (cop_panics o i nv); [discriminate|].
    destruct o as [t f idx|t idx].
    + destruct t; inversion E; subst; cbn [cb_spans cb_attrs cb_size cb_next].
      * split; [apply push_add|split; [apply other_add_ids; reflexivity|split; reflexivity]].
      * split; [apply other_add_ids; reflexivity|split; [apply push_add|split; reflexivity]].
    + inversion E; subst. split; [apply size_add_ids|split; [apply size_add_ids|split; reflexivity]].
Qed.

Lemma add_ids_const_1 t os rid fields ids :
  forallb (fun f => Nat.eqb (count_app t f os) 1) fields = true ->
  add_ids t os rid (const_fcols fields ids) = const_fcols fields (ids ++ [rid]).
Proof.
  intros H. unfold add_ids, const_fcols. rewrite map_map. apply map_ext_in. intros f Hin. cbn [fst snd].
  rewrite forallb_forall in H. specialize (H f Hin). apply Nat.eqb_eq in H. now rewrite H.
Qed.
Lemma add_ids_const_0 t os rid fields ids : no_app t os = true ->
  add_ids t os rid (const_fcols fields ids) = const_fcols fields ids.
Proof.
  intros H. unfold add_ids, const_fcols. rewrite map_map. apply map_ext. intros f. cbn [fst snd].
  rewrite (no_app_count t os f H). cbn [repeat]. now rewrite app_nil_r.
Qed.

(* all rows of a batch were drawn from the counter: they are below it and pairwise different *)
Definition ids_below (n : N) (l : list N) : Prop := forall x, In x l -> (x < n)%N.
Lemma nodup_snoc (l : list N) x : NoDup l -> ~ In x l -> NoDup (l ++ [x]).
Proof.
  intros H Hx. induction H as [|y l Hy H IH]; cbn; [constructor; [intros []|constructor]|].
  constructor.
  - rewrite in_app_iff. intros [A|[A|[]]]; [contradiction|]. subst. apply Hx. now left.
  - apply IH. intros A. apply Hx. now right.
Qed.
Lemma below_fresh n l : ids_below n l -> ~ In n l.
Proof. intros H A. specialize (H n A). lia. Qed.
Lemma below_snoc n l : ids_below n l -> ids_below (n + 1) (l ++ [n]).
Proof. intros H x Hx. apply in_app_iff in Hx as [A|[A|[]]]; [specialize (H x A); lia|subst; lia]. Qed.
Lemma below_mono n m l : (n <= m)%N -> ids_below n l -> ids_below m l.
Proof. intros L H x Hx. specialize (H x Hx). lia. Qed.

Section SPANS.
  Variables (h : handler_prog) (sf af cs ca : list string).
  Hypothesis Hok : handler_ok h sf af cs ca = true.

  Let ok_parts : hp_flush_resets h = true
    /\ forallb (fun f => Nat.eqb (count_app TSpans f (hp_once h)) 1) sf = true
    /\ forallb (fun f => Nat.eqb (count_app TAttrs f (hp_loop h)) 1) af = true
    /\ no_app TAttrs (hp_once h) = true /\ no_app TSpans (hp_loop h) = true
    /\ forallb (fun f => existsb (String.eqb f) sf) cs = true /\ forallb (fun f => existsb (String.eqb f) af) ca = true.
  Proof. unfold handler_ok in Hok. repeat (apply andb_true_iff in Hok as [Hok ?]). tauto. Qed.

  (* every slice field of TempoSamples holds the rows ids_s, every one of TempoTag the rows ids_a, in that order *)
  Definition cb_inv (b : cbatch) : Prop :=
    exists ids_s ids_a, cb_spans b = const_fcols sf ids_s /\ cb_attrs b = const_fcols af ids_a
      /\ NoDup (ids_s ++ ids_a) /\ ids_below (cb_next b) (ids_s ++ ids_a).

  Lemma cbatch0_inv n : cb_inv (cbatch0 sf af n).
  Proof. exists [], []. split; [reflexivity|split; [reflexivity|split; [constructor|intros x []]]]. Qed.

  Lemma nodup_mid (a b : list N) x : NoDup (a ++ b) -> ~ In x (a ++ b) -> NoDup ((a ++ [x]) ++ b).
  Proof.
    intros H Hx. rewrite <- app_assoc. cbn. apply NoDup_Add with (a := x) (l := (a ++ b)%list); [|split; assumption].
    apply Add_app.
  Qed.

  Lemma loop_inv_c todo : forall b i nv b', cb_inv b -> exec_loop_c b (hp_loop h) i todo nv = Some b' -> cb_inv b'.
  Proof.
    destruct ok_parts as [_ [_ [Hl [_ [Hn _]]]]].
    induction todo as [|t IH]; intros b i nv b' Hb H; cbn [exec_loop_c] in H.
    - inversion H; subst. exact Hb.
    - destruct (exec_cops_c b (hp_loop h) (cb_next b) i nv) as [b1|] eqn:E; [|discriminate].
      apply (IH (bump_next b1) (S i) nv b'); [|exact H].
      destruct Hb as [s [a [Hs [Ha [Hd Hb]]]]]. destruct (exec_cops_c_ids _ _ _ _ _ _ E) as [Hs1 [Ha1 [_ Hn1]]].
      exists s, (a ++ [cb_next b])%list. cbn [bump_next cb_spans cb_attrs cb_next]. rewrite Hs1, Ha1, Hs, Ha, Hn1.
      split; [apply add_ids_const_0; exact Hn|]. split; [apply add_ids_const_1; exact Hl|].
      rewrite app_assoc. split; [apply nodup_snoc; [exact Hd|apply below_fresh; exact Hb]|apply below_snoc; exact Hb].
  Qed.

  Lemma on_span_cells_inv b s b' sent : cb_inv b -> on_span_cells h sf af b s = CStOk b' sent ->
    cb_inv b' /\ Forall cb_inv sent.
  Proof.
    destruct ok_parts as [Hf [Ho [_ [Hn _]]]].
    intros Hb H. unfold on_span_cells in H.
    destruct (hp_width_check h && negb ((se_tid s =? 16)%N && (se_sid s =? 8)%N)); [discriminate|].
    destruct (exec_cops_c b (hp_once h) (cb_next b) 0 (se_vals s)) as [b1|] eqn:E1; [|discriminate].
    destruct (exec_loop_c (bump_next b1) (hp_loop h) 0 (se_keys s) (se_vals s)) as [b2|] eqn:E2; [|discriminate].
    assert (Hb1 : cb_inv (bump_next b1)).
    { destruct Hb as [s0 [a [Hs [Ha [Hd Hb]]]]]. destruct (exec_cops_c_ids _ _ _ _ _ _ E1) as [Hs1 [Ha1 [_ Hn1]]].
      exists (s0 ++ [cb_next b])%list, a. cbn [bump_next cb_spans cb_attrs cb_next]. rewrite Hs1, Ha1, Hs, Ha, Hn1.
      split; [apply add_ids_const_1; exact Ho|]. split; [apply add_ids_const_0; exact Hn|].
      split; [apply nodup_mid; [exact Hd|apply below_fresh; exact Hb]|].
      intros x Hx. rewrite <- app_assoc in Hx. cbn in Hx. apply in_app_iff in Hx as [A|[A|A]].
      - assert (B : (x < cb_next b)%N) by (apply Hb, in_app_iff; now left). lia.
      - subst. lia.
      - assert (B : (x < cb_next b)%N) by (apply Hb, in_app_iff; now right). lia. }
    pose proof (loop_inv_c _ _ _ _ _ Hb1 E2) as Hb2.
    set (b3 := {| cb_spans := cb_spans b2; cb_attrs := cb_attrs b2; cb_size := (cb_size b2 + se_bytes s)%N; cb_next := cb_next b2 |}) in H.
    assert (Hb3 : cb_inv b3) by (destruct Hb2 as [n [k [Hs [Ha Hr]]]]; exists n, k; split; [|split]; assumption).
    destruct (MiB <? cb_size b3)%N; inversion H; subst; clear H.
    - rewrite Hf. split; [apply cbatch0_inv|]. constructor; [exact Hb3|constructor].
    - split; [exact Hb3|constructor].
  Qed.

  Lemma sent_cbatches_inv evs : forall b, cb_inv b -> Forall cb_inv (sent_cbatches h sf af b evs).
  Proof.
    induction evs as [|ev evs IH]; intros b Hb; cbn [sent_cbatches].
    - constructor; [exact Hb|constructor].
    - destruct ev as [s| |t]; [|constructor|constructor].
      destruct (on_span_cells h sf af b s) as [b' sent| |] eqn:E; [|constructor|constructor].
      destruct (on_span_cells_inv _ _ _ _ Hb E) as [Hb' Hsent].
      apply Forall_app. split; [exact Hsent|apply IH; exact Hb'].
  Qed.

  (* the requests of a batch are the tables of its span rows and of its attribute rows *)
  Hypothesis Hcs : cs = kind_fields KSpans.
  Hypothesis Hca : ca = kind_fields KTags.

  Lemma cover_spans : fields_cover sf KSpans = true /\ fields_cover af KTags = true.
  Proof. destruct ok_parts as [_ [_ [_ [_ [_ [A B]]]]]]. unfold fields_cover. now rewrite <- Hcs, <- Hca. Qed.

  Lemma span_chunk_wf w b : cb_inv b -> item_wf (span_chunk w b) = true.
  Proof.
    destruct cover_spans as [Cs Ca].
    intros [s [a [Hs [Ha _]]]]. cbn [item_wf span_chunk forallb fst snd]. rewrite Hs, Ha.
    now rewrite (wf_req_of_const _ _ _ Cs), (wf_req_of_const _ _ _ Ca).
  Qed.

  Lemma span_items_wf w evs : forall b, cb_inv b -> forallb item_wf (span_items h sf af w b evs) = true.
  Proof.
    induction evs as [|ev evs IH]; intros b Hb; cbn [span_items].
    - cbn [forallb]. now rewrite (span_chunk_wf w b Hb).
    - destruct ev as [s| |t]; [|reflexivity|reflexivity].
      destruct (on_span_cells h sf af b s) as [b' sent| |] eqn:E; [|reflexivity|reflexivity].
      destruct (on_span_cells_inv _ _ _ _ Hb E) as [Hb' Hsent].
      rewrite forallb_app, (IH b' Hb'), andb_true_r. apply forallb_forall. intros x Hx.
      apply in_map_iff in Hx as [c [<- Hc]]. rewrite Forall_forall in Hsent. apply span_chunk_wf, Hsent, Hc.
  Qed.
End SPANS.

(* ------------------------------------------------------------------------------------------ *)
(** * 4. onEntries *)

Lemma fold_push_many_fields l fs : forall m,
  fold_left (fun m f => push_many f l m) fs m
  = map (fun kv => (fst kv, (snd kv ++ List.concat (repeat l (count_str (fst kv) fs)))%list)) m.
Proof.
  induction fs as [|f fs IH]; intros m; cbn [fold_left].
  - rewrite <- (map_id m) at 1. apply map_ext. intros [x v]. cbn. now rewrite app_nil_r.
  - rewrite IH. unfold push_many. rewrite map_map. apply map_ext. intros [x v]. cbn [fst snd].
    rewrite count_str_cons. destruct (String.eqb x f); cbn [fst snd Nat.add repeat List.concat]; [now rewrite <- app_assoc|reflexivity].
Qed.
Lemma push_fields_const l fs fields ids :
  forallb (fun f => Nat.eqb (count_str f fs) 1) fields = true ->
  fold_left (fun m f => push_many f l m) fs (const_fcols fields ids) = const_fcols fields (ids ++ l).
Proof.
  intros H. rewrite fold_push_many_fields. unfold const_fcols. rewrite map_map. apply map_ext_in.
  intros f Hin. cbn [fst snd]. rewrite forallb_forall in H. specialize (H f Hin). apply Nat.eqb_eq in H.
  rewrite H. cbn [repeat List.concat]. now rewrite app_nil_r.
Qed.
Lemma fold_spl_cells_consistent e base ops : forall m, ent_consistent e = true ->
  fold_left (fun m o => push_many (lop_field o) (ids_from base (src_len e (lop_src o))) m) ops m
  = fold_left (fun m f => push_many f (ids_from base (en_ts e)) m) (map lop_field ops) m.
Proof.
  induction ops as [|o ops IH]; intros m H; cbn [fold_left map]; [reflexivity|].
  rewrite (src_len_consistent e _ H). apply IH. exact H.
Qed.

Lemma ids_from_below base n x : In x (ids_from base n) -> (base <= x < base + N.of_nat n)%N.
Proof. unfold ids_from. intros H. apply in_map_iff in H as [i [<- Hi]]. apply in_seq in Hi. lia. Qed.
Lemma ids_from_nodup base n : NoDup (ids_from base n).
Proof.
  unfold ids_from. apply FinFun.Injective_map_NoDup; [|apply seq_NoDup]. intros a b H. lia.
Qed.
Lemma nodup_app_disj (a b : list N) : NoDup a -> NoDup b -> (forall x, In x a -> ~ In x b) -> NoDup (a ++ b).
Proof.
  intros Ha Hb D. induction Ha as [|x l Hx Ha IH]; cbn; [exact Hb|].
  constructor.
  - rewrite in_app_iff. intros [A|A]; [contradiction|]. apply (D x); [now left|exact A].
  - apply IH. intros y Hy. apply D. now right.
Qed.

Lemma nodup_app_l (a b : list N) : NoDup (a ++ b) -> NoDup a.
Proof. induction a as [|x a IH]; cbn; intros H; [constructor|]. inversion H; subst. constructor; [rewrite in_app_iff in *; tauto|auto]. Qed.
Lemma nodup_app_r (a b : list N) : NoDup (a ++ b) -> NoDup b.
Proof. induction a as [|x a IH]; cbn; intros H; [exact H|]. inversion H; subst. auto. Qed.
Lemma nodup_app_sep (a b : list N) x : NoDup (a ++ b) -> In x a -> In x b -> False.
Proof.
  induction a as [|y a IH]; cbn; intros H Ha Hb; [contradiction|]. inversion H; subst. destruct Ha as [->|Ha]; [|eauto].
  rewrite in_app_iff in *. tauto.
Qed.

Section LOGS.
  Variables (p : entries_prog) (sf tf cs ct : list string).
  Hypothesis Hok : entries_ok p sf tf cs ct = true.

  Let ok_parts : ep_flush_resets p = true
    /\ forallb (fun f => Nat.eqb (count_str f (map lop_field (ep_spl p))) 1) sf = true
    /\ forallb (fun f => Nat.eqb (count_str f (ep_ts p)) 1) tf = true
    /\ forallb (fun f => existsb (String.eqb f) sf) cs = true /\ forallb (fun f => existsb (String.eqb f) tf) ct = true.
  Proof. unfold entries_ok in Hok. repeat (apply andb_true_iff in Hok as [Hok ?]). tauto. Qed.

  Definition cl_inv (b : clbatch) : Prop :=
    exists ids_s ids_t, cl_spl b = const_fcols sf ids_s /\ cl_ts b = const_fcols tf ids_t
      /\ NoDup (ids_s ++ ids_t) /\ ids_below (cl_next b) (ids_s ++ ids_t).

  Lemma clbatch0_inv n : cl_inv (clbatch0 sf tf n).
  Proof. exists [], []. split; [reflexivity|split; [reflexivity|split; [constructor|intros x []]]]. Qed.

  Lemma on_entries_cells_inv b e b' sent : cl_inv b -> ent_consistent e = true ->
    on_entries_cells p sf tf b e = CLOk b' sent -> cl_inv b' /\ Forall cl_inv sent.
  Proof.
    destruct ok_parts as [Hf [Hs [Ht _]]].
    intros [s [t [Hb1 [Hb2 [Hd Hbl]]]]] Hc H. unfold on_entries_cells in H. cbv zeta in H.
    destruct (en_lbl_short e); [discriminate|].
    destruct (en_bad_type e || Nat.ltb (en_msg e) (en_ts e)); [discriminate|].
    rewrite (fold_spl_cells_consistent e _ _ _ Hc), Hb1, Hb2, (push_fields_const _ _ _ _ Hs), (push_fields_const _ _ _ _ Ht) in H.
    match type of H with context [(MiB <? cl_size ?x)%N] => set (b3 := x) in H end.
    assert (Hsp : (en_ts e <= ent_span e)%nat) by (unfold ent_span; lia).
    assert (Hb3 : cl_inv b3).
    { eexists. eexists. split; [reflexivity|]. split; [reflexivity|]. cbn [cl_next b3].
      set (A := ids_from (cl_next b) (en_ts e)). set (B := ids_from (cl_next b + N.of_nat (ent_span e))%N (en_series e)).
      assert (PA : forall x, In x A -> (cl_next b <= x < cl_next b + N.of_nat (ent_span e))%N).
      { intros x Hx. apply ids_from_below in Hx. lia. }
      assert (PB : forall x, In x B -> (cl_next b + N.of_nat (ent_span e) <= x < cl_next b + N.of_nat (ent_span e) + N.of_nat (en_series e))%N).
      { intros x Hx. now apply ids_from_below in Hx. }
      split.
      - (* (s ++ A) ++ (t ++ B) is a permutation-free rearrangement: prove NoDup directly *)
        apply nodup_app_disj.
        + apply nodup_app_disj; [exact (nodup_app_l _ _ Hd)|apply ids_from_nodup|].
          intros x Hx Hx'. specialize (PA x Hx'). assert (B1 : (x < cl_next b)%N) by (apply Hbl, in_app_iff; now left). lia.
        + apply nodup_app_disj; [exact (nodup_app_r _ _ Hd)|apply ids_from_nodup|].
          intros x Hx Hx'. specialize (PB x Hx'). assert (B1 : (x < cl_next b)%N) by (apply Hbl, in_app_iff; now right). lia.
        + intros x Hx Hx'. apply in_app_iff in Hx as [Hx|Hx]; apply in_app_iff in Hx' as [Hx'|Hx'].
          * exact (nodup_app_sep _ _ x Hd Hx Hx').
          * specialize (PB x Hx'). assert (B1 : (x < cl_next b)%N) by (apply Hbl, in_app_iff; now left). lia.
          * specialize (PA x Hx). assert (B1 : (x < cl_next b)%N) by (apply Hbl, in_app_iff; now right). lia.
          * specialize (PA x Hx). specialize (PB x Hx'). lia.
      - intros x Hx. apply in_app_iff in Hx as [Hx|Hx]; apply in_app_iff in Hx as [Hx|Hx].
        + assert (B1 : (x < cl_next b)%N) by (apply Hbl, in_app_iff; now left). lia.
        + specialize (PA x Hx). lia.
        + assert (B1 : (x < cl_next b)%N) by (apply Hbl, in_app_iff; now right). lia.
        + specialize (PB x Hx). lia. }
    destruct (MiB <? cl_size b3)%N; inversion H; subst; clear H.
    - rewrite Hf. split; [apply clbatch0_inv|]. constructor; [exact Hb3|constructor].
    - split; [exact Hb3|constructor].
  Qed.

  Lemma sent_clbatches_inv evs : forall b, cl_inv b -> events_consistent evs = true ->
    Forall cl_inv (sent_clbatches p sf tf b evs).
  Proof.
    induction evs as [|ev evs IH]; intros b Hb Hc; cbn [sent_clbatches].
    - constructor; [exact Hb|constructor].
    - cbn [events_consistent forallb] in Hc. apply andb_true_iff in Hc as [Hc1 Hc2].
      destruct ev as [e| |t]; [|constructor|constructor].
      destruct (on_entries_cells p sf tf b e) as [b' sent|] eqn:E; [|constructor].
      destruct (on_entries_cells_inv _ _ _ _ Hb Hc1 E) as [Hb' Hsent].
      apply Forall_app. split; [exact Hsent|apply IH; [exact Hb'|exact Hc2]].
  Qed.

  Hypothesis Hcs : cs = kind_fields KSamples.
  Hypothesis Hct : ct = kind_fields KSeries.
  Hypothesis Hmet : fields_cover sf KMetrics = true.

  Lemma logs_chunk_wf w b : samples_kind_ok (w_samples_kind w) = true -> cl_inv b -> item_wf (logs_chunk w b) = true.
  Proof.
    destruct ok_parts as [_ [_ [_ [A B]]]].
    assert (Cs : fields_cover sf KSamples = true) by (unfold fields_cover; now rewrite <- Hcs).
    assert (Ct : fields_cover tf KSeries = true) by (unfold fields_cover; now rewrite <- Hct).
    intros Hk [s [t [Hs [Ht _]]]]. cbn [item_wf logs_chunk forallb fst snd]. rewrite Hs, Ht.
    rewrite (wf_req_of_const _ _ _ Ct). cbn [andb].
    destruct (w_samples_kind w); try discriminate; [now rewrite (wf_req_of_const _ _ _ Cs)|now rewrite (wf_req_of_const _ _ _ Hmet)].
  Qed.

  Lemma logs_items_wf w evs : samples_kind_ok (w_samples_kind w) = true -> forall b, cl_inv b -> events_consistent evs = true ->
    forallb item_wf (logs_items p sf tf w b evs) = true.
  Proof.
    intros Hk. induction evs as [|ev evs IH]; intros b Hb Hc; cbn [logs_items].
    - cbn [forallb]. now rewrite (logs_chunk_wf w b Hk Hb).
    - cbn [events_consistent forallb] in Hc. apply andb_true_iff in Hc as [Hc1 Hc2].
      destruct ev as [e| |t]; [|reflexivity|reflexivity].
      destruct (on_entries_cells p sf tf b e) as [b' sent|] eqn:E; [|reflexivity].
      destruct (on_entries_cells_inv _ _ _ _ Hb Hc1 E) as [Hb' Hsent].
      rewrite forallb_app, (IH b' Hb' Hc2), andb_true_r. apply forallb_forall. intros x Hx.
      apply in_map_iff in Hx as [c [<- Hcx]]. rewrite Forall_forall in Hsent. apply (logs_chunk_wf w c Hk), Hsent, Hcx.
  Qed.
End LOGS.

(* ------------------------------------------------------------------------------------------ *)
(** * 5. onProfile: a request is a table exactly when it carries one row *)

Lemma prof_one_row first : prof_fcols first 1 = const_fcols (kind_fields KProfile) [first].
Proof.
  unfold prof_fcols, const_fcols. apply map_ext. intros f. unfold ids_from. cbn [seq map N.of_nat].
  rewrite N.add_0_r. destruct (prof_assigned f); reflexivity.
Qed.
Lemma prof_chunk_wf w first sz : item_wf (prof_chunk w first 1 sz) = true.
Proof.
  cbn [item_wf prof_chunk forallb fst snd]. rewrite prof_one_row, wf_req_of_const; [reflexivity|]. vm_compute. reflexivity.
Qed.
Lemma prof_items_wf w first t e : forallb item_wf (prof_items w first O [t] e) = true.
Proof.
  cbn [prof_items]. destruct (MiB <? 16 + 6 * N.of_nat 1 + t)%N.
  - cbn [forallb]. rewrite prof_chunk_wf. cbn [prof_items]. destruct e; reflexivity.
  - cbn [prof_items]. destruct e; cbn [forallb]; rewrite ?prof_chunk_wf; reflexivity.
Qed.
(* two profiles in one request are not a table: the five array columns get ONE element (the last profile's), the others two *)
Lemma two_profiles_are_not_a_table : wf_reqb KProfile (req_of KProfile (prof_fcols 0 2)) = false.
Proof. vm_compute. reflexivity. Qed.

(* ------------------------------------------------------------------------------------------ *)
(** * 6. End to end *)

Section BRIDGE.
  Variables (h : handler_prog) (sf af : list string) (p : entries_prog) (lf tf : list string).
  Hypothesis Hok : bridge_ok h sf af p lf tf = true.

  Lemma items_of_wf x : parsed_ok x = true -> forallb item_wf (items_of h sf af p lf tf x) = true.
  Proof.
    unfold bridge_ok in Hok. apply andb_true_iff in Hok as [Hok Hm]. apply andb_true_iff in Hok as [Hh He].
    destruct x as [w first evs|w first evs|w first t e]; cbn [parsed_ok items_of]; intros Hx.
    - apply (span_items_wf h sf af _ _ Hh eq_refl eq_refl). apply cbatch0_inv.
    - apply andb_true_iff in Hx as [Hc Hk].
      apply (logs_items_wf p lf tf _ _ He eq_refl eq_refl Hm w evs Hk); [apply clbatch0_inv|exact Hc].
    - apply prof_items_wf.
  Qed.

  (* the traces in which every arriving push is what the parser goroutine of some route sends for some stream of decoder
     events (the decoders keeping the equal-length contract of onEntries), and direct Request calls submit tables *)
  Definition act_parsed (a : gact) : Prop :=
    match a with
    | GEnvReq _ k _ r _ => wf_reqb k r = true
    | GNewHandler items => exists x, parsed_ok x = true /\ items = items_of h sf af p lf tf x
    | _ => True
    end.

  Lemma act_parsed_wf tr : Forall act_parsed tr -> forallb act_wf tr = true.
  Proof.
    intros H. apply forallb_forall. intros a Ha. rewrite Forall_forall in H. specialize (H a Ha).
    destruct a as [s a|s k n r sz|items|hh|hh i s|hh i|hh]; cbn [act_wf act_parsed] in *; try reflexivity; [exact H|].
    destruct H as [x [Hx ->]]. apply items_of_wf. exact Hx.
  Qed.

  Theorem parsed_pushes_good cfg n tr g es :
    Forall act_parsed tr -> grun (ginit cfg n) tr = Some (g, es) ->
    run_mon (smon_step MTable) (smon_init (List.length cfg)) es <> None
    /\ run_mon (smon_step MClean) (smon_init (List.length cfg)) es <> None.
  Proof.
    intros H R. pose proof (act_parsed_wf tr H) as W. split.
    - revert R. apply spec_sound_gen. now apply act_q_table.
    - revert R. apply spec_sound_gen. apply act_q_clean.
      apply forallb_forall. intros a Ha. rewrite forallb_forall in W. specialize (W a Ha).
      destruct a as [s a|s k n0 r sz|items|hh|hh i s|hh i|hh]; cbn [act_ok act_wf] in *; try reflexivity.
      + now apply IngestAck.wf_ok_req.
      + apply forallb_forall. intros it Hit. rewrite forallb_forall in W. specialize (W it Hit).
        destruct it as [c|]; cbn [item_ok item_wf] in *; [|reflexivity].
        apply forallb_forall. intros y Hy. rewrite forallb_forall in W. now apply IngestAck.wf_ok_req, W.
  Qed.

  (* ... and C01's acknowledgement monitor accepts them: success only with every cell in an accepted block *)
  Theorem parsed_pushes_ack cfg n tr g es :
    Forall act_parsed tr -> grun (ginit cfg n) tr = Some (g, es) ->
    run_mon (amon_step true) (amon_init (List.length cfg)) es <> None.
  Proof. intros H R. exact (ack_sound_gen _ _ _ _ _ _ (trace_wf_ok _ (act_parsed_wf tr H)) R). Qed.
End BRIDGE.

Lemma bridge_model_ok :
  bridge_ok on_span_cols_model spans_fields_model attrs_fields_model on_entries_cols_model spl_fields_model tsd_fields_model = true.
Proof. vm_compute. reflexivity. Qed.

(* ------------------------------------------------------------------------------------------ *)
(** * 7. Non-vacuity *)

(* a Zipkin push of two spans (the first with two attributes, the rows 100..103 drawn from the counter) and a Loki push of
   one stream with two entries that announces one series (rows 200, 201 and 202), through workers of all four kinds: the
   blocks handed to ClickHouse are the tables of those rows *)
Definition demo_wiring : wiring :=
  {| w_series := 2; w_samples := 3; w_samples_kind := KSamples; w_tags := 0; w_spans := 1; w_profile := 9 |}.
Definition demo_spans : parsed :=
  PSpans demo_wiring 100 [CvSpan {| se_tid := 16; se_sid := 8; se_keys := 2; se_vals := 2; se_bytes := 50 |};
                          CvSpan {| se_tid := 16; se_sid := 8; se_keys := 0; se_vals := 0; se_bytes := 60 |}].
Definition demo_logs : parsed :=
  PLogs demo_wiring 200 [LcEntries {| en_lbl_short := false; en_ts := 2; en_msg := 2; en_val := 2; en_types := 2; en_bad_type := false;
                                       en_series := 1; en_bytes := 80 |}].
Definition bridge_cfg : list (kind * nat * Z) := [(KTags, 0%nat, 0%Z); (KSpans, 1%nat, 0%Z); (KSeries, 2%nat, 0%Z); (KSamples, 3%nat, 0%Z)].
Definition flush (s : nat) : list gact := [GSvc s SPlan; GSvc s (SDial true); GSvc s SSwap; GSvc s SSend; GSvc s (SDoReturn true)].
Definition bridge_demo : list gact :=
  [GNewHandler (items_of_model demo_spans); GNewHandler (items_of_model demo_logs); GItem 0; GItem 1;
   GSubReq 0 0 0; GSubReq 0 1 1; GSubReq 1 0 2; GSubReq 1 1 3] ++ flush 0 ++ flush 1 ++ flush 2 ++ flush 3 ++
  [GSubGet 0 0; GSubGet 0 1; GSubGet 1 0; GSubGet 1 1; GAnswer 0; GAnswer 1].

Example parsed_demo :
  Forall (act_parsed on_span_cols_model spans_fields_model attrs_fields_model on_entries_cols_model spl_fields_model tsd_fields_model) bridge_demo /\
  exists g es, grun (ginit bridge_cfg 1) bridge_demo = Some (g, es) /\
    In (ESend 0 KTags (table_of 7 [101; 102]%N)) es /\ In (ESend 1 KSpans (table_of 9 [100; 103]%N)) es /\
    In (ESend 2 KSeries (table_of 4 [202]%N)) es /\ In (ESend 3 KSamples (table_of 5 [200; 201]%N)) es /\
    In (EAnswer 0 [(KTags, table_of 7 [101; 102]%N); (KSpans, table_of 9 [100; 103]%N)] true) es.
Proof.
  split.
  - unfold bridge_demo. repeat (apply Forall_cons || apply Forall_nil); cbn [act_parsed]; try exact I.
    + exists demo_spans. split; reflexivity.
    + exists demo_logs. split; reflexivity.
  - destruct (grun (ginit bridge_cfg 1) bridge_demo) as [[g es]|] eqn:E; [|vm_compute in E; discriminate].
    exists g, es. split; [reflexivity|]. vm_compute in E. inversion E; subst. clear E.
    repeat split; repeat (first [left; reflexivity|right]).
Qed.

(* the hypothesis on the decoders is needed: one message more than timestamps gives a samples request that is no table *)
Lemma unequal_slices_tear_the_request :
  forallb item_wf (items_of_model (PLogs demo_wiring 0 [LcEntries unequal_event])) = false.
Proof. vm_compute. reflexivity. Qed.
