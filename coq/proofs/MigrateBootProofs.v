(* C18 -- the bootstrap around Update (model/Migrate.v Section Boot: ctrl.Init = InitDB, then UpgradeAll -> upgradeDB ->
   Update).  Any sequence of process starts through the bootstrap is, for the database Update works on, a sequence
   of plain Update starts (those the bootstrap let through, under the outcomes left after the two bootstrap calls):
   so never-ahead, convergence and the no-op carry over to the real entry point. *)
From Coq Require Import List String NArith ZArith Bool Arith Lia.
From Qryn Require Import model.Migrate proofs.MigrateProofs.
Import ListNotations.
Open Scope nat_scope.

Section BootProofs.
  Variables (cat stmt : Type).
  Variable exec : stmt -> cat -> option cat.
  Variable pexec : list bool -> stmt -> cat -> cat.
  Variable scripts : stream -> list stmt.
  Notation init := (init cat stmt exec pexec scripts).
  Notation init_multi := (init_multi cat stmt exec pexec scripts).
  Notation update := (update cat stmt exec pexec scripts).
  Notation multi_run := (multi_run cat stmt exec pexec scripts).

  Lemma init_multi_is_multi_run bc : forall runs (d : bdb cat),
    bd_db (fst (init_multi bc runs d)) = fst (multi_run (b_cfg bc) (init_update_runs bc runs (bd_exists d)) (bd_db d)) /\
    snd (init_multi bc runs d) = snd (multi_run (b_cfg bc) (init_update_runs bc runs (bd_exists d)) (bd_db d)).
  Proof.
    induction runs as [|os rest IH]; intros d; cbn [Migrate.init_multi init_update_runs]; [cbn; auto|].
    unfold Migrate.init. destruct (b_default bc) eqn:Hd.
    - unfold boot_update. destruct (b_ttl0 bc) eqn:Ht.
      + cbn [br_db br_log app]. specialize (IH d).
        destruct (init_multi bc rest d) as [d' l]. cbn [fst snd] in *. exact IH.
      + cbn [br_db br_log app Migrate.multi_run].
        specialize (IH {| bd_exists := bd_exists d; bd_db := r_db (update (b_cfg bc) os (bd_db d)) |}). cbn [bd_exists bd_db] in IH.
        destruct (init_multi bc rest _) as [d' l]. cbn [fst snd] in *.
        destruct (multi_run (b_cfg bc) (init_update_runs bc rest (bd_exists d)) (r_db (update (b_cfg bc) os (bd_db d)))) as [d2 l2].
        cbn [fst snd] in *. destruct IH as [-> ->]. auto.
    - destruct (boot_create (o_hd os) (bd_exists d)) as [e1 rA] eqn:EA. cbn [fst].
      destruct (res_ok (boot_show (o_hd (tl os)) e1)) eqn:HB.
      + unfold boot_update. destruct (b_ttl0 bc) eqn:Ht; cbn [andb negb].
        * cbn [br_db br_log app]. specialize (IH {| bd_exists := e1; bd_db := bd_db d |}). cbn [bd_exists bd_db] in IH.
          destruct (init_multi bc rest _) as [d' l]. cbn [fst snd] in *. exact IH.
        * cbn [br_db br_log app Migrate.multi_run bd_exists bd_db].
          specialize (IH {| bd_exists := e1; bd_db := r_db (update (b_cfg bc) (tl (tl os)) (bd_db d)) |}). cbn [bd_exists bd_db] in IH.
          destruct (init_multi bc rest _) as [d' l]. cbn [fst snd] in *.
          destruct (multi_run (b_cfg bc) (init_update_runs bc rest e1) (r_db (update (b_cfg bc) (tl (tl os)) (bd_db d)))) as [d2 l2].
          cbn [fst snd] in *. destruct IH as [-> ->]. auto.
      + cbn [andb br_db br_log app]. specialize (IH {| bd_exists := e1; bd_db := bd_db d |}). cbn [bd_exists bd_db] in IH.
        destruct (init_multi bc rest _) as [d' l]. cbn [fst snd] in *. exact IH.
  Qed.

  (* a start without failures gets through the bootstrap: it is Update without failures *)
  Lemma init_clean bc (d : bdb cat) : b_ttl0 bc = false ->
    br_ok (init bc [] d) = r_ok (update (b_cfg bc) [] (bd_db d)) /\
    bd_db (br_db (init bc [] d)) = r_db (update (b_cfg bc) [] (bd_db d)) /\
    br_log (init bc [] d) = r_log (update (b_cfg bc) [] (bd_db d)) /\
    (b_default bc = false -> bd_exists (br_db (init bc [] d)) = true).
  Proof.
    intros Ht. unfold Migrate.init, boot_update. rewrite Ht. destruct (b_default bc); cbn; [|auto].
    split; [reflexivity|]. split; [reflexivity|]. split; [reflexivity|discriminate].
  Qed.

  (* a start under any failures: its Update part (if any) is an Update start *)
  Lemma init_log_is_update bc os (d : bdb cat) :
    (br_log (init bc os d) = [] /\ bd_db (br_db (init bc os d)) = bd_db d) \/
    exists os', br_log (init bc os d) = r_log (update (b_cfg bc) os' (bd_db d)) /\
                bd_db (br_db (init bc os d)) = r_db (update (b_cfg bc) os' (bd_db d)).
  Proof.
    unfold Migrate.init, boot_update. destruct (b_default bc).
    - destruct (b_ttl0 bc); cbn; [auto|right; eauto].
    - destruct (boot_create (o_hd os) (bd_exists d)) as [e1 rA].
      destruct (res_ok (boot_show (o_hd (tl os)) e1)); [|cbn; auto].
      destruct (b_ttl0 bc); cbn; [auto|right; eauto].
  Qed.

  (* version_never_ahead through the bootstrap: the monitor accepts the concatenated Update logs of any starts *)
  Theorem init_never_ahead bc runs c0 e :
    exists m, mon_run mst0 (snd (init_multi bc runs {| bd_exists := e; bd_db := db0 cat c0 |})) = Some m /\
              forall k, m_rec m k <= d_vers (bd_db (fst (init_multi bc runs {| bd_exists := e; bd_db := db0 cat c0 |}))) k /\
                        d_vers (bd_db (fst (init_multi bc runs {| bd_exists := e; bd_db := db0 cat c0 |}))) k <= m_app m k.
  Proof.
    destruct (init_multi_is_multi_run bc runs {| bd_exists := e; bd_db := db0 cat c0 |}) as [Hd Hl].
    cbn [bd_exists bd_db] in Hd, Hl. rewrite Hd, Hl. apply never_ahead.
  Qed.
End BootProofs.
